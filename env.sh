# sourced by setup.sh and check
export GOFLAGS=-mod=mod GOPROXY=off GOSUMDB=off GOTOOLCHAIN=local
export GOCACHE=/verif/.cache/go-build
export VERIF_ROOT=/verif
export VERIF_OVERLAY=/verif/.cache/overlay/overlay.json
