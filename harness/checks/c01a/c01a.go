// Package c01a is stage 1 of property C01 ("pod exposure never exceeds what the current step allows"):
// the exhaustive small-scope enumeration of the ARITHMETIC of the BatchRelease control planes.
//
// For every workload kind / rolling style and every replica count of the tier it drives the REAL
// partitionstyle / canarystyle / bluegreenstyle control planes (Initialize, UpgradeBatch) against a
// controller-runtime fake store and enumerates short histories (single step, next step, scale mid-release,
// plan edit) over every percentage 1%..100% and a dense set of integer step values. After every call the
// number of new-revision pods the written knob allows (computed with the workload controller's own rule) is
// compared with the planned count of the current batch.
package c01a

import (
	"encoding/json"
	"fmt"
	"math"
	"os"
	"runtime/debug"
	"sort"
	"strconv"
	"strings"

	kruiseappsv1alpha1 "github.com/openkruise/kruise-api/apps/v1alpha1"
	kruiseappsv1beta1 "github.com/openkruise/kruise-api/apps/v1beta1"
	rolloutsv1alpha1 "github.com/openkruise/rollouts/api/v1alpha1"
	"github.com/openkruise/rollouts/api/v1beta1"
	"github.com/openkruise/rollouts/pkg/controller/batchrelease/control/bluegreenstyle"
	bgcloneset "github.com/openkruise/rollouts/pkg/controller/batchrelease/control/bluegreenstyle/cloneset"
	bgdeployment "github.com/openkruise/rollouts/pkg/controller/batchrelease/control/bluegreenstyle/deployment"
	"github.com/openkruise/rollouts/pkg/controller/batchrelease/control/canarystyle"
	canarydeployment "github.com/openkruise/rollouts/pkg/controller/batchrelease/control/canarystyle/deployment"
	"github.com/openkruise/rollouts/pkg/controller/batchrelease/control/partitionstyle"
	pcloneset "github.com/openkruise/rollouts/pkg/controller/batchrelease/control/partitionstyle/cloneset"
	pdaemonset "github.com/openkruise/rollouts/pkg/controller/batchrelease/control/partitionstyle/daemonset"
	pdeployment "github.com/openkruise/rollouts/pkg/controller/batchrelease/control/partitionstyle/deployment"
	pstatefulset "github.com/openkruise/rollouts/pkg/controller/batchrelease/control/partitionstyle/statefulset"
	deployutil "github.com/openkruise/rollouts/pkg/controller/deployment/util"
	"github.com/openkruise/rollouts/pkg/util"
	expectations "github.com/openkruise/rollouts/pkg/util/expectation"
	apps "k8s.io/api/apps/v1"
	corev1 "k8s.io/api/core/v1"
	metav1 "k8s.io/apimachinery/pkg/apis/meta/v1"
	"k8s.io/apimachinery/pkg/runtime"
	"k8s.io/apimachinery/pkg/runtime/schema"
	"k8s.io/apimachinery/pkg/runtime/serializer"
	"k8s.io/apimachinery/pkg/types"
	"k8s.io/apimachinery/pkg/util/intstr"
	clientgoscheme "k8s.io/client-go/kubernetes/scheme"
	k8stesting "k8s.io/client-go/testing"
	"k8s.io/client-go/tools/record"
	"k8s.io/utils/pointer"
	"sigs.k8s.io/controller-runtime/pkg/client"
	"sigs.k8s.io/controller-runtime/pkg/client/fake"

	"verifharness/lib"
)

// ---------------------------------------------------------------------------------------------
// kinds
// ---------------------------------------------------------------------------------------------

type kindSpec struct {
	Name  string // signature component "<kind>-<style>"
	Style v1beta1.RollingStyleType
	GVK   schema.GroupVersionKind
	GVR   schema.GroupVersionResource
}

var depGVR = apps.SchemeGroupVersion.WithResource("deployments")

var kinds = []*kindSpec{
	{"cloneset-partition", v1beta1.PartitionRollingStyle, kruiseappsv1alpha1.SchemeGroupVersion.WithKind("CloneSet"), kruiseappsv1alpha1.SchemeGroupVersion.WithResource("clonesets")},
	{"statefulset-partition", v1beta1.PartitionRollingStyle, apps.SchemeGroupVersion.WithKind("StatefulSet"), apps.SchemeGroupVersion.WithResource("statefulsets")},
	{"advstatefulset-partition", v1beta1.PartitionRollingStyle, kruiseappsv1beta1.SchemeGroupVersion.WithKind("StatefulSet"), kruiseappsv1beta1.SchemeGroupVersion.WithResource("statefulsets")},
	{"daemonset-partition", v1beta1.PartitionRollingStyle, kruiseappsv1alpha1.SchemeGroupVersion.WithKind("DaemonSet"), kruiseappsv1alpha1.SchemeGroupVersion.WithResource("daemonsets")},
	{"deployment-partition", v1beta1.PartitionRollingStyle, apps.SchemeGroupVersion.WithKind("Deployment"), depGVR},
	{"deployment-canary", v1beta1.CanaryRollingStyle, apps.SchemeGroupVersion.WithKind("Deployment"), depGVR},
	{"cloneset-bluegreen", v1beta1.BlueGreenRollingStyle, kruiseappsv1alpha1.SchemeGroupVersion.WithKind("CloneSet"), kruiseappsv1alpha1.SchemeGroupVersion.WithResource("clonesets")},
	{"deployment-bluegreen", v1beta1.BlueGreenRollingStyle, apps.SchemeGroupVersion.WithKind("Deployment"), depGVR},
}

func kindByName(n string) *kindSpec {
	for _, k := range kinds {
		if k.Name == n {
			return k
		}
	}
	return nil
}

var (
	scheme = runtime.NewScheme()
	codecs serializer.CodecFactory
)

func init() {
	_ = clientgoscheme.AddToScheme(scheme)
	_ = kruiseappsv1alpha1.AddToScheme(scheme)
	_ = kruiseappsv1beta1.AddToScheme(scheme)
	_ = rolloutsv1alpha1.AddToScheme(scheme)
	_ = v1beta1.AddToScheme(scheme)
	codecs = serializer.NewCodecFactory(scheme)
}

const (
	appName = "app"
	relName = "rel"
	newRev  = "rev-new"
	oldRev  = "rev-old"
)

// ---------------------------------------------------------------------------------------------
// history representation (also the replay format)
// ---------------------------------------------------------------------------------------------

// Op is one step of a history.
//
//	init      real ControlPlane.Initialize (repeated while it asks for a retry), status recorded as the executor does
//	upgrade   real ControlPlane.UpgradeBatch on the current batch
//	progress  workload controller emulation: status (updatedReplicas ...) catches up with what the knob allows
//	scale     user scales the workload to To; the executor observes it (restart of the current batch)
//	next      current batch reported ready, Rollout raises batchPartition, executor moves to the next batch
//	plan      Rollout replaces spec.releasePlan.batches (same batch index); executor recalculates
type Op struct {
	Op      string   `json:"op"`
	To      int      `json:"to,omitempty"`
	Batches []string `json:"batches,omitempty"`
}

// History is one enumerated case.
type History struct {
	Kind     string   `json:"kind"`
	Replicas int      `json:"replicas"`
	Plan     []string `json:"plan"`
	Ops      []Op     `json:"ops"`
}

func parseVal(s string) intstr.IntOrString {
	if strings.HasSuffix(s, "%") {
		return intstr.FromString(s)
	}
	n, _ := strconv.Atoi(s)
	return intstr.FromInt(n)
}

func isPct(s string) bool { return strings.HasSuffix(s, "%") }

func batchesOf(vals []string) []v1beta1.ReleaseBatch {
	out := make([]v1beta1.ReleaseBatch, len(vals))
	for i, v := range vals {
		out[i] = v1beta1.ReleaseBatch{CanaryReplicas: parseVal(v)}
	}
	return out
}

// ---------------------------------------------------------------------------------------------
// reference oracle
// ---------------------------------------------------------------------------------------------

// plannedRef is the reference reading of "replicas configured for the step": an integer is taken as is, a
// percentage is scaled against the CURRENT workload size and rounded up; both clamped to [0, size].
// (Same definition as control.CalculateBatchReplicas, written independently.)
func plannedRef(v intstr.IntOrString, size int) int {
	n := 0
	if v.Type == intstr.Int {
		n = int(v.IntVal)
	} else {
		p, _ := strconv.Atoi(strings.TrimSuffix(v.StrVal, "%"))
		n = (p*size + 99) / 100
	}
	if n > size {
		n = size
	}
	if n < 0 {
		n = 0
	}
	return n
}

// plannedOnKnob is what the step means on the knob of this kind. It differs from plannedRef only for the
// advanced Deployment: its controller (NewRSReplicasLimit) never lets a percentage below 100% cover every pod.
// Used only to decide whether a plan was LOWERED (moved-back is then not judged); 'exceeds' uses plannedRef.
func plannedOnKnob(kind string, v intstr.IntOrString, size int) int {
	n := plannedRef(v, size)
	if kind == "deployment-partition" && v.Type == intstr.String && v.StrVal != "100%" && size > 1 && n > size-1 {
		n = size - 1
	}
	return n
}

// exceeds is the slack rule of the property: "percent-rounding slack of at most 1% of the workload size".
func exceeds(exposure, planned, size int) bool {
	return float64(exposure-planned) > 0.01*float64(size)
}

func ceilScaled(p *intstr.IntOrString, total int, nilVal int) int {
	if p == nil {
		return nilVal
	}
	v, _ := intstr.GetScaledValueFromIntOrPercent(p, total, true)
	if v < 0 {
		v = 0
	}
	return v
}

func clamp(v, lo, hi int) int {
	if v > hi {
		v = hi
	}
	if v < lo {
		v = lo
	}
	return v
}

// ---------------------------------------------------------------------------------------------
// world: one workload in a fake store + the BatchRelease whose status the check advances itself
// ---------------------------------------------------------------------------------------------

type world struct {
	k   *kindSpec
	ns  string
	tr  k8stesting.ObjectTracker
	cli client.Client
	rec record.EventRecorder

	rel      *v1beta1.BatchRelease
	size     int    // current workload size
	canary   string // name of the canary Deployment (canary style), once created
	pre      runtime.Object
	calls    int    // UpgradeBatch calls so far
	stage    int    // number of "next" ops
	event    string // last user event since the previous UpgradeBatch call ("", scale-up, scale-down, edit-*)
	wrote    bool   // any knob write in this history
	initDone bool
	prevVal  *intstr.IntOrString // step value in force at the previous UpgradeBatch call
	prevOver bool                // the exposure already exceeded the plan (+slack) after the previous call
}

type snapshot struct {
	objs   []runtime.Object // workload, canary deployment (may be nil)
	status v1beta1.BatchReleaseStatus
	plan   []v1beta1.ReleaseBatch
	bp     int32
	size   int
	canary string
	calls  int
	stage  int
	event  string
	wrote  bool
	prev   *intstr.IntOrString
	over   bool
}

func podTemplate() corev1.PodTemplateSpec {
	return corev1.PodTemplateSpec{
		ObjectMeta: metav1.ObjectMeta{Labels: map[string]string{"app": appName}},
		Spec:       corev1.PodSpec{Containers: []corev1.Container{{Name: "main", Image: "img:v2"}}},
	}
}

func progressingAnno() map[string]string {
	return map[string]string{util.InRolloutProgressingAnnotation: `{"rolloutName":"ro"}`}
}

// buildWorkload returns the workload as the workload webhook leaves it when a release starts (paused /
// partition closed), with a status saying: all pods on the old revision, generation observed.
func buildWorkload(k *kindSpec, ns string, size int) client.Object {
	r := int32(size)
	om := metav1.ObjectMeta{Name: appName, Namespace: ns, UID: types.UID("wl-uid"), Generation: 1, Annotations: progressingAnno(), Labels: map[string]string{}}
	sel := &metav1.LabelSelector{MatchLabels: map[string]string{"app": appName}}
	switch k.GVK.Kind + "/" + k.GVK.Group {
	case "CloneSet/apps.kruise.io":
		p := intstr.FromString("100%")
		return &kruiseappsv1alpha1.CloneSet{
			TypeMeta:   metav1.TypeMeta{APIVersion: k.GVK.GroupVersion().String(), Kind: k.GVK.Kind},
			ObjectMeta: om,
			Spec: kruiseappsv1alpha1.CloneSetSpec{Replicas: &r, Selector: sel, Template: podTemplate(),
				UpdateStrategy: kruiseappsv1alpha1.CloneSetUpdateStrategy{Partition: &p}},
			Status: kruiseappsv1alpha1.CloneSetStatus{ObservedGeneration: 1, Replicas: r, ReadyReplicas: r, AvailableReplicas: r,
				UpdateRevision: newRev, CurrentRevision: oldRev},
		}
	case "StatefulSet/apps":
		return &apps.StatefulSet{
			TypeMeta:   metav1.TypeMeta{APIVersion: "apps/v1", Kind: "StatefulSet"},
			ObjectMeta: om,
			Spec: apps.StatefulSetSpec{Replicas: &r, Selector: sel, Template: podTemplate(),
				UpdateStrategy: apps.StatefulSetUpdateStrategy{Type: apps.RollingUpdateStatefulSetStrategyType,
					RollingUpdate: &apps.RollingUpdateStatefulSetStrategy{Partition: pointer.Int32(32767)}}},
			Status: apps.StatefulSetStatus{ObservedGeneration: 1, Replicas: r, ReadyReplicas: r, AvailableReplicas: r, CurrentReplicas: r,
				UpdateRevision: newRev, CurrentRevision: oldRev},
		}
	case "StatefulSet/apps.kruise.io":
		return &kruiseappsv1beta1.StatefulSet{
			TypeMeta:   metav1.TypeMeta{APIVersion: k.GVK.GroupVersion().String(), Kind: k.GVK.Kind},
			ObjectMeta: om,
			Spec: kruiseappsv1beta1.StatefulSetSpec{Replicas: &r, Selector: sel, Template: podTemplate(),
				UpdateStrategy: kruiseappsv1beta1.StatefulSetUpdateStrategy{Type: apps.RollingUpdateStatefulSetStrategyType,
					RollingUpdate: &kruiseappsv1beta1.RollingUpdateStatefulSetStrategy{Partition: pointer.Int32(32767)}}},
			Status: kruiseappsv1beta1.StatefulSetStatus{ObservedGeneration: 1, Replicas: r, ReadyReplicas: r, AvailableReplicas: r, CurrentReplicas: r,
				UpdateRevision: newRev, CurrentRevision: oldRev},
		}
	case "DaemonSet/apps.kruise.io":
		return &kruiseappsv1alpha1.DaemonSet{
			TypeMeta:   metav1.TypeMeta{APIVersion: k.GVK.GroupVersion().String(), Kind: k.GVK.Kind},
			ObjectMeta: om,
			Spec: kruiseappsv1alpha1.DaemonSetSpec{Selector: sel, Template: podTemplate(),
				UpdateStrategy: kruiseappsv1alpha1.DaemonSetUpdateStrategy{Type: kruiseappsv1alpha1.RollingUpdateDaemonSetStrategyType,
					RollingUpdate: &kruiseappsv1alpha1.RollingUpdateDaemonSet{Partition: pointer.Int32(32767)}}},
			Status: kruiseappsv1alpha1.DaemonSetStatus{ObservedGeneration: 1, DesiredNumberScheduled: r, CurrentNumberScheduled: r, NumberReady: r,
				NumberAvailable: r, DaemonSetHash: newRev},
		}
	case "Deployment/apps":
		ms, mu := intstr.FromString("25%"), intstr.FromString("25%")
		om.Labels[rolloutsv1alpha1.DeploymentStableRevisionLabel] = "stablehash"
		return &apps.Deployment{
			TypeMeta:   metav1.TypeMeta{APIVersion: "apps/v1", Kind: "Deployment"},
			ObjectMeta: om,
			Spec: apps.DeploymentSpec{Replicas: &r, Selector: sel, Template: podTemplate(), Paused: true,
				ProgressDeadlineSeconds: pointer.Int32(600),
				Strategy: apps.DeploymentStrategy{Type: apps.RollingUpdateDeploymentStrategyType,
					RollingUpdate: &apps.RollingUpdateDeployment{MaxSurge: &ms, MaxUnavailable: &mu}}},
			Status: apps.DeploymentStatus{ObservedGeneration: 1, Replicas: r, ReadyReplicas: r, AvailableReplicas: r},
		}
	}
	panic("unknown kind " + k.Name)
}

func newWorld(k *kindSpec, ns string, size int) *world {
	w := &world{k: k, ns: ns, size: size, rec: &record.FakeRecorder{}}
	w.tr = k8stesting.NewObjectTracker(scheme, codecs.UniversalDecoder())
	w.cli = fake.NewClientBuilder().WithScheme(scheme).WithObjectTracker(w.tr).Build()
	obj := buildWorkload(k, ns, size)
	obj.SetResourceVersion("1")
	if err := w.tr.Add(obj); err != nil {
		panic(fmt.Sprintf("c01a: cannot add workload: %v", err))
	}
	w.pre = w.mustGet(k.GVR, appName)
	w.rel = &v1beta1.BatchRelease{
		TypeMeta:   metav1.TypeMeta{APIVersion: v1beta1.GroupVersion.String(), Kind: "BatchRelease"},
		ObjectMeta: metav1.ObjectMeta{Name: relName, Namespace: ns, UID: types.UID("rel-uid"), Generation: 1},
		Spec: v1beta1.BatchReleaseSpec{
			WorkloadRef: v1beta1.ObjectRef{APIVersion: k.GVK.GroupVersion().String(), Kind: k.GVK.Kind, Name: appName},
			ReleasePlan: v1beta1.ReleasePlan{RollingStyle: k.Style, BatchPartition: pointer.Int32(0)},
		},
	}
	return w
}

func (w *world) mustGet(gvr schema.GroupVersionResource, name string) runtime.Object {
	o, err := w.tr.Get(gvr, w.ns, name)
	if err != nil {
		panic(fmt.Sprintf("c01a: %s %s vanished: %v", gvr.Resource, name, err))
	}
	return o
}

func (w *world) put(gvr schema.GroupVersionResource, o runtime.Object) {
	if err := w.tr.Update(gvr, o, w.ns); err != nil {
		panic(fmt.Sprintf("c01a: tracker update %s: %v", gvr.Resource, err))
	}
}

// reset brings the world back to "workload admitted, nothing initialised" with the given plan.
func (w *world) reset(size int, plan []string) {
	if w.canary != "" {
		_ = w.tr.Delete(depGVR, w.ns, w.canary)
		w.canary = ""
	}
	w.put(w.k.GVR, w.pre.DeepCopyObject())
	w.size = size
	w.rel.Spec.ReleasePlan.Batches = batchesOf(plan)
	w.rel.Spec.ReleasePlan.BatchPartition = pointer.Int32(0)
	w.rel.Status = v1beta1.BatchReleaseStatus{}
	w.calls, w.stage, w.event, w.wrote, w.initDone, w.prevVal, w.prevOver = 0, 0, "", false, false, nil, false
	expectations.ResourceExpectations.DeleteExpectations(w.ns + "/" + relName)
}

func (w *world) snap() *snapshot {
	s := &snapshot{status: *w.rel.Status.DeepCopy(), plan: append([]v1beta1.ReleaseBatch(nil), w.rel.Spec.ReleasePlan.Batches...),
		bp: *w.rel.Spec.ReleasePlan.BatchPartition, size: w.size, canary: w.canary, calls: w.calls, stage: w.stage, event: w.event, wrote: w.wrote, prev: w.prevVal, over: w.prevOver}
	s.objs = append(s.objs, w.mustGet(w.k.GVR, appName))
	if w.canary != "" {
		s.objs = append(s.objs, w.mustGet(depGVR, w.canary))
	}
	return s
}

func (w *world) restore(s *snapshot) {
	w.put(w.k.GVR, s.objs[0].DeepCopyObject())
	if len(s.objs) > 1 {
		w.put(depGVR, s.objs[1].DeepCopyObject())
	}
	w.rel.Status = *s.status.DeepCopy()
	w.rel.Spec.ReleasePlan.Batches = append([]v1beta1.ReleaseBatch(nil), s.plan...)
	w.rel.Spec.ReleasePlan.BatchPartition = pointer.Int32(s.bp)
	w.size, w.canary, w.calls, w.stage, w.event, w.wrote, w.prevVal, w.prevOver = s.size, s.canary, s.calls, s.stage, s.event, s.wrote, s.prev, s.over
}

type controlPlane interface {
	Initialize() error
	UpgradeBatch() error
}

// plane builds the control plane exactly as Executor.getReleaseController does (a fresh one per reconcile).
func (w *world) plane(newStatus *v1beta1.BatchReleaseStatus) controlPlane {
	key := types.NamespacedName{Namespace: w.ns, Name: appName}
	switch w.k.Name {
	case "cloneset-partition":
		return partitionstyle.NewControlPlane(pcloneset.NewController, w.cli, w.rec, w.rel, newStatus, key, w.k.GVK)
	case "statefulset-partition", "advstatefulset-partition":
		return partitionstyle.NewControlPlane(pstatefulset.NewController, w.cli, w.rec, w.rel, newStatus, key, w.k.GVK)
	case "daemonset-partition":
		return partitionstyle.NewControlPlane(pdaemonset.NewController, w.cli, w.rec, w.rel, newStatus, key, w.k.GVK)
	case "deployment-partition":
		return partitionstyle.NewControlPlane(pdeployment.NewController, w.cli, w.rec, w.rel, newStatus, key, w.k.GVK)
	case "deployment-canary":
		return canarystyle.NewControlPlane(canarydeployment.NewController, w.cli, w.rec, w.rel, newStatus, key)
	case "cloneset-bluegreen":
		return bluegreenstyle.NewControlPlane(bgcloneset.NewController, w.cli, w.rec, w.rel, newStatus, key, w.k.GVK)
	case "deployment-bluegreen":
		return bluegreenstyle.NewControlPlane(bgdeployment.NewController, w.cli, w.rec, w.rel, newStatus, key, w.k.GVK)
	}
	panic("unknown kind " + w.k.Name)
}

// knob reads the stored workload and returns the exposure its update knob allows (the workload controller's
// own rule) and a text rendering of the knob. rv is the resourceVersion trail used to detect writes.
func (w *world) knob() (exposure int, text string, rv string) {
	obj := w.mustGet(w.k.GVR, appName)
	switch o := obj.(type) {
	case *kruiseappsv1alpha1.CloneSet:
		r := int(*o.Spec.Replicas)
		rv = o.ResourceVersion
		part := ceilScaled(o.Spec.UpdateStrategy.Partition, r, 0)
		e := r - clamp(part, 0, r)
		ptxt := "<nil>"
		if o.Spec.UpdateStrategy.Partition != nil {
			ptxt = o.Spec.UpdateStrategy.Partition.String()
		}
		text = "partition=" + ptxt
		if w.k.Style == v1beta1.BlueGreenRollingStyle {
			// Recreate-type CloneSet with maxUnavailable=0 / minReadySeconds=max: only surge pods are new
			ms := ceilScaled(o.Spec.UpdateStrategy.MaxSurge, r, 0)
			stxt := "<nil>"
			if o.Spec.UpdateStrategy.MaxSurge != nil {
				stxt = o.Spec.UpdateStrategy.MaxSurge.String()
			}
			text += " maxSurge=" + stxt
			if ms < e {
				e = ms
			}
		}
		if o.Spec.UpdateStrategy.Paused {
			e, text = 0, text+" paused"
		}
		return e, text, rv
	case *apps.StatefulSet:
		r := int(*o.Spec.Replicas)
		p := 0
		if o.Spec.UpdateStrategy.RollingUpdate != nil && o.Spec.UpdateStrategy.RollingUpdate.Partition != nil {
			p = int(*o.Spec.UpdateStrategy.RollingUpdate.Partition)
		}
		return clamp(r-p, 0, r), fmt.Sprintf("partition=%d", p), o.ResourceVersion
	case *kruiseappsv1beta1.StatefulSet:
		r := int(*o.Spec.Replicas)
		p, paused := 0, false
		if ru := o.Spec.UpdateStrategy.RollingUpdate; ru != nil {
			if ru.Partition != nil {
				p = int(*ru.Partition)
			}
			paused = ru.Paused
		}
		if paused {
			return 0, fmt.Sprintf("partition=%d paused", p), o.ResourceVersion
		}
		return clamp(r-p, 0, r), fmt.Sprintf("partition=%d", p), o.ResourceVersion
	case *kruiseappsv1alpha1.DaemonSet:
		r := int(o.Status.DesiredNumberScheduled)
		p, paused := 0, false
		if ru := o.Spec.UpdateStrategy.RollingUpdate; ru != nil {
			if ru.Partition != nil {
				p = int(*ru.Partition)
			}
			paused = ru.Paused != nil && *ru.Paused
		}
		if paused {
			return 0, fmt.Sprintf("partition=%d paused", p), o.ResourceVersion
		}
		return clamp(r-p, 0, r), fmt.Sprintf("partition=%d", p), o.ResourceVersion
	case *apps.Deployment:
		r := int(*o.Spec.Replicas)
		rv = o.ResourceVersion
		switch w.k.Style {
		case v1beta1.PartitionRollingStyle:
			if _, ok := o.Annotations[rolloutsv1alpha1.DeploymentStrategyAnnotation]; !ok {
				if o.Spec.Paused {
					return 0, "paused, no strategy annotation", rv
				}
				return r, "not paused, no strategy annotation", rv
			}
			st := util.GetDeploymentStrategy(o)
			if st.Paused {
				return 0, "strategy paused", rv
			}
			return int(deployutil.NewRSReplicasLimit(st.Partition, o)), "strategy.partition=" + st.Partition.String(), rv
		case v1beta1.CanaryRollingStyle:
			if !o.Spec.Paused {
				return r, "stable Deployment not paused", rv
			}
			if w.canary == "" {
				return 0, "no canary Deployment", rv
			}
			c := w.mustGet(depGVR, w.canary).(*apps.Deployment)
			return int(*c.Spec.Replicas), fmt.Sprintf("canary.replicas=%d", *c.Spec.Replicas), rv + "/" + c.ResourceVersion
		case v1beta1.BlueGreenRollingStyle:
			stxt := "<nil>"
			ms := r
			if ru := o.Spec.Strategy.RollingUpdate; ru != nil && ru.MaxSurge != nil {
				stxt = ru.MaxSurge.String()
				ms = ceilScaled(ru.MaxSurge, r, r)
			}
			if o.Spec.Paused {
				return 0, "maxSurge=" + stxt + " paused", rv
			}
			// the new ReplicaSet never grows beyond spec.replicas
			return clamp(ms, 0, r), "maxSurge=" + stxt, rv
		}
	}
	panic("knob: unknown object")
}

// ---------------------------------------------------------------------------------------------
// operations
// ---------------------------------------------------------------------------------------------

type verdict struct {
	Sig    string
	Detail string
}

type callInfo struct {
	Call       string `json:"call"`
	Batch      int    `json:"batch"`
	Value      string `json:"value"`
	Size       int    `json:"size"`
	Before     int    `json:"exposure_before"`
	After      int    `json:"exposure_after"`
	Planned    int    `json:"planned"`
	PlannedK   int    `json:"planned_on_knob"`
	KnobBefore string `json:"knob_before"`
	KnobAfter  string `json:"knob_after"`
	Wrote      bool   `json:"wrote"`
	Err        string `json:"err,omitempty"`
	Class      string `json:"class"`
	Outcome    string `json:"outcome"`
}

func (w *world) class() string {
	c := "H1"
	if w.stage > 0 {
		c = "H2"
	}
	if w.event != "" {
		c += "." + w.event
	}
	return c
}

func valueClass(v intstr.IntOrString) string {
	if v.Type == intstr.String {
		return "percent"
	}
	return "int"
}

// doInit runs the real Initialize until it stops asking for a retry (the canary style creates the canary
// Deployment and returns an error once), then records the status as executeBatchReleasePlan does.
func (w *world) doInit() (callInfo, []verdict) {
	before, kb, rv0 := w.knob()
	newStatus := w.rel.Status.DeepCopy()
	// getInitializedStatus / resetStatus
	newStatus.Phase = v1beta1.RolloutPhasePreparing
	newStatus.ObservedWorkloadReplicas = -1
	var err error
	var pn *lib.Panic
	for try := 0; try < 3; try++ {
		pn = lib.Catch(func() { err = w.plane(newStatus).Initialize() })
		if pn != nil || err == nil {
			break
		}
		if w.k.Style == v1beta1.CanaryRollingStyle {
			// the informer observes the creation of the canary Deployment
			expectations.ResourceExpectations.DeleteExpectations(w.ns + "/" + relName)
			w.findCanary()
		}
	}
	if w.k.Style == v1beta1.CanaryRollingStyle {
		w.findCanary()
	}
	after, ka, rv1 := w.knob()
	ci := callInfo{Call: "Initialize", Batch: 0, Size: w.size, Before: before, After: after, KnobBefore: kb, KnobAfter: ka, Wrote: rv0 != rv1, Class: "init"}
	cur := w.rel.Spec.ReleasePlan.Batches[0].CanaryReplicas
	ci.Value = cur.String()
	ci.Planned = plannedRef(cur, w.size)
	ci.PlannedK = plannedOnKnob(w.k.Name, cur, w.size)
	var vs []verdict
	if pn != nil {
		ci.Err = "panic: " + pn.Value
		vs = append(vs, verdict{"C01/arith/panic/" + pn.Site, fmt.Sprintf("Initialize panicked: %s\n%s", pn.Value, pn.Stack)})
		ci.Outcome = "panic"
		return ci, vs
	}
	if err != nil {
		ci.Err = err.Error()
		ci.Outcome = "init-error"
		return ci, vs
	}
	newStatus.Phase = v1beta1.RolloutPhaseProgressing
	newStatus.CanaryStatus.CurrentBatch = 0
	newStatus.CanaryStatus.CurrentBatchState = v1beta1.UpgradingBatchState
	newStatus.ObservedReleasePlanHash = util.HashReleasePlanBatches(&w.rel.Spec.ReleasePlan)
	w.rel.Status = *newStatus
	w.initDone = true
	ci.Outcome = "init-knob-closed"
	if after > before {
		ci.Outcome = "init-raised"
		if exceeds(after, ci.Planned, w.size) {
			vs = append(vs, verdict{"C01/arith/exceeds/" + w.k.Name + "/init/" + valueClass(cur),
				fmt.Sprintf("Initialize opened the knob (%s): %d new-revision pods allowed on a %d-replica workload before any batch was upgraded, batch 0 (%s) plans %d", ka, after, w.size, cur.String(), ci.Planned)})
		}
	}
	return ci, vs
}

func (w *world) findCanary() {
	l, err := w.tr.List(depGVR, apps.SchemeGroupVersion.WithKind("Deployment"), w.ns)
	if err != nil {
		return
	}
	dl, ok := l.(*apps.DeploymentList)
	if !ok {
		return
	}
	names := []string{}
	for i := range dl.Items {
		if dl.Items[i].Labels[util.CanaryDeploymentLabel] == appName {
			names = append(names, dl.Items[i].Name)
		}
	}
	sort.Strings(names)
	if len(names) > 0 {
		w.canary = names[0]
	}
}

// doUpgrade runs the real UpgradeBatch for the current batch and judges the call.
func (w *world) doUpgrade() (callInfo, []verdict) {
	before, kb, rv0 := w.knob()
	newStatus := w.rel.Status.DeepCopy()
	var err error
	pn := lib.Catch(func() { err = w.plane(newStatus).UpgradeBatch() })
	after, ka, rv1 := w.knob()
	batch := int(w.rel.Status.CanaryStatus.CurrentBatch)
	cur := w.rel.Spec.ReleasePlan.Batches[batch].CanaryReplicas
	class := w.class()
	ci := callInfo{Call: "UpgradeBatch", Batch: batch, Value: cur.String(), Size: w.size, Before: before, After: after,
		Planned: plannedRef(cur, w.size), KnobBefore: kb, KnobAfter: ka, Wrote: rv0 != rv1, Class: class}
	first := w.calls == 0
	scaleDown := w.event == "scale-down"
	// the plan is "lowered" when the value now in force means fewer pods (on this knob, at the current size)
	// than the value that was in force at the previous call (next batch of a mixed plan, or a plan edit)
	pk := plannedOnKnob(w.k.Name, cur, w.size)
	ci.PlannedK = pk
	lowered := w.prevVal != nil && pk < plannedOnKnob(w.k.Name, *w.prevVal, w.size)
	w.calls++
	w.event = ""
	pv := cur
	w.prevVal = &pv
	if ci.Wrote {
		w.wrote = true
	}
	var vs []verdict
	if pn != nil {
		ci.Err = "panic: " + pn.Value
		ci.Outcome = "panic"
		vs = append(vs, verdict{"C01/arith/panic/" + pn.Site, fmt.Sprintf("UpgradeBatch panicked: %s\n%s", pn.Value, pn.Stack)})
		return ci, vs
	}
	if err != nil {
		ci.Err = err.Error()
	} else {
		// executor: UpgradingBatchState -> VerifyingBatchState; the status it persists is newStatus
		newStatus.CanaryStatus.CurrentBatchState = v1beta1.VerifyingBatchState
		w.rel.Status = *newStatus
	}
	over := exceeds(after, ci.Planned, w.size)
	wasOver := w.prevOver
	w.prevOver = over
	switch {
	case after > before:
		ci.Outcome = "knob-raised"
		if over {
			vs = append(vs, verdict{"C01/arith/exceeds/" + w.k.Name + "/" + class + "/" + valueClass(cur),
				fmt.Sprintf("UpgradeBatch(batch %d = %s) on a %d-replica %s raised the knob from [%s] to [%s]: %d new-revision pods allowed (was %d), the step plans %d (slack 1%% of %d = %.2f)",
					batch, cur.String(), w.size, w.k.Name, kb, ka, after, before, ci.Planned, w.size, 0.01*float64(w.size))})
		}
	case after < before:
		switch {
		case scaleDown:
			ci.Outcome = "lowered-after-scale-down(not-judged)"
		case lowered && pk < before:
			ci.Outcome = "moved-back-to-lowered-plan(not-judged)"
		default:
			ci.Outcome = "moved-back"
			why := "the plan was not lowered"
			if lowered {
				why = fmt.Sprintf("the lowered step still plans %d >= %d", pk, before)
			}
			vs = append(vs, verdict{"C01/arith/moved-back/" + w.k.Name + "/" + class,
				fmt.Sprintf("UpgradeBatch(batch %d = %s) on a %d-replica %s moved the knob back from [%s] to [%s]: exposure %d -> %d while the release moves forward (%s; step plans %d)",
					batch, cur.String(), w.size, w.k.Name, kb, ka, before, after, why, ci.Planned)})
		}
	default:
		switch {
		case first && over:
			// first write of the release: judged even when the exposure did not rise
			ci.Outcome = "first-call-over-plan"
			vs = append(vs, verdict{"C01/arith/exceeds/" + w.k.Name + "/" + class + "/" + valueClass(cur),
				fmt.Sprintf("first UpgradeBatch(batch %d = %s) on a %d-replica %s leaves [%s]: %d new-revision pods allowed, the step plans %d", batch, cur.String(), w.size, w.k.Name, ka, after, ci.Planned)})
		case ci.Wrote && kb != ka:
			ci.Outcome = "knob-rewritten-same-exposure"
		case ci.Planned < before:
			ci.Outcome = "refused-to-move-back"
		case ci.Planned == before:
			ci.Outcome = "unchanged-at-plan"
		default:
			ci.Outcome = "unchanged-below-plan"
		}
		if over && !first {
			ci.Outcome += "+inherited-over-plan(" + valueClass(cur) + "-step)"
			// "when the workload is scaled mid-release it holds for percentage steps relative to the new size": after a
			// scale-up the controller has recomputed the batch for the new size; what its knob now allows is judged
			// against the percentage step at that size, with one pod of granularity (ceil of the 1% slack)
			// (only when the scale-up created the excess: an excess inherited from an earlier, larger step of a lowered
			// plan cannot be retracted without moving the knob back and is not charged to the scale-up)
			if strings.HasSuffix(class, "scale-up") && !wasOver && valueClass(cur) == "percent" && float64(after-ci.Planned) > math.Ceil(0.01*float64(w.size)) {
				vs = append(vs, verdict{"C01/arith/exceeds-after-scale-up/" + w.k.Name + "/" + class,
					fmt.Sprintf("after the scale-up to %d replicas UpgradeBatch(batch %d = %s) on %s leaves [%s]: %d new-revision pods allowed, the percentage step plans %d relative to the new size (slack %.0f)",
						w.size, batch, cur.String(), w.k.Name, ka, after, ci.Planned, math.Ceil(0.01*float64(w.size)))})
			}
		}
	}
	if err != nil {
		ci.Outcome += "+error"
	}
	return ci, vs
}

// doProgress: the workload controller catches up with the knob (status only).
func (w *world) doProgress() {
	e, _, _ := w.knob()
	r, u := int32(w.size), int32(e)
	obj := w.mustGet(w.k.GVR, appName)
	switch o := obj.(type) {
	case *kruiseappsv1alpha1.CloneSet:
		total := r
		if w.k.Style == v1beta1.BlueGreenRollingStyle {
			total = r + u
		}
		o.Status.Replicas, o.Status.ReadyReplicas, o.Status.AvailableReplicas = total, total, r
		o.Status.UpdatedReplicas, o.Status.UpdatedReadyReplicas = u, u
	case *apps.StatefulSet:
		o.Status.Replicas, o.Status.ReadyReplicas, o.Status.AvailableReplicas = r, r, r
		o.Status.UpdatedReplicas, o.Status.CurrentReplicas = u, r-u
	case *kruiseappsv1beta1.StatefulSet:
		o.Status.Replicas, o.Status.ReadyReplicas, o.Status.AvailableReplicas = r, r, r
		o.Status.UpdatedReplicas, o.Status.UpdatedReadyReplicas, o.Status.CurrentReplicas = u, u, r-u
	case *kruiseappsv1alpha1.DaemonSet:
		o.Status.CurrentNumberScheduled, o.Status.NumberReady, o.Status.NumberAvailable = r, r, r
		o.Status.UpdatedNumberScheduled = u
	case *apps.Deployment:
		switch w.k.Style {
		case v1beta1.PartitionRollingStyle:
			o.Status.Replicas, o.Status.ReadyReplicas, o.Status.AvailableReplicas, o.Status.UpdatedReplicas = r, r, r, u
			if o.Annotations == nil {
				o.Annotations = map[string]string{}
			}
			o.Annotations[rolloutsv1alpha1.DeploymentExtraStatusAnnotation] = fmt.Sprintf(`{"updatedReadyReplicas":%d,"expectedUpdatedReplicas":%d}`, u, u)
		case v1beta1.BlueGreenRollingStyle:
			o.Status.Replicas, o.Status.ReadyReplicas, o.Status.AvailableReplicas, o.Status.UpdatedReplicas = r+u, r+u, r, u
		case v1beta1.CanaryRollingStyle:
			o.Status.Replicas, o.Status.ReadyReplicas, o.Status.AvailableReplicas = r, r, r
			if w.canary != "" {
				c := w.mustGet(depGVR, w.canary).(*apps.Deployment)
				c.Status.ObservedGeneration = c.Generation
				c.Status.Replicas, c.Status.ReadyReplicas, c.Status.AvailableReplicas, c.Status.UpdatedReplicas = u, u, u, u
				w.put(depGVR, c)
			}
		}
	}
	w.put(w.k.GVR, obj)
}

// doScale: the user changes the workload size; the executor observes WorkloadReplicasChanged and restarts the
// current batch (signalRestartBatch + ObservedWorkloadReplicas).
func (w *world) doScale(to int) {
	obj := w.mustGet(w.k.GVR, appName)
	r := int32(to)
	switch o := obj.(type) {
	case *kruiseappsv1alpha1.CloneSet:
		o.Spec.Replicas = &r
	case *apps.StatefulSet:
		o.Spec.Replicas = &r
	case *kruiseappsv1beta1.StatefulSet:
		o.Spec.Replicas = &r
	case *kruiseappsv1alpha1.DaemonSet:
		o.Status.DesiredNumberScheduled = r // the number of eligible nodes changed
	case *apps.Deployment:
		o.Spec.Replicas = &r
	}
	w.put(w.k.GVR, obj)
	if to > w.size {
		w.event = "scale-up"
	} else if to < w.size {
		w.event = "scale-down"
	}
	w.size = to
	w.rel.Status.ObservedWorkloadReplicas = r
	w.rel.Status.CanaryStatus.BatchReadyTime = nil
	w.rel.Status.CanaryStatus.CurrentBatchState = v1beta1.UpgradingBatchState
}

// doNext: batch k reported ready, the Rollout raises batchPartition to k+1, moveToNextBatch.
func (w *world) doNext() {
	cb := w.rel.Status.CanaryStatus.CurrentBatch
	if int(cb) >= len(w.rel.Spec.ReleasePlan.Batches)-1 {
		return
	}
	w.rel.Spec.ReleasePlan.BatchPartition = pointer.Int32(cb + 1)
	w.rel.Status.CanaryStatus.CurrentBatch = cb + 1
	w.rel.Status.CanaryStatus.CurrentBatchState = v1beta1.UpgradingBatchState
	w.stage++
}

// doPlan: the Rollout replaces the batches, batchPartition stays on the same index; signalRecalculate.
func (w *world) doPlan(vals []string) {
	cb := int(w.rel.Status.CanaryStatus.CurrentBatch)
	old := w.rel.Spec.ReleasePlan.Batches[cb].CanaryReplicas
	w.rel.Spec.ReleasePlan.Batches = batchesOf(vals)
	bp := *w.rel.Spec.ReleasePlan.BatchPartition
	nb := bp
	if int(nb) > len(vals)-1 {
		nb = int32(len(vals) - 1)
	}
	w.rel.Status.CanaryStatus.BatchReadyTime = nil
	w.rel.Status.CanaryStatus.CurrentBatch = nb
	w.rel.Status.CanaryStatus.CurrentBatchState = v1beta1.UpgradingBatchState
	w.rel.Status.ObservedReleasePlanHash = util.HashReleasePlanBatches(&w.rel.Spec.ReleasePlan)
	nw := w.rel.Spec.ReleasePlan.Batches[nb].CanaryReplicas
	switch {
	case old.Type == intstr.String && nw.Type == intstr.Int:
		w.event = "edit-pct2int"
	case old.Type == intstr.Int && nw.Type == intstr.String:
		w.event = "edit-int2pct"
	default:
		w.event = "edit-sametype"
	}
}

// apply executes one op; calls (init / upgrade) return their judged info.
func (w *world) apply(op Op) (*callInfo, []verdict) {
	switch op.Op {
	case "init":
		ci, vs := w.doInit()
		return &ci, vs
	case "upgrade":
		ci, vs := w.doUpgrade()
		return &ci, vs
	case "progress":
		w.doProgress()
	case "scale":
		w.doScale(op.To)
	case "next":
		w.doNext()
	case "plan":
		w.doPlan(op.Batches)
	}
	return nil, nil
}

// ---------------------------------------------------------------------------------------------
// domain
// ---------------------------------------------------------------------------------------------

func replicaDomain(thorough bool) []int {
	var out []int
	if dbg := os.Getenv("C01A_SIZES"); dbg != "" { // development aid only: restrict the sizes (reported as not exhaustive)
		for _, f := range strings.Split(dbg, ",") {
			if n, err := strconv.Atoi(f); err == nil && n > 0 {
				out = append(out, n)
			}
		}
		return out
	}
	if thorough {
		for r := 1; r <= 600; r++ {
			out = append(out, r)
		}
		return append(out, 750, 999, 1000, 1001, 1500, 2000, 3333, 5000)
	}
	for r := 1; r <= 130; r++ {
		out = append(out, r)
	}
	return append(out, 150, 199, 200, 250, 300, 333, 500, 1000)
}

func uniqSorted(in []int, lo, hi int) []int {
	m := map[int]bool{}
	var out []int
	for _, v := range in {
		if v < lo || v > hi || m[v] {
			continue
		}
		m[v] = true
		out = append(out, v)
	}
	sort.Ints(out)
	return out
}

// intValues: integer step values for a workload of size r: 0..r+2 when small, thinned otherwise.
func intValues(r int, dense bool) []int {
	limit := 24
	if dense {
		limit = 140
	}
	var c []int
	if r <= limit {
		for v := 0; v <= r+2; v++ {
			c = append(c, v)
		}
		return c
	}
	for v := 0; v <= 12; v++ {
		c = append(c, v)
	}
	c = append(c, r/2-1, r/2, r/2+1, r-2, r-1, r, r+1, r+2, r/3, 2*r/3, r/100, r/100+1, 99*r/100, 99*r/100+1)
	n := 8
	if dense {
		n = 40
	}
	for k := 1; k < n; k++ {
		c = append(c, k*r/n)
	}
	return uniqSorted(c, 0, r+2)
}

func pctValues() []string {
	out := make([]string, 0, 100)
	for p := 1; p <= 100; p++ {
		out = append(out, fmt.Sprintf("%d%%", p))
	}
	return out
}

func allValues(r int, dense bool) []string {
	out := pctValues()
	for _, v := range intValues(r, dense) {
		out = append(out, strconv.Itoa(v))
	}
	return out
}

// vals renders a mixed list of percent / int step values, dropping duplicates and ints outside [0, r+2].
func vals(r int, pcts []int, ints []int) []string {
	var out []string
	seen := map[string]bool{}
	for _, p := range pcts {
		s := fmt.Sprintf("%d%%", p)
		if !seen[s] {
			seen[s] = true
			out = append(out, s)
		}
	}
	for _, v := range ints {
		s := strconv.Itoa(v)
		if v < 0 || v > r+2 || seen[s] {
			continue
		}
		seen[s] = true
		out = append(out, s)
	}
	return out
}

// tierCfg: the sub-alphabets used where the full product of step values would not fit the budget.
type tierCfg struct {
	all          []string // every step value: 1%..100% and the integer values of the size
	coreU        []string // first-step values that also get every edit value of the other type, every scale target and the "nothing progressed" variants
	h2U          []string // first-step values combined with EVERY admissible second step
	h2V          []string // second-step values combined with EVERY admissible first step
	editInts     []string // integer edit targets tried after every percent step
	editPcts     []string // percent edit targets tried after every integer step
	tailEdits    []string // edit targets tried on the second batch after H2 (h2U x h2V pairs)
	scalesAll    []int
	scalesFew    []int
	bothProgress bool // enumerate "nothing progressed" as well for every first-step value
	// deepU: first-step values that get the plan-edit (H4) and the "every u x h2V" (H2) expansions. Every value,
	// except in the quick tier for sizes above 40: every 5th percent, the usual suspects and the thin integers.
	deepU map[string]bool
}

func cfgFor(kind string, r int, thorough bool) *tierCfg {
	c := &tierCfg{all: allValues(r, thorough), scalesAll: scaleTargets(r)}
	c.deepU = setOf(c.all)
	if !thorough && r > 40 {
		var p5 []int
		for p := 5; p <= 100; p += 5 {
			p5 = append(p5, p)
		}
		c.deepU = setOf(vals(r, append(p5, 1, 33, 34, 66, 67, 99), []int{0, 1, 2, r / 2, r - 1, r, r + 1}))
	}
	if thorough {
		c.coreU = vals(r, []int{1, 10, 33, 34, 50, 66, 67, 99, 100}, []int{1, r / 3, r / 2, r - 1})
		c.h2U = vals(r, []int{1, 10, 33, 50, 67, 99}, []int{1, r / 2, r - 1})
		c.h2V = vals(r, []int{33, 67, 100}, []int{r / 2, r})
		c.editInts = vals(r, nil, []int{0, 1, 2, r / 3, r / 2, r - 1, r, r + 1})
		c.editPcts = vals(r, []int{1, 10, 33, 50, 67, 99, 100}, nil)
		c.tailEdits = vals(r, []int{1, 33, 67, 100}, []int{1, r / 3, r / 2, r})
		c.scalesFew = c.scalesAll
		return c
	}
	c.coreU = vals(r, []int{33}, []int{r / 2})
	c.h2U = vals(r, []int{33}, []int{r / 2})
	c.h2V = vals(r, []int{50}, []int{r - 1})
	c.editInts = vals(r, nil, []int{1, r / 2, r})
	c.editPcts = vals(r, []int{1, 50, 100}, nil)
	c.tailEdits = append(append([]string(nil), c.editInts...), c.editPcts...)
	for _, t := range []int{2 * r, r / 2} {
		if t >= 1 && t != r {
			c.scalesFew = append(c.scalesFew, t)
		}
	}
	return c
}

func setOf(l []string) map[string]bool {
	m := map[string]bool{}
	for _, s := range l {
		m[s] = true
	}
	return m
}

func numOf(s string) int {
	n, _ := strconv.Atoi(strings.TrimSuffix(s, "%"))
	return n
}

// admissibleNext: the Rollout webhook (validateRolloutSpecCanarySteps) only orders steps of the same type
// (non-decreasing); steps of different types are not compared.
func admissibleNext(u, v string) bool {
	if isPct(u) != isPct(v) {
		return true
	}
	return numOf(v) >= numOf(u)
}

func scaleTargets(r int) []int {
	var out []int
	seen := map[int]bool{r: true}
	for _, t := range []int{2 * r, r + 1, r - 1, r / 2} {
		if t < 1 || seen[t] {
			continue
		}
		seen[t] = true
		out = append(out, t)
	}
	return out
}

// ---------------------------------------------------------------------------------------------
// enumeration
// ---------------------------------------------------------------------------------------------

type found struct {
	detail string
	hist   History
	calls  []callInfo
	count  int
}

type taskResult struct {
	evals      int64
	calls      int64
	nontrivial int64
	outcomes   map[string]int64
	classes    map[string]int64
	found      map[string]*found
	order      []string
	samples    []interface{}
}

type enumerator struct {
	w         *world
	res       *taskResult
	r         *lib.Report
	startSize int
	startPlan []string
	ops       []Op
	log       []callInfo
}

func (e *enumerator) run(op Op) {
	e.ops = append(e.ops, op)
	ci, vs := e.w.apply(op)
	if ci != nil {
		e.res.calls++
		e.log = append(e.log, *ci)
		e.res.outcomes[e.w.k.Name+"/"+ci.Class+"/"+ci.Outcome]++
		for _, v := range vs {
			f := e.res.found[v.Sig]
			if f == nil {
				f = &found{detail: v.Detail, hist: e.history(), calls: append([]callInfo(nil), e.log...)}
				e.res.found[v.Sig] = f
				e.res.order = append(e.res.order, v.Sig)
			}
			f.count++
		}
	}
}

func (e *enumerator) history() History {
	return History{Kind: e.w.k.Name, Replicas: e.startSize, Plan: append([]string(nil), e.startPlan...), Ops: append([]Op(nil), e.ops...)}
}

// finish closes one history (a leaf of the enumeration tree).
func (e *enumerator) finish() {
	e.res.evals++
	if n := len(e.log); n > 0 {
		e.res.classes[e.log[n-1].Class]++
	}
	if n := len(e.log); n > 0 && e.log[n-1].Wrote {
		// the call that makes this history different from its prefix changed the store
		e.res.nontrivial++
		e.r.Nontrivial(e.key())
	}
	if e.startSize == 150 && e.startPlan[0] == "33%" && len(e.res.samples) == 0 && e.w.stage == 0 {
		for _, op := range e.ops {
			if op.Op == "scale" && op.To == 300 {
				e.res.samples = append(e.res.samples, map[string]interface{}{"history": e.history(), "calls": append([]callInfo(nil), e.log...)})
			}
		}
	}
}

// key is a compact identity of the current history.
func (e *enumerator) key() string {
	var b strings.Builder
	b.WriteString(e.w.k.Name)
	b.WriteByte('|')
	b.WriteString(strconv.Itoa(e.startSize))
	for _, p := range e.startPlan {
		b.WriteByte(',')
		b.WriteString(p)
	}
	for _, op := range e.ops {
		b.WriteByte('|')
		b.WriteString(op.Op[:2])
		if op.To != 0 {
			b.WriteString(strconv.Itoa(op.To))
		}
		for _, p := range op.Batches {
			b.WriteByte(',')
			b.WriteString(p)
		}
	}
	return b.String()
}

type mark struct {
	s    *snapshot
	nops int
	nlog int
}

func (e *enumerator) mark() mark { return mark{e.w.snap(), len(e.ops), len(e.log)} }
func (e *enumerator) back(m mark) {
	e.w.restore(m.s)
	e.ops = e.ops[:m.nops]
	e.log = e.log[:m.nlog]
}

// fields of enumerator that describe the start of the current history
func (e *enumerator) start(size int, plan []string) {
	e.startSize, e.startPlan = size, plan
	e.w.reset(size, plan)
	e.ops, e.log = e.ops[:0], e.log[:0]
}

// runTask enumerates every history of one (kind, size).
func runTask(r *lib.Report, k *kindSpec, ns string, size int, thorough bool) *taskResult {
	res := &taskResult{outcomes: map[string]int64{}, classes: map[string]int64{}, found: map[string]*found{}}
	w := newWorld(k, ns, size)
	e := &enumerator{w: w, res: res, r: r}
	c := cfgFor(k.Name, size, thorough)
	coreU, h2U, h2V := setOf(c.coreU), setOf(c.h2U), setOf(c.h2V)

	// H3: scale mid-release on the current batch, from the marked state
	h3 := func(m mark, scales []int, modes []bool) {
		for _, prog := range modes {
			for _, to := range scales {
				e.back(m)
				if prog {
					e.run(Op{Op: "progress"})
				}
				e.run(Op{Op: "scale", To: to})
				if prog {
					e.run(Op{Op: "progress"})
				}
				e.run(Op{Op: "upgrade"})
				e.finish()
			}
		}
	}
	// H4: plan edit: the value of the current batch cb is replaced, same batch index
	h4 := func(m mark, plan []string, cb int, editVals []string) {
		for _, nv := range editVals {
			if nv == plan[cb] {
				continue
			}
			np := append([]string(nil), plan...)
			np[cb] = nv
			if cb > 0 && isPct(np[0]) == isPct(nv) && numOf(np[0]) > numOf(nv) {
				np[0] = nv // keep the edited plan admissible (same-type steps must not decrease)
			}
			e.back(m)
			e.run(Op{Op: "progress"})
			e.run(Op{Op: "plan", Batches: np})
			e.run(Op{Op: "upgrade"})
			e.finish()
		}
	}
	otherType := func(u string, few bool) []string {
		if few {
			if isPct(u) {
				return c.editInts
			}
			return c.editPcts
		}
		var out []string
		for _, v := range c.all {
			// every value of the other type (percent targets restricted to the deep set in the quick tier)
			if isPct(v) != isPct(u) && (!isPct(v) || c.deepU[v] || thorough) {
				out = append(out, v)
			}
		}
		return out
	}
	sameTypeFew := func(u string) []string {
		if isPct(u) {
			return c.editPcts
		}
		return c.editInts
	}

	for _, u := range c.all {
		// H1: Initialize; UpgradeBatch(batch 0 = u)
		plan1 := []string{u, "100%"}
		e.start(size, plan1)
		e.run(Op{Op: "init"})
		if !w.initDone {
			e.finish()
			continue
		}
		e.run(Op{Op: "upgrade"})
		e.finish()
		h1 := e.log[len(e.log)-1]
		m1 := e.mark()

		// H3 / H4 after H1
		if coreU[u] {
			h3(m1, c.scalesAll, []bool{false, true})
			h4(m1, plan1, 0, append(otherType(u, false), sameTypeFew(u)...))
		} else {
			modes := []bool{true}
			if c.bothProgress {
				modes = []bool{false, true}
			}
			h3(m1, c.scalesFew, modes)
			if c.deepU[u] {
				h4(m1, plan1, 0, otherType(u, true))
			}
		}

		// H2: batch 0 became ready (only possible when the knob lets the workload reach the plan), next batch = v
		if h1.After < h1.PlannedK {
			res.outcomes[k.Name+"/H1/knob-below-plan:batch-can-never-be-ready(no-H2)"]++
			continue
		}
		for _, v := range c.all {
			if !admissibleNext(u, v) || !((h2U[u] && (isPct(u) || c.deepU[v])) || (h2V[v] && c.deepU[u])) {
				continue
			}
			plan2 := []string{u, v}
			e.back(m1)
			// the plan [u, v] was there from the start: batch 0 is the same, so the executed prefix is identical
			w.rel.Spec.ReleasePlan.Batches = batchesOf(plan2)
			w.rel.Status.ObservedReleasePlanHash = util.HashReleasePlanBatches(&w.rel.Spec.ReleasePlan)
			e.startPlan = plan2
			e.run(Op{Op: "progress"})
			e.run(Op{Op: "next"})
			e.run(Op{Op: "upgrade"})
			e.finish()
			if !(h2U[u] && h2V[v]) {
				continue
			}
			m2 := e.mark()
			h3(m2, c.scalesAll, []bool{true})
			h4(m2, plan2, 1, c.tailEdits)
		}
		e.startPlan = plan1
	}
	return res
}

// ---------------------------------------------------------------------------------------------
// Run / Replay
// ---------------------------------------------------------------------------------------------

func Run(r *lib.Report) {
	thorough := r.Thorough()
	// small live heap, huge allocation rate (JSON round trips inside the fake client): collect rarely, bounded by a soft limit
	defer debug.SetGCPercent(debug.SetGCPercent(2000))
	defer debug.SetMemoryLimit(debug.SetMemoryLimit(6 << 30))
	r.Rule = "tasks = (kind/style in {cloneset,statefulset,advstatefulset,daemonset,deployment}-partition, deployment-canary, {cloneset,deployment}-bluegreen) x (workload size R: quick 1..130,150,199,200,250,300,333,500,1000 " +
		"[advstatefulset, same control.go as statefulset: 1..24 and 12 larger sizes]; thorough 1..600,750,999,1000,1001,1500,2000,3333,5000). Step values V(R) = 1%..100% and ints 0..R+2 (thinned above R=24 quick / R=140 thorough: 0..12, R/2+-1, R-2..R+2, R/3, 2R/3, R/100(+1), 99R/100(+1), k*R/8 resp. k*R/40). " +
		"H1: real Initialize + real UpgradeBatch(batch0=u) for EVERY u in V(R). H3: H1 + user scale to {2R,R/2} (core u and thorough: also R+1,R-1; workload fully progressed, core u also 'nothing progressed') + UpgradeBatch on the same batch. " +
		"H4: H1 + plan edit (batch value replaced by a few values of the other type for every u [quick, R>40: every 5th percent + usual suspects + thin ints]; by EVERY value of the other type and a few of the same type for core u) + UpgradeBatch. " +
		"H2: H1 + workload progress + next batch v: (u in h2U x every admissible v) and (every u x v in h2V), admissible = Rollout webhook rule (same-type steps non-decreasing, mixed types unordered); on the h2U x h2V pairs additionally H3 (4 scale targets) and H4 (edit of the second batch). " +
		"A shared prefix is executed once and the store is reset to its exact snapshot (Replay re-executes the whole history). Non-trivial = histories whose last control-plane call changed the stored workload / canary Deployment."
	r.Assumptions = []string{
		"exposure of a knob = new-revision pods the workload controller would run for it: CloneSet/StatefulSet/DaemonSet replicas - partition (percent partition scaled with round-up, clamped to [0,replicas]); advanced Deployment NewRSReplicasLimit(strategy.partition); canary Deployment spec.replicas; blue-green min(scaled maxSurge (round-up), replicas), 0 while paused / partition closed",
		"planned = step value of the CURRENT batch scaled against the CURRENT workload size, percent rounded up, clamped to [0,size] (definition of control.CalculateBatchReplicas, re-stated independently)",
		"slack rule: a violation of 'exceeds' needs float64(exposure-planned) > 0.01*float64(size); it is judged only on calls that RAISED the exposure (and on the first UpgradeBatch of the release): exposure that was granted earlier and became larger than the plan by a scale-down / scale-up of a percent knob / lowered plan cannot be retracted without moving the knob back and is only counted as an outcome ('inherited-over-plan')",
		"moved-back: every UpgradeBatch call that lowers the exposure (before/after both measured at the current size) is a violation, unless the user scaled down since the previous call, or the step value now in force means fewer pods than the one in force at the previous call (next step of a mixed int/percent plan, plan edit) AND that lowered count is below the exposure already granted - those two are counted as outcomes only. For the advanced Deployment 'means' follows its controller: a percentage below 100% never covers every pod (NewRSReplicasLimit)",
		"executor emulation (batchrelease_executor.go / batchrelease_status.go): status recorded by Initialize is persisted, phase Progressing, batch 0; scale => ObservedWorkloadReplicas updated, same batch restarted; batch ready => batchPartition+1, currentBatch+1; plan edit => signalRecalculate with batchPartition unchanged; a fresh control plane per call; NoNeedUpdateReplicas stays nil (rollback-in-batch out of scope); rolloutID empty (no pod labelling)",
		"workload-controller emulation: only status fields are written (nothing progressed / fully progressed to what the knob allows); generation == observedGeneration throughout; the canary Deployment creation is observed by the informer (expectation deleted) before Initialize is retried",
		"H2 is only entered when the knob after batch 0 lets the workload reach the planned count (otherwise the real executor never reports the batch ready)",
		"integer step values include 0, R+1, R+2 (0 and 0% are rejected by the Rollout webhook but accepted by the BatchRelease API; 0% is not enumerated)",
	}
	sizes := replicaDomain(thorough)
	if os.Getenv("C01A_SIZES") != "" {
		r.NotExhaustive("C01A_SIZES restricts the workload sizes (development aid)")
	}
	type task struct {
		k    *kindSpec
		size int
	}
	var tasks []task
	advSizes := map[int]bool{}
	for _, s := range []int{33, 50, 64, 99, 100, 101, 128, 150, 199, 200, 333, 1000} {
		advSizes[s] = true
	}
	for _, s := range sizes {
		for _, k := range kinds {
			// the Advanced StatefulSet runs through the same statefulset/control.go as the native one (only the
			// object type differs): the quick tier covers it on a sub-range of sizes
			if !thorough && k.Name == "advstatefulset-partition" && s > 24 && !advSizes[s] {
				continue
			}
			tasks = append(tasks, task{k, s})
		}
	}
	// big sizes first for load balance, results merged in simplest-first order afterwards
	order := make([]int, len(tasks))
	for i := range order {
		order[i] = len(tasks) - 1 - i
	}
	results := make([]*taskResult, len(tasks))
	lib.ParallelFor(len(tasks), func(i int) {
		t := tasks[order[i]]
		if pn := lib.Catch(func() { results[order[i]] = runTask(r, t.k, fmt.Sprintf("ns%d", order[i]), t.size, thorough) }); pn != nil {
			// a panic outside the guarded control-plane calls: the enumeration of this task is incomplete
			r.NotExhaustive(fmt.Sprintf("task %s/%d aborted: %s", t.k.Name, t.size, pn.Value))
			r.Violate("C01/arith/panic/"+pn.Site, fmt.Sprintf("enumeration of %s with %d replicas aborted by a panic: %s\n%s", t.k.Name, t.size, pn.Value, pn.Stack), nil)
		}
	})
	var calls int64
	table := map[string]int64{}
	byClass := map[string]int64{}
	for _, res := range results {
		if res == nil {
			continue
		}
		for k, n := range res.outcomes {
			table[k] += n
		}
		for k, n := range res.classes {
			byClass[k] += n
		}
		r.AddEval(res.evals)
		calls += res.calls
		for k, n := range res.outcomes {
			for j := int64(0); j < n; j++ {
				r.Outcome(k)
			}
		}
		for _, s := range res.samples {
			r.Sample(s)
		}
		for _, sig := range res.order {
			f := res.found[sig]
			detail := f.detail + "\ncalls: " + lib.J(f.calls)
			for j := 0; j < f.count; j++ {
				r.Violate(sig, detail, f.hist)
			}
		}
	}
	r.Extra["control_plane_calls"] = calls
	r.Extra["outcome_table"] = table
	r.Extra["histories_by_class"] = byClass
	r.Extra["workload_sizes"] = len(sizes)
	r.Extra["kinds"] = len(kinds)
}

// Replay re-executes one recorded history, printing every call.
func Replay(r *lib.Report, raw json.RawMessage) {
	var h History
	if err := json.Unmarshal(raw, &h); err != nil {
		fmt.Println("HARNESS-ERROR cannot parse replay:", err)
		return
	}
	k := kindByName(h.Kind)
	if k == nil {
		fmt.Println("HARNESS-ERROR unknown kind", h.Kind)
		return
	}
	fmt.Printf("replay: %s, %d replicas, plan %v\n", h.Kind, h.Replicas, h.Plan)
	w := newWorld(k, "replay", h.Replicas)
	w.reset(h.Replicas, h.Plan)
	for i, op := range h.Ops {
		ci, vs := w.apply(op)
		switch op.Op {
		case "scale":
			e, kt, _ := w.knob()
			fmt.Printf("  %2d. user scales the workload to %d replicas (knob [%s] now allows %d new-revision pods)\n", i+1, op.To, kt, e)
		case "plan":
			fmt.Printf("  %2d. plan edited to %v (current batch stays %d)\n", i+1, op.Batches, w.rel.Status.CanaryStatus.CurrentBatch)
		case "next":
			fmt.Printf("  %2d. batch ready, batchPartition -> %d, executor moves to batch %d\n", i+1, *w.rel.Spec.ReleasePlan.BatchPartition, w.rel.Status.CanaryStatus.CurrentBatch)
		case "progress":
			e, _, _ := w.knob()
			fmt.Printf("  %2d. workload controller progresses: %d pods updated\n", i+1, e)
		}
		if ci != nil {
			fmt.Printf("  %2d. %s(batch %d = %s) size=%d: knob [%s] -> [%s] wrote=%v exposure %d -> %d planned=%d slack=%.2f class=%s outcome=%s %s\n",
				i+1, ci.Call, ci.Batch, ci.Value, ci.Size, ci.KnobBefore, ci.KnobAfter, ci.Wrote, ci.Before, ci.After, ci.Planned, 0.01*float64(ci.Size), ci.Class, ci.Outcome, ci.Err)
		}
		for _, v := range vs {
			fmt.Printf("      VIOLATION %s\n      %s\n", v.Sig, strings.SplitN(v.Detail, "\n", 2)[0])
			r.Violate(v.Sig, v.Detail, h)
		}
	}
}
