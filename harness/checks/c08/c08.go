// Package c08: exhaustive bounded-domain enumeration of (old, new, Rollout set) triples through the real
// workload mutating admission handlers (E3).
//
// Every case is a real JSON admission.Request sent to the real WorkloadHandler.Handle / UnifiedWorkloadHandler.Handle
// (the chain the shipped MutatingWebhookConfiguration routes the kind to), backed by a controller-runtime fake store
// holding the webhook configuration, the Rollouts and (for Deployments) the ReplicaSets. The returned JSON patch is
// applied to the submitted object with the same library the API server uses, and the admitted object is compared
// with a small reference predicate written from the property text ("is a supervised release change") plus a frame
// condition (only allow-listed paths may differ).
package c08

import (
	"context"
	"encoding/json"
	"fmt"
	"reflect"
	"runtime/debug"
	"sort"
	"strings"

	jsonpatch "github.com/evanphx/json-patch"
	kruiseappsv1alpha1 "github.com/openkruise/kruise-api/apps/v1alpha1"
	kruiseappsv1beta1 "github.com/openkruise/kruise-api/apps/v1beta1"
	rolloutapi "github.com/openkruise/rollouts/api"
	"github.com/openkruise/rollouts/api/v1beta1"
	"github.com/openkruise/rollouts/pkg/util"
	"github.com/openkruise/rollouts/pkg/webhook/util/configuration"
	"github.com/openkruise/rollouts/pkg/webhook/workload/mutating"
	admissionv1 "k8s.io/api/admission/v1"
	admregv1 "k8s.io/api/admissionregistration/v1"
	apps "k8s.io/api/apps/v1"
	authenticationv1 "k8s.io/api/authentication/v1"
	corev1 "k8s.io/api/core/v1"
	metav1 "k8s.io/apimachinery/pkg/apis/meta/v1"
	"k8s.io/apimachinery/pkg/runtime"
	"k8s.io/apimachinery/pkg/types"
	clientgoscheme "k8s.io/client-go/kubernetes/scheme"
	"k8s.io/utils/pointer"
	"sigs.k8s.io/controller-runtime/pkg/client"
	"sigs.k8s.io/controller-runtime/pkg/client/fake"
	"sigs.k8s.io/controller-runtime/pkg/webhook/admission"

	"verifharness/lib"
)

const (
	ns        = "ns1"
	wlName    = "echoserver"
	roName    = "rollout-demo"
	wlUID     = "281ba6f7-ff28-4779-940b-e966640c201f"
	wtLabel   = "rollouts.kruise.io/workload-type"
	ridKey    = "rollouts.kruise.io/rollout-id"
	inProgKey = "rollouts.kruise.io/in-progressing"
	stratKey  = "rollouts.kruise.io/deployment-strategy"
	origKey   = "rollouts.kruise.io/original-deployment-strategy"
	stableKey = "rollouts.kruise.io/stable-revision"
	hashKey   = "pod-template-hash"
)

var scheme = runtime.NewScheme()

func init() {
	_ = clientgoscheme.AddToScheme(scheme)
	_ = kruiseappsv1alpha1.AddToScheme(scheme)
	_ = kruiseappsv1beta1.AddToScheme(scheme)
	_ = rolloutapi.AddToScheme(scheme)
	_ = admregv1.AddToScheme(scheme)
}

type M = map[string]interface{}

// ---------- kinds ----------

type kindSpec struct {
	Class    string   `json:"class"`
	Group    string   `json:"group"`
	Version  string   `json:"version"`
	Kind     string   `json:"kind"`
	Resource string   `json:"resource"`
	WT       string   `json:"workloadType"`
	Chain    []string `json:"chain"` // handlers the shipped webhook configuration routes this kind to, in order
	Native   bool     `json:"native"`
}

var kinds = []kindSpec{
	{Class: "Deployment", Group: "apps", Version: "v1", Kind: "Deployment", Resource: "deployments", WT: "deployment", Chain: []string{"workload", "unified"}, Native: true},
	{Class: "CloneSet", Group: "apps.kruise.io", Version: "v1alpha1", Kind: "CloneSet", Resource: "clonesets", WT: "cloneset", Chain: []string{"workload", "unified"}},
	{Class: "DaemonSet", Group: "apps.kruise.io", Version: "v1alpha1", Kind: "DaemonSet", Resource: "daemonsets", WT: "daemonset", Chain: []string{"workload", "unified"}},
	{Class: "StatefulSet", Group: "apps", Version: "v1", Kind: "StatefulSet", Resource: "statefulsets", WT: "statefulset", Chain: []string{"unified"}, Native: true},
	{Class: "AdvancedStatefulSet", Group: "apps.kruise.io", Version: "v1beta1", Kind: "StatefulSet", Resource: "statefulsets", WT: "statefulset", Chain: []string{"unified"}},
	{Class: "ForeignStatefulSetLike", Group: "apps.example.io", Version: "v1", Kind: "FooSet", Resource: "foosets", WT: "StatefulSet", Chain: []string{"unified"}},
}

func kindByClass(c string) *kindSpec {
	for i := range kinds {
		if kinds[i].Class == c {
			return &kinds[i]
		}
	}
	return nil
}

func (k *kindSpec) apiVersion() string {
	if k.Group == "" {
		return k.Version
	}
	return k.Group + "/" + k.Version
}

// family is the signature component: the three StatefulSet-like kinds run through one code path, one defect there
// must not yield three signatures.
func (k *kindSpec) family() string {
	if k.isSTS() {
		return "StatefulSetLike"
	}
	return k.Class
}

func (k *kindSpec) isSTS() bool {
	return k.Class == "StatefulSet" || k.Class == "AdvancedStatefulSet" || k.Class == "ForeignStatefulSetLike"
}

// ---------- shapes (indices into the per-field alphabets; 0 is the simplest value) ----------

type Shape struct {
	Tmpl      int    `json:"tmpl"` // 0 same, 1 image changed, 2 only the pod-template-hash label differs, 3 template annotation added, 4 image + hash label
	RidOld    string `json:"ridOld"`
	RidNew    string `json:"ridNew"`
	ReplOld   int    `json:"replOld"` // -1 = absent
	ReplNew   int    `json:"replNew"`
	Ann       int    `json:"ann"` // 0 absent, 1 {}, 2 {foo:bar} on both, 3 {foo:bar} added by the edit
	InProgOld bool   `json:"inProgOld"`
	InProgNew bool   `json:"inProgNew"`
	Labels    int    `json:"labels"`   // 0 {workload-type}, 1 {workload-type, app}, 2 absent, 3 {}, 4 {app}
	Status    int    `json:"status"`   // per kind, see statusOf
	Strategy  int    `json:"strategy"` // per kind, see strategyOf
	PausedOld bool   `json:"pausedOld"`
	PausedNew bool   `json:"pausedNew"`
	StratAnn  int    `json:"stratAnn"` // Deployment: 0 none, 1 partition, 2 canary, 3 garbage
	OrigAnn   int    `json:"origAnn"`  // Deployment: 0 none, 1 present
	Op        int    `json:"op"`       // 0 UPDATE, 1 UPDATE of subresource status, 2 CREATE
}

var ridPairsQuick = [][2]string{{"", ""}, {"", "a"}, {"a", "a"}, {"a", "b"}, {"a", ""}}
var ridPairsAll = [][2]string{{"", ""}, {"", "a"}, {"a", "a"}, {"a", "b"}, {"a", ""}, {"", "b"}, {"b", "a"}, {"b", "b"}, {"b", ""}}

var replPairsQuick = [][2]int{{3, 3}, {-1, -1}, {0, 0}, {5, 3}}
var replPairsAll = [][2]int{{3, 3}, {-1, -1}, {0, 0}, {5, 3}, {3, 0}, {0, 3}, {-1, 3}}

var stratAnnValues = []string{
	"",
	`{"rollingStyle":"Partition","rollingUpdate":{"maxUnavailable":1,"maxSurge":"25%"},"paused":false,"partition":2}`,
	`{"rollingStyle":"Canary"}`,
	`not-json`,
}

const origAnnValue = `{"maxSurge":"25%","maxUnavailable":"25%"}`
const inProgValue = `{"rolloutName":"` + roName + `"}`

func template(tmpl int, isNew bool) M {
	labels := M{"app": "echoserver"}
	image := "echoserver:v1"
	meta := M{"labels": labels}
	if tmpl == 2 || tmpl == 4 {
		if isNew {
			labels[hashKey] = "hash-new"
		} else {
			labels[hashKey] = "hash-old"
		}
	}
	if isNew && (tmpl == 1 || tmpl == 4) {
		image = "echoserver:v2"
	}
	if isNew && tmpl == 3 {
		meta["annotations"] = M{"note": "x"}
	}
	return M{"metadata": meta, "spec": M{"containers": []interface{}{M{"name": "echoserver", "image": image}}}}
}

func strategyOf(k *kindSpec, s *Shape, isNew bool) (string, interface{}) {
	switch {
	case k.Class == "Deployment":
		ru := M{"type": "RollingUpdate", "rollingUpdate": M{"maxSurge": "25%", "maxUnavailable": "25%"}}
		rec := M{"type": "Recreate"}
		pairs := [][2]interface{}{{nil, nil}, {ru, ru}, {rec, rec}, {ru, rec}, {rec, ru}}
		p := pairs[s.Strategy]
		if isNew {
			return "strategy", p[1]
		}
		return "strategy", p[0]
	case k.Class == "CloneSet":
		return "updateStrategy", []interface{}{
			M{"type": "InPlaceIfPossible", "partition": 2, "maxUnavailable": "20%"},
			nil,
			M{},
			M{"paused": true},
			M{"partition": "100%"},
		}[s.Strategy]
	case k.Class == "DaemonSet":
		return "updateStrategy", []interface{}{
			M{"type": "RollingUpdate", "rollingUpdate": M{"rollingUpdateType": "Standard", "maxUnavailable": 1, "partition": 10}},
			nil,
			M{"type": "RollingUpdate"},
			M{"type": "OnDelete"},
			M{"rollingUpdate": M{}},
			M{"type": "RollingUpdate", "rollingUpdate": M{"paused": true, "partition": 3}},
		}[s.Strategy]
	default: // StatefulSet-like
		return "updateStrategy", []interface{}{
			M{"type": "RollingUpdate", "rollingUpdate": M{"partition": 7}},
			nil,
			M{"type": "RollingUpdate"},
			M{"type": "OnDelete"},
			M{"rollingUpdate": M{"partition": 0}},
			M{},
		}[s.Strategy]
	}
}

func nStrategies(k *kindSpec) int {
	switch {
	case k.Class == "Deployment":
		return 5
	case k.Class == "CloneSet":
		return 5
	default:
		return 6
	}
}

// statusOf: the workload status alphabets. Index 0 single revision & all ready, 1 several revisions & ready != updated,
// 2 status absent, then (readiness varied independently of the revision counts) 3 single revision & one pod unready,
// 4 several revisions & ready == updated; DaemonSet 5 = nothing scheduled. The reference predicate only reads the
// revision counts (replicas / updatedReplicas, desired / updatedNumberScheduled); readiness must not matter.
func statusOf(k *kindSpec, s *Shape) interface{} {
	switch {
	case k.Class == "Deployment":
		// not read by the handler (ReplicaSets decide), varied all the same
		return []interface{}{
			M{"replicas": 3, "updatedReplicas": 3, "readyReplicas": 3, "availableReplicas": 3, "observedGeneration": 3},
			M{"replicas": 3, "updatedReplicas": 1, "readyReplicas": 3, "availableReplicas": 3, "observedGeneration": 3},
			nil,
			M{"replicas": 3, "updatedReplicas": 3, "readyReplicas": 2, "availableReplicas": 2, "unavailableReplicas": 1, "observedGeneration": 3},
			M{"replicas": 3, "updatedReplicas": 2, "readyReplicas": 2, "availableReplicas": 2, "unavailableReplicas": 1, "observedGeneration": 3},
		}[s.Status]
	case k.Class == "CloneSet":
		return []interface{}{
			M{"replicas": 3, "updatedReplicas": 3, "readyReplicas": 3, "availableReplicas": 3, "updatedReadyReplicas": 3, "observedGeneration": 3},
			M{"replicas": 3, "updatedReplicas": 1, "readyReplicas": 3, "availableReplicas": 3, "updatedReadyReplicas": 1, "observedGeneration": 3},
			nil,
			M{"replicas": 3, "updatedReplicas": 3, "readyReplicas": 2, "availableReplicas": 2, "updatedReadyReplicas": 2, "observedGeneration": 3},
			M{"replicas": 3, "updatedReplicas": 2, "readyReplicas": 2, "availableReplicas": 2, "updatedReadyReplicas": 1, "observedGeneration": 3},
		}[s.Status]
	case k.Class == "DaemonSet":
		ds := func(desired, updated, ready int) M {
			return M{"currentNumberScheduled": desired, "numberMisscheduled": 0, "desiredNumberScheduled": desired, "numberReady": ready, "numberAvailable": ready,
				"numberUnavailable": desired - ready, "updatedNumberScheduled": updated, "observedGeneration": 3, "daemonSetHash": "h"}
		}
		return []interface{}{ds(10, 10, 10), ds(10, 4, 10), nil, ds(10, 10, 9), ds(10, 4, 4), ds(0, 0, 0)}[s.Status]
	default:
		return []interface{}{
			M{"replicas": 3, "readyReplicas": 3, "availableReplicas": 3, "updatedReplicas": 3, "currentRevision": "echoserver-r1", "updateRevision": "echoserver-r1", "observedGeneration": 3},
			M{"replicas": 3, "readyReplicas": 3, "availableReplicas": 3, "updatedReplicas": 1, "currentRevision": "echoserver-r1", "updateRevision": "echoserver-r2", "observedGeneration": 3},
			nil,
			M{"replicas": 3, "readyReplicas": 2, "availableReplicas": 2, "updatedReplicas": 3, "currentRevision": "echoserver-r1", "updateRevision": "echoserver-r1", "observedGeneration": 3},
			M{"replicas": 3, "readyReplicas": 2, "availableReplicas": 2, "updatedReplicas": 2, "currentRevision": "echoserver-r1", "updateRevision": "echoserver-r2", "observedGeneration": 3},
		}[s.Status]
	}
}

func buildObject(k *kindSpec, s *Shape, isNew bool) []byte {
	meta := M{"name": wlName, "namespace": ns, "uid": wlUID, "generation": 3, "resourceVersion": "100"}
	switch s.Labels {
	case 0:
		meta["labels"] = M{wtLabel: k.WT}
	case 1:
		meta["labels"] = M{wtLabel: k.WT, "app": "echoserver"}
	case 3:
		meta["labels"] = M{}
	case 4:
		meta["labels"] = M{"app": "echoserver"}
	}
	var ann M
	switch s.Ann {
	case 1:
		ann = M{}
	case 2:
		ann = M{"foo": "bar"}
	case 3:
		if isNew {
			ann = M{"foo": "bar"}
		}
	}
	set := func(key, val string) {
		if ann == nil {
			ann = M{}
		}
		ann[key] = val
	}
	rid, inprog, repl, paused := s.RidOld, s.InProgOld, s.ReplOld, s.PausedOld
	if isNew {
		rid, inprog, repl, paused = s.RidNew, s.InProgNew, s.ReplNew, s.PausedNew
	}
	if rid != "" {
		set(ridKey, rid)
	}
	if inprog {
		set(inProgKey, inProgValue)
	}
	if k.Class == "Deployment" {
		if s.StratAnn > 0 {
			set(stratKey, stratAnnValues[s.StratAnn])
		}
		if s.OrigAnn > 0 {
			set(origKey, origAnnValue)
		}
	}
	if ann != nil {
		meta["annotations"] = ann
	}
	spec := M{"selector": M{"matchLabels": M{"app": "echoserver"}}, "template": template(s.Tmpl, isNew)}
	if k.Class != "DaemonSet" && repl >= 0 {
		spec["replicas"] = repl
	}
	if k.isSTS() {
		spec["serviceName"] = "echoserver"
	}
	if key, v := strategyOf(k, s, isNew); v != nil {
		spec[key] = v
	}
	if k.Class == "Deployment" && paused {
		spec["paused"] = true
	}
	obj := M{"apiVersion": k.apiVersion(), "kind": k.Kind, "metadata": meta, "spec": spec}
	if st := statusOf(k, s); st != nil {
		obj["status"] = st
	}
	raw, _ := json.Marshal(obj)
	// Built-in kinds reach a webhook in the API server's typed serialisation; custom resources as the
	// (pruned) unstructured JSON, where an absent block stays absent.
	switch k.Class {
	case "Deployment":
		d := &apps.Deployment{}
		_ = json.Unmarshal(raw, d)
		raw, _ = json.Marshal(d)
	case "StatefulSet":
		d := &apps.StatefulSet{}
		_ = json.Unmarshal(raw, d)
		raw, _ = json.Marshal(d)
	}
	return raw
}

// ---------- store contents ----------

func webhookConfiguration() *admregv1.MutatingWebhookConfiguration {
	exists := &metav1.LabelSelector{MatchExpressions: []metav1.LabelSelectorRequirement{{Key: wtLabel, Operator: metav1.LabelSelectorOpExists}}}
	rule := func(ops []admregv1.OperationType, g, v, r string) []admregv1.RuleWithOperations {
		return []admregv1.RuleWithOperations{{Operations: ops, Rule: admregv1.Rule{APIGroups: []string{g}, APIVersions: []string{v}, Resources: []string{r}}}}
	}
	upd := []admregv1.OperationType{admregv1.Update}
	return &admregv1.MutatingWebhookConfiguration{
		ObjectMeta: metav1.ObjectMeta{Name: configuration.MutatingWebhookConfigurationName},
		Webhooks: []admregv1.MutatingWebhook{
			{Name: "mcloneset.kb.io", Rules: rule(upd, "apps.kruise.io", "v1alpha1", "clonesets"), ObjectSelector: exists},
			{Name: "mdaemonset.kb.io", Rules: rule(upd, "apps.kruise.io", "v1alpha1", "daemonsets"), ObjectSelector: exists},
			{Name: "mdeployment.kb.io", Rules: rule(upd, "apps", "v1", "deployments"), ObjectSelector: &metav1.LabelSelector{MatchExpressions: []metav1.LabelSelectorRequirement{
				{Key: "control-plane", Operator: metav1.LabelSelectorOpNotIn, Values: []string{"controller-manager"}},
				{Key: wtLabel, Operator: metav1.LabelSelectorOpExists}}}},
			{Name: "munifiedworload.kb.io", Rules: rule([]admregv1.OperationType{admregv1.Create, admregv1.Update}, "*", "*", "*"), ObjectSelector: exists},
		},
	}
}

var deletedAt = metav1.Unix(1700000000, 0)

type roOpt struct {
	name, namespace, apiVersion, kind, refName string
	strategy                                   string // canary | bluegreen | empty
	tr                                         bool
	disabledSpec, disabledPhase, deleting      bool
}

func mkRollout(k *kindSpec, o roOpt) *v1beta1.Rollout {
	if o.name == "" {
		o.name = roName
	}
	if o.namespace == "" {
		o.namespace = ns
	}
	if o.apiVersion == "" {
		o.apiVersion = k.apiVersion()
	}
	if o.kind == "" {
		o.kind = k.Kind
	}
	if o.refName == "" {
		o.refName = wlName
	}
	ro := &v1beta1.Rollout{
		TypeMeta:   metav1.TypeMeta{APIVersion: "rollouts.kruise.io/v1beta1", Kind: "Rollout"},
		ObjectMeta: metav1.ObjectMeta{Name: o.name, Namespace: o.namespace},
		Spec:       v1beta1.RolloutSpec{WorkloadRef: v1beta1.ObjectRef{APIVersion: o.apiVersion, Kind: o.kind, Name: o.refName}, Disabled: o.disabledSpec},
		Status:     v1beta1.RolloutStatus{Phase: v1beta1.RolloutPhaseHealthy},
	}
	var trs []v1beta1.TrafficRoutingRef
	if o.tr {
		trs = []v1beta1.TrafficRoutingRef{{Service: "echoserver", Ingress: &v1beta1.IngressTrafficRouting{Name: "echoserver"}}}
	}
	switch o.strategy {
	case "", "canary":
		ro.Spec.Strategy.Canary = &v1beta1.CanaryStrategy{TrafficRoutings: trs}
	case "bluegreen":
		ro.Spec.Strategy.BlueGreen = &v1beta1.BlueGreenStrategy{TrafficRoutings: trs}
	}
	if o.disabledPhase {
		ro.Status.Phase = v1beta1.RolloutPhaseDisabled
	}
	if o.deleting {
		ro.DeletionTimestamp = &deletedAt
		ro.Finalizers = []string{"rollouts.kruise.io/rollout"}
	}
	return ro
}

type roSet struct {
	Name string
	Make func(k *kindSpec) []*v1beta1.Rollout
}

func otherKind(k *kindSpec) (string, string) {
	if k.Class == "CloneSet" {
		return "apps/v1", "Deployment"
	}
	return "apps.kruise.io/v1alpha1", "CloneSet"
}

// rolloutSets is the alphabet of Rollout sets living in the cluster (simplest first). The first `quickRolloutSets`
// entries form the quick tier.
var rolloutSets = []roSet{
	{"none", func(k *kindSpec) []*v1beta1.Rollout { return nil }},
	{"matching", func(k *kindSpec) []*v1beta1.Rollout { return []*v1beta1.Rollout{mkRollout(k, roOpt{})} }},
	{"matching+traffic", func(k *kindSpec) []*v1beta1.Rollout { return []*v1beta1.Rollout{mkRollout(k, roOpt{tr: true})} }},
	{"matching-bluegreen", func(k *kindSpec) []*v1beta1.Rollout {
		return []*v1beta1.Rollout{mkRollout(k, roOpt{strategy: "bluegreen"})}
	}},
	{"other-name", func(k *kindSpec) []*v1beta1.Rollout { return []*v1beta1.Rollout{mkRollout(k, roOpt{refName: "other"})} }},
	{"other-kind", func(k *kindSpec) []*v1beta1.Rollout {
		av, kd := otherKind(k)
		return []*v1beta1.Rollout{mkRollout(k, roOpt{apiVersion: av, kind: kd})}
	}},
	{"disabled", func(k *kindSpec) []*v1beta1.Rollout {
		return []*v1beta1.Rollout{mkRollout(k, roOpt{disabledSpec: true, disabledPhase: true})}
	}},
	{"deleting", func(k *kindSpec) []*v1beta1.Rollout { return []*v1beta1.Rollout{mkRollout(k, roOpt{deleting: true})} }},
	{"empty-strategy", func(k *kindSpec) []*v1beta1.Rollout {
		return []*v1beta1.Rollout{mkRollout(k, roOpt{strategy: "empty"})}
	}},
	{"disabled+traffic,matching", func(k *kindSpec) []*v1beta1.Rollout {
		return []*v1beta1.Rollout{mkRollout(k, roOpt{name: "aaa-disabled", tr: true, disabledSpec: true, disabledPhase: true}), mkRollout(k, roOpt{})}
	}},
	{"other-name,matching+traffic", func(k *kindSpec) []*v1beta1.Rollout {
		return []*v1beta1.Rollout{mkRollout(k, roOpt{name: "aaa-other", refName: "other"}), mkRollout(k, roOpt{tr: true})}
	}},
	// ---- thorough only ----
	{"matching-bluegreen+traffic", func(k *kindSpec) []*v1beta1.Rollout {
		return []*v1beta1.Rollout{mkRollout(k, roOpt{strategy: "bluegreen", tr: true})}
	}},
	{"same-kind-other-group", func(k *kindSpec) []*v1beta1.Rollout {
		return []*v1beta1.Rollout{mkRollout(k, roOpt{apiVersion: "foreign.example.io/v1"})}
	}},
	{"other-namespace", func(k *kindSpec) []*v1beta1.Rollout { return []*v1beta1.Rollout{mkRollout(k, roOpt{namespace: "ns2"})} }},
	{"deleting+traffic,matching", func(k *kindSpec) []*v1beta1.Rollout {
		return []*v1beta1.Rollout{mkRollout(k, roOpt{name: "aaa-deleting", tr: true, deleting: true}), mkRollout(k, roOpt{})}
	}},
	{"unparsable-apiVersion", func(k *kindSpec) []*v1beta1.Rollout {
		return []*v1beta1.Rollout{mkRollout(k, roOpt{apiVersion: "a/b/c"})}
	}},
	{"unparsable-apiVersion,matching", func(k *kindSpec) []*v1beta1.Rollout {
		return []*v1beta1.Rollout{mkRollout(k, roOpt{name: "aaa-bad", apiVersion: "a/b/c"}), mkRollout(k, roOpt{})}
	}},
	{"matching-other-version", func(k *kindSpec) []*v1beta1.Rollout {
		av := "v9"
		if k.Group != "" {
			av = k.Group + "/v9"
		}
		return []*v1beta1.Rollout{mkRollout(k, roOpt{apiVersion: av})}
	}},
	{"being-disabled", func(k *kindSpec) []*v1beta1.Rollout {
		return []*v1beta1.Rollout{mkRollout(k, roOpt{disabledSpec: true})}
	}},
}

const quickRolloutSets = 11

var thoroughCoreRolloutSets = map[string]bool{"matching-bluegreen": true, "empty-strategy": true, "other-kind": true}
var quickCoreRolloutSets = map[string]bool{"none": true, "matching": true, "matching+traffic": true, "disabled": true, "deleting": true}

func rolloutSetIndex(name string) int {
	for i := range rolloutSets {
		if rolloutSets[i].Name == name {
			return i
		}
	}
	panic("unknown rollout set " + name)
}

func mkRS(name, hash, image, revision string, replicas int32, ownerUID string, deleting bool, created int64) *apps.ReplicaSet {
	ctrl := true
	rs := &apps.ReplicaSet{
		TypeMeta: metav1.TypeMeta{APIVersion: "apps/v1", Kind: "ReplicaSet"},
		ObjectMeta: metav1.ObjectMeta{Name: name, Namespace: ns, Labels: map[string]string{"app": "echoserver", hashKey: hash},
			Annotations:       map[string]string{"deployment.kubernetes.io/revision": revision},
			CreationTimestamp: metav1.Unix(created, 0),
			OwnerReferences:   []metav1.OwnerReference{{APIVersion: "apps/v1", Kind: "Deployment", Name: wlName, UID: types.UID(ownerUID), Controller: &ctrl}}},
		Spec: apps.ReplicaSetSpec{Replicas: pointer.Int32(replicas), Selector: &metav1.LabelSelector{MatchLabels: map[string]string{"app": "echoserver", hashKey: hash}},
			Template: corev1.PodTemplateSpec{ObjectMeta: metav1.ObjectMeta{Labels: map[string]string{"app": "echoserver", hashKey: hash}},
				Spec: corev1.PodSpec{Containers: []corev1.Container{{Name: "echoserver", Image: image}}}}},
	}
	if deleting {
		rs.DeletionTimestamp = &deletedAt
		rs.Finalizers = []string{"foregroundDeletion"}
	}
	return rs
}

type rsSet struct {
	Name string
	Make func() []*apps.ReplicaSet
}

// ReplicaSets are stored objects: spec.replicas is always set (API-server defaulting).
var rsSets = []rsSet{
	{"one", func() []*apps.ReplicaSet {
		return []*apps.ReplicaSet{mkRS("echoserver-v1", "5b494f7bf", "echoserver:v1", "1", 3, wlUID, false, 1000)}
	}},
	{"none", func() []*apps.ReplicaSet { return nil }},
	{"two-active", func() []*apps.ReplicaSet {
		return []*apps.ReplicaSet{mkRS("echoserver-v1", "5b494f7bf", "echoserver:v1", "1", 2, wlUID, false, 1000), mkRS("echoserver-v0", "7c6d8f9ab", "echoserver:v0", "2", 1, wlUID, false, 2000)}
	}},
	{"one-active+one-scaled-down", func() []*apps.ReplicaSet {
		return []*apps.ReplicaSet{mkRS("echoserver-v1", "5b494f7bf", "echoserver:v1", "2", 3, wlUID, false, 2000), mkRS("echoserver-v0", "7c6d8f9ab", "echoserver:v0", "1", 0, wlUID, false, 1000)}
	}},
	{"foreign-owner-only", func() []*apps.ReplicaSet {
		return []*apps.ReplicaSet{mkRS("echoserver-v1", "5b494f7bf", "echoserver:v1", "1", 3, "00000000-0000-0000-0000-000000000000", false, 1000)}
	}},
	{"one-active+one-deleting", func() []*apps.ReplicaSet {
		return []*apps.ReplicaSet{mkRS("echoserver-v1", "5b494f7bf", "echoserver:v1", "2", 3, wlUID, false, 2000), mkRS("echoserver-v0", "7c6d8f9ab", "echoserver:v0", "1", 1, wlUID, true, 1000)}
	}},
}

const quickRSSets = 5

// ---------- one materialised case ----------

// Input is everything one case consists of; it is also the replay record.
type Input struct {
	Class       string             `json:"class"`
	Desc        string             `json:"desc"`
	Shape       *Shape             `json:"shape,omitempty"`
	RolloutSet  string             `json:"rolloutSet"`
	RSSet       string             `json:"replicaSetSet,omitempty"`
	Operation   string             `json:"operation"`
	SubResource string             `json:"subResource,omitempty"`
	FullChain   bool               `json:"fullChain"` // false: the second webhook of the chain is only called for objects the first one patched
	Old         json.RawMessage    `json:"oldObject,omitempty"`
	New         json.RawMessage    `json:"object"`
	Rollouts    []*v1beta1.Rollout `json:"rollouts"`
	ReplicaSets []*apps.ReplicaSet `json:"replicaSets"`
}

// env is the goroutine-local store + handlers for one (kind, Rollout set, ReplicaSet set).
type env struct {
	writes   int
	workload *mutating.WorkloadHandler
	unified  *mutating.UnifiedWorkloadHandler
}

type recClient struct {
	client.Client
	e *env
}

func (c *recClient) Create(ctx context.Context, obj client.Object, opts ...client.CreateOption) error {
	c.e.writes++
	return c.Client.Create(ctx, obj, opts...)
}
func (c *recClient) Update(ctx context.Context, obj client.Object, opts ...client.UpdateOption) error {
	c.e.writes++
	return c.Client.Update(ctx, obj, opts...)
}
func (c *recClient) Patch(ctx context.Context, obj client.Object, patch client.Patch, opts ...client.PatchOption) error {
	c.e.writes++
	return c.Client.Patch(ctx, obj, patch, opts...)
}
func (c *recClient) Delete(ctx context.Context, obj client.Object, opts ...client.DeleteOption) error {
	c.e.writes++
	return c.Client.Delete(ctx, obj, opts...)
}
func (c *recClient) DeleteAllOf(ctx context.Context, obj client.Object, opts ...client.DeleteAllOfOption) error {
	c.e.writes++
	return c.Client.DeleteAllOf(ctx, obj, opts...)
}

func newEnv(rollouts []*v1beta1.Rollout, rss []*apps.ReplicaSet) *env {
	objs := []client.Object{webhookConfiguration()}
	for _, ro := range rollouts {
		objs = append(objs, ro.DeepCopy())
	}
	for _, rs := range rss {
		objs = append(objs, rs.DeepCopy())
	}
	e := &env{}
	c := &recClient{Client: fake.NewClientBuilder().WithScheme(scheme).WithObjects(objs...).Build(), e: e}
	dec, _ := admission.NewDecoder(scheme)
	e.workload = &mutating.WorkloadHandler{Client: c, Decoder: dec, Finder: util.NewControllerFinder(c)}
	e.unified = &mutating.UnifiedWorkloadHandler{Client: c, Decoder: dec, Finder: util.NewControllerFinder(c)}
	return e
}

// request builds the admission request as JSON and parses it back, so the handler is fed what the webhook
// server would hand it. dryRun is always present: the API server always sets it.
func request(k *kindSpec, in *Input, object []byte) (admission.Request, []byte) {
	ar := admissionv1.AdmissionRequest{
		UID:         "c08",
		Kind:        metav1.GroupVersionKind{Group: k.Group, Version: k.Version, Kind: k.Kind},
		Resource:    metav1.GroupVersionResource{Group: k.Group, Version: k.Version, Resource: k.Resource},
		SubResource: in.SubResource,
		Name:        wlName, Namespace: ns,
		Operation: admissionv1.Operation(in.Operation),
		UserInfo:  authenticationv1.UserInfo{Username: "user"},
		Object:    runtime.RawExtension{Raw: object},
		DryRun:    pointer.Bool(false),
	}
	if len(in.Old) > 0 {
		ar.OldObject = runtime.RawExtension{Raw: in.Old}
	}
	b, _ := json.Marshal(ar)
	var req admission.Request
	_ = json.Unmarshal(b, &req.AdmissionRequest)
	return req, b
}

// ---------- generic JSON helpers ----------

func getPath(m M, path ...string) (interface{}, bool) {
	var cur interface{} = m
	for _, p := range path {
		mm, ok := cur.(M)
		if !ok {
			return nil, false
		}
		cur, ok = mm[p]
		if !ok {
			return nil, false
		}
	}
	return cur, true
}

func getMap(m M, path ...string) M {
	v, _ := getPath(m, path...)
	mm, _ := v.(M)
	return mm
}

func getStr(m M, path ...string) string {
	v, _ := getPath(m, path...)
	s, _ := v.(string)
	return s
}

// getNum returns the number at path; absent (or not a number) -> (0,false).
func getNum(m M, path ...string) (float64, bool) {
	v, ok := getPath(m, path...)
	if !ok {
		return 0, false
	}
	switch n := v.(type) {
	case float64:
		return n, true
	case int64:
		return float64(n), true
	case int:
		return float64(n), true
	}
	return 0, false
}

func deepCopyJSON(v interface{}) interface{} {
	switch x := v.(type) {
	case M:
		o := make(M, len(x))
		for k, vv := range x {
			o[k] = deepCopyJSON(vv)
		}
		return o
	case []interface{}:
		o := make([]interface{}, len(x))
		for i := range x {
			o[i] = deepCopyJSON(x[i])
		}
		return o
	}
	return v
}

// dropPath deletes the leaf at path and then every parent that became an empty map.
func dropPath(m M, path ...string) {
	if len(path) == 0 {
		return
	}
	if len(path) == 1 {
		delete(m, path[0])
		return
	}
	child, ok := m[path[0]].(M)
	if !ok {
		return
	}
	dropPath(child, path[1:]...)
	if len(child) == 0 {
		delete(m, path[0])
	}
}

// pruneEmpty removes the map at path if it is empty (absent block == empty block for the frame condition).
func pruneEmpty(m M, path ...string) {
	if v, ok := getPath(m, path...); ok {
		if mm, isMap := v.(M); (isMap && len(mm) == 0) || v == nil {
			parent := m
			if len(path) > 1 {
				parent = getMap(m, path[:len(path)-1]...)
			}
			delete(parent, path[len(path)-1])
		}
	}
}

// ---------- the reference predicate (from the property text) ----------

type Expect struct {
	Class   string `json:"class"`  // unchanged | hold | repause | unspecified
	Reason  string `json:"reason"` // why (first applicable reason in a fixed order)
	Rollout string `json:"rollout,omitempty"`
}

func groupOf(apiVersion string) (string, bool) {
	switch strings.Count(apiVersion, "/") {
	case 0:
		return "", true
	case 1:
		return apiVersion[:strings.Index(apiVersion, "/")], true
	}
	return "", false
}

// activeRollout: the Rollout that references the workload (group, kind, name, namespace) and is neither being
// deleted nor disabled. ambiguous != "" when the text does not decide whether the Rollout counts as active.
func activeRollout(k *kindSpec, in *Input) (ro *v1beta1.Rollout, why string, ambiguous string) {
	why = "no-rollout"
	var matches []*v1beta1.Rollout
	for _, r := range in.Rollouts {
		g, ok := groupOf(r.Spec.WorkloadRef.APIVersion)
		if r.Namespace != ns || !ok || g != k.Group || r.Spec.WorkloadRef.Kind != k.Kind || r.Spec.WorkloadRef.Name != wlName {
			if why == "no-rollout" {
				why = "rollout-references-another-object"
			}
			continue
		}
		if r.DeletionTimestamp != nil {
			why = "rollout-deleting"
			continue
		}
		if r.Status.Phase == v1beta1.RolloutPhaseDisabled {
			why = "rollout-disabled"
			continue
		}
		matches = append(matches, r)
	}
	switch {
	case len(matches) == 0:
		return nil, why, ""
	case len(matches) > 1:
		return nil, "", "several-active-rollouts"
	case matches[0].Spec.Disabled:
		return nil, "", "rollout-being-disabled"
	case matches[0].Spec.Strategy.Canary == nil && matches[0].Spec.Strategy.BlueGreen == nil:
		return nil, "", "rollout-without-strategy"
	}
	return matches[0], "", ""
}

func hasTrafficRouting(ro *v1beta1.Rollout) bool {
	if ro.Spec.Strategy.BlueGreen != nil {
		return len(ro.Spec.Strategy.BlueGreen.TrafficRoutings) > 0
	}
	return ro.Spec.Strategy.Canary != nil && len(ro.Spec.Strategy.Canary.TrafficRoutings) > 0
}

// templateChanged: pod templates differ, the pod-template-hash label and empty-vs-absent metadata maps aside.
func templateChanged(old, nw M) bool {
	norm := func(o M) interface{} {
		t, ok := getPath(o, "spec", "template")
		if !ok {
			return nil
		}
		c, _ := deepCopyJSON(t).(M)
		if c == nil {
			return t
		}
		dropPath(c, "metadata", "labels", hashKey)
		pruneEmpty(c, "metadata", "labels")
		pruneEmpty(c, "metadata", "annotations")
		pruneEmpty(c, "metadata", "creationTimestamp")
		pruneEmpty(c, "metadata")
		return c
	}
	return !reflect.DeepEqual(norm(old), norm(nw))
}

func activeOwnedReplicaSets(in *Input) int {
	n := 0
	for _, rs := range in.ReplicaSets {
		if rs.Namespace != ns || rs.DeletionTimestamp != nil || rs.Spec.Replicas == nil || *rs.Spec.Replicas == 0 || rs.Labels["app"] != "echoserver" {
			continue
		}
		if ref := metav1.GetControllerOf(rs); ref != nil && string(ref.UID) == wlUID {
			n++
		}
	}
	return n
}

func singleRevision(k *kindSpec, in *Input, nw M) bool {
	num := func(f string) float64 { v, _ := getNum(nw, "status", f); return v }
	switch {
	case k.Class == "Deployment":
		return activeOwnedReplicaSets(in) == 1
	case k.Class == "DaemonSet":
		return num("desiredNumberScheduled") == num("updatedNumberScheduled")
	default:
		return num("replicas") == num("updatedReplicas")
	}
}

func deploymentStyle(ann M) string {
	var st struct {
		RollingStyle string `json:"rollingStyle"`
	}
	if s, _ := ann[stratKey].(string); s != "" {
		_ = json.Unmarshal([]byte(s), &st)
	}
	if strings.EqualFold(st.RollingStyle, "partition") {
		return "partition"
	}
	if s, _ := ann[origKey].(string); s != "" {
		return "bluegreen"
	}
	return "canary"
}

// reference is the oracle: what the property text demands for this request.
func reference(k *kindSpec, in *Input, old, nw M) Expect {
	if in.Operation != "UPDATE" || in.SubResource != "" {
		return Expect{Class: "unchanged", Reason: "not-an-update-of-the-object"}
	}
	labels := getMap(nw, "metadata", "labels")
	if _, ok := labels[wtLabel]; !ok {
		return Expect{Class: "unchanged", Reason: "not-selected-by-the-webhook"}
	}
	ann, oann := getMap(nw, "metadata", "annotations"), getMap(old, "metadata", "annotations")
	ro, noRollout, ambiguous := activeRollout(k, in)

	// "an edit that would un-pause a Deployment in the middle of a canary- or partition-style release is corrected"
	if s, _ := ann[inProgKey].(string); k.Class == "Deployment" && s != "" {
		style := deploymentStyle(ann)
		switch {
		case style == "bluegreen":
			return Expect{Class: "unspecified", Reason: "in-progress-bluegreen"}
		case ro == nil:
			// mid-release marker without an active Rollout: sentence 2 (correct it) and sentence 3 (admit unchanged) pull apart
			return Expect{Class: "unspecified", Reason: "in-progress-without-active-rollout"}
		}
		return Expect{Class: "repause", Reason: "in-progress-" + style, Rollout: ro.Name}
	}

	var unchanged, unspecified []string
	if ro == nil {
		if ambiguous != "" {
			unspecified = append(unspecified, ambiguous)
		} else {
			unchanged = append(unchanged, noRollout)
		}
	}
	// release change: the rollout-id changes, or - no rollout-id used - the pod template changes
	ridN, _ := ann[ridKey].(string)
	ridO, _ := oann[ridKey].(string)
	tc := templateChanged(old, nw)
	change := ""
	switch {
	case ridN != "" && ridN == ridO:
		unchanged = append(unchanged, "rollout-id-unchanged")
	case ridN != "":
		change = "rollout-id"
	case !tc && ridO != "":
		unspecified = append(unspecified, "rollout-id-removed-template-unchanged")
	case !tc:
		unchanged = append(unchanged, "template-unchanged")
	default:
		change = "template"
	}
	// running replicas
	if k.Class != "DaemonSet" {
		if n, ok := getNum(nw, "spec", "replicas"); ok && n == 0 {
			unchanged = append(unchanged, "zero-replicas")
		}
	} else if n, _ := getNum(nw, "status", "desiredNumberScheduled"); n == 0 {
		unspecified = append(unspecified, "daemonset-nothing-scheduled")
	}
	if k.Class == "Deployment" && activeOwnedReplicaSets(in) == 0 {
		unchanged = append(unchanged, "no-active-replicaset")
	}
	// with traffic routing configured, only while it runs a single revision
	if ro != nil && hasTrafficRouting(ro) && !singleRevision(k, in, nw) {
		unchanged = append(unchanged, "traffic-routing-with-several-revisions")
	}
	if (k.Class == "DaemonSet" || k.isSTS()) && getStr(nw, "spec", "updateStrategy", "type") == "OnDelete" {
		unspecified = append(unspecified, "on-delete-strategy")
	}
	switch {
	case len(unchanged) > 0:
		return Expect{Class: "unchanged", Reason: unchanged[0]}
	case len(unspecified) > 0:
		return Expect{Class: "unspecified", Reason: unspecified[0]}
	}
	return Expect{Class: "hold", Reason: change, Rollout: ro.Name}
}

// heldBack: the native controller cannot update a single pod of the admitted object.
func heldBack(k *kindSpec, adm M) (bool, string) {
	switch {
	case k.Class == "Deployment":
		if b, _ := getPath(adm, "spec", "paused"); b == true {
			return true, ""
		}
		return false, "spec.paused is not true"
	case k.Class == "CloneSet":
		if b, _ := getPath(adm, "spec", "updateStrategy", "paused"); b == true {
			return true, ""
		}
		if getStr(adm, "spec", "updateStrategy", "partition") == "100%" {
			return true, ""
		}
		want := 1.0
		if r, ok := getNum(adm, "spec", "replicas"); ok {
			want = r
		}
		if p, ok := getNum(adm, "spec", "updateStrategy", "partition"); ok && p >= want {
			return true, ""
		}
		return false, "spec.updateStrategy.partition is not a full partition"
	case k.Class == "DaemonSet":
		if b, _ := getPath(adm, "spec", "updateStrategy", "rollingUpdate", "paused"); b == true {
			return true, ""
		}
		want, _ := getNum(adm, "status", "desiredNumberScheduled")
		if p, ok := getNum(adm, "spec", "updateStrategy", "rollingUpdate", "partition"); ok && p >= want && p > 0 {
			return true, ""
		}
		return false, "spec.updateStrategy.rollingUpdate.partition is not a full partition"
	default:
		if b, _ := getPath(adm, "spec", "updateStrategy", "rollingUpdate", "paused"); b == true {
			return true, ""
		}
		want := 1.0
		if r, ok := getNum(adm, "spec", "replicas"); ok {
			want = r
		}
		if p, ok := getNum(adm, "spec", "updateStrategy", "rollingUpdate", "partition"); ok && p >= want {
			return true, ""
		}
		return false, "spec.updateStrategy.rollingUpdate.partition is not a full partition"
	}
}

func markedFor(adm M, rollout string) (bool, string) {
	s := getStr(adm, "metadata", "annotations", inProgKey)
	if s == "" {
		return false, "no in-progressing annotation"
	}
	var st struct {
		RolloutName string `json:"rolloutName"`
	}
	if err := json.Unmarshal([]byte(s), &st); err != nil || st.RolloutName != rollout {
		return false, "in-progressing annotation does not name the Rollout: " + s
	}
	return true, ""
}

// frameDiff lists the paths where the admitted object differs from the submitted one outside the allow-list.
func frameDiff(k *kindSpec, submitted, admitted M) []string {
	a, b := deepCopyJSON(submitted).(M), deepCopyJSON(admitted).(M)
	for _, o := range []M{a, b} {
		dropPath(o, "metadata", "annotations", inProgKey)
		switch {
		case k.Class == "Deployment":
			dropPath(o, "metadata", "annotations", stratKey)
			dropPath(o, "metadata", "labels", stableKey)
			dropPath(o, "spec", "paused")
			dropPath(o, "spec", "strategy")
		case k.Class == "CloneSet":
			dropPath(o, "spec", "updateStrategy", "partition")
		default:
			dropPath(o, "spec", "updateStrategy", "rollingUpdate", "partition")
			if k.isSTS() {
				// an absent strategy type means RollingUpdate
				if t := getStr(o, "spec", "updateStrategy", "type"); t == "" || t == "RollingUpdate" {
					dropPath(o, "spec", "updateStrategy", "type")
				}
			}
		}
		pruneEmpty(o, "metadata", "annotations")
		pruneEmpty(o, "metadata", "labels")
		pruneEmpty(o, "spec", "updateStrategy", "rollingUpdate")
		pruneEmpty(o, "spec", "updateStrategy")
		pruneEmpty(o, "spec", "strategy")
	}
	if reflect.DeepEqual(a, b) {
		return nil
	}
	return lib.JSONDiff(a, b)
}

// ---------- running one case ----------

type jsonpatchOp struct {
	Operation string `json:"op"`
	Path      string `json:"path"`
}

type finding struct {
	Sig    string
	Detail string
}

type result struct {
	Expect   Expect
	Observed string // unchanged | held+marked | repaused | mutated | panic | denied | patch-inapplicable
	Mutated  bool
	Findings []finding
}

func unmarshalM(b []byte) M {
	var m M
	_ = json.Unmarshal(b, &m)
	return m
}

// evaluate sends the case through the handler chain and judges the admitted object. trace (optional) receives
// every step.
func evaluate(e *env, k *kindSpec, in *Input, trace func(format string, a ...interface{})) result {
	if trace == nil {
		trace = func(string, ...interface{}) {}
	}
	old, nw := unmarshalM(in.Old), unmarshalM(in.New)
	res := result{Expect: reference(k, in, old, nw)}
	trace("reference predicate: expect %s (%s) rollout=%q", res.Expect.Class, res.Expect.Reason, res.Expect.Rollout)
	add := func(sig, detail string) {
		res.Findings = append(res.Findings, finding{sig, detail})
		trace("FINDING %s: %s", sig, detail)
	}
	cur := []byte(in.New)
	patched := false
	e.writes = 0
	for i, hn := range k.Chain {
		if i > 0 && !in.FullChain && len(cur) == len(in.New) && string(cur) == string(in.New) {
			trace("-> %s handler skipped (quick tier: second webhook only sees objects the first one patched)", hn)
			continue
		}
		req, reqJSON := request(k, in, cur)
		trace("-> %s handler, admission request: %s", hn, string(reqJSON))
		var resp admission.Response
		p := lib.Catch(func() {
			if hn == "workload" {
				resp = e.workload.Handle(context.TODO(), req)
			} else {
				resp = e.unified.Handle(context.TODO(), req)
			}
		})
		if p != nil {
			res.Observed = "panic"
			add("C08/panic/"+p.Site+"/"+k.family(), fmt.Sprintf("%s handler panicked: %s (expected %s/%s)\n%s", hn, p.Value, res.Expect.Class, res.Expect.Reason, firstRepoFrames(p.Stack)))
			return res
		}
		if !resp.Allowed {
			code, msg := int32(0), ""
			if resp.Result != nil {
				code, msg = resp.Result.Code, resp.Result.Message
			}
			res.Observed = "denied"
			add(fmt.Sprintf("C08/denied/%s/%s/%d", k.family(), hn, code), fmt.Sprintf("%s handler rejected the request: code=%d %s", hn, code, msg))
			return res
		}
		if len(resp.Patches) == 0 {
			trace("<- allowed, no patch")
			continue
		}
		pb, _ := json.Marshal(resp.Patches)
		trace("<- allowed, patch: %s", string(pb))
		patch, err := jsonpatch.DecodePatch(pb)
		var out []byte
		if err == nil {
			out, err = patch.Apply(cur)
		}
		if err != nil {
			res.Observed = "patch-inapplicable"
			add(fmt.Sprintf("C08/patch-inapplicable/%s/%s", k.family(), strings.Join(orphanOps(unmarshalM(cur), pb), ",")),
				fmt.Sprintf("the JSON patch returned by the %s handler cannot be applied to the submitted object (the API server fails the request): %v\npatch: %s", hn, err, string(pb)))
			return res
		}
		cur = out
		patched = true
	}
	if e.writes > 0 {
		add("C08/store-write/"+k.family(), fmt.Sprintf("the admission handler wrote to the cluster %d time(s)", e.writes))
	}
	adm := nw
	if patched {
		adm = unmarshalM(cur)
		res.Mutated = !reflect.DeepEqual(adm, nw)
	}
	trace("admitted object: %s", string(cur))
	if res.Mutated {
		if d := frameDiff(k, nw, adm); len(d) > 0 {
			add("C08/frame/"+k.family()+"/"+strings.Join(d, ","), "the admitted object differs from the submitted one outside the allow-listed paths at "+strings.Join(d, ","))
		}
	}
	held, whyNot := heldBack(k, adm)
	switch res.Expect.Class {
	case "unchanged":
		if res.Mutated {
			res.Observed = "mutated"
			if ok, _ := markedFor(adm, roName); ok && held {
				res.Observed = "held+marked"
			}
			add("C08/not-admitted-unchanged/"+k.family()+"/"+res.Expect.Reason, "expected to be admitted unchanged ("+res.Expect.Reason+") but the object was changed at "+strings.Join(lib.JSONDiff(nw, adm), ","))
		} else {
			res.Observed = "unchanged"
		}
	case "hold":
		marked, whyNotMarked := markedFor(adm, res.Expect.Rollout)
		switch {
		case !held:
			res.Observed = "not-held"
			add("C08/not-held-back/"+k.family()+"/"+res.Expect.Reason, "a supervised release change ("+res.Expect.Reason+") was admitted without being held back: "+whyNot)
		case !marked:
			res.Observed = "held-unmarked"
			add("C08/not-marked/"+k.family()+"/"+res.Expect.Reason, "a supervised release change ("+res.Expect.Reason+") was held back but not marked in-progress for Rollout "+res.Expect.Rollout+": "+whyNotMarked)
		default:
			res.Observed = "held+marked"
		}
	case "repause":
		if !held {
			res.Observed = "not-repaused"
			add("C08/not-repaused/Deployment/"+res.Expect.Reason, "Deployment in the middle of a release ("+res.Expect.Reason+") admitted with "+whyNot)
		} else if getStr(adm, "metadata", "annotations", inProgKey) == "" {
			res.Observed = "marker-lost"
			add("C08/marker-lost/Deployment/"+res.Expect.Reason, "the in-progressing annotation was removed from a Deployment in the middle of a release")
		} else if res.Mutated {
			res.Observed = "repaused"
		} else {
			res.Observed = "stays-paused"
		}
	default:
		switch {
		case !res.Mutated:
			res.Observed = "unchanged"
		case held:
			res.Observed = "held"
		default:
			res.Observed = "mutated"
		}
	}
	trace("observed: %s (mutated=%v)", res.Observed, res.Mutated)
	return res
}

// orphanOps names the patch operations whose parent (add) or target (replace/remove) is missing from doc,
// sorted - jsonpatch.CreatePatch emits operations in map order, the signature must not depend on it.
func orphanOps(doc M, patch []byte) []string {
	var ops []jsonpatchOp
	_ = json.Unmarshal(patch, &ops)
	var out []string
	for _, op := range ops {
		parts := strings.Split(strings.TrimPrefix(op.Path, "/"), "/")
		for i := range parts {
			parts[i] = strings.ReplaceAll(strings.ReplaceAll(parts[i], "~1", "/"), "~0", "~")
		}
		need := parts
		if op.Operation == "add" {
			need = parts[:len(parts)-1]
		}
		if _, ok := getPath(doc, need...); !ok && len(need) > 0 {
			out = append(out, op.Operation+" "+op.Path)
		}
	}
	if len(out) == 0 {
		out = []string{"other"}
	}
	sort.Strings(out)
	return out
}

func firstRepoFrames(stack string) string {
	var out []string
	lines := strings.Split(stack, "\n")
	for i, l := range lines {
		if strings.HasPrefix(l, "github.com/openkruise/rollouts/") && i+1 < len(lines) {
			// function name and file:line only - argument words and pc offsets are addresses that differ between runs
			fn, loc := strings.TrimSpace(l), strings.TrimSpace(lines[i+1])
			if j := strings.LastIndex(fn, "("); j > 0 {
				fn = fn[:j]
			}
			if j := strings.Index(loc, " +0x"); j > 0 {
				loc = loc[:j]
			}
			out = append(out, fn+" @ "+loc)
			if len(out) == 3 {
				break
			}
		}
	}
	return strings.Join(out, "\n")
}

// ---------- enumeration ----------

type chunk struct {
	k      *kindSpec
	ro, rs int
	group  string // which sub-product of the domain
}

type chunkResult struct {
	first  map[string]*lib.Violation
	count  map[string]int
	order  []string
	sample *Input
}

func describe(k *kindSpec, s *Shape, ro, rs int, group string) string {
	d := fmt.Sprintf("%s[%s] rollouts=%s", k.Class, group, rolloutSets[ro].Name)
	if k.Class == "Deployment" {
		d += " replicaSets=" + rsSets[rs].Name
	}
	return d + " shape=" + lib.J(s)
}

func makeInput(k *kindSpec, s *Shape, ro, rs int, group string, rollouts []*v1beta1.Rollout, rss []*apps.ReplicaSet) *Input {
	in := &Input{Class: k.Class, Shape: s, RolloutSet: rolloutSets[ro].Name, Operation: "UPDATE", Rollouts: rollouts, ReplicaSets: rss}
	if k.Class == "Deployment" {
		in.RSSet = rsSets[rs].Name
	}
	in.New = buildObject(k, s, true)
	switch s.Op {
	case 0:
		in.Old = buildObject(k, s, false)
	case 1:
		in.Old = buildObject(k, s, false)
		in.SubResource = "status"
	case 2:
		in.Operation = "CREATE"
	}
	in.Desc = describe(k, s, ro, rs, group)
	return in
}

// shapes enumerates the object-pair shapes of one sub-product, simplest first.
func shapes(k *kindSpec, group string, th bool, f func(s Shape)) {
	rids, repls := ridPairsQuick, replPairsQuick
	tmpls := []int{0, 1, 2}
	anns := []int{0, 1, 3}
	if th {
		rids, repls = ridPairsAll, replPairsAll
		tmpls = []int{0, 1, 2, 3, 4}
		anns = []int{0, 1, 2, 3}
	}
	if k.Class == "DaemonSet" {
		repls = [][2]int{{-1, -1}}
	}
	statuses := []int{0, 1, 2, 3, 4}
	if k.Class == "DaemonSet" && th {
		statuses = []int{0, 1, 2, 3, 4, 5}
	}
	type b2 [2]bool
	switch group {
	case "enter":
		// not in progress before the edit (plus, for non-Deployments, the marker already present on both sides)
		inprogs := []b2{{false, false}}
		if k.Class != "Deployment" {
			inprogs = append(inprogs, b2{true, true})
		}
		pauseds := []b2{{false, false}}
		strategies := make([]int, nStrategies(k))
		for i := range strategies {
			strategies[i] = i
		}
		if k.Class == "Deployment" {
			pauseds = []b2{{false, false}, {true, false}, {true, true}}
			strategies = []int{0, 1}
			if th {
				pauseds = append(pauseds, b2{false, true})
				strategies = []int{0, 1, 2}
			}
		}
		for _, lb := range []int{0} {
			for _, st := range strategies {
				for _, pz := range pauseds {
					for _, ip := range inprogs {
						for _, status := range statuses {
							for _, an := range anns {
								for _, rp := range repls {
									// the Deployment handler does not read the Deployment status: the quick tier crosses the
									// non-default statuses with the core of the other fields only
									if k.Class == "Deployment" && status != 0 && (an != 0 || pz != pauseds[0] || (!th && rp != repls[0])) {
										continue
									}
									// thorough: the readiness variants of the native / foreign StatefulSet (same unstructured code path as
									// the Advanced StatefulSet, which gets the full cross) are crossed with absent annotations only
									if th && (k.Class == "StatefulSet" || k.Class == "ForeignStatefulSetLike") && status >= 3 && an != 0 {
										continue
									}
									for _, rid := range rids {
										for _, t := range tmpls {
											f(Shape{Tmpl: t, RidOld: rid[0], RidNew: rid[1], ReplOld: rp[0], ReplNew: rp[1], Ann: an, InProgOld: ip[0], InProgNew: ip[1],
												Labels: lb, Status: status, Strategy: st, PausedOld: pz[0], PausedNew: pz[1]})
										}
									}
								}
							}
						}
					}
				}
			}
		}
	case "mid-release":
		// Deployment carrying the in-progressing marker (on both sides, or removed / added by the edit)
		inprogs := []b2{{true, true}, {true, false}}
		strategies := []int{0, 1, 3}
		repls := [][2]int{{3, 3}, {0, 0}}
		if th {
			inprogs = append(inprogs, b2{false, true})
			strategies = []int{0, 1, 2, 3, 4}
			repls = append(repls, [2]int{-1, -1})
		}
		for _, ip := range inprogs {
			for orig := 0; orig < 2; orig++ {
				for sa := 0; sa < len(stratAnnValues); sa++ {
					for _, st := range strategies {
						for _, pz := range []b2{{true, true}, {true, false}, {false, false}, {false, true}} {
							for _, rp := range repls {
								for _, rid := range rids {
									for _, t := range tmpls {
										f(Shape{Tmpl: t, RidOld: rid[0], RidNew: rid[1], ReplOld: rp[0], ReplNew: rp[1], InProgOld: ip[0], InProgNew: ip[1],
											Strategy: st, PausedOld: pz[0], PausedNew: pz[1], StratAnn: sa, OrigAnn: orig})
									}
								}
							}
						}
					}
				}
			}
		}
	case "unselected":
		// label shapes that do not select the object, subresource updates and creations; plus (selected) extra labels
		// next to the workload-type label and the marker removed by the edit
		for _, v := range []struct{ lb, op int }{{2, 0}, {3, 0}, {4, 0}, {0, 1}, {0, 2}, {1, 0}} {
			for _, ip := range []b2{{false, false}, {true, true}, {true, false}} {
				for _, pz := range []b2{{false, false}, {true, false}} {
					if k.Class != "Deployment" && pz[0] {
						continue
					}
					for st := 0; st < nStrategies(k); st++ {
						if k.Class == "Deployment" && st > 1 {
							continue
						}
						for _, rid := range [][2]string{{"", ""}, {"", "a"}} {
							for _, t := range []int{1, 0} {
								rp := 3
								if k.Class == "DaemonSet" {
									rp = -1
								}
								f(Shape{Tmpl: t, RidOld: rid[0], RidNew: rid[1], ReplOld: rp, ReplNew: rp, InProgOld: ip[0], InProgNew: ip[1], Labels: v.lb, Op: v.op,
									Strategy: st, PausedOld: pz[0], PausedNew: pz[1]})
							}
						}
					}
				}
			}
		}
	}
}

func chunks(th bool) []chunk {
	nRo, nRS := quickRolloutSets, quickRSSets
	if th {
		nRo, nRS = len(rolloutSets), len(rsSets)
	}
	var out []chunk
	for i := range kinds {
		k := &kinds[i]
		for ro := 0; ro < nRo; ro++ {
			// the three StatefulSet-like kinds share one (unstructured) code path: the quick tier runs the full Rollout-set
			// alphabet on the Advanced StatefulSet and a core of it on the other two
			if k.Class == "StatefulSet" || k.Class == "ForeignStatefulSetLike" {
				if name := rolloutSets[ro].Name; (!th && !quickCoreRolloutSets[name]) || (th && !quickCoreRolloutSets[name] && !thoroughCoreRolloutSets[name]) {
					continue
				}
			}
			if k.Class == "Deployment" {
				for rs := 0; rs < nRS; rs++ {
					// Rollout sets beyond the quick alphabet are combined with the two decisive ReplicaSet sets only
					if ro >= quickRolloutSets && rs != 0 && rs != 2 {
						continue
					}
					out = append(out, chunk{k, ro, rs, "enter"})
				}
			} else {
				out = append(out, chunk{k, ro, 0, "enter"})
			}
		}
	}
	k := kindByClass("Deployment")
	for _, name := range []string{"none", "matching", "matching+traffic", "matching-bluegreen", "disabled", "other-name,matching+traffic"} {
		for _, rs := range []int{0, 2} {
			if !th && rs == 2 && name != "matching+traffic" {
				continue
			}
			out = append(out, chunk{k, rolloutSetIndex(name), rs, "mid-release"})
		}
	}
	for i := range kinds {
		for _, name := range []string{"none", "matching", "matching+traffic"} {
			out = append(out, chunk{&kinds[i], rolloutSetIndex(name), 0, "unselected"})
		}
	}
	return out
}

func runChunk(r *lib.Report, c chunk, th bool) *chunkResult {
	cr := &chunkResult{first: map[string]*lib.Violation{}, count: map[string]int{}}
	rollouts := rolloutSets[c.ro].Make(c.k)
	var rss []*apps.ReplicaSet
	if c.k.Class == "Deployment" {
		rss = rsSets[c.rs].Make()
	}
	e := newEnv(rollouts, rss)
	var n int64
	shapes(c.k, c.group, th, func(s Shape) {
		sc := s
		in := makeInput(c.k, &sc, c.ro, c.rs, c.group, rollouts, rss)
		in.FullChain = th
		var res result
		if p := lib.Catch(func() { res = evaluate(e, c.k, in, nil) }); p != nil {
			res.Findings = append(res.Findings, finding{"C08/harness-panic/" + p.Site, "the check itself panicked: " + p.Value + "\n" + p.Stack})
		}
		n++
		r.Outcome(c.k.Class + "/" + res.Expect.Class + "/" + res.Observed)
		if res.Mutated {
			r.Nontrivial(in.Desc)
			if cr.sample == nil {
				cr.sample = in
			}
		}
		for _, f := range res.Findings {
			cr.count[f.Sig]++
			if _, ok := cr.first[f.Sig]; !ok {
				cr.first[f.Sig] = &lib.Violation{Signature: f.Sig, Detail: f.Detail + "\ncase: " + in.Desc, Replay: in}
				cr.order = append(cr.order, f.Sig)
			}
		}
	})
	r.AddEval(n)
	return cr
}

// Run enumerates the whole domain.
func Run(r *lib.Report) {
	th := r.Thorough()
	r.Rule = "every (old object, new object, Rollout set[, ReplicaSet set]) in the product of per-field alphabets - kind {Deployment, CloneSet, Advanced DaemonSet, " +
		"native StatefulSet, Advanced StatefulSet, a foreign StatefulSet-like kind} x template edit {none, image, hash-label only, ...} x rollout-id (old,new) x replicas (old,new) incl. absent/0 " +
		"x annotations {absent, {}, user keys} x in-progressing marker (old,new) x strategy block {absent, {}, RollingUpdate, Recreate/OnDelete, paused, no rollingUpdate block} x " +
		"status {single revision all ready, several revisions ready!=updated, absent, single revision one pod unready, several revisions ready==updated} (readiness varies independently of the revision counts) x (Deployment) paused (old,new), deployment-strategy annotation {none, partition, canary, garbage}, original-strategy annotation, " +
		"ReplicaSets {one, none, two active, scaled-down, foreign owner} x Rollout set {none, matching, with traffic routing, blue-green, other name/kind/group/namespace, disabled, deleting, empty strategy, pairs} " +
		"plus unselected label shapes, status-subresource updates and creations - is sent as a real JSON admission request through the handler chain of the shipped webhook configuration; " +
		"the returned JSON patch is applied to the submitted bytes. The domain is the union of three sub-products per kind: 'enter' (no marker before the edit / marker on both sides), " +
		"'mid-release' (Deployment carrying the in-progressing marker x strategy annotations x strategy edits) and 'unselected' (label shapes, subresource, CREATE, extra labels, marker removed). " +
		"Quick tier: smaller alphabets, 11 of 19 Rollout sets, 5 of 6 ReplicaSet sets, native/foreign StatefulSet on a 5-set core (same unstructured code path as the Advanced StatefulSet, " +
		"which gets all), and the second webhook of the chain (unified handler, a no-op for Deployment/CloneSet/DaemonSet) is only called for objects the first one patched; thorough: everything, full chain. " +
		"non-trivial = the admitted object differs from the submitted one; distinct = distinct (kind, shape, store) tuples"
	r.Assumptions = []string{
		"selected by the webhook = the NEW object carries the label rollouts.kruise.io/workload-type (objectSelector of the shipped configuration); old and new objects carry the same labels",
		"release change: new rollout-id non-empty and different from the old one; or new rollout-id empty and pod templates differ ignoring the pod-template-hash label. Removing a rollout-id without touching the template is not decided by the text (either outcome accepted)",
		"'with running replicas' is read as part of the iff: spec.replicas == 0 (absent = default 1), or a Deployment without an owned active ReplicaSet, is expected to be admitted unchanged; a DaemonSet with status.desiredNumberScheduled == 0 or absent status is undecided",
		"single revision: Deployment = exactly one owned, selector-matching, non-deleting ReplicaSet with replicas > 0; CloneSet/StatefulSet status.replicas == status.updatedReplicas; DaemonSet desiredNumberScheduled == updatedNumberScheduled",
		"active matching Rollout: same namespace, workloadRef group/kind/name equal (version ignored), no deletionTimestamp, status.phase != Disabled. Undecided (frame condition and no-crash only): Rollout with neither canary nor blueGreen, spec.disabled with phase not yet Disabled, OnDelete update strategies, blue-green Deployments in progress, an in-progress Deployment without active Rollout",
		"held back: Deployment spec.paused; CloneSet partition '100%' or >= replicas or paused; DaemonSet / StatefulSet rollingUpdate.partition >= scheduled pods / replicas, or rollingUpdate.paused",
		"frame allow-list: in-progressing annotation; Deployment spec.paused, spec.strategy, deployment-strategy annotation, stable-revision label; CloneSet spec.updateStrategy.partition; DaemonSet/StatefulSet spec.updateStrategy.rollingUpdate.partition (StatefulSet: type '' == RollingUpdate). Absent map == empty map",
		"Deployment and native StatefulSet requests carry the API server's typed serialisation; custom resources arrive as raw JSON in which absent blocks stay absent (no CRD schema defaults assumed); dryRun is always set; ReplicaSets in the store always have spec.replicas",
	}
	r.TrustedBase = []string{"controller-runtime fake client (read-only use)", "github.com/evanphx/json-patch (the library the API server applies webhook patches with)"}
	cs := chunks(th)
	results := make([]*chunkResult, len(cs))
	// largest chunks first (better balance over the cores); results are reported in chunk order below
	sizes, order := make([]int, len(cs)), make([]int, len(cs))
	for i, c := range cs {
		order[i] = i
		shapes(c.k, c.group, th, func(Shape) { sizes[i]++ })
		if c.k.Class == "Deployment" {
			sizes[i] *= 2 // typed canonicalisation + ReplicaSet listing make these cases about twice as expensive
		}
	}
	sort.SliceStable(order, func(a, b int) bool { return sizes[order[a]] > sizes[order[b]] })
	defer debug.SetGCPercent(debug.SetGCPercent(400)) // allocation-heavy JSON work; the live heap stays small
	lib.ParallelFor(len(cs), func(i int) { results[order[i]] = runChunk(r, cs[order[i]], th) })
	// deterministic reporting: chunk order, then enumeration order inside the chunk
	samples := 0
	for _, cr := range results {
		for _, sig := range cr.order {
			v := cr.first[sig]
			r.Violate(v.Signature, v.Detail, v.Replay)
			for j := 1; j < cr.count[sig]; j++ {
				r.Violate(v.Signature, "", nil)
			}
		}
		if cr.sample != nil && samples < 6 {
			samples++
			r.Sample(M{"case": cr.sample.Desc, "object": cr.sample.New})
		}
	}
	r.Extra["chunks"] = len(cs)
	r.Extra["rollout_sets"] = func() []string {
		n := quickRolloutSets
		if th {
			n = len(rolloutSets)
		}
		var s []string
		for i := 0; i < n; i++ {
			s = append(s, rolloutSets[i].Name)
		}
		sort.Strings(s)
		return s
	}()
}

// Replay re-executes one recorded case (the Input stored with a violation), printing every step.
func Replay(r *lib.Report, raw json.RawMessage) {
	in := &Input{}
	if err := json.Unmarshal(raw, in); err != nil {
		fmt.Println("HARNESS-ERROR cannot parse replay record:", err)
		return
	}
	k := kindByClass(in.Class)
	if k == nil {
		fmt.Println("HARNESS-ERROR unknown class", in.Class)
		return
	}
	fmt.Println("case:", in.Desc)
	fmt.Printf("store: webhook configuration + %d Rollout(s) + %d ReplicaSet(s)\n", len(in.Rollouts), len(in.ReplicaSets))
	for _, ro := range in.Rollouts {
		fmt.Println("  rollout:", lib.J(ro))
	}
	for _, rs := range in.ReplicaSets {
		fmt.Println("  replicaset:", lib.J(rs))
	}
	e := newEnv(in.Rollouts, in.ReplicaSets)
	res := evaluate(e, k, in, func(format string, a ...interface{}) { fmt.Printf("  "+format+"\n", a...) })
	r.AddEval(1)
	if len(res.Findings) == 0 {
		fmt.Println("verdict: HOLDS (expected", res.Expect.Class+", observed", res.Observed+")")
		return
	}
	for _, f := range res.Findings {
		fmt.Println("verdict: VIOLATION", f.Sig)
		r.Violate(f.Sig, f.Detail+"\ncase: "+in.Desc, in)
	}
}
