// Package c09v is stage 1 of property C09 (E3, small scope): Rollout specs are enumerated exhaustively from field
// alphabets at the JSON level, passed through CRD defaulting / schema validation (the real generated CRD, interpreted
// by schema.go) and sent as admission requests (CREATE, and UPDATE against an old object in every
// phase) through the repository's real validating handler, for v1beta1 and v1alpha1. On the accepted set the
// structural promises the controllers rely on are checked against a small reference reading of the same JSON.
package c09v

import (
	"encoding/json"
	"fmt"
	"hash/fnv"
	"os"
	"runtime"
	"runtime/debug"
	"sort"
	"strconv"
	"strings"
	"sync"
	"sync/atomic"

	"verifharness/lib"
)

// coords are the generator coordinates of one Rollout; an object is a function of them.
type coords struct {
	ver      string
	steps    interface{} // nil = key absent, L = list
	kind     int         // v1beta1: g*, v1alpha1: a*
	wref     interface{}
	tr       interface{}
	ann      interface{} // v1alpha1 rolling-style annotation
	paused   bool
	disabled bool
}

func (c coords) obj(phase string) J {
	var st J
	if c.ver == "v1beta1" {
		st = betaStrategy(c.kind, c.steps, c.tr)
	} else {
		st = alphaStrategy(c.kind, c.steps, c.tr)
	}
	if c.paused {
		st["paused"] = true
	}
	o := mkObj(c.ver, reqName, reqNS, c.ann, c.wref, st, phase)
	if c.disabled {
		o["spec"].(J)["disabled"] = true
	}
	return o
}

type domain struct {
	name  string
	dims  []int
	build func(ix []int) *Case
}

func (d *domain) size() int {
	n := 1
	for _, k := range d.dims {
		n *= k
	}
	return n
}

func decode(i int, dims []int, ix []int) {
	for k := len(dims) - 1; k >= 0; k-- {
		ix[k] = i % dims[k]
		i /= dims[k]
	}
}

func pick(a []named, names ...string) []named {
	var out []named
	for _, n := range names {
		ok := false
		for _, e := range a {
			if e.name == n {
				out = append(out, e)
				ok = true
			}
		}
		if !ok {
			panic("c09v: no alphabet element " + n)
		}
	}
	return out
}

func listNote(sa *stepAlphabet, absent bool, idx []int) string {
	if absent {
		return "steps:absent"
	}
	parts := make([]string, len(idx))
	for i, k := range idx {
		r, t, m, p := sa.split(k)
		parts[i] = fmt.Sprintf("{r=%s t=%s m=%s p=%s}", sa.r[r].name, sa.t[t].name, sa.m[m].name, sa.p[p].name)
	}
	return "steps:[" + strings.Join(parts, " ") + "]"
}

// bigLists: the step-list space of the CREATE step domain.
func bigLists(sa *stepAlphabet, thorough bool) listSpace {
	all := sa.sub(nil, nil, nil, nil)
	ls := listSpace{{n: 0}, {absent: true}, {n: 1, alpha: all}}
	none, nilp := []string{"none"}, []string{"nil"}
	if sa.ver == "v1beta1" {
		if thorough {
			ls = append(ls,
				listPart{n: 2, alpha: sa.sub(nil, nil, nil, nilp)},
				listPart{n: 3, alpha: sa.sub(nil, nil, none, nilp)},
				listPart{n: 3, alpha: sa.sub(nil, []string{"nil"}, []string{"header", "path+query"}, nilp)})
		} else {
			ls = append(ls,
				listPart{n: 2, alpha: sa.sub(nil, nil, []string{"none", "header"}, nilp)},
				listPart{n: 3, alpha: sa.sub(nil, []string{"nil", "50%"}, none, nilp)})
		}
	} else {
		if thorough {
			ls = append(ls,
				listPart{n: 2, alpha: sa.sub(nil, nil, nil, nilp)},
				listPart{n: 3, alpha: sa.sub(nil, []string{"nil", "20", "50", "150"}, none, nilp)})
		} else {
			ls = append(ls,
				listPart{n: 2, alpha: sa.sub(nil, nil, none, nilp)},
				listPart{n: 3, alpha: sa.sub([]string{"nil", "1", "5", "20%", "100%"}, []string{"nil", "20", "50"}, none, nilp)})
		}
	}
	return ls
}

// smallLists: a handful of representative lists for the domains whose subject is not the steps.
func smallLists(sa *stepAlphabet) listSpace {
	a := sa.byName("20%", "nil", "none", "nil")
	c := sa.byName("100%", "nil", "none", "nil")
	return listSpace{{n: 1, alpha: []int{a}}, {n: 2, alpha: []int{a, c}}, {n: 0}, {absent: true}}
}

// letters of the old objects and of the "steps" change group of the UPDATE domain.
func letters(sa *stepAlphabet, thorough bool) (A, B, C int, mid []int) {
	A = sa.byName("20%", "nil", "none", "nil")
	if sa.ver == "v1beta1" {
		B = sa.byName("20%", "50%", "none", "nil")
	} else {
		B = sa.byName("nil", "50", "none", "nil")
	}
	C = sa.byName("100%", "nil", "none", "nil")
	mid = []int{A, B, C, sa.byName("20%", "nil", "none", "5")}
	if thorough {
		mid = append(mid, sa.byName("5", "nil", "none", "nil"), sa.byName("0%", "nil", "none", "nil"))
		if sa.ver == "v1alpha1" {
			mid = append(mid, sa.byName("5", "20", "none", "nil"))
		}
	}
	return
}

type change struct {
	group string
	note  string
	apply func(c *coords)
	store func(c coords) []J // extra objects in the store (besides the stored old object)
}

func buildDomains(ver string, thorough bool, accept func(*Case) bool) []*domain {
	sa := newStepAlphabet(ver, thorough)
	W := workloadRefs(ver)
	T := trafficRoutings()
	AN := styleAnnotations()
	var doms []*domain

	// ---- CREATE / steps: every step list x strategy kind x workload class (no traffic routing / with ingress) ----
	big := bigLists(sa, thorough)
	w3 := pick(W, "Deployment", "CloneSet", "DaemonSet")
	if ver == "v1beta1" {
		kinds := []int{gPartition, gCanary, gBlueGreen}
		doms = append(doms, &domain{
			name: ver + "/CREATE/steps",
			dims: []int{big.size(), len(kinds), len(w3)},
			build: func(ix []int) *Case {
				absent, idx := big.at(ix[0])
				c := coords{ver: ver, steps: sa.stepsValue(absent, idx), kind: kinds[ix[1]], wref: w3[ix[2]].v}
				wn := w3[ix[2]].name
				return &Case{Ver: ver, Op: "CREATE", Object: c.obj(""), noteFn: func() string { return fmt.Sprintf("%s %s ref=%s", listNote(sa, absent, idx), gNames[c.kind], wn) }}
			}})
	} else {
		t2 := pick(T, "absent", "ingress")
		AN := AN
		if !thorough {
			AN = pick(AN, "absent", "partition", "canary", "garbage")
		}
		doms = append(doms, &domain{
			name: ver + "/CREATE/steps",
			dims: []int{big.size(), len(AN), len(w3), len(t2)},
			build: func(ix []int) *Case {
				absent, idx := big.at(ix[0])
				c := coords{ver: ver, steps: sa.stepsValue(absent, idx), kind: aCanary, ann: AN[ix[1]].v, wref: w3[ix[2]].v, tr: t2[ix[3]].v}
				an, wn, tn := AN[ix[1]].name, w3[ix[2]].name, t2[ix[3]].name
				return &Case{Ver: ver, Op: "CREATE", Object: c.obj(""), noteFn: func() string {
					return fmt.Sprintf("%s style-annotation=%s ref=%s tr=%s", listNote(sa, absent, idx), an, wn, tn)
				}}
			}})
	}

	// ---- CREATE / shape: few step lists x every strategy kind x every workloadRef x every trafficRoutings x store ----
	small := smallLists(sa)
	nKinds := nG
	an3 := pick(AN, "absent", "partition", "garbage")
	if ver == "v1alpha1" {
		nKinds = nA
	}
	shapeDims := []int{small.size(), nKinds, len(W), len(T), nK}
	if ver == "v1alpha1" {
		shapeDims = append(shapeDims, len(an3))
	}
	doms = append(doms, &domain{
		name: ver + "/CREATE/shape",
		dims: shapeDims,
		build: func(ix []int) *Case {
			absent, idx := small.at(ix[0])
			c := coords{ver: ver, steps: sa.stepsValue(absent, idx), kind: ix[1], wref: W[ix[2]].v, tr: T[ix[3]].v}
			kn := ""
			if ver == "v1alpha1" {
				c.ann = an3[ix[5]].v
				kn = aNames[c.kind] + " style-annotation=" + an3[ix[5]].name
			} else {
				kn = gNames[c.kind]
			}
			wn, tn, sn := W[ix[2]].name, T[ix[3]].name, kNames[ix[4]]
			return &Case{Ver: ver, Op: "CREATE", Object: c.obj(""), Store: others(ver, ix[4], c.wref),
				noteFn: func() string {
					return fmt.Sprintf("%s %s ref=%s tr=%s store=%s", listNote(sa, absent, idx), kn, wn, tn, sn)
				}}
		}})

	// ---- UPDATE: old object (accepted as CREATE) in every phase; new = old with one field group replaced ----
	A, B, C, mid := letters(sa, thorough)
	oldLists := [][]int{{A}, {A, B}, {A, B, C}}
	wOld := pick(W, "Deployment", "CloneSet", "StatefulSet", "AdvancedStatefulSet", "DaemonSet")
	tOld := pick(T, "absent", "ingress", "gateway", "custom")
	var olds []coords
	var oldNotes []string
	rejectedOld := 0
	addOld := func(c coords, note string) {
		if accept(&Case{Ver: ver, Op: "CREATE", Object: c.obj(""), Note: "old-object candidate: " + note}) {
			olds = append(olds, c)
			oldNotes = append(oldNotes, note)
		} else {
			rejectedOld++
		}
	}
	for _, l := range oldLists {
		for _, w := range wOld {
			for _, t := range tOld {
				if ver == "v1beta1" {
					for _, g := range []int{gPartition, gCanary, gBlueGreen} {
						addOld(coords{ver: ver, steps: sa.stepsValue(false, l), kind: g, wref: w.v, tr: t.v},
							fmt.Sprintf("%s %s ref=%s tr=%s", listNote(sa, false, l), gNames[g], w.name, t.name))
					}
				} else {
					for _, an := range pick(AN, "absent", "partition", "canary") {
						addOld(coords{ver: ver, steps: sa.stepsValue(false, l), kind: aCanary, wref: w.v, tr: t.v, ann: an.v},
							fmt.Sprintf("%s style-annotation=%s ref=%s tr=%s", listNote(sa, false, l), an.name, w.name, t.name))
					}
				}
			}
		}
	}
	var changes []change
	for _, w := range W {
		w := w
		changes = append(changes, change{group: "workloadRef", note: "workloadRef:=" + w.name, apply: func(c *coords) { c.wref = w.v }})
		changes = append(changes, change{group: "workloadRef", note: "workloadRef:=" + w.name + " (owned by another live Rollout)", apply: func(c *coords) { c.wref = w.v },
			store: func(c coords) []J { return others(ver, kSameRef, c.wref) }})
	}
	for _, t := range T {
		t := t
		changes = append(changes, change{group: "trafficRoutings", note: "trafficRoutings:=" + t.name, apply: func(c *coords) { c.tr = t.v }})
	}
	for k := 0; k < nKinds; k++ {
		k := k
		n := ""
		if ver == "v1beta1" {
			n = gNames[k]
		} else {
			n = aNames[k]
		}
		changes = append(changes, change{group: "strategy", note: "strategy:=" + n, apply: func(c *coords) { c.kind = k }})
	}
	if ver == "v1alpha1" {
		for _, an := range AN {
			an := an
			changes = append(changes, change{group: "style-annotation", note: "style-annotation:=" + an.name, apply: func(c *coords) { c.ann = an.v }})
		}
	}
	midLists := listSpace{{absent: true}, {n: 0}, {n: 1, alpha: mid}, {n: 2, alpha: mid}, {n: 3, alpha: mid}}
	for i := 0; i < midLists.size(); i++ {
		absent, idx := midLists.at(i)
		changes = append(changes, change{group: "steps", note: listNote(sa, absent, idx), apply: func(c *coords) { c.steps = sa.stepsValue(absent, idx) }})
	}
	changes = append(changes,
		change{group: "misc", note: "paused:=true", apply: func(c *coords) { c.paused = true }},
		change{group: "misc", note: "disabled:=true", apply: func(c *coords) { c.disabled = true }},
		change{group: "misc", note: "stored object missing (deleted concurrently)", apply: func(c *coords) {}, store: func(coords) []J { return nil }},
	)
	doms = append(doms, &domain{
		name: ver + "/UPDATE",
		dims: []int{len(changes), len(olds), len(phases)},
		build: func(ix []int) *Case {
			ch, old, phase := changes[ix[0]], olds[ix[1]], phases[ix[2]]
			nc := old
			ch.apply(&nc)
			oldObj := old.obj(phase)
			store := []J{clone(oldObj).(J)}
			if ch.store != nil {
				extra := ch.store(nc)
				if extra == nil {
					store = nil
				} else {
					store = append(store, extra...)
				}
			}
			on := oldNotes[ix[1]]
			return &Case{Ver: ver, Op: "UPDATE", Object: nc.obj(phase), Old: oldObj, Store: store,
				noteFn: func() string { return fmt.Sprintf("old{%s} phase=%q change{%s}", on, phase, ch.note) }}
		}})
	_ = rejectedOld
	return doms
}

type witness struct {
	seq    int64
	detail string
	c      *Case
	count  int64
}

func Run(r *lib.Report) {
	if _, err := loadSchemas(); err != nil {
		fmt.Fprintln(os.Stderr, "HARNESS-ERROR cannot load the Rollout CRD schema:", err)
		os.Exit(2)
	}
	r.Rule = "inputs are admission requests {version, operation, object, old object, other Rollouts in the store}; objects are composed at the JSON level as products of per-field alphabets " +
		"(domains: CREATE/steps = every step list of length 0..3 x strategy kind x workload class; CREATE/shape = strategy kind x every workloadRef x every trafficRoutings x every store configuration; " +
		"UPDATE = every accepted old object x 7 phases x every single-field-group replacement); each object passes the defaulting and validation of the real CRD schema and then the real RolloutCreateUpdateHandler.Handle with a fake client; " +
		"non-trivial = distinct schema-admissible requests the handler decoded and decided"
	r.Assumptions = []string{
		"API reachability: an object the CRD schema (config/crd/bases/rollouts.kruise.io_rollouts.yaml; interpreted by checks/c09v/schema.go, which supports exactly the keywords used there and refuses any other) rejects never reaches the webhook; such requests are still sent but nothing is demanded of them",
		"the store holds the other Rollouts in the version of the request (the API server converts on read; conversion itself is C20)",
		"oldObject of an UPDATE equals the stored object (as the API server guarantees); old objects are taken from the set the handler accepts as CREATE",
		"steps non-empty: the strategy block in force (blueGreen if present, else canary) has >= 1 step",
		"replicas: every step says how many pods to release (v1alpha1: replicas, else weight%), the value parses as integer or N%, is >= 0 and a percentage is <= 100 (the handler's own, stricter, '> 0' is not demanded)",
		"non-decreasing: compared only between steps of the same type (integer with integer, percent with percent); 'adjacent' pairs and pairs separated by steps of the other type have separate signatures; mixed pairs are not compared (their order depends on the workload size)",
		"traffic: v1beta1 traffic parses as N% with 0 <= N <= 100; v1alpha1 weight is 0..100 (the handler's stricter '> 0' for canary is not demanded)",
		"one Rollout per workload: an accepted request implies that no other LIVE (not deleting, not disabled) Rollout of the same namespace and a different name refers to the same workload, where 'same workload' = same API group, kind and name (the controllers resolve the workload by group and kind only, see pkg/util/controller_finder.go verifyGroupKind); identical references and references that differ only in the version part of apiVersion have separate signatures; a deleting or disabled other Rollout allows either answer",
		"immutability: demanded only when the STORED object is Progressing or Terminating; a change is a difference of workloadRef, of the trafficRoutings list in force (absent == empty), of the number of steps in force, or of the EFFECTIVE rolling style (blueGreen / canary = extra workload for an apps Deployment / partition otherwise; v1alpha1: from the rolling-style annotation) — toggling the canary flag on a workload that is released by partition anyway is not demanded to be rejected",
		"helpers: v1alpha1 objects are converted with the real ConvertTo first; a failing conversion is C20's subject and only recorded",
	}
	r.TrustedBase = []string{"controller-runtime fake client and admission decoder", "the CRD schema interpreter in schema.go (type, required, properties, items, additionalProperties, default, enum, pattern, min/maxLength, maxItems, format int32/int64/date-time, int-or-string, list-type map/set)", "the 60-line reference reading of a Rollout in oracle.go"}

	old := debug.SetGCPercent(400)
	defer debug.SetGCPercent(old)

	// per-worker accumulators (no shared lock on the hot path), merged after each domain
	type acc struct {
		outcomes                                          map[string]int64
		antecedents                                       map[string]int64
		nontrivial                                        []uint64
		wit                                               map[string]*witness
		accepted, rejected, inadmissible, panics, helpers int64
		samples                                           map[string]interface{}
		sampleSeq                                         map[string]int64
		err                                               error
	}
	newAcc := func() *acc {
		return &acc{outcomes: map[string]int64{}, antecedents: map[string]int64{}, wit: map[string]*witness{}, samples: map[string]interface{}{}, sampleSeq: map[string]int64{}}
	}
	total := newAcc()
	domainStats := map[string]interface{}{}
	var seqBase int64

	record := func(a *acc, dom string, seq int64, c *Case, res *result) {
		adm := ""
		if !res.admissible {
			adm = "schema-inadmissible:"
			a.inadmissible++
		}
		short := res.class
		if strings.HasPrefix(short, "rejected:") {
			short = "rejected"
		}
		a.outcomes[c.Ver+"/"+c.Op+"/"+adm+short]++
		if res.admissible {
			switch {
			case res.class == "panic":
				a.panics++
			case res.accepted:
				a.accepted++
				if res.helpers {
					a.helpers++
				}
			default:
				a.rejected++
			}
			for _, rule := range res.rules {
				a.outcomes[c.Ver+"/rejected-by:"+rule]++
			}
			if res.class != "rejected:decode-error" {
				h := fnv.New64a()
				_, _ = h.Write([]byte(c.Ver + c.Op + res.sent))
				_, _ = h.Write(res.context)
				a.nontrivial = append(a.nontrivial, h.Sum64())
			}
			k := dom + "/" + short
			if s, ok := a.sampleSeq[k]; !ok || seq < s {
				a.sampleSeq[k] = seq
				a.samples[k] = map[string]interface{}{"domain": dom, "note": c.note(), "object": json.RawMessage(res.sent), "outcome": res.class}
			}
			accS := "rejected"
			if res.accepted {
				accS = "ACCEPTED"
			}
			seen := map[string]bool{}
			for _, f := range res.facts {
				k := c.Ver + "/" + c.Op + "/" + f + " -> " + accS
				if !seen[k] {
					seen[k] = true
					a.antecedents[k]++
				}
			}
		}
		seenSig := map[string]bool{}
		for _, v := range res.verdicts {
			if seenSig[v.sig] {
				continue
			}
			seenSig[v.sig] = true
			w := a.wit[v.sig]
			if w == nil {
				c.note()
				w = &witness{seq: seq, detail: v.detail, c: c}
				a.wit[v.sig] = w
			} else if seq < w.seq {
				c.note()
				w.seq, w.detail, w.c = seq, v.detail, c
			}
			w.count++
		}
	}
	merge := func(dst, src *acc) {
		for k, v := range src.outcomes {
			dst.outcomes[k] += v
		}
		for k, v := range src.antecedents {
			dst.antecedents[k] += v
		}
		dst.nontrivial = append(dst.nontrivial, src.nontrivial...)
		for sig, w := range src.wit {
			d := dst.wit[sig]
			if d == nil {
				dst.wit[sig] = w
				continue
			}
			if w.seq < d.seq {
				d.seq, d.detail, d.c = w.seq, w.detail, w.c
			}
			d.count += w.count
		}
		for k, s := range src.sampleSeq {
			if ds, ok := dst.sampleSeq[k]; !ok || s < ds {
				dst.sampleSeq[k] = s
				dst.samples[k] = src.samples[k]
			}
		}
		dst.accepted += src.accepted
		dst.rejected += src.rejected
		dst.inadmissible += src.inadmissible
		dst.panics += src.panics
		dst.helpers += src.helpers
		if dst.err == nil {
			dst.err = src.err
		}
	}

	for _, ver := range []string{"v1beta1", "v1alpha1"} {
		// old-object candidates are real cases too
		pre := newAcc()
		accept := func(c *Case) bool {
			res, err := evalCase(c, nil)
			if err != nil {
				pre.err = err
				return false
			}
			seqBase++
			record(pre, ver+"/CREATE/old-object-candidates", seqBase, c, res)
			return res.accepted && res.admissible
		}
		doms := buildDomains(ver, r.Thorough(), accept)
		r.AddEval(pre.accepted + pre.rejected + pre.inadmissible + pre.panics)
		domainStats[ver+"/CREATE/old-object-candidates"] = map[string]interface{}{"cases": pre.accepted + pre.rejected + pre.inadmissible + pre.panics, "accepted": pre.accepted, "rejected": pre.rejected}
		merge(total, pre)
		for _, d := range doms {
			d := d
			n := d.size()
			base := seqBase
			workers := runtime.NumCPU()
			accs := make([]*acc, workers)
			var next int64 = -1
			var wg sync.WaitGroup
			for w := 0; w < workers; w++ {
				a := newAcc()
				accs[w] = a
				wg.Add(1)
				go func() {
					defer wg.Done()
					ix := make([]int, len(d.dims))
					for {
						i := int(atomic.AddInt64(&next, 1))
						if i >= n || a.err != nil {
							return
						}
						decode(i, d.dims, ix)
						c := d.build(ix)
						res, err := evalCase(c, nil)
						if err != nil {
							a.err = fmt.Errorf("%s #%d (%s): %v", d.name, i, c.Note, err)
							return
						}
						record(a, d.name, base+int64(i)+1, c, res)
					}
				}()
			}
			wg.Wait()
			dom := newAcc()
			for _, a := range accs {
				merge(dom, a)
			}
			seqBase += int64(n)
			r.AddEval(int64(n))
			domainStats[d.name] = map[string]interface{}{"dims": d.dims, "cases": n, "accepted": dom.accepted, "rejected": dom.rejected, "panicked": dom.panics, "schema_inadmissible": dom.inadmissible}
			if dom.accepted == 0 {
				r.Warn("domain " + d.name + ": the handler accepted nothing, the oracles on the accepted set were vacuous there")
			}
			merge(total, dom)
		}
	}
	if total.err != nil {
		fmt.Fprintln(os.Stderr, "HARNESS-ERROR", total.err)
		os.Exit(2)
	}
	for k, n := range total.outcomes {
		for i := int64(0); i < n; i++ {
			r.Outcome(k)
		}
	}
	for _, h := range total.nontrivial {
		r.Nontrivial(strconv.FormatUint(h, 16))
	}
	{
		keys := make([]string, 0, len(total.samples))
		for k := range total.samples {
			keys = append(keys, k)
		}
		sort.Slice(keys, func(i, j int) bool { return total.sampleSeq[keys[i]] < total.sampleSeq[keys[j]] })
		// one accepted and one rejected sample per version first
		for _, want := range []string{"v1beta1/CREATE/steps/accepted", "v1beta1/CREATE/steps/rejected", "v1alpha1/CREATE/steps/accepted", "v1beta1/UPDATE/rejected", "v1alpha1/UPDATE/accepted", "v1alpha1/CREATE/shape/rejected"} {
			if s, ok := total.samples[want]; ok {
				r.Sample(s)
			}
		}
	}
	wit := total.wit
	antecedents := total.antecedents
	r.Extra["domains"] = domainStats
	r.Extra["accepted_objects_run_through_controller_helpers"] = total.helpers
	r.Extra["oracle_antecedents"] = antecedents
	// every protected change / conflict class must have been exercised, otherwise the oracle was vacuous
	for _, ver := range []string{"v1beta1", "v1alpha1"} {
		for _, f := range []string{"protected-change-workloadRef", "protected-change-trafficRoutings", "protected-change-style", "protected-change-stepCount"} {
			if antecedents[ver+"/UPDATE/"+f+" -> rejected"]+antecedents[ver+"/UPDATE/"+f+" -> ACCEPTED"] == 0 {
				r.Warn("no UPDATE with " + f + " was generated for " + ver)
			}
		}
		for _, f := range []string{"conflict-live-same-workloadRef", "conflict-live-same-workload-other-apiVersion-version", "conflict-with-deleting-or-disabled"} {
			if antecedents[ver+"/CREATE/"+f+" -> rejected"]+antecedents[ver+"/CREATE/"+f+" -> ACCEPTED"] == 0 {
				r.Warn("no CREATE with " + f + " was generated for " + ver)
			}
		}
	}
	sigs := make([]string, 0, len(wit))
	for s := range wit {
		sigs = append(sigs, s)
	}
	sort.Slice(sigs, func(i, j int) bool { return wit[sigs[i]].seq < wit[sigs[j]].seq })
	for _, s := range sigs {
		w := wit[s]
		r.Violate(s, w.detail+"\ngenerator: "+w.c.Note, w.c)
		for k := int64(1); k < w.count; k++ {
			r.Violate(s, "", nil)
		}
	}
}

// Replay re-executes one recorded request on the real handler, narrating every step.
func Replay(r *lib.Report, raw json.RawMessage) {
	c := &Case{}
	if err := json.Unmarshal(raw, c); err != nil {
		fmt.Fprintln(os.Stderr, "HARNESS-ERROR bad replay record:", err)
		os.Exit(2)
	}
	fmt.Printf("replaying: %s\n", c.note())
	res, err := evalCase(c, func(f string, a ...interface{}) { fmt.Printf(f+"\n", a...) })
	if err != nil {
		fmt.Fprintln(os.Stderr, "HARNESS-ERROR", err)
		os.Exit(2)
	}
	r.AddEval(1)
	if len(res.verdicts) == 0 {
		fmt.Println("  no oracle objects to this request")
	}
	for _, v := range res.verdicts {
		r.Violate(v.sig, v.detail, c)
	}
}
