package c09v

import (
	"encoding/json"
	"fmt"
	"strings"
)

// J / L are the JSON fragments the generator composes. Objects are generated at the JSON level (not from the Go
// types) so that "absent", "empty" and "present" blocks are different inputs, exactly as a user can write them.
type J = map[string]interface{}
type L = []interface{}

const (
	reqName = "rollout-demo"
	reqNS   = "ns1"
	group   = "rollouts.kruise.io"
	styleAn = "rollouts.kruise.io/rolling-style"
)

func clone(v interface{}) interface{} {
	switch x := v.(type) {
	case map[string]interface{}:
		o := make(map[string]interface{}, len(x))
		for k, e := range x {
			o[k] = clone(e)
		}
		return o
	case []interface{}:
		o := make([]interface{}, len(x))
		for i, e := range x {
			o[i] = clone(e)
		}
		return o
	default:
		return v
	}
}

// ---------- alphabets (simplest first) ----------

type named struct {
	name string
	v    interface{} // nil = key absent
}

func replicasAlpha(thorough bool) []named {
	a := []named{
		{"nil", nil}, {"1", 1}, {"5", 5}, {"20%", "20%"}, {"100%", "100%"}, {"0", 0}, {"0%", "0%"}, {"101%", "101%"}, {"abc", "abc"},
	}
	if thorough {
		a = append(a, named{"-1", -1})
	}
	return a
}

func trafficAlpha() []named {
	return []named{{"nil", nil}, {"50%", "50%"}, {"0%", "0%"}, {"100%", "100%"}, {"x", "x"}, {"150%", "150%"}}
}

func weightAlpha() []named {
	return []named{{"nil", nil}, {"20", 20}, {"50", 50}, {"100", 100}, {"0", 0}, {"150", 150}, {"-5", -5}}
}

func pauseAlpha() []named {
	return []named{{"nil", nil}, {"0", J{"duration": 0}}, {"5", J{"duration": 5}}}
}

func matchesAlpha(ver string) []named {
	hdr := L{J{"headers": L{J{"name": "user", "value": "demo"}}}}
	a := []named{{"none", nil}, {"header", hdr}}
	if ver == "v1beta1" {
		a = append(a, named{"path+query", L{J{"path": J{"value": "/v2"}, "queryParams": L{J{"name": "env", "value": "canary"}}}}})
	}
	return a
}

// stepAlphabet is the product of the per-field alphabets of one step. index = ((r*nT+t)*nM+m)*nP+p.
type stepAlphabet struct {
	ver           string
	r, t, m, p    []named
	nR, nT, nM, n int
}

func newStepAlphabet(ver string, thorough bool) *stepAlphabet {
	s := &stepAlphabet{ver: ver, r: replicasAlpha(thorough), m: matchesAlpha(ver), p: pauseAlpha()}
	if ver == "v1beta1" {
		s.t = trafficAlpha()
	} else {
		s.t = weightAlpha()
	}
	s.n = len(s.r) * len(s.t) * len(s.m) * len(s.p)
	return s
}

func (s *stepAlphabet) idx(r, t, m, p int) int {
	return ((r*len(s.t)+t)*len(s.m)+m)*len(s.p) + p
}

func (s *stepAlphabet) split(i int) (r, t, m, p int) {
	p = i % len(s.p)
	i /= len(s.p)
	m = i % len(s.m)
	i /= len(s.m)
	t = i % len(s.t)
	r = i / len(s.t)
	return
}

func (s *stepAlphabet) step(i int) J {
	r, t, m, p := s.split(i)
	o := J{}
	if v := s.r[r].v; v != nil {
		o["replicas"] = v
	}
	if v := s.t[t].v; v != nil {
		if s.ver == "v1beta1" {
			o["traffic"] = v
		} else {
			o["weight"] = v
		}
	}
	if v := s.m[m].v; v != nil {
		o["matches"] = clone(v)
	}
	if v := s.p[p].v; v != nil {
		o["pause"] = clone(v)
	}
	return o
}

func (s *stepAlphabet) byName(r, t, m, p string) int {
	find := func(a []named, n string) int {
		for i := range a {
			if a[i].name == n {
				return i
			}
		}
		panic("c09v: no alphabet element " + n)
	}
	return s.idx(find(s.r, r), find(s.t, t), find(s.m, m), find(s.p, p))
}

// sub returns the step indices of the sub-product selected by element names ("" list = all).
func (s *stepAlphabet) sub(rs, ts, ms, ps []string) []int {
	sel := func(a []named, names []string) []int {
		var out []int
		if names == nil {
			for i := range a {
				out = append(out, i)
			}
			return out
		}
		for _, n := range names {
			ok := false
			for i := range a {
				if a[i].name == n {
					out = append(out, i)
					ok = true
				}
			}
			if !ok {
				panic("c09v: no alphabet element " + n)
			}
		}
		return out
	}
	var out []int
	for _, r := range sel(s.r, rs) {
		for _, t := range sel(s.t, ts) {
			for _, m := range sel(s.m, ms) {
				for _, p := range sel(s.p, ps) {
					out = append(out, s.idx(r, t, m, p))
				}
			}
		}
	}
	return out
}

// listPart is "all step lists of length n over alpha" (or the single input "steps key absent").
type listPart struct {
	absent bool
	n      int
	alpha  []int
}

func (p listPart) size() int {
	if p.absent {
		return 1
	}
	s := 1
	for i := 0; i < p.n; i++ {
		s *= len(p.alpha)
	}
	return s
}

type listSpace []listPart

func (ls listSpace) size() int {
	t := 0
	for _, p := range ls {
		t += p.size()
	}
	return t
}

// at decodes the i-th list: (absent, step indices).
func (ls listSpace) at(i int) (bool, []int) {
	for _, p := range ls {
		sz := p.size()
		if i >= sz {
			i -= sz
			continue
		}
		if p.absent {
			return true, nil
		}
		out := make([]int, p.n)
		for k := p.n - 1; k >= 0; k-- {
			out[k] = p.alpha[i%len(p.alpha)]
			i /= len(p.alpha)
		}
		return false, out
	}
	panic("c09v: list index out of range")
}

func (s *stepAlphabet) stepsValue(absent bool, idx []int) interface{} {
	if absent {
		return nil
	}
	l := make(L, len(idx))
	for i, k := range idx {
		l[i] = s.step(k)
	}
	return l
}

// ---------- workload references ----------

func ref(apiVersion, kind, name string) J {
	return J{"apiVersion": apiVersion, "kind": kind, "name": name}
}

// workloadRefs: the supported kinds first, then empty fields, unsupported / foreign values. The two v1alpha1-only
// shapes (no workloadRef, no objectRef) are expressed by the markers below.
const (
	markNoWorkloadRef = "<no workloadRef>"
	markNoObjectRef   = "<no objectRef>"
)

func workloadRefs(ver string) []named {
	a := []named{
		{"Deployment", ref("apps/v1", "Deployment", "demo")},
		{"CloneSet", ref("apps.kruise.io/v1alpha1", "CloneSet", "demo")},
		{"DaemonSet", ref("apps.kruise.io/v1alpha1", "DaemonSet", "demo")},
		{"StatefulSet", ref("apps/v1", "StatefulSet", "demo")},
		{"AdvancedStatefulSet", ref("apps.kruise.io/v1beta1", "StatefulSet", "demo")},
		{"AdvancedStatefulSet-v1alpha1", ref("apps.kruise.io/v1alpha1", "StatefulSet", "demo")},
		{"Deployment-demo2", ref("apps/v1", "Deployment", "demo2")},
		{"Deployment-emptyName", ref("apps/v1", "Deployment", "")},
		{"Deployment-emptyAPIVersion", ref("", "Deployment", "demo")},
		{"emptyKind", ref("apps/v1", "", "demo")},
		{"allEmpty", ref("", "", "")},
		{"Job-unsupported", ref("batch/v1", "Job", "demo")},
		{"Deployment-apps/v1beta2", ref("apps/v1beta2", "Deployment", "demo")},
		{"ReplicaSet", ref("apps/v1", "ReplicaSet", "demo")},
		{"Deployment-foreignGroup", ref("foo/v1", "Deployment", "demo")},
	}
	if ver == "v1alpha1" {
		a = append(a, named{markNoWorkloadRef, markNoWorkloadRef}, named{markNoObjectRef, markNoObjectRef})
	}
	return a
}

func altVersion(apiVersion string) string {
	switch apiVersion {
	case "apps.kruise.io/v1alpha1":
		return "apps.kruise.io/v1beta1"
	case "apps.kruise.io/v1beta1":
		return "apps.kruise.io/v1alpha1"
	}
	g, v := "", apiVersion
	if i := strings.Index(apiVersion, "/"); i >= 0 {
		g, v = apiVersion[:i], apiVersion[i+1:]
	}
	nv := "v1"
	if v == "v1" {
		nv = "v1beta1"
	}
	if g == "" {
		return nv
	}
	return g + "/" + nv
}

// ---------- traffic routings ----------

func trafficRoutings() []named {
	ing := func(name string) J { return J{"name": name} }
	return []named{
		{"absent", nil},
		{"ingress", L{J{"service": "svc", "ingress": ing("ing")}}},
		{"gateway", L{J{"service": "svc", "gateway": J{"httpRouteName": "route"}}}},
		{"custom", L{J{"service": "svc", "customNetworkRefs": L{ref("networking.istio.io/v1alpha3", "VirtualService", "vs")}}}},
		{"empty-list", L{}},
		{"no-provider", L{J{"service": "svc"}}},
		{"empty-service", L{J{"service": "", "ingress": ing("ing")}}},
		{"negative-grace", L{J{"service": "svc", "gracePeriodSeconds": -1, "ingress": ing("ing")}}},
		{"ingress-empty-name", L{J{"service": "svc", "ingress": ing("")}}},
		{"gateway-no-route", L{J{"service": "svc", "gateway": J{}}}},
		{"custom-empty-list", L{J{"service": "svc", "customNetworkRefs": L{}}}},
		{"ingress+gateway-two-entries", L{J{"service": "svc", "ingress": ing("ing")}, J{"service": "svc2", "gateway": J{"httpRouteName": "route"}}}},
		{"ingress-twice", L{J{"service": "svc", "ingress": ing("ing")}, J{"service": "svc", "ingress": ing("ing")}}},
		{"ingress+gateway-one-entry", L{J{"service": "svc", "ingress": ing("ing"), "gateway": J{"httpRouteName": "route"}}}},
		// several providers in ONE entry (the controller drives all of them together), one of them incomplete
		{"ingress+gateway-no-route-one-entry", L{J{"service": "svc", "ingress": ing("ing"), "gateway": J{}}}},
		{"custom+gateway-no-route-one-entry", L{J{"service": "svc", "customNetworkRefs": L{ref("networking.istio.io/v1alpha3", "VirtualService", "vs")}, "gateway": J{}}}},
		{"gateway+ingress-empty-name-one-entry", L{J{"service": "svc", "gateway": J{"httpRouteName": "route"}, "ingress": ing("")}}},
		{"ingress-grace0", L{J{"service": "svc", "gracePeriodSeconds": 0, "ingress": ing("ing")}}},
		{"ingress-other", L{J{"service": "svc", "ingress": ing("ing2")}}},
	}
}

// ---------- strategies ----------

// v1beta1 strategy kinds.
const (
	gPartition = iota // canary block, enableExtraWorkloadForCanary absent
	gCanary           // canary block, enableExtraWorkloadForCanary true
	gBlueGreen
	gBoth
	gNeither
	gCanaryEmpty // "canary": {} (no steps key, nothing else)
	nG
)

var gNames = []string{"canary(partition)", "canary(enableExtraWorkloadForCanary)", "blueGreen", "both", "neither", "canary:{}"}

func block(steps, tr interface{}, extra bool) J {
	b := J{}
	if steps != nil {
		b["steps"] = clone(steps)
	}
	if tr != nil {
		b["trafficRoutings"] = clone(tr)
	}
	if extra {
		b["enableExtraWorkloadForCanary"] = true
	}
	return b
}

func betaStrategy(g int, steps, tr interface{}) J {
	switch g {
	case gPartition:
		return J{"canary": block(steps, tr, false)}
	case gCanary:
		return J{"canary": block(steps, tr, true)}
	case gBlueGreen:
		return J{"blueGreen": block(steps, tr, false)}
	case gBoth:
		return J{"canary": block(steps, tr, false), "blueGreen": block(steps, tr, false)}
	case gNeither:
		return J{}
	case gCanaryEmpty:
		return J{"canary": J{}}
	}
	panic("c09v: strategy kind")
}

// v1alpha1 strategy kinds.
const (
	aCanary = iota
	aNoCanary
	aCanaryEmpty
	nA
)

var aNames = []string{"canary", "no canary block", "canary:{}"}

func alphaStrategy(a int, steps, tr interface{}) J {
	switch a {
	case aCanary:
		return J{"canary": block(steps, tr, false)}
	case aNoCanary:
		return J{}
	case aCanaryEmpty:
		return J{"canary": J{}}
	}
	panic("c09v: strategy kind")
}

func styleAnnotations() []named {
	return []named{{"absent", nil}, {"partition", "partition"}, {"canary", "canary"}, {"Partition", "Partition"}, {"garbage", "garbage"}, {"empty", ""}}
}

// ---------- objects ----------

func mkObj(ver, name, ns string, styleAnn interface{}, wref interface{}, strategy J, phase string) J {
	meta := J{"name": name, "namespace": ns}
	if styleAnn != nil {
		meta["annotations"] = J{styleAn: styleAnn}
	}
	spec := J{"strategy": clone(strategy)}
	if ver == "v1beta1" {
		if wref != nil {
			spec["workloadRef"] = clone(wref)
		}
	} else {
		switch wref {
		case markNoObjectRef:
		case markNoWorkloadRef, nil:
			spec["objectRef"] = J{}
		default:
			spec["objectRef"] = J{"workloadRef": clone(wref)}
		}
	}
	o := J{"apiVersion": group + "/" + ver, "kind": "Rollout", "metadata": meta, "spec": spec}
	if phase != "" {
		o["status"] = status(ver, phase)
	}
	return o
}

// status: the v1beta1 schema requires currentStepIndex / currentStepState whenever a status block is present.
func status(ver, phase string) J {
	if ver == "v1beta1" {
		return J{"phase": phase, "currentStepIndex": 0, "currentStepState": ""}
	}
	return J{"phase": phase}
}

func simpleStrategy(ver string) J {
	return J{"canary": J{"steps": L{J{"replicas": "20%"}}}}
}

// store configurations: which other Rollouts exist when the request arrives.
const (
	kEmpty = iota
	kSameRef
	kDifferentRef
	kSameRefDeleting
	kSameRefDisabled
	kSameWorkloadOtherVersion
	kSameRefOtherNamespace
	kSelfExists
	kDifferentAndSame
	kDeletingAndDisabled
	nK
)

var kNames = []string{"empty", "other:same-ref", "other:different-ref", "other:same-ref-deleting", "other:same-ref-disabled",
	"other:same-workload-other-apiVersion-version", "other:same-ref-other-namespace", "same-name-exists", "others:different+same", "others:same-deleting+same-disabled"}

func others(ver string, k int, wref interface{}) []J {
	r, isRef := wref.(J)
	mk := func(name, ns string, w interface{}) J {
		return mkObj(ver, name, ns, nil, w, simpleStrategy(ver), "Healthy")
	}
	same := func(name string) J { return mk(name, reqNS, wref) }
	deleting := func(name string) J {
		o := same(name)
		o["metadata"].(J)["deletionTimestamp"] = "2023-11-14T22:13:20Z"
		o["metadata"].(J)["finalizers"] = L{"rollouts.kruise.io/rollout"}
		o["status"] = status(ver, "Terminating")
		return o
	}
	disabled := func(name string) J {
		o := same(name)
		o["spec"].(J)["disabled"] = true
		o["status"] = status(ver, "Disabled")
		return o
	}
	different := func(name string) J { return mk(name, reqNS, ref("apps/v1", "Deployment", "unrelated")) }
	switch k {
	case kEmpty:
		return nil
	case kSameRef:
		return []J{same("other-1")}
	case kDifferentRef:
		return []J{different("other-1")}
	case kSameRefDeleting:
		return []J{deleting("other-1")}
	case kSameRefDisabled:
		return []J{disabled("other-1")}
	case kSameWorkloadOtherVersion:
		if !isRef {
			return []J{same("other-1")}
		}
		w := clone(r).(J)
		w["apiVersion"] = altVersion(fmt.Sprint(r["apiVersion"]))
		return []J{mk("other-1", reqNS, w)}
	case kSameRefOtherNamespace:
		return []J{mk("other-1", "ns2", wref)}
	case kSelfExists:
		return []J{mk(reqName, reqNS, wref)}
	case kDifferentAndSame:
		return []J{different("other-1"), same("other-2")}
	case kDeletingAndDisabled:
		return []J{deleting("other-1"), disabled("other-2")}
	}
	panic("c09v: store kind")
}

var phases = []string{"", "Initial", "Healthy", "Progressing", "Terminating", "Disabled", "Disabling"}

// Case is one admission request with the content of the store at that moment. It is self-contained: Replay needs
// nothing else.
type Case struct {
	Ver    string `json:"ver"`
	Op     string `json:"op"`
	Object J      `json:"object"`
	Old    J      `json:"oldObject,omitempty"`
	Store  []J    `json:"store,omitempty"`
	Note   string `json:"note,omitempty"`

	noteFn func() string
}

// note renders (once) the generator coordinates of the case.
func (c *Case) note() string {
	if c.Note == "" && c.noteFn != nil {
		c.Note = c.noteFn()
	}
	return c.Note
}

func (c *Case) key() string {
	b, _ := json.Marshal(c)
	return string(b)
}
