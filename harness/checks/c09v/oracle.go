package c09v

import (
	"context"
	"encoding/json"
	"fmt"
	"sort"
	"strconv"
	"strings"

	rolloutapi "github.com/openkruise/rollouts/api"
	"github.com/openkruise/rollouts/api/v1alpha1"
	"github.com/openkruise/rollouts/api/v1beta1"
	"github.com/openkruise/rollouts/pkg/trafficrouting"
	"github.com/openkruise/rollouts/pkg/util"
	"github.com/openkruise/rollouts/pkg/webhook/rollout/validating"
	admissionv1 "k8s.io/api/admission/v1"
	corev1 "k8s.io/api/core/v1"
	netv1 "k8s.io/api/networking/v1"
	metav1 "k8s.io/apimachinery/pkg/apis/meta/v1"
	"k8s.io/apimachinery/pkg/apis/meta/v1/unstructured"
	"k8s.io/apimachinery/pkg/runtime"
	clientgoscheme "k8s.io/client-go/kubernetes/scheme"
	"sigs.k8s.io/controller-runtime/pkg/client"
	"sigs.k8s.io/controller-runtime/pkg/client/fake"
	"sigs.k8s.io/controller-runtime/pkg/webhook/admission"
	gatewayv1beta1 "sigs.k8s.io/gateway-api/apis/v1beta1"

	"verifharness/lib"
)

var (
	scheme  = runtime.NewScheme()
	decoder *admission.Decoder
)

func init() {
	_ = rolloutapi.AddToScheme(scheme)
	_ = clientgoscheme.AddToScheme(scheme)
	_ = gatewayv1beta1.AddToScheme(scheme)
	decoder, _ = admission.NewDecoder(scheme)
}

// ---------- the reference reading of a Rollout (own types, own parsing; no repository code) ----------

type oRef struct {
	APIVersion string `json:"apiVersion"`
	Kind       string `json:"kind"`
	Name       string `json:"name"`
}

func (r *oRef) group() string {
	if i := strings.Index(r.APIVersion, "/"); i >= 0 {
		return r.APIVersion[:i]
	}
	return ""
}

type oStep struct {
	Replicas json.RawMessage   `json:"replicas"`
	Traffic  *string           `json:"traffic"`
	Weight   *int64            `json:"weight"`
	Matches  []json.RawMessage `json:"matches"`
}

type oBlock struct {
	Steps           []oStep           `json:"steps"`
	TrafficRoutings []json.RawMessage `json:"trafficRoutings"`
	EnableExtra     bool              `json:"enableExtraWorkloadForCanary"`
}

type oObj struct {
	Metadata struct {
		Name              string            `json:"name"`
		Namespace         string            `json:"namespace"`
		Annotations       map[string]string `json:"annotations"`
		DeletionTimestamp *string           `json:"deletionTimestamp"`
	} `json:"metadata"`
	Spec struct {
		WorkloadRef *oRef `json:"workloadRef"`
		ObjectRef   *struct {
			WorkloadRef *oRef `json:"workloadRef"`
		} `json:"objectRef"`
		Strategy struct {
			Canary    *oBlock `json:"canary"`
			BlueGreen *oBlock `json:"blueGreen"`
		} `json:"strategy"`
		Disabled bool `json:"disabled"`
	} `json:"spec"`
	Status struct {
		Phase string `json:"phase"`
	} `json:"status"`
}

func (o *oObj) ref() *oRef {
	if o.Spec.WorkloadRef != nil {
		return o.Spec.WorkloadRef
	}
	if o.Spec.ObjectRef != nil {
		return o.Spec.ObjectRef.WorkloadRef
	}
	return nil
}

// block is the strategy block that is in force (blueGreen wins if both are present, as documented on
// RolloutStrategy.GetRollingStyle; the validator rejects "both" anyway).
func (o *oObj) block() *oBlock {
	if o.Spec.Strategy.BlueGreen != nil {
		return o.Spec.Strategy.BlueGreen
	}
	return o.Spec.Strategy.Canary
}

func isDeployment(r *oRef) bool { return r != nil && r.Kind == "Deployment" && r.group() == "apps" }

// effectiveStyle: how the workload is actually rolled. A style change that is none for the referenced workload
// (e.g. the canary flag on a CloneSet, which is released by partition anyway) is NOT demanded to be rejected.
func (o *oObj) effectiveStyle(ver string) string {
	if o.Spec.Strategy.BlueGreen != nil {
		return "bluegreen"
	}
	if ver == "v1alpha1" {
		if strings.EqualFold(o.Metadata.Annotations[styleAn], "partition") || !isDeployment(o.ref()) {
			return "partition"
		}
		return "canary"
	}
	if b := o.Spec.Strategy.Canary; b != nil && b.EnableExtra && isDeployment(o.ref()) {
		return "canary"
	}
	return "partition"
}

// parseAmount reads an int-or-percent: (value, isPercent, ok).
func parseAmount(raw json.RawMessage) (int64, bool, bool) {
	s := strings.TrimSpace(string(raw))
	if s == "" || s == "null" {
		return 0, false, false
	}
	if s[0] == '"' {
		var str string
		if json.Unmarshal(raw, &str) != nil || !strings.HasSuffix(str, "%") {
			return 0, true, false
		}
		digits := strings.TrimSuffix(str, "%")
		if digits == "" {
			return 0, true, false
		}
		for _, c := range digits {
			if c < '0' || c > '9' {
				return 0, true, false
			}
		}
		v, err := strconv.ParseInt(digits, 10, 64)
		return v, true, err == nil
	}
	v, err := strconv.ParseInt(s, 10, 64)
	return v, false, err == nil
}

func parsePercentString(s string) (int64, bool) {
	b, _ := json.Marshal(s)
	v, pct, ok := parseAmount(b)
	return v, ok && pct
}

// ---------- response classification ----------

var ruleTable = []struct{ sub, rule string }{
	{"WorkloadRef is required", "ref-required"},
	{"not supported for bluegreen style", "ref-unsupported-for-bluegreen"},
	{"WorkloadRef kind is not supported", "ref-unsupported"},
	{"cannot both be empty", "strategy-neither"},
	{"cannot both be set", "strategy-both"},
	{"Canary cannot be empty", "canary-absent"},
	{"Canary.Steps cannot be empty", "steps-empty"},
	{"weight and replicas cannot be empty", "weight-and-replicas-nil"},
	{"replicas cannot be empty", "replicas-nil"},
	{"replicas must be positive", "replicas-range"},
	{"must not greater than", "partition-limit-with-traffic"},
	{"traffic must be percentage", "traffic-range"},
	{"weight must be positive", "weight-range"},
	{"Steps.Weight must be a non decreasing", "weight-decreasing"},
	{"CanaryReplicas must be a non decreasing", "replicas-decreasing"},
	{"only support single TrafficRouting", "tr-multiple"},
	{"GracePeriodSeconds cannot be negative", "tr-negative-grace"},
	{"TrafficRouting.Service cannot be empty", "tr-empty-service"},
	{"TrafficRoutings are not set", "tr-no-provider"},
	{"Ingress.Ingress cannot be empty", "tr-ingress-name"},
	{"must set the name of HTTPRoute", "tr-gateway-name"},
	{"Rolling style must be", "style-annotation-value"},
	{"conflict with Rollout", "conflict"},
	{"'ObjectRef' field is immutable", "immutable-workloadRef"},
	{"TrafficRoutings' field is immutable", "immutable-trafficRoutings"},
	{"enableExtraWorkloadForCanary are immutable", "immutable-style"},
	{"'Rolling-Style' annotation is immutable", "immutable-style"},
	{"Amount of Rollout steps are immutable", "immutable-stepCount"},
	{"Internal error", "internal-error"},
}

func classify(resp *admission.Response) (accepted bool, class string, rules []string) {
	if resp.Allowed {
		return true, "accepted", nil
	}
	msg := ""
	code := int32(0)
	if resp.Result != nil {
		msg, code = resp.Result.Message, resp.Result.Code
	}
	seen := map[string]bool{}
	for _, e := range ruleTable {
		if strings.Contains(msg, e.sub) && !seen[e.rule] {
			// "replicas cannot be empty" is a substring of the v1alpha1 "weight and replicas cannot be empty ..."
			if e.rule == "replicas-nil" && seen["weight-and-replicas-nil"] {
				continue
			}
			if e.rule == "ref-unsupported" && seen["ref-unsupported-for-bluegreen"] {
				continue
			}
			seen[e.rule] = true
			rules = append(rules, e.rule)
		}
	}
	if len(rules) == 0 {
		if code == 400 {
			return false, "rejected:decode-error", []string{"decode-error"}
		}
		return false, fmt.Sprintf("rejected:other(code=%d)", code), []string{fmt.Sprintf("other(code=%d)", code)}
	}
	sort.Strings(rules)
	return false, "rejected:" + strings.Join(rules, "+"), rules
}

// ---------- one case ----------

type verdict struct {
	sig, detail string
}

type result struct {
	admissible bool
	schemaErrs []string
	accepted   bool
	class      string
	verdicts   []verdict
	facts      []string
	rules      []string
	helpers    bool
	context    []byte // old object + store as sent: together with the object, the identity of the request
	sent       string
}

func decodeTyped(ver string, raw []byte) (client.Object, error) {
	if ver == "v1alpha1" {
		o := &v1alpha1.Rollout{}
		return o, json.Unmarshal(raw, o)
	}
	o := &v1beta1.Rollout{}
	return o, json.Unmarshal(raw, o)
}

func trKey(b *oBlock) string {
	if b == nil || len(b.TrafficRoutings) == 0 {
		return "[]"
	}
	parts := make([]string, len(b.TrafficRoutings))
	for i, r := range b.TrafficRoutings {
		var v interface{}
		_ = json.Unmarshal(r, &v)
		parts[i] = lib.J(v) // canonical: encoding/json sorts map keys
	}
	return "[" + strings.Join(parts, ",") + "]"
}

func sameWorkload(a, b *oRef) (same, identical bool) {
	if a == nil || b == nil {
		return false, false
	}
	if a.Kind == "" || a.Name == "" {
		return false, false
	}
	if a.group() == b.group() && a.Kind == b.Kind && a.Name == b.Name {
		return true, a.APIVersion == b.APIVersion
	}
	return false, false
}

// evalCase sends the request through the real handler and applies every oracle. logf (may be nil) narrates.
func evalCase(c *Case, logf func(string, ...interface{})) (*result, error) {
	if logf == nil {
		logf = func(string, ...interface{}) {}
	}
	res := &result{}
	sent, serrs, err := admit(c.Ver, c.Object)
	if err != nil {
		return nil, fmt.Errorf("admit object: %v", err)
	}
	res.admissible, res.schemaErrs, res.sent = len(serrs) == 0, serrs, string(sent)
	logf("request %s %s/%s\n  object as the webhook receives it (CRD defaults applied): %s", c.Op, c.Ver, "Rollout", sent)
	if !res.admissible {
		logf("  NOT admissible by the CRD schema (%s): the API server would never deliver it; sent anyway, nothing is demanded", strings.Join(serrs, "; "))
	}
	var oldSent []byte
	if c.Old != nil {
		var oerrs []string
		oldSent, oerrs, err = admit(c.Ver, c.Old)
		if err != nil {
			return nil, fmt.Errorf("admit old object: %v", err)
		}
		if len(oerrs) > 0 {
			res.admissible = false
			res.schemaErrs = append(res.schemaErrs, oerrs...)
		}
		res.context = append(res.context, oldSent...)
		logf("  old object: %s", oldSent)
	}
	var objs []client.Object
	var storeParsed []*oObj
	for i, s := range c.Store {
		ssent, serrs2, err := admit(c.Ver, s)
		if err != nil {
			return nil, fmt.Errorf("admit store object %d: %v", i, err)
		}
		if len(serrs2) > 0 {
			// the request itself may be inadmissible and the "same ref" copies inherit that; nothing is demanded then
			res.admissible = false
			res.schemaErrs = append(res.schemaErrs, serrs2...)
		}
		t, err := decodeTyped(c.Ver, ssent)
		if err != nil {
			// cannot exist in a store
			res.admissible = false
			res.schemaErrs = append(res.schemaErrs, "store object does not decode: "+err.Error())
			continue
		}
		objs = append(objs, t)
		res.context = append(res.context, ssent...)
		p := &oObj{}
		_ = json.Unmarshal(ssent, p)
		storeParsed = append(storeParsed, p)
		logf("  store[%d]: %s", i, ssent)
	}
	cli := fake.NewClientBuilder().WithScheme(scheme).WithObjects(objs...).Build()
	h := &validating.RolloutCreateUpdateHandler{Client: cli, Decoder: decoder}
	req := admission.Request{AdmissionRequest: admissionv1.AdmissionRequest{
		UID:       "c09v",
		Kind:      metav1.GroupVersionKind{Group: group, Version: c.Ver, Kind: "Rollout"},
		Resource:  metav1.GroupVersionResource{Group: group, Version: c.Ver, Resource: "rollouts"},
		Name:      reqName,
		Namespace: reqNS,
		Operation: admissionv1.Operation(c.Op),
		Object:    runtime.RawExtension{Raw: sent},
	}}
	if oldSent != nil {
		req.OldObject = runtime.RawExtension{Raw: oldSent}
	}
	var resp admission.Response
	p := lib.Catch(func() { resp = h.Handle(context.TODO(), req) })
	add := func(sig, detail string) {
		if !res.admissible {
			logf("  (would be %s, but the input is not admissible by the CRD schema: not counted)", sig)
			return
		}
		res.verdicts = append(res.verdicts, verdict{sig, detail})
		logf("  VERDICT %s: %s", sig, detail)
	}
	if p != nil {
		res.class = "panic"
		logf("  handler PANICKED: %s at %s", p.Value, p.Site)
		add("C09/validate/panic/"+p.Site, fmt.Sprintf("the validating handler panicked on a %s %s request: %s\nobject: %s\nstack:\n%s", c.Ver, c.Op, p.Value, sent, trimStack(p.Stack)))
		return res, nil
	}
	res.accepted, res.class, res.rules = classify(&resp)
	msg := ""
	if resp.Result != nil {
		msg = resp.Result.Message
		if resp.Result.Code >= 500 {
			add(fmt.Sprintf("C09/validate/5xx/%s/%s", c.Ver, c.Op), fmt.Sprintf("handler answered code %d: %s", resp.Result.Code, msg))
		}
	}
	logf("  response: allowed=%v class=%s message=%q", resp.Allowed, res.class, msg)
	if res.class == "rejected:decode-error" {
		return res, nil
	}

	// ----- facts about the request (reference reading), then: accepted + fact with a demand = violation -----
	o := &oObj{}
	if err := json.Unmarshal(sent, o); err != nil {
		return nil, fmt.Errorf("reference decode: %v", err)
	}
	b := o.block()
	v := c.Ver
	fact := func(name, sig, detail string) {
		res.facts = append(res.facts, name)
		if sig == "" {
			return
		}
		if res.accepted {
			add(sig, "accepted although "+detail)
		}
	}
	// (1) non-empty steps
	if b == nil {
		fact("steps-empty", "C09/validate/steps-empty/"+v, "there is no strategy block: "+string(sent))
	} else if len(b.Steps) == 0 {
		fact("steps-empty", "C09/validate/steps-empty/"+v, "the strategy block has no steps: "+string(sent))
	}
	// (2) replicas parse, in range, non-decreasing; traffic in range
	if b != nil {
		type amt struct {
			v   int64
			pct bool
			ok  bool
		}
		amts := make([]amt, len(b.Steps))
		for i, s := range b.Steps {
			var a amt
			switch {
			case len(s.Replicas) > 0 && string(s.Replicas) != "null":
				a.v, a.pct, a.ok = parseAmount(s.Replicas)
				if !a.ok {
					fact("replicas-unparsable", "C09/validate/replicas-parse/"+v, fmt.Sprintf("steps[%d].replicas=%s is neither an integer nor a percentage: %s", i, s.Replicas, sent))
				}
			case v == "v1alpha1" && s.Weight != nil:
				// documented: a v1alpha1 step without replicas releases weight% of the pods
				a = amt{*s.Weight, true, true}
			default:
				fact("replicas-missing", "C09/validate/replicas-missing/"+v, fmt.Sprintf("steps[%d] says nothing about how many pods to release: %s", i, sent))
			}
			if a.ok && (a.v < 0 || (a.pct && a.v > 100)) {
				fact("replicas-out-of-range", "C09/validate/replicas-range/"+v, fmt.Sprintf("steps[%d] releases %d (percent=%v), below 0 or above 100%%: %s", i, a.v, a.pct, sent))
			}
			amts[i] = a
			if s.Traffic != nil {
				if t, ok := parsePercentString(*s.Traffic); !ok || t > 100 {
					fact("traffic-out-of-range", "C09/validate/traffic-range/"+v, fmt.Sprintf("steps[%d].traffic=%q is not a percentage in 0..100: %s", i, *s.Traffic, sent))
				}
			}
			if s.Weight != nil && (*s.Weight < 0 || *s.Weight > 100) {
				cls := "weight-with-replicas"
				if len(s.Replicas) == 0 || string(s.Replicas) == "null" {
					cls = "weight-only"
				}
				// a weight outside 0..100 next to explicit replicas is accepted by the v1alpha1 validator; the range of
				// traffic values is not among the structural promises the property enumerates, so only the
				// weight-only form (where the weight also determines the pods to release) is judged
				if cls == "weight-only" {
					fact("weight-out-of-range("+cls+")", "C09/validate/traffic-range/"+v+"/"+cls, fmt.Sprintf("steps[%d].weight=%d is not a percentage in 0..100 (the v1beta1 form of this step, traffic \"%d%%\", is rejected by the same handler): %s", i, *s.Weight, *s.Weight, sent))
				}
			}
		}
		for j := 1; j < len(amts); j++ {
			for i := 0; i < j; i++ {
				if !amts[i].ok || !amts[j].ok || amts[i].pct != amts[j].pct || amts[j].v >= amts[i].v {
					continue
				}
				cls := "adjacent"
				if j-i > 1 {
					cls = "separated-by-step-of-other-type"
				}
				fact("decreasing-"+cls, "C09/validate/decreasing/"+v+"/"+cls, fmt.Sprintf("steps[%d] releases less than steps[%d] (%d < %d, percent=%v): %s", j, i, amts[j].v, amts[i].v, amts[i].pct, sent))
			}
		}
	}
	// (3) one Rollout per workload
	for i, other := range storeParsed {
		if other.Metadata.Namespace != o.Metadata.Namespace || other.Metadata.Name == o.Metadata.Name {
			continue
		}
		same, identical := sameWorkload(o.ref(), other.ref())
		if !same {
			continue
		}
		if other.Metadata.DeletionTimestamp != nil || other.Spec.Disabled {
			logf("  store[%d] refers to the same workload but is deleting/disabled: either answer is allowed", i)
			fact("conflict-with-deleting-or-disabled", "", "")
			continue
		}
		cls := "same-workloadRef"
		if !identical {
			cls = "same-workload-other-apiVersion-version"
		}
		fact("conflict-live-"+cls, "C09/validate/conflict/"+v+"/"+cls, fmt.Sprintf("live Rollout %s/%s already refers to the same workload (%+v vs %+v)", other.Metadata.Namespace, other.Metadata.Name, *other.ref(), *o.ref()))
	}
	// (4) immutability while Progressing / Terminating
	if c.Op == "UPDATE" && oldSent != nil {
		old := &oObj{}
		_ = json.Unmarshal(oldSent, old)
		// the phase that counts is the one of the stored object (what the handler reads and what is true in the cluster)
		phase, stored := old.Status.Phase, false
		for _, sp := range storeParsed {
			if sp.Metadata.Namespace == o.Metadata.Namespace && sp.Metadata.Name == o.Metadata.Name {
				phase, stored = sp.Status.Phase, true
			}
		}
		if stored && (phase == "Progressing" || phase == "Terminating") {
			ob, nb := old.block(), b
			var changed []string
			or, nr := old.ref(), o.ref()
			if (or == nil) != (nr == nil) || (or != nil && *or != *nr) {
				changed = append(changed, "workloadRef")
			}
			if trKey(ob) != trKey(nb) {
				changed = append(changed, "trafficRoutings")
			}
			if old.effectiveStyle(v) != o.effectiveStyle(v) {
				changed = append(changed, "style")
			}
			on, nn := 0, 0
			if ob != nil {
				on = len(ob.Steps)
			}
			if nb != nil {
				nn = len(nb.Steps)
			}
			if on != nn {
				changed = append(changed, "stepCount")
			}
			if len(changed) > 0 {
				fact("protected-change-"+changed[0], "C09/validate/immutable/"+v+"/"+changed[0], fmt.Sprintf("the stored Rollout is %s and the update changes %s\n old: %s\n new: %s", phase, strings.Join(changed, ", "), oldSent, sent))
			} else {
				fact("no-protected-change-while-"+phase, "", "")
			}
		}
	}
	if !res.accepted {
		return res, nil
	}
	// (6) the pure helpers the controllers call on the spec
	var beta *v1beta1.Rollout
	if v == "v1beta1" {
		beta = &v1beta1.Rollout{}
		if err := json.Unmarshal(sent, beta); err != nil {
			return nil, fmt.Errorf("typed decode of an accepted object failed: %v", err)
		}
	} else {
		alpha := &v1alpha1.Rollout{}
		if err := json.Unmarshal(sent, alpha); err != nil {
			return nil, fmt.Errorf("typed decode of an accepted object failed: %v", err)
		}
		conv := &v1beta1.Rollout{}
		var cerr error
		if p := lib.Catch(func() { cerr = alpha.ConvertTo(conv) }); p != nil || cerr != nil {
			// conversion is decided by C20; recorded, not judged here
			logf("  conversion to v1beta1 failed (panic=%v err=%v): judged by C20, helpers skipped", p != nil, cerr)
			res.class += "|convert-failed"
		} else {
			beta = conv
		}
	}
	if beta != nil {
		res.helpers = true
		helpers := []struct {
			name string
			f    func()
		}{
			{"GetSteps", func() { _ = beta.Spec.Strategy.GetSteps() }},
			{"GetRollingStyle", func() { _ = beta.Spec.Strategy.GetRollingStyle() }},
			{"IsCanaryStragegy", func() { _ = beta.Spec.Strategy.IsCanaryStragegy() }},
			{"HasTrafficRoutings", func() { _ = beta.Spec.Strategy.HasTrafficRoutings() }},
			{"IsRealPartition", func() { _ = v1beta1.IsRealPartition(beta) }},
			{"NextBatchIndex", func() {
				n := 0
				if p := lib.Catch(func() { n = len(beta.Spec.Strategy.GetSteps()) }); p != nil {
					return
				}
				for i := -1; i <= n+1; i++ {
					_ = util.NextBatchIndex(beta, int32(i))
				}
			}},
		}
		// the traffic-routing manager is what the Rollout controller hands spec.strategy.*.trafficRoutings and the
		// current step to (Initializing, every step, finalising); run it on a store that holds the referenced objects
		helpers = append(helpers, struct {
			name string
			f    func()
		}{"trafficrouting.Manager", func() { smokeTrafficRouting(beta) }})
		for _, hp := range helpers {
			if p := lib.Catch(hp.f); p != nil {
				site := p.Site
				if site == "unknown" {
					site = hp.name
				}
				add("C09/validate/helpers/"+v+"/"+site, fmt.Sprintf("%s panicked on an accepted object: %s\nobject: %s\nstack:\n%s", hp.name, p.Value, sent, trimStack(p.Stack)))
			}
		}
	}
	return res, nil
}

func trimStack(s string) string {
	lines := strings.Split(s, "\n")
	var keep []string
	for _, l := range lines {
		if strings.Contains(l, "openkruise/rollouts") || strings.HasPrefix(l, "panic(") {
			keep = append(keep, l)
		}
		if len(keep) >= 12 {
			break
		}
	}
	return strings.Join(keep, "\n")
}

// smokeTrafficRouting drives the real trafficrouting.Manager the way the Rollout controller does (context built
// like newTrafficRoutingContext) for every step of an accepted Rollout, on a fake store that holds the Services,
// Ingresses, HTTPRoute and VirtualService the generated specs refer to. Errors are fine; panics are not.
func smokeTrafficRouting(ro *v1beta1.Rollout) {
	refs := ro.Spec.Strategy.GetTrafficRouting()
	if len(refs) == 0 {
		return
	}
	ns := ro.Namespace
	pt := netv1.PathTypePrefix
	var objs []client.Object
	for _, svc := range []string{"svc", "svc2"} {
		objs = append(objs, &corev1.Service{ObjectMeta: metav1.ObjectMeta{Namespace: ns, Name: svc},
			Spec: corev1.ServiceSpec{Selector: map[string]string{"app": "demo"}, Ports: []corev1.ServicePort{{Port: 80}}}})
	}
	for _, ing := range []string{"ing", "ing2"} {
		objs = append(objs, &netv1.Ingress{ObjectMeta: metav1.ObjectMeta{Namespace: ns, Name: ing, Annotations: map[string]string{"kubernetes.io/ingress.class": "nginx"}},
			Spec: netv1.IngressSpec{Rules: []netv1.IngressRule{{Host: "a.example.com", IngressRuleValue: netv1.IngressRuleValue{HTTP: &netv1.HTTPIngressRuleValue{
				Paths: []netv1.HTTPIngressPath{{Path: "/", PathType: &pt, Backend: netv1.IngressBackend{Service: &netv1.IngressServiceBackend{Name: "svc", Port: netv1.ServiceBackendPort{Number: 80}}}}}}}}}}})
	}
	kind, group, port, weight := gatewayv1beta1.Kind("Service"), gatewayv1beta1.Group(""), gatewayv1beta1.PortNumber(80), int32(1)
	objs = append(objs, &gatewayv1beta1.HTTPRoute{ObjectMeta: metav1.ObjectMeta{Namespace: ns, Name: "route"},
		Spec: gatewayv1beta1.HTTPRouteSpec{Rules: []gatewayv1beta1.HTTPRouteRule{{BackendRefs: []gatewayv1beta1.HTTPBackendRef{{BackendRef: gatewayv1beta1.BackendRef{
			BackendObjectReference: gatewayv1beta1.BackendObjectReference{Group: &group, Kind: &kind, Name: "svc", Port: &port}, Weight: &weight}}}}}}})
	vs := &unstructured.Unstructured{Object: map[string]interface{}{"apiVersion": "networking.istio.io/v1alpha3", "kind": "VirtualService",
		"metadata": map[string]interface{}{"namespace": ns, "name": "vs"},
		"spec":     map[string]interface{}{"hosts": []interface{}{"*"}, "http": []interface{}{map[string]interface{}{"route": []interface{}{map[string]interface{}{"destination": map[string]interface{}{"host": "svc"}}}}}}}}
	objs = append(objs, vs)
	cli := fake.NewClientBuilder().WithScheme(scheme).WithObjects(objs...).Build()
	mgr := trafficrouting.NewTrafficRoutingManager(cli)
	for _, step := range ro.Spec.Strategy.GetSteps() {
		c := &trafficrouting.TrafficRoutingContext{
			Key: "Rollout(" + ns + "/" + ro.Name + ")", Namespace: ns, ObjectRef: refs, Strategy: step.TrafficRoutingStrategy,
			OwnerRef:         *metav1.NewControllerRef(ro, v1beta1.SchemeGroupVersion.WithKind("Rollout")),
			RevisionLabelKey: "pod-template-hash", StableRevision: "s1", CanaryRevision: "c1",
			DisableGenerateCanaryService: ro.Spec.Strategy.DisableGenerateCanaryService(),
		}
		_ = mgr.InitializeTrafficRouting(c)
		_, _ = mgr.PatchStableService(c)
		_, _ = mgr.DoTrafficRouting(c)
		_, _ = mgr.DoTrafficRouting(c)
	}
	c := &trafficrouting.TrafficRoutingContext{Key: "Rollout(" + ns + "/" + ro.Name + ")", Namespace: ns, ObjectRef: refs,
		OwnerRef: *metav1.NewControllerRef(ro, v1beta1.SchemeGroupVersion.WithKind("Rollout")), RevisionLabelKey: "pod-template-hash", StableRevision: "s1", CanaryRevision: "c1"}
	if steps := ro.Spec.Strategy.GetSteps(); len(steps) > 0 {
		c.Strategy = steps[0].TrafficRoutingStrategy
	}
	_, _ = mgr.FinalisingTrafficRouting(c)
}
