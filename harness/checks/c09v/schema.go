package c09v

import (
	"encoding/json"
	"fmt"
	"math"
	"os"
	"regexp"
	"sort"
	"strings"
	"sync"
	"time"
	"unicode/utf8"

	apiextensionsv1 "k8s.io/apiextensions-apiserver/pkg/apis/apiextensions/v1"
	utiljson "k8s.io/apimachinery/pkg/util/json"
	"sigs.k8s.io/yaml"
)

// The API server never hands an object to the validating webhook that the CRD's structural schema does not admit, and
// it applies the schema defaults first. Admissibility and defaulting are therefore read from the REAL generated CRD
// (config/crd/bases/rollouts.kruise.io_rollouts.yaml). The API server's own validator (k8s.io/apiextensions-apiserver/
// pkg/apiserver/validation) cannot be linked here (its CEL dependencies are not in the offline module cache), so the
// schema is interpreted by the ~150 lines below. They support exactly the keywords that occur in that CRD; any other
// keyword makes loading fail (nothing is silently ignored). An object field the schema does not know is a generator
// bug and fails the run as well (the API server would prune it).

type versionSchema struct {
	tree *node
}

var (
	schemaOnce sync.Once
	schemas    map[string]*versionSchema
	schemaErr  error
)

const crdRel = "config/crd/bases/rollouts.kruise.io_rollouts.yaml"

func loadSchemas() (map[string]*versionSchema, error) {
	schemaOnce.Do(func() {
		b, err := os.ReadFile(crdRel)
		if err != nil {
			b, err = os.ReadFile("/repo/" + crdRel)
		}
		if err != nil {
			schemaErr = err
			return
		}
		crd := &apiextensionsv1.CustomResourceDefinition{}
		if err := yaml.UnmarshalStrict(b, crd); err != nil {
			schemaErr = err
			return
		}
		schemas = map[string]*versionSchema{}
		for i := range crd.Spec.Versions {
			v := &crd.Spec.Versions[i]
			if v.Schema == nil || v.Schema.OpenAPIV3Schema == nil {
				continue
			}
			if err := checkSupported(v.Schema.OpenAPIV3Schema, v.Name); err != nil {
				schemaErr = err
				return
			}
			schemas[v.Name] = &versionSchema{tree: compile(v.Schema.OpenAPIV3Schema)}
		}
		if schemas["v1alpha1"] == nil || schemas["v1beta1"] == nil {
			schemaErr = fmt.Errorf("CRD %s does not define both v1alpha1 and v1beta1", crdRel)
		}
	})
	return schemas, schemaErr
}

// checkSupported refuses every schema keyword the interpreter does not implement.
func checkSupported(s *apiextensionsv1.JSONSchemaProps, path string) error {
	bad := func(k string) error { return fmt.Errorf("CRD schema %s uses unsupported keyword %s", path, k) }
	switch {
	case s.Ref != nil:
		return bad("$ref")
	case s.Maximum != nil || s.Minimum != nil || s.ExclusiveMaximum || s.ExclusiveMinimum:
		return bad("minimum/maximum")
	case s.MinItems != nil || s.UniqueItems || s.MultipleOf != nil:
		return bad("minItems/uniqueItems/multipleOf")
	case s.MaxProperties != nil || s.MinProperties != nil:
		return bad("min/maxProperties")
	case len(s.AllOf) > 0 || len(s.OneOf) > 0 || s.Not != nil:
		return bad("allOf/oneOf/not")
	case len(s.PatternProperties) > 0 || len(s.Dependencies) > 0 || s.AdditionalItems != nil || len(s.Definitions) > 0:
		return bad("patternProperties/dependencies/additionalItems/definitions")
	case len(s.XValidations) > 0:
		return bad("x-kubernetes-validations")
	case s.XEmbeddedResource || (s.XPreserveUnknownFields != nil && *s.XPreserveUnknownFields):
		return bad("x-kubernetes-embedded-resource/preserve-unknown-fields")
	case s.Nullable:
		return bad("nullable")
	}
	if len(s.AnyOf) > 0 {
		if !s.XIntOrString || len(s.AnyOf) != 2 || s.AnyOf[0].Type != "integer" || s.AnyOf[1].Type != "string" {
			return bad("anyOf (other than int-or-string)")
		}
	}
	switch s.Format {
	case "", "int32", "int64", "date-time":
	default:
		return bad("format " + s.Format)
	}
	if s.XListType != nil && *s.XListType != "map" && *s.XListType != "atomic" && *s.XListType != "set" {
		return bad("x-kubernetes-list-type " + *s.XListType)
	}
	if s.Pattern != "" {
		if _, err := regexp.Compile(s.Pattern); err != nil {
			return fmt.Errorf("CRD schema %s: pattern %q: %v", path, s.Pattern, err)
		}
	}
	for k := range s.Properties {
		p := s.Properties[k]
		if err := checkSupported(&p, path+"."+k); err != nil {
			return err
		}
	}
	if s.Items != nil {
		if s.Items.Schema == nil {
			return bad("items (tuple form)")
		}
		if err := checkSupported(s.Items.Schema, path+"[]"); err != nil {
			return err
		}
	}
	if s.AdditionalProperties != nil && s.AdditionalProperties.Schema != nil {
		if err := checkSupported(s.AdditionalProperties.Schema, path+".*"); err != nil {
			return err
		}
	}
	return nil
}

// node is the compact form of one schema position (the generated JSONSchemaProps structs are too large to walk per case).
type node struct {
	typ         string
	intOrString bool
	props       map[string]*node
	required    []string
	items       *node
	addl        *node
	def         interface{}
	hasDef      bool
	defaults    bool // a default exists at or below this node's children
	enum        []string
	pattern     *regexp.Regexp
	minLen      *int64
	maxLen      *int64
	maxItems    *int64
	format      string
	listType    string
	listKeys    []string
}

func compile(s *apiextensionsv1.JSONSchemaProps) *node {
	n := &node{typ: s.Type, intOrString: s.XIntOrString, required: s.Required, minLen: s.MinLength, maxLen: s.MaxLength, maxItems: s.MaxItems, format: s.Format, listKeys: s.XListMapKeys}
	if s.XListType != nil {
		n.listType = *s.XListType
	}
	if s.Pattern != "" {
		n.pattern = regexp.MustCompile(s.Pattern)
	}
	for _, e := range s.Enum {
		var v interface{}
		if utiljson.Unmarshal(e.Raw, &v) == nil {
			n.enum = append(n.enum, fmt.Sprint(v))
		}
	}
	if s.Default != nil {
		var d interface{}
		if utiljson.Unmarshal(s.Default.Raw, &d) == nil {
			n.def, n.hasDef = d, true
		}
	}
	if len(s.Properties) > 0 {
		n.props = map[string]*node{}
		for k := range s.Properties {
			p := s.Properties[k]
			c := compile(&p)
			n.props[k] = c
			if c.hasDef || c.defaults {
				n.defaults = true
			}
		}
	}
	if s.Items != nil && s.Items.Schema != nil {
		n.items = compile(s.Items.Schema)
		if n.items.defaults {
			n.defaults = true
		}
	}
	if s.AdditionalProperties != nil && s.AdditionalProperties.Schema != nil {
		n.addl = compile(s.AdditionalProperties.Schema)
		if n.addl.defaults {
			n.defaults = true
		}
	}
	return n
}

// applyDefaults fills in schema defaults the way the API server does (absent property with a default -> default).
func applyDefaults(x interface{}, s *node) {
	if !s.defaults {
		return
	}
	switch v := x.(type) {
	case map[string]interface{}:
		for k, p := range s.props {
			child, ok := v[k]
			if !ok && p.hasDef {
				child, ok = clone(p.def), true
				v[k] = child
			}
			if ok && p.defaults {
				applyDefaults(child, p)
			}
		}
		if s.addl != nil && s.addl.defaults {
			for k := range v {
				if _, known := s.props[k]; !known {
					applyDefaults(v[k], s.addl)
				}
			}
		}
	case []interface{}:
		if s.items != nil {
			for _, e := range v {
				applyDefaults(e, s.items)
			}
		}
	}
}

type schemaCheck struct {
	errs    []string
	unknown []string
}

func (c *schemaCheck) errf(path func() string, f string, a ...interface{}) {
	c.errs = append(c.errs, path()+": "+fmt.Sprintf(f, a...))
}

func asInt(x interface{}) (int64, bool) {
	switch v := x.(type) {
	case int:
		return int64(v), true
	case int32:
		return int64(v), true
	case int64:
		return v, true
	case float64:
		if v != math.Trunc(v) {
			return 0, false
		}
		return int64(v), true
	}
	return 0, false
}

func (c *schemaCheck) validate(x interface{}, s *node, path func() string, root bool) {
	if x == nil {
		c.errf(path, "null is not allowed")
		return
	}
	if s.intOrString {
		if _, ok := x.(string); ok {
			return
		}
		if _, ok := asInt(x); !ok {
			c.errf(path, "must be an integer or a string")
		}
		return
	}
	switch s.typ {
	case "string":
		str, ok := x.(string)
		if !ok {
			c.errf(path, "must be a string")
			return
		}
		if s.minLen != nil || s.maxLen != nil {
			n := int64(utf8.RuneCountInString(str))
			if s.minLen != nil && n < *s.minLen {
				c.errf(path, "shorter than %d", *s.minLen)
			}
			if s.maxLen != nil && n > *s.maxLen {
				c.errf(path, "longer than %d", *s.maxLen)
			}
		}
		if s.pattern != nil && !s.pattern.MatchString(str) {
			c.errf(path, "does not match %s", s.pattern)
		}
		if s.format == "date-time" {
			if _, err := time.Parse(time.RFC3339, str); err != nil {
				c.errf(path, "is not a date-time")
			}
		}
		c.enum(x, s, path)
	case "integer":
		n, ok := asInt(x)
		if !ok {
			c.errf(path, "must be an integer")
			return
		}
		if s.format == "int32" && (n < math.MinInt32 || n > math.MaxInt32) {
			c.errf(path, "must fit int32")
		}
		c.enum(x, s, path)
	case "boolean":
		if _, ok := x.(bool); !ok {
			c.errf(path, "must be a boolean")
		}
	case "array":
		l, ok := x.([]interface{})
		if !ok {
			c.errf(path, "must be an array")
			return
		}
		if s.maxItems != nil && int64(len(l)) > *s.maxItems {
			c.errf(path, "more than %d items", *s.maxItems)
		}
		var seen map[string]bool
		for i, e := range l {
			i := i
			ip := func() string { return fmt.Sprintf("%s[%d]", path(), i) }
			if s.items != nil {
				c.validate(e, s.items, ip, false)
			}
			if (s.listType == "map" || s.listType == "set") && len(l) > 1 {
				key := fmt.Sprint(e)
				if s.listType == "map" {
					m, _ := e.(map[string]interface{})
					var parts []string
					for _, k := range s.listKeys {
						parts = append(parts, fmt.Sprint(m[k]))
					}
					key = strings.Join(parts, "\x00")
				}
				if seen == nil {
					seen = map[string]bool{}
				}
				if seen[key] {
					c.errf(ip, "duplicate entry")
				}
				seen[key] = true
			}
		}
	case "object":
		m, ok := x.(map[string]interface{})
		if !ok {
			c.errf(path, "must be an object")
			return
		}
		for _, k := range s.required {
			if _, ok := m[k]; !ok {
				k := k
				c.errf(func() string { return path() + "." + k }, "Required value")
			}
		}
		for k, child := range m {
			k := k
			kp := func() string { return path() + "." + k }
			if p, ok := s.props[k]; ok {
				if root && k == "metadata" {
					continue // ObjectMeta is validated by the API server's generic code, not by this schema
				}
				c.validate(child, p, kp, false)
				continue
			}
			if s.addl != nil {
				c.validate(child, s.addl, kp, false)
				continue
			}
			c.unknown = append(c.unknown, kp())
		}
	case "":
		// untyped: only metadata-like blocks; nothing to check
	default:
		c.errf(path, "schema type %q not supported", s.typ)
	}
}

func (c *schemaCheck) enum(x interface{}, s *node, path func() string) {
	if len(s.enum) == 0 {
		return
	}
	xs := fmt.Sprint(x)
	for _, e := range s.enum {
		if e == xs {
			return
		}
	}
	c.errf(path, "not one of the supported values")
}

// admit does what the API server does with a custom resource before admission webhooks see it: apply schema
// defaults (in place), validate against the schema. It returns the JSON the webhook would receive and the schema
// errors (empty = admissible; sorted, because map iteration order must not matter).
func admit(ver string, m map[string]interface{}) (sent []byte, schemaErrs []string, err error) {
	ss, err := loadSchemas()
	if err != nil {
		return nil, nil, err
	}
	s := ss[ver]
	if s == nil {
		return nil, nil, fmt.Errorf("no schema for version %q", ver)
	}
	applyDefaults(m, s.tree)
	c := &schemaCheck{}
	c.validate(m, s.tree, func() string { return "" }, true)
	if len(c.unknown) > 0 {
		sort.Strings(c.unknown)
		return nil, nil, fmt.Errorf("generator emitted fields the CRD schema does not know: %v", c.unknown)
	}
	sort.Strings(c.errs)
	sent, err = json.Marshal(m)
	return sent, c.errs, err
}
