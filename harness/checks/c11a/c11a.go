// Package c11a is stage 1 of property C11 ("BatchRelease status means what it says"): the exhaustive small-scope
// enumeration of (A) the readiness answer of every BatchRelease control plane over generated workload statuses and
// (B) the finalisers of every control plane over generated statuses and repeated attempts.
//
// Both parts drive the REAL control planes (partitionstyle: CloneSet, StatefulSet, Advanced StatefulSet, Advanced
// DaemonSet, Deployment; canarystyle: Deployment; bluegreenstyle: CloneSet, Deployment) built through the real
// NewControlPlane constructors on a controller-runtime fake client, a fresh control plane per call as the executor does.
package c11a

import (
	"encoding/json"
	"fmt"
	"os"
	"runtime/debug"
	"runtime/pprof"
	"sort"
	"strconv"
	"strings"

	"github.com/openkruise/rollouts/api/v1beta1"
	"k8s.io/apimachinery/pkg/util/intstr"

	"verifharness/lib"
)

type found struct {
	detail string
	replay interface{}
	count  int
}

type taskResult struct {
	evals      int64
	calls      int64
	nontrivial int64
	outcomes   map[string]int64
	found      map[string]*found
	order      []string
	samples    []interface{}
	aborted    string
}

func newTaskResult() *taskResult {
	return &taskResult{outcomes: map[string]int64{}, found: map[string]*found{}}
}

func (t *taskResult) violate(v verdict, replay interface{}) {
	f := t.found[v.Sig]
	if f == nil {
		f = &found{detail: v.Detail, replay: replay}
		t.found[v.Sig] = f
		t.order = append(t.order, v.Sig)
	}
	f.count++
}

// ---------------------------------------------------------------------------------------------
// part A task: one (kind, replicas, updated)
// ---------------------------------------------------------------------------------------------

func planFor(v string, cb int) []string {
	if cb == 0 {
		return []string{v, "100%"}
	}
	return []string{"1", v}
}

// domA is the domain of one (kind, replicas) of part A.
type domA struct {
	batches  []string // batch values of phase 1 (no rollout-id)
	thrs0    []string // thresholds with currentBatch 0
	thrs1    []string // thresholds with currentBatch 1
	genThrs  []string // thresholds of the generation-not-observed variants (currentBatch 0)
	us       []int    // updated counts
	batches2 []string // batch values of phase 2 (rollout-id set)
	thrs2    []string
	thin     bool
}

// domainA: full product for R <= 16. Larger workloads (and there the controls that list every pod on every call)
// get the boundaries only: the arithmetic is the same, only the scale of percentage thresholds changes.
func domainA(k *kindSpec, size int, thorough bool) *domA {
	d := &domA{}
	all := batchValuesA(size, thorough)
	thrs := thresholdsA(size, thorough)
	if !thorough || size > 4 {
		// one value per (type, planned count, "100%", beyond the size): the predicate sees a batch value only through these
		all = distinctBatches(all, size)
	}
	if thorough && size > 12 {
		thrs = dedupe(append(thresholdsA(size, false), "33%"))
	}
	d.batches, d.thrs0, d.thrs1, d.genThrs = all, thrs, []string{"", "50%", "100%"}, []string{"", "50%"}
	d.batches2, d.thrs2 = distinctBatches(all, size), []string{"", "1", "50%"}
	if !thorough {
		d.thrs1 = []string{"", "50%"}
		d.thrs2 = []string{"", "50%"}
		d.genThrs = []string{""}
	}
	if size > 16 {
		d.thin = true
		few := dedupe([]string{"20%", "50%", "100%", strconv.Itoa(size / 2), strconv.Itoa(size), strconv.Itoa(size + 1)})
		more := dedupe(append(append([]string(nil), few...), "1%", "67%", "99%", "1", strconv.Itoa(size-1)))
		d.batches2, d.thrs2 = few, []string{""}
		d.batches = more
		d.thrs1 = []string{""}
		if thorough {
			d.thrs2 = []string{"", "20%"}
			d.thrs1 = []string{"", "20%"}
			d.batches = distinctBatches(all, size)
		}
		if k.NeedsPods {
			d.batches = few
			d.thrs0 = []string{"", "1", "20%", "100%"}
			if thorough {
				d.batches = more
				d.thrs0 = []string{"", "0", "1", "20%", "50%", "100%"}
			}
		}
	}
	d.us = updatedValuesA(size, d.batches)
	return d
}

// distinctBatches keeps the first batch value per (type, planned count, "100%", beyond the size).
func distinctBatches(vals []string, size int) []string {
	seen := map[string]bool{}
	var out []string
	for _, v := range vals {
		iv := parseVal(v)
		n, _ := strconv.Atoi(strings.TrimSuffix(v, "%"))
		beyond := n > size
		if iv.Type == intstr.String {
			beyond = n > 100
		}
		key := fmt.Sprintf("%d/%d/%v/%v", iv.Type, plannedRef(iv, size), v == "100%", beyond)
		if !seen[key] {
			seen[key] = true
			out = append(out, v)
		}
	}
	return out
}

func runTaskA(r *lib.Report, k *kindSpec, ns string, size, u int, thorough bool) *taskResult {
	res := newTaskResult()
	w := newWorld(k, ns, size)
	if err := w.doInit(false); err != nil {
		res.aborted = err.Error()
		return res
	}
	d := domainA(k, size, thorough)
	urs := readyValuesA(size, u, d.batches, d.thrs0, k)
	gens := []string{"workload-unobserved"}
	if k.Style == v1beta1.CanaryRollingStyle {
		gens = append(gens, "canary-unobserved")
	}

	exec := func(c CaseA) {
		ra := w.callA(c)
		res.evals++
		res.calls++
		res.outcomes["A/"+k.Name+"/"+ra.Outcome]++
		if ra.Ready || ra.Writes > 0 {
			res.nontrivial++
			r.Nontrivial(c.key())
		}
		for _, v := range ra.Verdicts {
			res.violate(v, c)
		}
		if ra.Writes > 0 {
			w.prepareA(c, true) // the call patched pod labels: back to the state of the case
		}
		if len(res.samples) == 0 && (k.Name == "cloneset-partition" || k.Name == "statefulset-partition" || k.Name == "deployment-canary") && size == 5 && u == 3 && c.UpdatedReady == 2 && c.Threshold == "50%" && c.Plan[c.CurrentBatch] == "50%" {
			res.samples = append(res.samples, map[string]interface{}{"case": c, "real_ready": ra.Ready, "real_error": ra.Err, "planned": ra.Planned, "tolerated": ra.Tolerance, "reference": ra.RefReason, "outcome": ra.Outcome})
		}
	}

	// phase 1: no rollout-id
	for _, ur := range urs {
		base := CaseA{Part: "A", Kind: k.Name, Replicas: size, Updated: u, UpdatedReady: ur, Gen: "observed"}
		w.prepareA(base, false)
		for cb := 0; cb <= 1; cb++ {
			ts := d.thrs0
			if cb == 1 {
				ts = d.thrs1
			}
			for _, v := range d.batches {
				for _, t := range ts {
					c := base
					c.Plan, c.CurrentBatch, c.Threshold = planFor(v, cb), cb, t
					exec(c)
				}
			}
		}
		for _, g := range gens {
			gb := base
			gb.Gen = g
			w.prepareA(gb, false)
			for _, v := range d.batches {
				for _, t := range d.genThrs {
					c := gb
					c.Plan, c.CurrentBatch, c.Threshold = planFor(v, 0), 0, t
					exec(c)
				}
			}
		}
	}

	// phase 2: rollout-id set, the updated pods carry batch labels (0, planned-1, planned of them; or no pod visible)
	m := map[int]bool{0: true, u: true}
	if u > 0 && !d.thin {
		m[u-1] = true
	}
	for _, ur := range sortedInts(m, 0, u) {
		for cb := 0; cb <= 1; cb++ {
			if d.thin && cb == 1 {
				continue
			}
			lset := map[int]bool{}
			for _, v := range d.batches2 {
				p := plannedRef(parseVal(v), size)
				for _, l := range []int{0, p - 1, p} {
					if l >= 0 && l <= u {
						lset[l] = true
					}
				}
			}
			ls := sortedInts(lset, 0, u)
			if !k.NeedsPods && u >= 1 {
				ls = append(ls, -1)
			}
			for _, l := range ls {
				base := CaseA{Part: "A", Kind: k.Name, Replicas: size, Updated: u, UpdatedReady: ur, Gen: "observed", RolloutID: true, Labeled: l, CurrentBatch: cb}
				w.prepareA(base, false)
				for _, v := range d.batches2 {
					p := plannedRef(parseVal(v), size)
					if l >= 0 && l != 0 && l != p-1 && l != p {
						continue
					}
					ts := d.thrs2
					if l < 0 {
						ts = []string{""}
					}
					for _, t := range ts {
						c := base
						c.Plan, c.Threshold = planFor(v, cb), t
						exec(c)
					}
				}
			}
		}
	}
	return res
}

// ---------------------------------------------------------------------------------------------
// part B task: one (kind, replicas, batchPartition, policy)
// ---------------------------------------------------------------------------------------------

func runTaskB(r *lib.Report, k *kindSpec, ns string, size int, partitioned bool, policy string, thorough bool) *taskResult {
	res := newTaskResult()
	w := newWorld(k, ns, size)
	if err := w.doInit(true); err != nil {
		res.aborted = err.Error()
		return res
	}
	if !w.controlled() {
		res.aborted = "workload is not under control after Initialize + UpgradeBatch"
		return res
	}
	snap := w.snapB()
	sts := statusesB(size, k.Style == v1beta1.BlueGreenRollingStyle)
	for _, seq := range sequencesB(sts, thorough) {
		c := CaseB{Part: "B", Kind: k.Name, Replicas: size, Partitioned: partitioned, Policy: policy, Statuses: seq}
		atts := w.runB(c, snap)
		res.evals++
		nt := false
		for _, a := range atts {
			res.calls++
			res.outcomes[fmt.Sprintf("B/%s/attempt-%d/%s", k.Name, a.Attempt, a.Class)]++
			if a.Nil || a.Writes > 0 {
				nt = true
			}
			for _, v := range a.Verdicts {
				res.violate(v, c)
			}
		}
		if nt {
			res.nontrivial++
			r.Nontrivial(c.key())
		}
		if len(res.samples) == 0 && (k.Name == "deployment-bluegreen" || k.Name == "deployment-canary" || k.Name == "cloneset-partition") && size == 4 && !partitioned && policy == "WaitResume" && seq[0].Class == "not-all-updated" && seq[1].Class == "all-updated-and-ready" {
			res.samples = append(res.samples, map[string]interface{}{"case": c, "attempts": renderAttempts(atts)})
		}
	}
	return res
}

func renderAttempts(atts []attemptB) []map[string]interface{} {
	var out []map[string]interface{}
	for _, a := range atts {
		out = append(out, map[string]interface{}{"attempt": a.Attempt, "status": a.Status.String(), "returned_nil": a.Nil, "error": a.Err, "writes": a.Writes, "still_controlled": a.Controlled, "class": a.Class})
	}
	return out
}

// ---------------------------------------------------------------------------------------------
// Run / Replay
// ---------------------------------------------------------------------------------------------

func Run(r *lib.Report) {
	thorough := r.Thorough()
	if pf := os.Getenv("C11A_PROF"); pf != "" { // development aid
		if f, err := os.Create(pf); err == nil {
			_ = pprof.StartCPUProfile(f)
			defer pprof.StopCPUProfile()
		}
	}
	defer debug.SetGCPercent(debug.SetGCPercent(1000))
	defer debug.SetMemoryLimit(debug.SetMemoryLimit(6 << 30))
	r.Rule = "Part A (readiness): for every control implementation K in {cloneset,statefulset,advstatefulset,daemonset,deployment}-partition, deployment-canary, {cloneset,deployment}-bluegreen: real Initialize, then for " +
		"R in (quick 1..8,10,20,100 | thorough 1..16,20,50,100,150) x updated u in 0..R x updatedReady in 0..u x currentBatch in {0,1} x batch value in (percent 1,20,50,67,99,100,150 [thorough +10,25,33,34,75,90,200] and int 0,1,2,R/2,R-1,R,R+1,R+5 [thorough +3,R/3,2R/3,R-2]; " +
		"quick and thorough R>4: one value per (type, planned count, is-100%, beyond-the-size)) x failureThreshold in {nil,0,1,20%,50%,100%,R [thorough +33%, and for R<=12 +2,0%,1%,R+5]} (currentBatch 1: quick nil,50% | thorough nil,50%,100%): " +
		"the generated status (and, where the control counts pods, the matching pod set) is written to the store and the real EnsureBatchPodsReadyAndLabeled of a fresh control plane is called. " +
		"R>16 is thinned to boundaries: u in {0,1,R-1,R, planned-1..planned+1 of every batch value}, updatedReady in {0,1,u-1,u, both sides of every planned-tolerance boundary}, batch values 20%,50%,100%,R/2,R,R+1,1%,67%,99%,1,R-1 (thorough: the distinct ones of the full list; controls that list all pods on every call: the first six [thorough: these eleven] and thresholds nil,1,20%,100% [thorough +0,50%]), currentBatch 1 with threshold nil [thorough +20%]. " +
		"Additionally for currentBatch 0: generation not observed (workload; canary Deployment) x thresholds (quick nil | thorough nil,50%) with the real SyncWorkloadInformation gate evaluated first; " +
		"rollout-id set, updatedReady in {0,u-1,u}, pod sets whose labelled count is 0, planned-1, planned (and 'no pod visible' for controls that read the status only) x distinct batch values x thresholds (quick nil,50% | thorough nil,1,50%; R>16: six batch values, currentBatch 0, updatedReady in {0,u}, threshold nil [thorough +20%]). " +
		"Part B (finalisers): for every K, R in (quick 1..5 | thorough 1,2,3,4,5,8), batchPartition in {nil,0}, finalizingPolicy in {Immediate,WaitResume}: real Initialize + UpgradeBatch(100%), then Finalize is called 3 times in a row (fresh control plane each) with the workload status set before each attempt from " +
		"{all updated+ready; all updated, k=1..R unready; u<R updated (old pods ready / old pods unready); blue-green: u new pods surged next to R old ones; status of a stale generation}: quick every (s1, s2, s2) and (s,s,s), thorough every triple. " +
		"Non-trivial = cases in which the real code answered ready / nil or wrote to the store."
	r.Assumptions = []string{
		"failureThreshold (api/v1beta1/batchrelease_plan_types.go: 'how many failed pods can be tolerated in all upgraded pods ... If FailureThreshold is nil, Rollout will use the MaxUnavailable of workload'; no docs/ text): integer = that many planned pods may be unready; percentage = of the UPDATED pods, rounded up; nil = the most permissive documented reading, the workload's own maxUnavailable (Deployment fixtures: 25% rounded down; other fixtures set none => 0) - the code uses 0, which is stricter and therefore never a violation",
		"planned(batch, R) = integer as is, percentage of R rounded up, clamped to [0,R] (what control.CalculateBatchReplicas, the label patcher and the blue-green UpgradeBatch all compute). Exception: partition-style (advanced) Deployment, where a percentage below 100% means at most R-1 (deployment controller rule NewRSReplicasLimit: the knob can never produce more); ready at R-1 is counted as an outcome there",
		"ready may be answered only if updated >= planned AND planned - updatedReady <= tolerance AND (planned >= 1 => updatedReady >= 1) AND (rollout-id set => at least planned live pods carry the rollout-id label AFTER the call: canary / blue-green planes label pods inside the call) AND the status was written for the current generation. The converse (not ready although the reference says ready) is liveness: outcome only",
		"generation not observed: the executor does not evaluate the predicate when syncStatusBeforeExecuting stops the round; the real SyncWorkloadInformation of the same control plane is called first and a 'ready' answer behind WorkloadStillReconciling is not judged (counted)",
		"'no pod visible although the status reports updated pods' (lagging pod informer): batchLabelSatisfied is vacuous for an empty pod list; the property text does not mention labels: counted as an outcome, not a violation",
		"status truth per kind: CloneSet status.updatedReplicas/updatedReadyReplicas; (Advanced) StatefulSet and Advanced DaemonSet status.updatedReplicas / updatedNumberScheduled and READY PODS of the update revision (the controls count pods); partition Deployment status.updatedReplicas and the extra-status annotation; canary style status.replicas / availableReplicas of the canary Deployment; blue-green Deployment status.updatedReplicas and status.readyReplicas of the new ReplicaSet",
		"NoNeedUpdateReplicas stays nil (rollback in batches is out of scope here); workloads of size 0 are not generated; part A does not call UpgradeBatch (the predicate does not read the knob)",
		"Part B: a nil return of Finalize is what executeBatchReleasePlan turns into phase Completed. Every attempt is judged on its own: a later attempt also happens after an earlier nil when the status update recording Completed fails. Completed requires: control-info annotation gone from the stored workload; and for canarystyle/deployment, bluegreenstyle/cloneset, bluegreenstyle/deployment (the finalisers that implement a wait) with finalizingPolicy WaitResume and batchPartition nil: updated == total pods >= spec.replicas and ready == total, on a status of the current generation. Partition style implements no wait and is judged on the annotation only",
		"Part B classes: within-workload-maxUnavailable = every pod updated, the unready ones within the Deployment's own maxUnavailable (25% rounded down); status-not-observed = the status object claims all updated and ready but status.observedGeneration < metadata.generation and no pod is on the current revision (class added to keep this root cause apart from not-all-updated)",
		"fake store: no admission defaults, no generation bumps (generation / observedGeneration are generated), no HPA object present",
	}
	part := os.Getenv("C11A_PART") // development aid
	if part != "" {
		r.NotExhaustive("C11A_PART restricts the parts (development aid)")
	}
	sizesA, sizesB := replicasA(thorough), replicasB(thorough)
	if dbg := os.Getenv("C11A_SIZES"); dbg != "" {
		r.NotExhaustive("C11A_SIZES restricts the workload sizes (development aid)")
		sizesA, sizesB = nil, nil
		for _, f := range strings.Split(dbg, ",") {
			if n, err := strconv.Atoi(f); err == nil && n > 0 {
				sizesA, sizesB = append(sizesA, n), append(sizesB, n)
			}
		}
	}

	type task struct {
		name string
		cost int
		run  func(ns string) *taskResult
	}
	var tasks []task
	if part == "" || part == "A" {
		for _, s := range sizesA {
			for _, k := range kinds {
				for _, u := range domainA(k, s, thorough).us {
					s, k, u := s, k, u
					tasks = append(tasks, task{fmt.Sprintf("A/%s/R=%d/u=%d", k.Name, s, u), s * (u + 1), func(ns string) *taskResult { return runTaskA(r, k, ns, s, u, thorough) }})
				}
			}
		}
	}
	if part == "" || part == "B" {
		for _, s := range sizesB {
			for _, k := range kinds {
				for _, partitioned := range []bool{false, true} {
					for _, pol := range []string{"WaitResume", "Immediate"} {
						s, k, partitioned, pol := s, k, partitioned, pol
						cost := s * s
						if thorough {
							cost = s * s * s * 4
						}
						tasks = append(tasks, task{fmt.Sprintf("B/%s/R=%d/bp=%v/%s", k.Name, s, partitioned, pol), cost, func(ns string) *taskResult { return runTaskB(r, k, ns, s, partitioned, pol, thorough) }})
					}
				}
			}
		}
	}
	// expensive tasks first for load balance, results merged in the (simplest-first) task order afterwards
	order := make([]int, len(tasks))
	for i := range order {
		order[i] = i
	}
	sort.SliceStable(order, func(a, b int) bool { return tasks[order[a]].cost > tasks[order[b]].cost })
	results := make([]*taskResult, len(tasks))
	lib.ParallelFor(len(tasks), func(i int) {
		ti := order[i]
		if pn := lib.Catch(func() { results[ti] = tasks[ti].run(fmt.Sprintf("t%d", ti)) }); pn != nil {
			r.NotExhaustive(fmt.Sprintf("task %s aborted: %s", tasks[ti].name, pn.Value))
			r.Violate("C11/status/panic/"+pn.Site, fmt.Sprintf("enumeration task %s aborted by a panic: %s\n%s", tasks[ti].name, pn.Value, pn.Stack), nil)
		}
	})
	var calls, nontrivial int64
	table := map[string]int64{}
	for ti, res := range results {
		if res == nil {
			continue
		}
		if res.aborted != "" {
			r.NotExhaustive(fmt.Sprintf("task %s could not be set up: %s", tasks[ti].name, res.aborted))
			continue
		}
		r.AddEval(res.evals)
		calls += res.calls
		nontrivial += res.nontrivial
		for k, n := range res.outcomes {
			table[k] += n
		}
		for _, s := range res.samples {
			r.Sample(s)
		}
		for _, sig := range res.order {
			f := res.found[sig]
			for j := 0; j < f.count; j++ {
				r.Violate(sig, f.detail, f.replay)
			}
		}
	}
	keys := make([]string, 0, len(table))
	for k := range table {
		keys = append(keys, k)
	}
	sort.Strings(keys)
	for _, k := range keys {
		r.Outcome(k)
	}
	r.Extra["outcome_table"] = table
	r.Extra["real_calls_judged"] = calls
	r.Extra["nontrivial_cases"] = nontrivial
	r.Extra["tasks"] = len(tasks)
	r.Extra["kinds"] = len(kinds)
}

// Replay re-executes one recorded case, printing the workload status, the calls and the reference verdict.
func Replay(r *lib.Report, raw json.RawMessage) {
	var head struct {
		Part string `json:"part"`
		Kind string `json:"kind"`
	}
	if err := json.Unmarshal(raw, &head); err != nil {
		fmt.Println("HARNESS-ERROR cannot parse replay:", err)
		return
	}
	k := kindByName(head.Kind)
	if k == nil {
		fmt.Println("HARNESS-ERROR unknown kind", head.Kind)
		return
	}
	switch head.Part {
	case "A":
		var c CaseA
		if err := json.Unmarshal(raw, &c); err != nil {
			fmt.Println("HARNESS-ERROR cannot parse replay:", err)
			return
		}
		w := newWorld(k, "replay", c.Replicas)
		if err := w.doInit(false); err != nil {
			fmt.Println("HARNESS-ERROR", err)
			return
		}
		fmt.Printf("replay part A (readiness): %s\n", lib.J(c))
		fmt.Printf("  1. real Initialize done; update revision %q, canary Deployment %q\n", w.updateRev, w.canary)
		w.prepareA(c, false)
		fmt.Printf("  2. store: workload of %d replicas, status: %d updated, %d updated-ready, generation %s; %d pods in the store\n", c.Replicas, c.Updated, c.UpdatedReady, c.Gen, len(w.pods))
		fmt.Printf("     stored workload status: %s\n", statusJSON(w.mustGet(k.GVR, appName)))
		if w.canary != "" {
			fmt.Printf("     stored canary Deployment status: %s\n", statusJSON(w.mustGet(depGVR, w.canary)))
		}
		ra := w.callA(c)
		if c.Gen != "observed" {
			fmt.Printf("  3. real SyncWorkloadInformation -> %q (round stopped by the executor: %v)\n", ra.SyncEvent, ra.Gated)
		}
		fmt.Printf("  4. real EnsureBatchPodsReadyAndLabeled -> ready=%v err=%q writes=%d labelled pods after the call=%d\n", ra.Ready, ra.Err, ra.Writes, ra.LabeledAfter)
		ref := "ready"
		if ra.RefReason != "" {
			ref = "NOT ready (" + ra.RefReason + ")"
		}
		fmt.Printf("  5. reference: batch %d = %s calls for %d pods, tolerance %d => %s; outcome %s\n", c.CurrentBatch, c.Plan[c.CurrentBatch], ra.Planned, ra.Tolerance, ref, ra.Outcome)
		for _, v := range ra.Verdicts {
			fmt.Printf("      VIOLATION %s\n      %s\n", v.Sig, strings.SplitN(v.Detail, "\n", 2)[0])
			r.Violate(v.Sig, v.Detail, c)
		}
	case "B":
		var c CaseB
		if err := json.Unmarshal(raw, &c); err != nil {
			fmt.Println("HARNESS-ERROR cannot parse replay:", err)
			return
		}
		w := newWorld(k, "replay", c.Replicas)
		if err := w.doInit(true); err != nil {
			fmt.Println("HARNESS-ERROR", err)
			return
		}
		fmt.Printf("replay part B (finalisers): %s, %d replicas, batchPartition set=%v, finalizingPolicy %s\n", c.Kind, c.Replicas, c.Partitioned, c.Policy)
		fmt.Printf("  0. real Initialize + UpgradeBatch(100%%) done; workload under control: %v\n", w.controlled())
		for _, a := range w.runB(c, w.snapB()) {
			fmt.Printf("  %d. status before the attempt: %s\n     real Finalize (fresh control plane) -> nil=%v err=%q writes=%d; workload still carries control-info: %v; class %s\n",
				a.Attempt, a.Status, a.Nil, a.Err, a.Writes, a.Controlled, a.Class)
			for _, v := range a.Verdicts {
				fmt.Printf("      VIOLATION %s\n      %s\n", v.Sig, strings.SplitN(v.Detail, "\n", 2)[0])
				r.Violate(v.Sig, v.Detail, c)
			}
		}
	default:
		fmt.Println("HARNESS-ERROR unknown part", head.Part)
	}
}

func statusJSON(o interface{}) string {
	b, _ := json.Marshal(o)
	var m map[string]interface{}
	_ = json.Unmarshal(b, &m)
	md, _ := m["metadata"].(map[string]interface{})
	return lib.J(map[string]interface{}{"generation": md["generation"], "status": m["status"]})
}
