package c11a

import (
	"fmt"
	"strconv"
	"strings"

	kruiseappsv1alpha1 "github.com/openkruise/kruise-api/apps/v1alpha1"
	kruiseappsv1beta1 "github.com/openkruise/kruise-api/apps/v1beta1"
	rolloutsv1alpha1 "github.com/openkruise/rollouts/api/v1alpha1"
	"github.com/openkruise/rollouts/api/v1beta1"
	"github.com/openkruise/rollouts/pkg/controller/batchrelease/control"
	apps "k8s.io/api/apps/v1"
	"k8s.io/apimachinery/pkg/util/intstr"
	"k8s.io/utils/pointer"

	"verifharness/lib"
)

// ---------------------------------------------------------------------------------------------
// Part A: readiness
// ---------------------------------------------------------------------------------------------

// CaseA is one readiness case (also the replay format).
type CaseA struct {
	Part         string   `json:"part"` // "A"
	Kind         string   `json:"kind"`
	Replicas     int      `json:"replicas"`
	Plan         []string `json:"plan"`
	CurrentBatch int      `json:"currentBatch"`
	Updated      int      `json:"updated"`
	UpdatedReady int      `json:"updatedReady"`
	Threshold    string   `json:"failureThreshold"` // "" = nil
	// Gen: observed | workload-unobserved (metadata.generation ahead of status.observedGeneration) | canary-unobserved
	Gen       string `json:"generation"`
	RolloutID bool   `json:"rolloutID"`
	// Labeled: how many updated pods already carry the batch labels (only with RolloutID); -1 = the store shows no pod at all
	Labeled int `json:"labeled"`
}

func (c CaseA) key() string {
	return "A|" + c.Kind + "|" + strconv.Itoa(c.Replicas) + "|" + strings.Join(c.Plan, ",") + "|" + strconv.Itoa(c.CurrentBatch) + "|" + strconv.Itoa(c.Updated) + "|" +
		strconv.Itoa(c.UpdatedReady) + "|" + c.Threshold + "|" + c.Gen + "|" + strconv.FormatBool(c.RolloutID) + "|" + strconv.Itoa(c.Labeled)
}

type verdict struct {
	Sig    string
	Detail string
}

type resA struct {
	Gated        bool   // the executor's SyncWorkloadInformation gate stops the round before the predicate is evaluated
	SyncEvent    string // event returned by the real SyncWorkloadInformation (unobserved variants only)
	Ready        bool
	Err          string
	Writes       int
	Planned      int
	Tolerance    int
	LabeledAfter int
	RefReason    string // "" = the reference says ready
	Outcome      string
	Verdicts     []verdict
}

// applyStatusA writes the generated status of the case to the store.
func (w *world) applyStatusA(u, ur int, gen string) {
	r, u32, ur32 := int32(w.size), int32(u), int32(ur)
	obj := w.base.DeepCopyObject()
	unobs := gen == "workload-unobserved"
	switch o := obj.(type) {
	case *kruiseappsv1alpha1.CloneSet:
		total := r
		if w.k.Style == v1beta1.BlueGreenRollingStyle {
			total = r + u32
		}
		o.Status.Replicas, o.Status.ReadyReplicas, o.Status.AvailableReplicas = total, total-u32+ur32, total-u32+ur32
		o.Status.UpdatedReplicas, o.Status.UpdatedReadyReplicas = u32, ur32
		o.Status.ObservedGeneration = o.Generation
		if unobs {
			o.Generation++
		}
	case *apps.StatefulSet:
		o.Status.Replicas, o.Status.ReadyReplicas, o.Status.AvailableReplicas = r, r-u32+ur32, r-u32+ur32
		o.Status.UpdatedReplicas, o.Status.CurrentReplicas = u32, r-u32
		o.Status.ObservedGeneration = o.Generation
		if unobs {
			o.Generation++
		}
	case *kruiseappsv1beta1.StatefulSet:
		o.Status.Replicas, o.Status.ReadyReplicas, o.Status.AvailableReplicas = r, r-u32+ur32, r-u32+ur32
		o.Status.UpdatedReplicas, o.Status.UpdatedReadyReplicas, o.Status.CurrentReplicas = u32, ur32, r-u32
		o.Status.ObservedGeneration = o.Generation
		if unobs {
			o.Generation++
		}
	case *kruiseappsv1alpha1.DaemonSet:
		o.Status.CurrentNumberScheduled, o.Status.NumberReady, o.Status.NumberAvailable = r, r-u32+ur32, r-u32+ur32
		o.Status.UpdatedNumberScheduled = u32
		o.Status.ObservedGeneration = o.Generation
		if unobs {
			o.Generation++
		}
	case *apps.Deployment:
		switch w.k.Style {
		case v1beta1.PartitionRollingStyle:
			o.Status.Replicas, o.Status.ReadyReplicas, o.Status.AvailableReplicas, o.Status.UpdatedReplicas = r, r-u32+ur32, r-u32+ur32, u32
			if o.Annotations == nil {
				o.Annotations = map[string]string{}
			}
			o.Annotations[rolloutsv1alpha1.DeploymentExtraStatusAnnotation] = fmt.Sprintf(`{"updatedReadyReplicas":%d,"expectedUpdatedReplicas":%d}`, ur, u)
		case v1beta1.BlueGreenRollingStyle:
			o.Status.Replicas, o.Status.ReadyReplicas, o.Status.AvailableReplicas, o.Status.UpdatedReplicas = r+u32, r+ur32, r, u32
			rs := w.newRS.DeepCopy()
			rs.Spec.Replicas = pointer.Int32(u32)
			rs.Status.Replicas, rs.Status.ReadyReplicas = u32, ur32
			w.put(rsGVR, rs)
		case v1beta1.CanaryRollingStyle:
			o.Status.Replicas, o.Status.ReadyReplicas, o.Status.AvailableReplicas = r, r, r
			c := w.canaryBase.DeepCopy()
			c.Status.Replicas, c.Status.UpdatedReplicas, c.Status.ReadyReplicas, c.Status.AvailableReplicas = u32, u32, ur32, ur32
			c.Status.ObservedGeneration = c.Generation
			if gen == "canary-unobserved" {
				c.Generation++
			}
			w.put(depGVR, c)
		}
		o.Status.ObservedGeneration = o.Generation
		if unobs {
			o.Generation++
		}
	}
	w.put(w.k.GVR, obj)
}

// podsA: the pods that correspond to the generated status: u pods of the new revision (the first ur ready, the first
// `labeled` carrying the batch labels) and the pods of the old revision (all ready).
func (w *world) podsA(u, ur, labeled, cb int) []podState {
	old := w.size - u
	switch w.k.Style {
	case v1beta1.BlueGreenRollingStyle:
		old = w.size
	case v1beta1.CanaryRollingStyle:
		old = 0 // the stable Deployment's pods are not owned by the canary Deployment
	}
	out := make([]podState, 0, u+old)
	for i := 0; i < u; i++ {
		p := podState{New: true, Ready: i < ur}
		if i < labeled {
			p.Labeled = true
			// plan of currentBatch 1 is ["1", v]: the first pod belongs to batch 1
			p.Batch = "1"
			if cb == 1 && i >= 1 {
				p.Batch = "2"
			}
		}
		out = append(out, p)
	}
	for i := 0; i < old; i++ {
		out = append(out, podState{Ready: true})
	}
	return out
}

// toleranceRef: how many of the planned pods may be unready. An integer threshold as is; a percentage "of all
// upgraded pods" (API doc) scaled against the updated pods, rounded up; nil: the doc says "the MaxUnavailable of the
// workload", the most permissive reading is taken (the code uses 0).
func toleranceRef(k *kindSpec, thr string, updated, size int) int {
	if thr == "" {
		return workloadMaxUnavailable(k, size)
	}
	v := parseVal(thr)
	if v.Type == intstr.Int {
		if v.IntVal < 0 {
			return 0
		}
		return int(v.IntVal)
	}
	p, _ := strconv.Atoi(strings.TrimSuffix(v.StrVal, "%"))
	return (p*updated + 99) / 100
}

func errClass(err string) string {
	switch {
	case strings.Contains(err, "updated replicas not satisfied"):
		return "updated<desired"
	case strings.Contains(err, "updated ready replicas not satisfied"):
		return "ready+tolerated<desired"
	case strings.Contains(err, "no updated ready replicas"):
		return "none-ready"
	case strings.Contains(err, "batch label not satisfied"):
		return "labels"
	case strings.Contains(err, "wait canary workload"):
		return "canary-generation-not-observed"
	}
	return "other"
}

// prepareA brings the store to the state of the case (status + pods).
func (w *world) prepareA(c CaseA, forcePods bool) {
	w.applyStatusA(c.Updated, c.UpdatedReady, c.Gen)
	switch {
	case c.RolloutID && c.Labeled < 0:
		w.setPods(nil, false)
	case c.RolloutID:
		w.setPods(w.podsA(c.Updated, c.UpdatedReady, c.Labeled, c.CurrentBatch), forcePods)
	case w.k.NeedsPods:
		w.setPods(w.podsA(c.Updated, c.UpdatedReady, 0, 0), forcePods)
	default:
		w.setPods(nil, false)
	}
}

// callA runs the real code for the case on the prepared store and judges it.
func (w *world) callA(c CaseA) resA {
	var res resA
	rp := &w.rel.Spec.ReleasePlan
	rp.Batches = batchesOf(c.Plan)
	rp.BatchPartition = pointer.Int32(int32(c.CurrentBatch))
	rp.FailureThreshold = nil
	if c.Threshold != "" {
		t := parseVal(c.Threshold)
		rp.FailureThreshold = &t
	}
	rp.RolloutID = ""
	if c.RolloutID {
		rp.RolloutID = rolloutID
	}
	w.rel.Status.ObservedRolloutID = rp.RolloutID
	w.rel.Status.CanaryStatus.CurrentBatch = int32(c.CurrentBatch)
	w.rel.Status.CanaryStatus.CurrentBatchState = v1beta1.VerifyingBatchState

	cur := parseVal(c.Plan[c.CurrentBatch])
	res.Planned = plannedOnKnob(w.k.Name, cur, c.Replicas)
	strict := plannedRef(cur, c.Replicas)
	res.Tolerance = toleranceRef(w.k, c.Threshold, c.Updated, c.Replicas)

	if c.Gen != "observed" {
		// the executor evaluates the predicate only when syncStatusBeforeExecuting does not stop the round; the part of it
		// that reads the workload generation is SyncWorkloadInformation (WorkloadStillReconciling => "then wait")
		var ev control.WorkloadEventType
		st := w.rel.Status.DeepCopy()
		if pn := lib.Catch(func() { ev, _, _ = w.plane(st).SyncWorkloadInformation() }); pn != nil {
			res.Verdicts = append(res.Verdicts, verdict{"C11/status/panic/" + pn.Site, "SyncWorkloadInformation panicked: " + pn.Value + "\n" + pn.Stack})
		}
		res.SyncEvent = string(ev)
		res.Gated = ev == control.WorkloadStillReconciling
	}

	w0 := w.cli.writes
	var err error
	st := w.rel.Status.DeepCopy()
	pn := lib.Catch(func() { err = w.plane(st).EnsureBatchPodsReadyAndLabeled() })
	res.Writes = w.cli.writes - w0
	if pn != nil {
		res.Err = "panic: " + pn.Value
		res.Outcome = "panic"
		res.Verdicts = append(res.Verdicts, verdict{"C11/status/panic/" + pn.Site, "EnsureBatchPodsReadyAndLabeled panicked: " + pn.Value + "\n" + pn.Stack})
		return res
	}
	res.Ready = err == nil
	if err != nil {
		res.Err = err.Error()
	}
	if c.RolloutID {
		res.LabeledAfter = c.Labeled
		if c.Labeled < 0 {
			res.LabeledAfter = 0
		}
		if res.Writes > 0 {
			res.LabeledAfter = w.labeledInStore()
		}
	}

	// reference
	reason := func(planned int) string {
		switch {
		case c.Gen != "observed":
			return "status-not-observed"
		case c.Updated < planned:
			return "fewer-updated-than-planned"
		case planned-c.UpdatedReady > res.Tolerance:
			return "unready-beyond-threshold"
		case planned >= 1 && c.UpdatedReady < 1:
			return "none-ready"
		case c.RolloutID && c.Labeled >= 0 && res.LabeledAfter < planned:
			return "labels-missing"
		}
		return ""
	}
	res.RefReason = reason(res.Planned)
	if res.RefReason != "" && c.Kind == "deployment-bluegreen" && cur.Type == intstr.String && cur.StrVal != "100%" && c.Replicas > 1 && res.Planned == c.Replicas && reason(c.Replicas-1) == "" {
		// one root cause, one signature: the blue-green Deployment control derives the planned count with the advanced
		// Deployment's NewRSReplicasLimit (a percentage below 100% is capped at R-1) although its own UpgradeBatch asks the
		// Deployment for ceil(percentage x R) surge pods
		res.RefReason = "percent-batch-capped-at-R-1"
	}

	desc := func() string {
		thr := c.Threshold
		if thr == "" {
			thr = "nil"
		}
		return fmt.Sprintf("%s, %d replicas, batch %d = %s (calls for %d pods), failureThreshold %s (tolerates %d), status: %d updated / %d updated-ready, generation %s, rollout-id %v (labelled pods before %d, after %d)",
			c.Kind, c.Replicas, c.CurrentBatch, c.Plan[c.CurrentBatch], res.Planned, thr, res.Tolerance, c.Updated, c.UpdatedReady, c.Gen, c.RolloutID, c.Labeled, res.LabeledAfter)
	}
	switch {
	case res.Ready && res.RefReason == "":
		res.Outcome = "ready/agree"
		if c.RolloutID && c.Labeled < 0 && res.Planned > 0 {
			// no pod visible at all (lagging pod informer): the label check of the code is vacuous for an empty pod list; the
			// property text does not speak about labels: counted only
			res.Outcome = "ready-with-no-pod-visible(label check vacuous, not judged)"
		} else if c.Updated < strict {
			res.Outcome = "ready/agree(percentage<100% capped at R-1 by the advanced-Deployment rule)"
		}
	case res.Ready && res.Gated:
		res.Outcome = "ready-but-round-stopped-by-SyncWorkloadInformation(not reported)"
	case res.Ready:
		res.Outcome = "ready/VIOLATION/" + res.RefReason
		res.Verdicts = append(res.Verdicts, verdict{"C11/status/ready/" + c.Kind + "/" + res.RefReason,
			"EnsureBatchPodsReadyAndLabeled returned nil (executor: batch Ready) but the reference says not ready (" + res.RefReason + "): " + desc()})
	case res.RefReason == "":
		res.Outcome = "not-ready/liveness-only(reference: ready)/" + errClass(res.Err)
	default:
		res.Outcome = "not-ready/agree/" + res.RefReason
	}
	if res.Gated && !res.Ready {
		res.Outcome += "+round-stopped-by-sync"
	}
	return res
}

// ---------------------------------------------------------------------------------------------
// domain of part A
// ---------------------------------------------------------------------------------------------

func replicasA(thorough bool) []int {
	var out []int
	if thorough {
		for r := 1; r <= 16; r++ {
			out = append(out, r)
		}
		return append(out, 20, 50, 100, 150)
	}
	for r := 1; r <= 8; r++ {
		out = append(out, r)
	}
	return append(out, 10, 20, 100)
}

func dedupe(in []string) []string {
	seen := map[string]bool{}
	var out []string
	for _, s := range in {
		if !seen[s] {
			seen[s] = true
			out = append(out, s)
		}
	}
	return out
}

func batchValuesA(r int, thorough bool) []string {
	pcts := []int{1, 20, 50, 67, 99, 100, 150}
	ints := []int{0, 1, 2, r / 2, r - 1, r, r + 1, r + 5}
	if thorough {
		pcts = []int{1, 10, 20, 25, 33, 34, 50, 67, 75, 90, 99, 100, 150, 200}
		ints = append(ints, 3, r/3, 2*r/3, r-2)
	}
	var out []string
	for _, p := range pcts {
		out = append(out, fmt.Sprintf("%d%%", p))
	}
	for _, v := range ints {
		if v >= 0 {
			out = append(out, strconv.Itoa(v))
		}
	}
	return dedupe(out)
}

func thresholdsA(r int, thorough bool) []string {
	out := []string{"", "0", "1", "20%", "50%", "100%", strconv.Itoa(r)}
	if thorough {
		out = append(out, "2", "0%", "1%", "33%", strconv.Itoa(r+5))
	}
	return dedupe(out)
}

func sortedInts(m map[int]bool, lo, hi int) []int {
	var out []int
	for v := lo; v <= hi; v++ {
		if m[v] {
			out = append(out, v)
		}
	}
	return out
}

// updatedValuesA: every value 0..R for small workloads; around every planned count otherwise.
func updatedValuesA(r int, batches []string) []int {
	m := map[int]bool{}
	if r <= 16 {
		for u := 0; u <= r; u++ {
			m[u] = true
		}
		return sortedInts(m, 0, r)
	}
	for _, v := range []int{0, 1, r - 1, r} {
		m[v] = true
	}
	for _, b := range batches {
		p := plannedRef(parseVal(b), r)
		m[p-1], m[p], m[p+1] = true, true, true
	}
	return sortedInts(m, 0, r)
}

// readyValuesA: every value 0..u for small workloads; the boundaries of every (planned, tolerance) pair otherwise.
func readyValuesA(r, u int, batches, thresholds []string, k *kindSpec) []int {
	m := map[int]bool{}
	if r <= 16 {
		for v := 0; v <= u; v++ {
			m[v] = true
		}
		return sortedInts(m, 0, u)
	}
	for _, v := range []int{0, 1, u - 1, u} {
		m[v] = true
	}
	for _, b := range batches {
		p := plannedRef(parseVal(b), r)
		if p > u+1 {
			continue
		}
		for _, t := range thresholds {
			tol := toleranceRef(k, t, u, r)
			m[p-tol-1], m[p-tol] = true, true
		}
	}
	return sortedInts(m, 0, u)
}
