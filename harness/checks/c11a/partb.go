package c11a

import (
	"fmt"
	"strconv"
	"strings"

	kruiseappsv1alpha1 "github.com/openkruise/kruise-api/apps/v1alpha1"
	kruiseappsv1beta1 "github.com/openkruise/kruise-api/apps/v1beta1"
	"github.com/openkruise/rollouts/api/v1beta1"
	apps "k8s.io/api/apps/v1"
	"k8s.io/apimachinery/pkg/runtime"
	"k8s.io/utils/pointer"

	"verifharness/lib"
)

// ---------------------------------------------------------------------------------------------
// Part B: finalisers
// ---------------------------------------------------------------------------------------------

// BStatus is one generated workload status at the time of a Finalize attempt. The status is the truth about the
// pods (Total pods exist, Updated of them on the new revision, Ready of them ready, UpdatedReady updated and ready),
// except when Stale: then the status object claims "every pod updated and ready" but was written for an older
// generation (status.observedGeneration < metadata.generation) while no pod is on the current revision.
type BStatus struct {
	Class        string `json:"class"`
	Total        int    `json:"total"`
	Updated      int    `json:"updated"`
	Ready        int    `json:"ready"`
	UpdatedReady int    `json:"updatedReady"`
	Stale        bool   `json:"stale,omitempty"`
}

func (s BStatus) String() string {
	if s.Stale {
		return fmt.Sprintf("%s(status claims %d/%d updated, %d ready; observedGeneration behind, no pod on the current revision)", s.Class, s.Updated, s.Total, s.Ready)
	}
	return fmt.Sprintf("%s(%d pods, %d updated, %d ready, %d updated+ready)", s.Class, s.Total, s.Updated, s.Ready, s.UpdatedReady)
}

// CaseB is one finaliser history (also the replay format).
type CaseB struct {
	Part     string `json:"part"` // "B"
	Kind     string `json:"kind"`
	Replicas int    `json:"replicas"`
	// Partitioned: spec.releasePlan.batchPartition is non-nil (0) when Finalize runs (release deleted / cancelled);
	// false: nil (the Rollout asks for promotion)
	Partitioned bool      `json:"batchPartitionSet"`
	Policy      string    `json:"finalizingPolicy"`
	Statuses    []BStatus `json:"statuses"` // workload status at attempt 1, 2, 3
}

func (c CaseB) key() string {
	var b strings.Builder
	b.WriteString("B|" + c.Kind + "|" + strconv.Itoa(c.Replicas) + "|" + strconv.FormatBool(c.Partitioned) + "|" + c.Policy)
	for _, s := range c.Statuses {
		fmt.Fprintf(&b, "|%d,%d,%d,%d,%v", s.Total, s.Updated, s.Ready, s.UpdatedReady, s.Stale)
	}
	return b.String()
}

// statusesB: the generated statuses for a workload of r replicas, simplest first.
func statusesB(r int, bluegreen bool) []BStatus {
	out := []BStatus{{Class: "all-updated-and-ready", Total: r, Updated: r, Ready: r, UpdatedReady: r}}
	for k := 1; k <= r; k++ {
		out = append(out, BStatus{Class: "all-updated-" + strconv.Itoa(k) + "-unready", Total: r, Updated: r, Ready: r - k, UpdatedReady: r - k})
	}
	for u := r - 1; u >= 0; u-- {
		out = append(out, BStatus{Class: "not-all-updated", Total: r, Updated: u, Ready: r, UpdatedReady: u})
	}
	for u := r - 1; u >= 0; u-- {
		out = append(out, BStatus{Class: "not-all-updated-old-pods-unready", Total: r, Updated: u, Ready: u, UpdatedReady: u})
	}
	if bluegreen {
		for u := r; u >= 1; u-- {
			out = append(out, BStatus{Class: "surged-old-pods-still-there", Total: r + u, Updated: u, Ready: r + u, UpdatedReady: u})
		}
	}
	out = append(out, BStatus{Class: "stale-generation", Total: r, Updated: r, Ready: r, UpdatedReady: r, Stale: true})
	return out
}

type snapshotB struct {
	workload runtime.Object
	canary   runtime.Object
	status   v1beta1.BatchReleaseStatus
}

func (w *world) snapB() *snapshotB {
	s := &snapshotB{workload: w.mustGet(w.k.GVR, appName), status: *w.rel.Status.DeepCopy()}
	if w.canary != "" {
		s.canary = w.mustGet(depGVR, w.canary)
	}
	return s
}

func (w *world) restoreB(s *snapshotB) {
	w.put(w.k.GVR, s.workload.DeepCopyObject())
	if s.canary != nil {
		w.put(depGVR, s.canary.DeepCopyObject())
	}
	w.rel.Status = *s.status.DeepCopy()
}

// applyStatusB writes the generated status onto the workload as it is stored now (Finalize may have changed its spec).
func (w *world) applyStatusB(s BStatus) {
	t, u, rd, ur := int32(s.Total), int32(s.Updated), int32(s.Ready), int32(s.UpdatedReady)
	obj := w.mustGet(w.k.GVR, appName)
	gen := func(generation *int64, observed *int64) {
		if *generation < 1 {
			*generation = 1
		}
		*observed = *generation
		if s.Stale {
			*generation = *generation + 1
		}
	}
	switch o := obj.(type) {
	case *kruiseappsv1alpha1.CloneSet:
		o.Status.Replicas, o.Status.UpdatedReplicas, o.Status.ReadyReplicas, o.Status.AvailableReplicas, o.Status.UpdatedReadyReplicas = t, u, rd, rd, ur
		o.Generation = 1
		gen(&o.Generation, &o.Status.ObservedGeneration)
	case *apps.StatefulSet:
		o.Status.Replicas, o.Status.UpdatedReplicas, o.Status.ReadyReplicas, o.Status.AvailableReplicas, o.Status.CurrentReplicas = t, u, rd, rd, t-u
		o.Generation = 1
		gen(&o.Generation, &o.Status.ObservedGeneration)
	case *kruiseappsv1beta1.StatefulSet:
		o.Status.Replicas, o.Status.UpdatedReplicas, o.Status.ReadyReplicas, o.Status.AvailableReplicas, o.Status.UpdatedReadyReplicas = t, u, rd, rd, ur
		o.Generation = 1
		gen(&o.Generation, &o.Status.ObservedGeneration)
	case *kruiseappsv1alpha1.DaemonSet:
		o.Status.CurrentNumberScheduled, o.Status.UpdatedNumberScheduled, o.Status.NumberReady, o.Status.NumberAvailable = t, u, rd, rd
		o.Generation = 1
		gen(&o.Generation, &o.Status.ObservedGeneration)
	case *apps.Deployment:
		o.Status.Replicas, o.Status.UpdatedReplicas, o.Status.ReadyReplicas, o.Status.AvailableReplicas = t, u, rd, rd
		o.Status.UnavailableReplicas = t - rd
		o.Generation = 1
		gen(&o.Generation, &o.Status.ObservedGeneration)
	}
	w.put(w.k.GVR, obj)
}

type attemptB struct {
	Attempt    int
	Status     BStatus
	Err        string
	Nil        bool
	Writes     int
	Controlled bool // the workload still carries the control-info annotation after the call
	Class      string
	Verdicts   []verdict
}

// judgeB: what a nil return of Finalize (executor: phase Completed) must imply.
func judgeB(k *kindSpec, c CaseB, a *attemptB) {
	if !a.Nil {
		a.Class = "error(retry)"
		return
	}
	mk := func(class, why string) {
		// the attempt is part of the signature only where it distinguishes defects: the pod-count classes differ between
		// the first attempt and a retry (the blue-green Deployment finaliser judges an empty object on retries); the
		// other classes are the same on every attempt
		suffix := ""
		if class == "not-all-updated" || class == "not-all-ready" {
			suffix = "/first-attempt"
			if a.Attempt > 1 {
				suffix = "/on-retry"
			}
		}
		a.Verdicts = append(a.Verdicts, verdict{fmt.Sprintf("C11/status/completed/%s/%s%s", c.Kind, class, suffix),
			fmt.Sprintf("Finalize attempt %d of %s (%d replicas, batchPartition %s, finalizingPolicy %s) returned nil (executor: phase Completed) %s; workload status at this attempt: %s",
				a.Attempt, c.Kind, c.Replicas, map[bool]string{true: "0", false: "nil"}[c.Partitioned], c.Policy, why, a.Status)})
	}
	a.Class = "completed/released"
	if a.Controlled {
		a.Class = "completed/VIOLATION/still-controlled"
		mk("still-controlled", "while the workload still carries the control-info annotation")
	}
	if !k.HasWait {
		a.Class += "(no wait in this style, pods not judged)"
		return
	}
	if c.Policy != string(v1beta1.WaitResumeFinalizingPolicyType) || c.Partitioned {
		a.Class += "(policy is not to wait, pods not judged)"
		return
	}
	s := a.Status
	switch {
	case s.Stale:
		a.Class = "completed/VIOLATION/status-not-observed"
		mk("status-not-observed", "under the WaitResume policy on a status whose observedGeneration is behind the workload generation (no pod is on the current revision)")
	case s.Updated < s.Total || s.Total < c.Replicas:
		a.Class = "completed/VIOLATION/not-all-updated"
		mk("not-all-updated", fmt.Sprintf("under the WaitResume policy although only %d of %d pods are updated", s.Updated, s.Total))
	case s.Ready < s.Total:
		if s.Total-s.Ready <= workloadMaxUnavailable(k, c.Replicas) {
			a.Class = "completed/VIOLATION/within-workload-maxUnavailable"
			mk("within-workload-maxUnavailable", fmt.Sprintf("under the WaitResume policy although %d of %d pods are not ready (within the workload's own maxUnavailable %d)", s.Total-s.Ready, s.Total, workloadMaxUnavailable(k, c.Replicas)))
		} else {
			a.Class = "completed/VIOLATION/not-all-ready"
			mk("not-all-ready", fmt.Sprintf("under the WaitResume policy although %d of %d pods are not ready (workload maxUnavailable %d)", s.Total-s.Ready, s.Total, workloadMaxUnavailable(k, c.Replicas)))
		}
	default:
		if !a.Controlled {
			a.Class = "completed/released-all-updated-and-ready"
		}
	}
}

// runB executes one history on a world that was initialised (snapshot s).
func (w *world) runB(c CaseB, s *snapshotB) []attemptB {
	w.restoreB(s)
	rp := &w.rel.Spec.ReleasePlan
	rp.BatchPartition = nil
	if c.Partitioned {
		rp.BatchPartition = pointer.Int32(0)
	}
	rp.FinalizingPolicy = v1beta1.FinalizingPolicyType(c.Policy)
	w.rel.Status.Phase = v1beta1.RolloutPhaseFinalizing
	out := make([]attemptB, 0, len(c.Statuses))
	for i, st := range c.Statuses {
		w.applyStatusB(st)
		a := attemptB{Attempt: i + 1, Status: st}
		w0 := w.cli.writes
		var err error
		ns := w.rel.Status.DeepCopy()
		pn := lib.Catch(func() { err = w.plane(ns).Finalize() })
		a.Writes = w.cli.writes - w0
		a.Controlled = w.controlled()
		if pn != nil {
			a.Err = "panic: " + pn.Value
			a.Class = "panic"
			a.Verdicts = append(a.Verdicts, verdict{"C11/status/panic/" + pn.Site, fmt.Sprintf("Finalize attempt %d panicked: %s\n%s", i+1, pn.Value, pn.Stack)})
			out = append(out, a)
			continue
		}
		a.Nil = err == nil
		if err != nil {
			a.Err = err.Error()
		}
		judgeB(w.k, c, &a)
		out = append(out, a)
	}
	// leave the BatchRelease as the other part expects it
	rp.BatchPartition = pointer.Int32(0)
	rp.FinalizingPolicy = ""
	return out
}

func replicasB(thorough bool) []int {
	if thorough {
		return []int{1, 2, 3, 4, 5, 8}
	}
	return []int{1, 2, 3, 4, 5}
}

// sequencesB: status at attempt 1, 2, 3. Quick: every pair (a at attempt 1, b at attempts 2 and 3), constant
// sequences first; thorough: every triple.
func sequencesB(sts []BStatus, thorough bool) [][]BStatus {
	var out [][]BStatus
	for _, a := range sts {
		out = append(out, []BStatus{a, a, a})
	}
	for _, a := range sts {
		for _, b := range sts {
			if !thorough {
				if a != b {
					out = append(out, []BStatus{a, b, b})
				}
				continue
			}
			for _, c := range sts {
				if !(a == b && b == c) {
					out = append(out, []BStatus{a, b, c})
				}
			}
		}
	}
	return out
}
