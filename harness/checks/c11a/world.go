package c11a

import (
	"context"
	"fmt"
	"sort"
	"strconv"
	"strings"

	kruiseappsv1alpha1 "github.com/openkruise/kruise-api/apps/v1alpha1"
	kruiseappsv1beta1 "github.com/openkruise/kruise-api/apps/v1beta1"
	rolloutsv1alpha1 "github.com/openkruise/rollouts/api/v1alpha1"
	"github.com/openkruise/rollouts/api/v1beta1"
	"github.com/openkruise/rollouts/pkg/controller/batchrelease/control"
	"github.com/openkruise/rollouts/pkg/controller/batchrelease/control/bluegreenstyle"
	bgcloneset "github.com/openkruise/rollouts/pkg/controller/batchrelease/control/bluegreenstyle/cloneset"
	bgdeployment "github.com/openkruise/rollouts/pkg/controller/batchrelease/control/bluegreenstyle/deployment"
	"github.com/openkruise/rollouts/pkg/controller/batchrelease/control/canarystyle"
	canarydeployment "github.com/openkruise/rollouts/pkg/controller/batchrelease/control/canarystyle/deployment"
	"github.com/openkruise/rollouts/pkg/controller/batchrelease/control/partitionstyle"
	pcloneset "github.com/openkruise/rollouts/pkg/controller/batchrelease/control/partitionstyle/cloneset"
	pdaemonset "github.com/openkruise/rollouts/pkg/controller/batchrelease/control/partitionstyle/daemonset"
	pdeployment "github.com/openkruise/rollouts/pkg/controller/batchrelease/control/partitionstyle/deployment"
	pstatefulset "github.com/openkruise/rollouts/pkg/controller/batchrelease/control/partitionstyle/statefulset"
	"github.com/openkruise/rollouts/pkg/util"
	expectations "github.com/openkruise/rollouts/pkg/util/expectation"
	apps "k8s.io/api/apps/v1"
	corev1 "k8s.io/api/core/v1"
	metav1 "k8s.io/apimachinery/pkg/apis/meta/v1"
	"k8s.io/apimachinery/pkg/runtime"
	"k8s.io/apimachinery/pkg/runtime/schema"
	"k8s.io/apimachinery/pkg/runtime/serializer"
	"k8s.io/apimachinery/pkg/types"
	"k8s.io/apimachinery/pkg/util/intstr"
	clientgoscheme "k8s.io/client-go/kubernetes/scheme"
	k8stesting "k8s.io/client-go/testing"
	"k8s.io/client-go/tools/record"
	"k8s.io/utils/pointer"
	"sigs.k8s.io/controller-runtime/pkg/client"
	"sigs.k8s.io/controller-runtime/pkg/client/fake"

	"verifharness/lib"
)

// ---------------------------------------------------------------------------------------------
// kinds
// ---------------------------------------------------------------------------------------------

type kindSpec struct {
	Name  string // signature component "<kind>-<style>"
	Style v1beta1.RollingStyleType
	GVK   schema.GroupVersionKind
	GVR   schema.GroupVersionResource
	// HasWait: the finaliser of this control implements a wait-all-updated-and-ready (the property's mechanism list)
	HasWait bool
	// NeedsPods: the control derives updatedReadyReplicas from the pods (the workload status has no such field it reads)
	NeedsPods bool
	IsDeploy  bool
}

var (
	depGVR = apps.SchemeGroupVersion.WithResource("deployments")
	rsGVR  = apps.SchemeGroupVersion.WithResource("replicasets")
	rsGVK  = apps.SchemeGroupVersion.WithKind("ReplicaSet")
	podGVR = corev1.SchemeGroupVersion.WithResource("pods")
	podGVK = corev1.SchemeGroupVersion.WithKind("Pod")
)

var kinds = []*kindSpec{
	{"cloneset-partition", v1beta1.PartitionRollingStyle, kruiseappsv1alpha1.SchemeGroupVersion.WithKind("CloneSet"), kruiseappsv1alpha1.SchemeGroupVersion.WithResource("clonesets"), false, false, false},
	{"statefulset-partition", v1beta1.PartitionRollingStyle, apps.SchemeGroupVersion.WithKind("StatefulSet"), apps.SchemeGroupVersion.WithResource("statefulsets"), false, true, false},
	{"advstatefulset-partition", v1beta1.PartitionRollingStyle, kruiseappsv1beta1.SchemeGroupVersion.WithKind("StatefulSet"), kruiseappsv1beta1.SchemeGroupVersion.WithResource("statefulsets"), false, true, false},
	{"daemonset-partition", v1beta1.PartitionRollingStyle, kruiseappsv1alpha1.SchemeGroupVersion.WithKind("DaemonSet"), kruiseappsv1alpha1.SchemeGroupVersion.WithResource("daemonsets"), false, true, false},
	{"deployment-partition", v1beta1.PartitionRollingStyle, apps.SchemeGroupVersion.WithKind("Deployment"), depGVR, false, false, true},
	{"deployment-canary", v1beta1.CanaryRollingStyle, apps.SchemeGroupVersion.WithKind("Deployment"), depGVR, true, false, true},
	{"cloneset-bluegreen", v1beta1.BlueGreenRollingStyle, kruiseappsv1alpha1.SchemeGroupVersion.WithKind("CloneSet"), kruiseappsv1alpha1.SchemeGroupVersion.WithResource("clonesets"), true, false, false},
	{"deployment-bluegreen", v1beta1.BlueGreenRollingStyle, apps.SchemeGroupVersion.WithKind("Deployment"), depGVR, true, false, true},
}

func kindByName(n string) *kindSpec {
	for _, k := range kinds {
		if k.Name == n {
			return k
		}
	}
	return nil
}

var (
	scheme = runtime.NewScheme()
	codecs serializer.CodecFactory
)

func init() {
	_ = clientgoscheme.AddToScheme(scheme)
	_ = kruiseappsv1alpha1.AddToScheme(scheme)
	_ = kruiseappsv1beta1.AddToScheme(scheme)
	_ = rolloutsv1alpha1.AddToScheme(scheme)
	_ = v1beta1.AddToScheme(scheme)
	codecs = serializer.NewCodecFactory(scheme)
}

const (
	appName   = "app"
	relName   = "rel"
	newRev    = "rev-new"
	oldRev    = "rev-old"
	rolloutID = "rid-1"
	wlUID     = "wl-uid"
	canaryUID = "canary-uid"
	rsNewName = "app-new"
	rsOldName = "app-old"
)

// ---------------------------------------------------------------------------------------------
// small helpers
// ---------------------------------------------------------------------------------------------

func parseVal(s string) intstr.IntOrString {
	if strings.HasSuffix(s, "%") {
		return intstr.FromString(s)
	}
	n, _ := strconv.Atoi(s)
	return intstr.FromInt(n)
}

func batchesOf(vals []string) []v1beta1.ReleaseBatch {
	out := make([]v1beta1.ReleaseBatch, len(vals))
	for i, v := range vals {
		out[i] = v1beta1.ReleaseBatch{CanaryReplicas: parseVal(v)}
	}
	return out
}

// plannedRef: the number of pods a batch value calls for on a workload of the given size: an integer as is, a
// percentage scaled against the size and rounded up; clamped to [0, size]. (The definition every control plane
// but two takes from control.CalculateBatchReplicas, re-stated independently.)
func plannedRef(v intstr.IntOrString, size int) int {
	n := 0
	if v.Type == intstr.Int {
		n = int(v.IntVal)
	} else {
		p, _ := strconv.Atoi(strings.TrimSuffix(v.StrVal, "%"))
		n = (p*size + 99) / 100
	}
	if n > size {
		n = size
	}
	if n < 0 {
		n = 0
	}
	return n
}

// plannedOnKnob: for the advanced (partition-style) Deployment a percentage below 100% never covers every pod
// (deployment controller rule NewRSReplicasLimit): the knob can never produce more, so the batch cannot call for more.
func plannedOnKnob(kind string, v intstr.IntOrString, size int) int {
	n := plannedRef(v, size)
	if kind == "deployment-partition" && v.Type == intstr.String && v.StrVal != "100%" && size > 1 && n > size-1 {
		n = size - 1
	}
	return n
}

// ---------------------------------------------------------------------------------------------
// counting client: how many writes the code under test issued
// ---------------------------------------------------------------------------------------------

type countingClient struct {
	client.Client
	writes int
}

func (c *countingClient) Patch(ctx context.Context, obj client.Object, p client.Patch, opts ...client.PatchOption) error {
	c.writes++
	return c.Client.Patch(ctx, obj, p, opts...)
}
func (c *countingClient) Update(ctx context.Context, obj client.Object, opts ...client.UpdateOption) error {
	c.writes++
	return c.Client.Update(ctx, obj, opts...)
}
func (c *countingClient) Create(ctx context.Context, obj client.Object, opts ...client.CreateOption) error {
	c.writes++
	return c.Client.Create(ctx, obj, opts...)
}
func (c *countingClient) Delete(ctx context.Context, obj client.Object, opts ...client.DeleteOption) error {
	c.writes++
	return c.Client.Delete(ctx, obj, opts...)
}

// ---------------------------------------------------------------------------------------------
// world: one workload (+ ReplicaSets, canary Deployment, pods) in a fake store and its BatchRelease
// ---------------------------------------------------------------------------------------------

type podState struct {
	New     bool
	Ready   bool
	Labeled bool
	Batch   string
}

type world struct {
	k   *kindSpec
	ns  string
	tr  k8stesting.ObjectTracker
	cli *countingClient
	rec record.EventRecorder

	rel       *v1beta1.BatchRelease
	size      int
	canary    string
	initDone  bool
	updateRev string

	base       client.Object    // the workload as stored after Initialize (+UpgradeBatch)
	canaryBase *apps.Deployment // canary style: the canary Deployment as stored after Initialize
	newRS      *apps.ReplicaSet // Deployment kinds: the ReplicaSet of the new revision
	pods       []podState       // pods currently in the store, pod i is named pod-<i>
}

func podTemplate(image string) corev1.PodTemplateSpec {
	return corev1.PodTemplateSpec{
		ObjectMeta: metav1.ObjectMeta{Labels: map[string]string{"app": appName}},
		Spec:       corev1.PodSpec{Containers: []corev1.Container{{Name: "main", Image: image}}},
	}
}

// buildWorkload returns the workload as the workload webhook leaves it when a release starts (paused /
// partition closed), all pods on the old revision, generation observed.
func buildWorkload(k *kindSpec, ns string, size int) client.Object {
	r := int32(size)
	om := metav1.ObjectMeta{Name: appName, Namespace: ns, UID: types.UID(wlUID), Generation: 1, ResourceVersion: "1",
		Annotations: map[string]string{util.InRolloutProgressingAnnotation: `{"rolloutName":"ro"}`}, Labels: map[string]string{}}
	sel := &metav1.LabelSelector{MatchLabels: map[string]string{"app": appName}}
	switch k.GVK.Kind + "/" + k.GVK.Group {
	case "CloneSet/apps.kruise.io":
		p := intstr.FromString("100%")
		return &kruiseappsv1alpha1.CloneSet{
			TypeMeta:   metav1.TypeMeta{APIVersion: k.GVK.GroupVersion().String(), Kind: k.GVK.Kind},
			ObjectMeta: om,
			Spec: kruiseappsv1alpha1.CloneSetSpec{Replicas: &r, Selector: sel, Template: podTemplate("img:v2"),
				UpdateStrategy: kruiseappsv1alpha1.CloneSetUpdateStrategy{Partition: &p}},
			Status: kruiseappsv1alpha1.CloneSetStatus{ObservedGeneration: 1, Replicas: r, ReadyReplicas: r, AvailableReplicas: r,
				UpdateRevision: newRev, CurrentRevision: oldRev},
		}
	case "StatefulSet/apps":
		return &apps.StatefulSet{
			TypeMeta:   metav1.TypeMeta{APIVersion: "apps/v1", Kind: "StatefulSet"},
			ObjectMeta: om,
			Spec: apps.StatefulSetSpec{Replicas: &r, Selector: sel, Template: podTemplate("img:v2"),
				UpdateStrategy: apps.StatefulSetUpdateStrategy{Type: apps.RollingUpdateStatefulSetStrategyType,
					RollingUpdate: &apps.RollingUpdateStatefulSetStrategy{Partition: pointer.Int32(32767)}}},
			Status: apps.StatefulSetStatus{ObservedGeneration: 1, Replicas: r, ReadyReplicas: r, AvailableReplicas: r, CurrentReplicas: r,
				UpdateRevision: newRev, CurrentRevision: oldRev},
		}
	case "StatefulSet/apps.kruise.io":
		return &kruiseappsv1beta1.StatefulSet{
			TypeMeta:   metav1.TypeMeta{APIVersion: k.GVK.GroupVersion().String(), Kind: k.GVK.Kind},
			ObjectMeta: om,
			Spec: kruiseappsv1beta1.StatefulSetSpec{Replicas: &r, Selector: sel, Template: podTemplate("img:v2"),
				UpdateStrategy: kruiseappsv1beta1.StatefulSetUpdateStrategy{Type: apps.RollingUpdateStatefulSetStrategyType,
					RollingUpdate: &kruiseappsv1beta1.RollingUpdateStatefulSetStrategy{Partition: pointer.Int32(32767)}}},
			Status: kruiseappsv1beta1.StatefulSetStatus{ObservedGeneration: 1, Replicas: r, ReadyReplicas: r, AvailableReplicas: r, CurrentReplicas: r,
				UpdateRevision: newRev, CurrentRevision: oldRev},
		}
	case "DaemonSet/apps.kruise.io":
		return &kruiseappsv1alpha1.DaemonSet{
			TypeMeta:   metav1.TypeMeta{APIVersion: k.GVK.GroupVersion().String(), Kind: k.GVK.Kind},
			ObjectMeta: om,
			Spec: kruiseappsv1alpha1.DaemonSetSpec{Selector: sel, Template: podTemplate("img:v2"),
				UpdateStrategy: kruiseappsv1alpha1.DaemonSetUpdateStrategy{Type: kruiseappsv1alpha1.RollingUpdateDaemonSetStrategyType,
					RollingUpdate: &kruiseappsv1alpha1.RollingUpdateDaemonSet{Partition: pointer.Int32(32767)}}},
			Status: kruiseappsv1alpha1.DaemonSetStatus{ObservedGeneration: 1, DesiredNumberScheduled: r, CurrentNumberScheduled: r, NumberReady: r,
				NumberAvailable: r, DaemonSetHash: newRev},
		}
	case "Deployment/apps":
		ms, mu := intstr.FromString("25%"), intstr.FromString("25%")
		om.Labels[rolloutsv1alpha1.DeploymentStableRevisionLabel] = "stablehash"
		return &apps.Deployment{
			TypeMeta:   metav1.TypeMeta{APIVersion: "apps/v1", Kind: "Deployment"},
			ObjectMeta: om,
			Spec: apps.DeploymentSpec{Replicas: &r, Selector: sel, Template: podTemplate("img:v2"), Paused: true,
				ProgressDeadlineSeconds: pointer.Int32(600),
				Strategy: apps.DeploymentStrategy{Type: apps.RollingUpdateDeploymentStrategyType,
					RollingUpdate: &apps.RollingUpdateDeployment{MaxSurge: &ms, MaxUnavailable: &mu}}},
			Status: apps.DeploymentStatus{ObservedGeneration: 1, Replicas: r, ReadyReplicas: r, AvailableReplicas: r},
		}
	}
	panic("unknown kind " + k.Name)
}

// workloadMaxUnavailable: the workload's own maxUnavailable as built above, by the workload's own rule
// (Deployment: 25% rounded down; the other fixtures set none).
func workloadMaxUnavailable(k *kindSpec, size int) int {
	if k.IsDeploy {
		return size * 25 / 100
	}
	return 0
}

func newWorld(k *kindSpec, ns string, size int) *world {
	w := &world{k: k, ns: ns, size: size, rec: &record.FakeRecorder{}}
	w.tr = k8stesting.NewObjectTracker(scheme, codecs.UniversalDecoder())
	w.cli = &countingClient{Client: fake.NewClientBuilder().WithScheme(scheme).WithObjectTracker(w.tr).Build()}
	if err := w.tr.Add(buildWorkload(k, ns, size)); err != nil {
		panic(fmt.Sprintf("c11a: cannot add workload: %v", err))
	}
	if k.IsDeploy {
		// the ReplicaSet of the stable revision exists before the release starts
		old := w.mkRS(rsOldName, "rs-old-uid", wlUID, appName, podTemplate("img:v1"), "oldhash", size, 1000)
		if err := w.tr.Add(old); err != nil {
			panic(fmt.Sprintf("c11a: cannot add old ReplicaSet: %v", err))
		}
	}
	w.rel = &v1beta1.BatchRelease{
		TypeMeta:   metav1.TypeMeta{APIVersion: v1beta1.GroupVersion.String(), Kind: "BatchRelease"},
		ObjectMeta: metav1.ObjectMeta{Name: relName, Namespace: ns, UID: types.UID("rel-uid"), Generation: 1},
		Spec: v1beta1.BatchReleaseSpec{
			WorkloadRef: v1beta1.ObjectRef{APIVersion: k.GVK.GroupVersion().String(), Kind: k.GVK.Kind, Name: appName},
			ReleasePlan: v1beta1.ReleasePlan{RollingStyle: k.Style, BatchPartition: pointer.Int32(0), Batches: batchesOf([]string{"100%"})},
		},
	}
	return w
}

func (w *world) mkRS(name, uid, ownerUID, ownerName string, tmpl corev1.PodTemplateSpec, hash string, replicas int, created int64) *apps.ReplicaSet {
	t := *tmpl.DeepCopy()
	if t.Labels == nil {
		t.Labels = map[string]string{}
	}
	t.Labels[apps.DefaultDeploymentUniqueLabelKey] = hash
	return &apps.ReplicaSet{
		TypeMeta: metav1.TypeMeta{APIVersion: "apps/v1", Kind: "ReplicaSet"},
		ObjectMeta: metav1.ObjectMeta{Name: name, Namespace: w.ns, UID: types.UID(uid), ResourceVersion: "1", CreationTimestamp: metav1.Unix(created, 0),
			Labels: map[string]string{"app": appName, apps.DefaultDeploymentUniqueLabelKey: hash},
			OwnerReferences: []metav1.OwnerReference{{APIVersion: "apps/v1", Kind: "Deployment", Name: ownerName, UID: types.UID(ownerUID),
				Controller: pointer.Bool(true), BlockOwnerDeletion: pointer.Bool(true)}}},
		Spec: apps.ReplicaSetSpec{Replicas: pointer.Int32(int32(replicas)),
			Selector: &metav1.LabelSelector{MatchLabels: map[string]string{"app": appName, apps.DefaultDeploymentUniqueLabelKey: hash}}, Template: t},
	}
}

func (w *world) mustGet(gvr schema.GroupVersionResource, name string) runtime.Object {
	o, err := w.tr.Get(gvr, w.ns, name)
	if err != nil {
		panic(fmt.Sprintf("c11a: %s %s vanished: %v", gvr.Resource, name, err))
	}
	return o
}

func (w *world) put(gvr schema.GroupVersionResource, o runtime.Object) {
	if err := w.tr.Update(gvr, o, w.ns); err != nil {
		panic(fmt.Sprintf("c11a: tracker update %s: %v", gvr.Resource, err))
	}
}

// plane builds the control plane exactly as Executor.getReleaseController does (a fresh one per reconcile).
func (w *world) plane(newStatus *v1beta1.BatchReleaseStatus) control.Interface {
	key := types.NamespacedName{Namespace: w.ns, Name: appName}
	switch w.k.Name {
	case "cloneset-partition":
		return partitionstyle.NewControlPlane(pcloneset.NewController, w.cli, w.rec, w.rel, newStatus, key, w.k.GVK)
	case "statefulset-partition", "advstatefulset-partition":
		return partitionstyle.NewControlPlane(pstatefulset.NewController, w.cli, w.rec, w.rel, newStatus, key, w.k.GVK)
	case "daemonset-partition":
		return partitionstyle.NewControlPlane(pdaemonset.NewController, w.cli, w.rec, w.rel, newStatus, key, w.k.GVK)
	case "deployment-partition":
		return partitionstyle.NewControlPlane(pdeployment.NewController, w.cli, w.rec, w.rel, newStatus, key, w.k.GVK)
	case "deployment-canary":
		return canarystyle.NewControlPlane(canarydeployment.NewController, w.cli, w.rec, w.rel, newStatus, key)
	case "cloneset-bluegreen":
		return bluegreenstyle.NewControlPlane(bgcloneset.NewController, w.cli, w.rec, w.rel, newStatus, key, w.k.GVK)
	case "deployment-bluegreen":
		return bluegreenstyle.NewControlPlane(bgdeployment.NewController, w.cli, w.rec, w.rel, newStatus, key, w.k.GVK)
	}
	panic("unknown kind " + w.k.Name)
}

func (w *world) findCanary() {
	l, err := w.tr.List(depGVR, apps.SchemeGroupVersion.WithKind("Deployment"), w.ns)
	if err != nil {
		return
	}
	dl, ok := l.(*apps.DeploymentList)
	if !ok {
		return
	}
	names := []string{}
	for i := range dl.Items {
		if dl.Items[i].Labels[util.CanaryDeploymentLabel] == appName {
			names = append(names, dl.Items[i].Name)
		}
	}
	sort.Strings(names)
	if len(names) > 0 {
		w.canary = names[0]
	}
}

// doInit runs the real Initialize until it stops asking for a retry (the canary style creates the canary
// Deployment and returns an error once), records the status as executeBatchReleasePlan does, and (upgrade=true)
// runs the real UpgradeBatch of batch 0. Afterwards the ReplicaSet of the new revision is added for Deployments.
func (w *world) doInit(upgrade bool) error {
	newStatus := w.rel.Status.DeepCopy()
	newStatus.Phase = v1beta1.RolloutPhasePreparing
	newStatus.ObservedWorkloadReplicas = -1
	var err error
	var pn *lib.Panic
	for try := 0; try < 3; try++ {
		pn = lib.Catch(func() { err = w.plane(newStatus).Initialize() })
		if pn != nil || err == nil {
			break
		}
		if w.k.Style == v1beta1.CanaryRollingStyle {
			// the informer observes the creation of the canary Deployment
			expectations.ResourceExpectations.DeleteExpectations(w.ns + "/" + relName)
			w.findCanary()
		}
	}
	if pn != nil {
		return fmt.Errorf("Initialize panicked: %s", pn.Value)
	}
	if err != nil {
		return fmt.Errorf("Initialize: %v", err)
	}
	newStatus.Phase = v1beta1.RolloutPhaseProgressing
	newStatus.CanaryStatus.CurrentBatch = 0
	newStatus.CanaryStatus.CurrentBatchState = v1beta1.UpgradingBatchState
	newStatus.ObservedReleasePlanHash = util.HashReleasePlanBatches(&w.rel.Spec.ReleasePlan)
	w.rel.Status = *newStatus
	w.updateRev = newStatus.UpdateRevision

	ownerUID, ownerName := wlUID, appName
	if w.k.Style == v1beta1.CanaryRollingStyle {
		w.findCanary()
		if w.canary == "" {
			return fmt.Errorf("canary Deployment was not created")
		}
		c := w.mustGet(depGVR, w.canary).(*apps.Deployment)
		c.UID = types.UID(canaryUID) // the fake store assigns none
		c.Generation = 1
		c.Status.ObservedGeneration = 1
		w.put(depGVR, c)
		ownerUID, ownerName = canaryUID, w.canary
	}
	if w.k.IsDeploy {
		d := w.mustGet(depGVR, ownerName).(*apps.Deployment)
		w.newRS = w.mkRS(rsNewName, "rs-new-uid", ownerUID, ownerName, d.Spec.Template, w.updateRev, 0, 2000)
		if err := w.tr.Add(w.newRS); err != nil {
			return fmt.Errorf("cannot add new ReplicaSet: %v", err)
		}
	}
	if upgrade {
		st := w.rel.Status.DeepCopy()
		pn = lib.Catch(func() { err = w.plane(st).UpgradeBatch() })
		if pn != nil {
			return fmt.Errorf("UpgradeBatch panicked: %s", pn.Value)
		}
		if err != nil {
			return fmt.Errorf("UpgradeBatch: %v", err)
		}
		st.CanaryStatus.CurrentBatchState = v1beta1.VerifyingBatchState
		w.rel.Status = *st
	}
	w.base = w.mustGet(w.k.GVR, appName).(client.Object)
	if w.canary != "" {
		w.canaryBase = w.mustGet(depGVR, w.canary).(*apps.Deployment)
	}
	w.initDone = true
	return nil
}

// controlled: does the stored workload still carry the control-info annotation?
func (w *world) controlled() bool {
	o, err := w.tr.Get(w.k.GVR, w.ns, appName)
	if err != nil {
		return false
	}
	return o.(client.Object).GetAnnotations()[util.BatchReleaseControlAnnotation] != ""
}

// ---------------------------------------------------------------------------------------------
// pods
// ---------------------------------------------------------------------------------------------

func (w *world) mkPod(i int, p podState) *corev1.Pod {
	pod := &corev1.Pod{
		TypeMeta:   metav1.TypeMeta{APIVersion: "v1", Kind: "Pod"},
		ObjectMeta: metav1.ObjectMeta{Namespace: w.ns, Name: "pod-" + strconv.Itoa(i), UID: types.UID("pod-uid-" + strconv.Itoa(i)), ResourceVersion: "1", Labels: map[string]string{"app": appName}},
		Status:     corev1.PodStatus{Phase: corev1.PodRunning},
	}
	ready := corev1.ConditionFalse
	if p.Ready {
		ready = corev1.ConditionTrue
	}
	pod.Status.Conditions = []corev1.PodCondition{{Type: corev1.PodReady, Status: ready}}
	if w.k.IsDeploy {
		name, uid, hash := rsOldName, "rs-old-uid", "oldhash"
		if p.New {
			name, uid, hash = rsNewName, "rs-new-uid", w.updateRev
		}
		pod.Labels[apps.DefaultDeploymentUniqueLabelKey] = hash
		pod.OwnerReferences = []metav1.OwnerReference{{APIVersion: "apps/v1", Kind: "ReplicaSet", Name: name, UID: types.UID(uid), Controller: pointer.Bool(true), BlockOwnerDeletion: pointer.Bool(true)}}
	} else {
		rev := oldRev
		if p.New {
			rev = newRev
		}
		pod.Labels[apps.ControllerRevisionHashLabelKey] = rev
		pod.OwnerReferences = []metav1.OwnerReference{{APIVersion: w.k.GVK.GroupVersion().String(), Kind: w.k.GVK.Kind, Name: appName, UID: types.UID(wlUID), Controller: pointer.Bool(true), BlockOwnerDeletion: pointer.Bool(true)}}
	}
	if p.Labeled {
		pod.Labels[v1beta1.RolloutIDLabel] = rolloutID
		pod.Labels[v1beta1.RolloutBatchIDLabel] = p.Batch
	}
	return pod
}

// setPods makes the pods of the store equal to want (force: rewrite every pod, the code under test patched some).
func (w *world) setPods(want []podState, force bool) {
	for i := 0; i < len(want); i++ {
		switch {
		case i >= len(w.pods):
			if err := w.tr.Create(podGVR, w.mkPod(i, want[i]), w.ns); err != nil {
				panic(fmt.Sprintf("c11a: create pod: %v", err))
			}
		case force || w.pods[i] != want[i]:
			w.put(podGVR, w.mkPod(i, want[i]))
		}
	}
	for i := len(want); i < len(w.pods); i++ {
		_ = w.tr.Delete(podGVR, w.ns, "pod-"+strconv.Itoa(i))
	}
	w.pods = append(w.pods[:0], want...)
}

// labeledInStore counts the live pods that carry the current rollout-id.
func (w *world) labeledInStore() int {
	l, err := w.tr.List(podGVR, podGVK, w.ns)
	if err != nil {
		return 0
	}
	n := 0
	for _, p := range l.(*corev1.PodList).Items {
		if p.DeletionTimestamp == nil && p.Labels[v1beta1.RolloutIDLabel] == rolloutID {
			n++
		}
	}
	return n
}
