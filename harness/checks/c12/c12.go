// Package c12: exhaustive bounded-domain enumeration of pod sets, release plans and labelling passes
// through the real labelpatch.PatchPodBatchLabel (on a controller-runtime fake store) and the real
// BatchContext.IsBatchReady / batchLabelSatisfied (E3, histories: the pass is applied twice).
package c12

import (
	"context"
	"encoding/json"
	"flag"
	"fmt"
	"io"
	"os"
	"runtime/debug"
	"sort"
	"strconv"
	"strings"
	"sync"

	"github.com/go-logr/logr"
	"github.com/openkruise/rollouts/api/v1beta1"
	batchcontext "github.com/openkruise/rollouts/pkg/controller/batchrelease/context"
	"github.com/openkruise/rollouts/pkg/controller/batchrelease/control"
	"github.com/openkruise/rollouts/pkg/controller/batchrelease/labelpatch"
	"github.com/openkruise/rollouts/pkg/util"
	apps "k8s.io/api/apps/v1"
	corev1 "k8s.io/api/core/v1"
	metav1 "k8s.io/apimachinery/pkg/apis/meta/v1"
	"k8s.io/apimachinery/pkg/runtime"
	"k8s.io/apimachinery/pkg/types"
	"k8s.io/apimachinery/pkg/util/intstr"
	clientgoscheme "k8s.io/client-go/kubernetes/scheme"
	"k8s.io/klog/v2"
	utilpointer "k8s.io/utils/pointer"
	"sigs.k8s.io/controller-runtime/pkg/client"
	"sigs.k8s.io/controller-runtime/pkg/client/fake"

	"verifharness/lib"
)

// ---------------------------------------------------------------------------------------------
// case description (this is also the replay format)
// ---------------------------------------------------------------------------------------------

const (
	ns        = "ns"
	curID     = "rid-2" // the rollout-id of the release under test
	foreignID = "rid-1" // some other (earlier / foreign) rollout-id
)

// PodSpec is one pod of the generated pod set.
type PodSpec struct {
	// Rev is the revision/owner class:
	//   cs-new  CloneSet-owned, controller-revision-hash = update revision
	//   cs-old  CloneSet-owned, controller-revision-hash of another revision
	//   cs-none CloneSet-owned, no revision label at all
	//   cs-empty CloneSet-owned, controller-revision-hash label present with the (legal, user-writable) empty value
	//   rs-new  ReplicaSet-owned (ReplicaSet of the new template in the store), pod-template-hash only
	//   rs-old  ReplicaSet-owned (ReplicaSet of the old template in the store), pod-template-hash only
	//   rs-new-hashed  rs-new that already carries the computed controller-revision-hash
	//   rs-gone ReplicaSet-owned, the ReplicaSet does not exist in the store
	//   bare    no owner, nil label map (unless ID/Batch/NNU add labels)
	Rev string `json:"rev"`
	// Term: the pod has a deletionTimestamp (and a finalizer, so the fake store keeps it).
	Term bool `json:"terminating,omitempty"`
	// ID is the pre-existing rollout-id label: "" absent, "cur" the current rollout-id, "foreign" another one.
	ID string `json:"rolloutID,omitempty"`
	// Batch is the pre-existing rollout-batch-id label value ("" = label absent).
	Batch string `json:"batchID,omitempty"`
	// NNU: the pod carries the no-need-update label with the current rollout-id (rollback in batches).
	NNU bool `json:"noNeedUpdate,omitempty"`
}

// Case is one executed case.
type Case struct {
	Family string `json:"family"`
	// Plan lists the canaryReplicas of the batches: "3" is the integer 3, "50%" a percentage, anything else
	// is passed as a (malformed) string value.
	Plan         []string  `json:"plan"`
	Replicas     int       `json:"replicas"`
	CurrentBatch int       `json:"currentBatch"`
	Filter       string    `json:"filter"` // nil | unordered | ordered
	Pods         []PodSpec `json:"pods"`   // list order = order of BatchContext.Pods; pod i is named demo-<i>
}

func (p PodSpec) isNew() bool {
	return p.Rev == "cs-new" || p.Rev == "rs-new" || p.Rev == "rs-new-hashed"
}

func (p PodSpec) String() string {
	s := p.Rev
	if p.Term {
		s += ",terminating"
	}
	if p.ID != "" || p.Batch != "" {
		s += fmt.Sprintf(",(%s,%q)", p.ID, p.Batch)
	}
	if p.NNU {
		s += ",nnu"
	}
	return s
}

// ---------------------------------------------------------------------------------------------
// fixed environment
// ---------------------------------------------------------------------------------------------

var (
	scheme         = runtime.NewScheme()
	newHash        string // hash the code under test computes for the new ReplicaSet template
	updateRevision string
	rsNew, rsOld   *apps.ReplicaSet
	deletionTime   = metav1.Unix(1700000000, 0)
)

func init() {
	// the code under test logs every skipped pod; keep klog away from stderr (errors go there by default)
	fs := flag.NewFlagSet("klog", flag.ContinueOnError)
	klog.InitFlags(fs)
	_ = fs.Set("logtostderr", "false")
	_ = fs.Set("alsologtostderr", "false")
	_ = fs.Set("stderrthreshold", "FATAL")
	klog.SetOutput(io.Discard)
	klog.SetLogger(logr.Discard()) // skips header formatting and runtime.Caller for the many InfoS calls per pod
	_ = clientgoscheme.AddToScheme(scheme)
	tmpl := func(image, pth string) corev1.PodTemplateSpec {
		return corev1.PodTemplateSpec{
			ObjectMeta: metav1.ObjectMeta{Labels: map[string]string{"app": "demo", apps.DefaultDeploymentUniqueLabelKey: pth}},
			Spec:       corev1.PodSpec{Containers: []corev1.Container{{Name: "main", Image: image}}},
		}
	}
	mk := func(name, image, pth string) *apps.ReplicaSet {
		return &apps.ReplicaSet{
			ObjectMeta: metav1.ObjectMeta{Namespace: ns, Name: name, UID: types.UID("uid-" + name)},
			Spec: apps.ReplicaSetSpec{Replicas: utilpointer.Int32(1),
				Selector: &metav1.LabelSelector{MatchLabels: map[string]string{"app": "demo"}}, Template: tmpl(image, pth)},
		}
	}
	rsNew = mk("rs-new", "img:v2", "pthnew")
	rsOld = mk("rs-old", "img:v1", "pthold")
	// the update revision of the release: what the real hash function yields for the new template without the
	// pod-template-hash label (this is how the Deployment controls derive release.Status.UpdateRevision).
	t := rsNew.Spec.Template.DeepCopy()
	delete(t.Labels, apps.DefaultDeploymentUniqueLabelKey)
	newHash = util.ComputeHash(t, nil)
	updateRevision = "demo-" + newHash
}

func mkPod(i int, p PodSpec) *corev1.Pod {
	pod := &corev1.Pod{ObjectMeta: metav1.ObjectMeta{Namespace: ns, Name: "demo-" + strconv.Itoa(i), UID: types.UID("uid-pod-" + strconv.Itoa(i))}}
	set := func(k, v string) {
		if pod.Labels == nil {
			pod.Labels = map[string]string{}
		}
		pod.Labels[k] = v
	}
	owner := func(apiVersion, kind, name string) {
		pod.OwnerReferences = []metav1.OwnerReference{{APIVersion: apiVersion, Kind: kind, Name: name, UID: types.UID("uid-" + name),
			Controller: utilpointer.Bool(true), BlockOwnerDeletion: utilpointer.Bool(true)}}
	}
	switch p.Rev {
	case "cs-new":
		set("app", "demo")
		owner("apps.kruise.io/v1alpha1", "CloneSet", "demo")
		set(apps.ControllerRevisionHashLabelKey, updateRevision)
	case "cs-old":
		set("app", "demo")
		owner("apps.kruise.io/v1alpha1", "CloneSet", "demo")
		set(apps.ControllerRevisionHashLabelKey, "demo-old111")
	case "cs-none":
		set("app", "demo")
		owner("apps.kruise.io/v1alpha1", "CloneSet", "demo")
	case "cs-empty":
		set("app", "demo")
		owner("apps.kruise.io/v1alpha1", "CloneSet", "demo")
		set(apps.ControllerRevisionHashLabelKey, "")
	case "rs-new":
		set("app", "demo")
		owner("apps/v1", "ReplicaSet", "rs-new")
		set(apps.DefaultDeploymentUniqueLabelKey, "pthnew")
	case "rs-old":
		set("app", "demo")
		owner("apps/v1", "ReplicaSet", "rs-old")
		set(apps.DefaultDeploymentUniqueLabelKey, "pthold")
	case "rs-new-hashed":
		set("app", "demo")
		owner("apps/v1", "ReplicaSet", "rs-new")
		set(apps.DefaultDeploymentUniqueLabelKey, "pthnew")
		set(apps.ControllerRevisionHashLabelKey, newHash)
	case "rs-gone":
		set("app", "demo")
		owner("apps/v1", "ReplicaSet", "rs-gone")
		set(apps.DefaultDeploymentUniqueLabelKey, "pthgone")
	case "bare":
	default:
		panic("c12: unknown revision class " + p.Rev)
	}
	switch p.ID {
	case "cur":
		set(v1beta1.RolloutIDLabel, curID)
	case "foreign":
		set(v1beta1.RolloutIDLabel, foreignID)
	case "":
	default:
		panic("c12: unknown rollout-id class " + p.ID)
	}
	if p.Batch != "" {
		set(v1beta1.RolloutBatchIDLabel, p.Batch)
	}
	if p.NNU {
		set(util.NoNeedUpdatePodLabel, curID)
	}
	if p.Term {
		ts := deletionTime
		pod.DeletionTimestamp = &ts
		pod.Finalizers = []string{"verif.io/hold"}
	}
	return pod
}

func parsePlan(plan []string) []v1beta1.ReleaseBatch {
	out := make([]v1beta1.ReleaseBatch, len(plan))
	for i, s := range plan {
		if n, err := strconv.Atoi(s); err == nil {
			out[i].CanaryReplicas = intstr.FromInt(n)
		} else {
			out[i].CanaryReplicas = intstr.FromString(s)
		}
	}
	return out
}

// refPlanned is the reference reading of "the number of updated pods batch i asks for": integers as they are,
// percentages rounded up, malformed values 0, clamped into [0, replicas].
func refPlanned(s string, replicas int) int {
	v := 0
	if n, err := strconv.Atoi(s); err == nil {
		v = n
	} else if strings.HasSuffix(s, "%") {
		if pct, err := strconv.Atoi(strings.TrimSuffix(s, "%")); err == nil {
			v = pct * replicas / 100
			if v*100 < pct*replicas {
				v++
			}
		}
	}
	if v > replicas {
		v = replicas
	}
	if v < 0 {
		v = 0
	}
	return v
}

// refIncrements: the number of pods each batch adds under the plan.
func refIncrements(plan []string, replicas int) []int {
	inc := make([]int, len(plan))
	prev := 0
	for i, s := range plan {
		p := refPlanned(s, replicas)
		inc[i] = p - prev
		prev = p
	}
	return inc
}

// ---------------------------------------------------------------------------------------------
// store with a write log
// ---------------------------------------------------------------------------------------------

type write struct {
	Op     string `json:"op"`
	Kind   string `json:"kind"`
	Name   string `json:"name"`
	Patch  string `json:"patch,omitempty"`
	Result string `json:"result,omitempty"`
}

type recClient struct {
	client.Client
	writes []write
}

func (c *recClient) rec(op string, obj client.Object, patch string, err error) {
	w := write{Op: op, Kind: fmt.Sprintf("%T", obj), Name: obj.GetName(), Patch: patch}
	if err != nil {
		w.Result = err.Error()
	}
	c.writes = append(c.writes, w)
}

func (c *recClient) Patch(ctx context.Context, obj client.Object, patch client.Patch, opts ...client.PatchOption) error {
	data, _ := patch.Data(obj)
	name := obj.GetName()
	err := c.Client.Patch(ctx, obj, patch, opts...)
	w := write{Op: "patch", Kind: fmt.Sprintf("%T", obj), Name: name, Patch: string(data)}
	if err != nil {
		w.Result = err.Error()
	}
	c.writes = append(c.writes, w)
	return err
}
func (c *recClient) Update(ctx context.Context, obj client.Object, opts ...client.UpdateOption) error {
	err := c.Client.Update(ctx, obj, opts...)
	c.rec("update", obj, "", err)
	return err
}
func (c *recClient) Create(ctx context.Context, obj client.Object, opts ...client.CreateOption) error {
	err := c.Client.Create(ctx, obj, opts...)
	c.rec("create", obj, "", err)
	return err
}
func (c *recClient) Delete(ctx context.Context, obj client.Object, opts ...client.DeleteOption) error {
	err := c.Client.Delete(ctx, obj, opts...)
	c.rec("delete", obj, "", err)
	return err
}
func (c *recClient) DeleteAllOf(ctx context.Context, obj client.Object, opts ...client.DeleteAllOfOption) error {
	err := c.Client.DeleteAllOf(ctx, obj, opts...)
	c.rec("deleteAllOf", obj, "", err)
	return err
}

// podState is what the oracle looks at: does the pod exist and which labels does it carry.
type podState struct {
	Exists bool
	Labels map[string]string
}

func (s podState) id() string    { return s.Labels[v1beta1.RolloutIDLabel] }
func (s podState) batch() string { return s.Labels[v1beta1.RolloutBatchIDLabel] }
func (s podState) hasBatch() bool {
	_, ok := s.Labels[v1beta1.RolloutBatchIDLabel]
	return ok
}
func (s podState) hasID() bool {
	_, ok := s.Labels[v1beta1.RolloutIDLabel]
	return ok
}

func sameBatchLabels(a, b podState) bool {
	return a.Exists == b.Exists && a.id() == b.id() && a.hasID() == b.hasID() && a.batch() == b.batch() && a.hasBatch() == b.hasBatch()
}

func sameState(a, b podState) bool {
	if a.Exists != b.Exists || len(a.Labels) != len(b.Labels) {
		return false
	}
	for k, v := range a.Labels {
		if w, ok := b.Labels[k]; !ok || w != v {
			return false
		}
	}
	return true
}

func fmtLabels(m map[string]string) string {
	keys := make([]string, 0, len(m))
	for k := range m {
		keys = append(keys, k)
	}
	sort.Strings(keys)
	var b strings.Builder
	b.WriteString("{")
	for i, k := range keys {
		if i > 0 {
			b.WriteString(", ")
		}
		short := k
		if j := strings.LastIndex(k, "/"); j >= 0 {
			short = k[j+1:]
		}
		fmt.Fprintf(&b, "%s=%s", short, m[k])
	}
	b.WriteString("}")
	return b.String()
}

// ---------------------------------------------------------------------------------------------
// one case
// ---------------------------------------------------------------------------------------------

type verdict struct {
	Sig    string
	Detail string
}

type result struct {
	verdicts []verdict
	writes1  int
	outcome  string
	// after: the stored pod states after the first pass (nil when it panicked)
	after []podState
}

type world struct {
	c       Case
	batches []v1beta1.ReleaseBatch
	release *v1beta1.BatchRelease
	cli     *recClient
	names   []string
	// pristine are the pods as generated (never handed to the code under test)
	pristine []*corev1.Pod
	// dirty: something was written to the store, it cannot be reused for another case over the same pods
	dirty bool
}

// newWorld builds the fake store holding the pods (and the two ReplicaSets when a pod is owned by one).
func newWorld(pods []PodSpec) *world {
	w := &world{}
	objs := make([]client.Object, 0, len(pods)+2)
	needRS := false
	for i, p := range pods {
		pod := mkPod(i, p)
		w.pristine = append(w.pristine, pod)
		objs = append(objs, pod.DeepCopy())
		w.names = append(w.names, pod.Name)
		if strings.HasPrefix(p.Rev, "rs-") {
			needRS = true
		}
	}
	if needRS {
		objs = append(objs, rsNew.DeepCopy(), rsOld.DeepCopy())
	}
	w.cli = &recClient{Client: fake.NewClientBuilder().WithScheme(scheme).WithObjects(objs...).Build()}
	return w
}

func (w *world) setCase(c Case) {
	w.c = c
	w.batches = parsePlan(c.Plan)
	w.release = &v1beta1.BatchRelease{Spec: v1beta1.BatchReleaseSpec{ReleasePlan: v1beta1.ReleasePlan{Batches: w.batches, RolloutID: curID}}}
	w.cli.writes = nil
}

// initial returns the pods as generated: their label state and fresh copies to hand to the code under test.
func (w *world) initial() ([]podState, []*corev1.Pod) {
	st := make([]podState, len(w.pristine))
	pods := make([]*corev1.Pod, len(w.pristine))
	for i, p := range w.pristine {
		pods[i] = p.DeepCopy()
		st[i] = podState{Exists: true, Labels: p.Labels}
	}
	return st, pods
}

// reread returns the stored state after writes: every pod named in the write log is read back from the store, the
// others cannot have changed (every write of the code under test goes through the log) and are copied.
func (w *world) reread(prev []podState, prevPods []*corev1.Pod) ([]podState, []*corev1.Pod) {
	written := map[string]bool{}
	for _, wr := range w.cli.writes {
		written[wr.Name] = true
	}
	st := make([]podState, len(w.names))
	pods := make([]*corev1.Pod, len(w.names))
	for i, n := range w.names {
		if !written[n] {
			st[i] = prev[i]
			if prevPods[i] != nil {
				pods[i] = prevPods[i].DeepCopy()
			}
			continue
		}
		pod := &corev1.Pod{}
		if err := w.cli.Client.Get(context.Background(), types.NamespacedName{Namespace: ns, Name: n}, pod); err != nil {
			st[i] = podState{Exists: false}
			continue
		}
		st[i] = podState{Exists: true, Labels: pod.Labels}
		pods[i] = pod
	}
	return st, pods
}

func present(pods []*corev1.Pod) []*corev1.Pod {
	out := make([]*corev1.Pod, 0, len(pods))
	for _, p := range pods {
		if p != nil {
			out = append(out, p)
		}
	}
	return out
}

// buildContext derives the BatchContext the way the real callers do (partition-style CloneSet /
// StatefulSet CalculateBatchContext + countAndUpdateNoNeedUpdateReplicas), using the real arithmetic helpers.
func (w *world) buildContext(pods []*corev1.Pod) *batchcontext.BatchContext {
	c := w.c
	replicas := int32(c.Replicas)
	bc := &batchcontext.BatchContext{
		RolloutID: curID, CurrentBatch: int32(c.CurrentBatch), UpdateRevision: updateRevision, Replicas: replicas,
		// the first three gates of IsBatchReady are made to pass so that its verdict is batchLabelSatisfied's
		UpdatedReplicas: replicas + 100, UpdatedReadyReplicas: replicas + 100,
		Pods: pods,
	}
	var nnu *int32
	if c.Filter != "nil" {
		// countAndUpdateNoNeedUpdateReplicas
		n := int32(0)
		for _, pod := range pods {
			if !pod.DeletionTimestamp.IsZero() || !util.IsConsistentWithRevision(pod.GetLabels(), updateRevision) {
				continue
			}
			if id, ok := pod.Labels[util.NoNeedUpdatePodLabel]; ok && id == curID {
				n++
			}
		}
		nnu = &n
		switch c.Filter {
		case "unordered":
			bc.FilterFunc = labelpatch.FilterPodsForUnorderedUpdate
		case "ordered":
			bc.FilterFunc = labelpatch.FilterPodsForOrderedUpdate
		default:
			panic("c12: unknown filter " + c.Filter)
		}
	}
	bc.NoNeedUpdatedReplicas = nnu
	bc.PlannedUpdatedReplicas, bc.DesiredUpdatedReplicas, bc.DesiredPartition = deriveFields(w.release, c.Replicas, c.CurrentBatch, c.Filter, nnu)
	return bc
}

// deriveFields mirrors the arithmetic of partitionstyle/{cloneset,statefulset}.CalculateBatchContext; selfCheckContext
// compares it with the real functions over the whole configuration domain before anything is enumerated.
func deriveFields(release *v1beta1.BatchRelease, replicasInt, cb int, filter string, nnu *int32) (planned, desiredUpdate int32, partition intstr.IntOrString) {
	replicas := int32(replicasInt)
	planned = int32(control.CalculateBatchReplicas(release, replicasInt, cb))
	desiredUpdate = planned
	desiredStable := replicas - desiredUpdate
	if nnu != nil && *nnu > 0 {
		desiredUpdateNew := int32(control.CalculateBatchReplicas(release, int(replicas-*nnu), cb))
		desiredStable = replicas - *nnu - desiredUpdateNew
		desiredUpdate = replicas - desiredStable
	}
	if filter == "ordered" && nnu != nil {
		desiredStable += *nnu
		desiredUpdate = replicas - desiredStable + *nnu
	}
	return planned, desiredUpdate, intstr.FromInt(int(desiredStable))
}

func shortSite(p *lib.Panic) string {
	fn := p.Site
	if j := strings.LastIndex(fn, "."); j >= 0 {
		fn = fn[j+1:]
	}
	lines := strings.Split(p.Stack, "\n")
	for i, l := range lines {
		if strings.HasPrefix(l, "github.com/openkruise/rollouts/"+p.Site+"(") && i+1 < len(lines) {
			f := strings.TrimSpace(lines[i+1])
			if j := strings.Index(f, ".go:"); j >= 0 {
				f = f[:j+3]
			}
			if j := strings.LastIndex(f, "/"); j >= 0 {
				f = f[j+1:]
			}
			return f + ":" + fn
		}
	}
	return p.Site
}

// batchClass classifies a pre-existing batch-id value relative to the plan.
func batchClass(s string, present bool, nBatches int) string {
	if !present {
		return "absent"
	}
	n, err := strconv.Atoi(s)
	if err != nil {
		return "non-numeric"
	}
	if n < 1 || n > nBatches {
		return "out-of-range"
	}
	return "valid"
}

// panicClass names the structural input class that can explain a panic.
func panicClass(c Case, st []podState) string {
	for i, p := range c.Pods {
		if p.Term || !p.isNew() || st[i].id() != curID {
			continue
		}
		if batchClass(st[i].batch(), st[i].hasBatch(), len(c.Plan)) == "out-of-range" {
			return "batch-id-out-of-range"
		}
	}
	return "other"
}

// readyVerdict runs the real IsBatchReady (whose first three gates are open) and tells whether batchLabelSatisfied held.
func readyVerdict(bc *batchcontext.BatchContext) (satisfied bool, harnessErr string, p *lib.Panic) {
	var err error
	p = lib.Catch(func() { err = bc.IsBatchReady() })
	if p != nil {
		return false, "", p
	}
	if err == nil {
		return true, "", nil
	}
	if !strings.Contains(err.Error(), "pods with batch label not satisfied") {
		return false, "IsBatchReady failed before reaching batchLabelSatisfied: " + err.Error(), nil
	}
	return false, "", nil
}

// checkReady: batchLabelSatisfied may only say "enough pods are labelled" if enough pods that BELONG to the
// batches released so far are: live, new revision, current rollout-id, a batch-id that names a batch of the plan.
func (w *world) checkReady(stage string, st []podState, pods []*corev1.Pod, out *[]verdict, trace io.Writer) {
	c := w.c
	bc := w.buildContext(pods)
	bc.FilterFunc = nil
	sat, herr, p := readyVerdict(bc)
	if p != nil {
		*out = append(*out, verdict{"C12/panic/" + shortSite(p) + "/ready", fmt.Sprintf("IsBatchReady panicked (%s): %s", stage, p.Value)})
		return
	}
	if herr != "" {
		*out = append(*out, verdict{"C12/harness/ready-gates", herr})
		return
	}
	strict, nonNew, garbage := 0, 0, 0
	for i, ps := range c.Pods {
		if !st[i].Exists || ps.Term || st[i].id() != curID {
			continue
		}
		cls := batchClass(st[i].batch(), st[i].hasBatch(), len(c.Plan))
		switch {
		case !ps.isNew():
			nonNew++
		case cls != "valid":
			garbage++
		default:
			strict++
		}
	}
	target := int(bc.PlannedUpdatedReplicas)
	if trace != nil {
		fmt.Fprintf(trace, "  batchLabelSatisfied (%s): real=%v; target=%d, belonging pods=%d, live pods with the rollout-id but another revision=%d, with a batch-id that names no batch=%d\n",
			stage, sat, target, strict, nonNew, garbage)
	}
	if sat && strict < target && nonNew+garbage > 0 {
		cls := "non-new-revision-pod"
		if strict+nonNew < target && strict+garbage >= target {
			cls = "garbage-batch-id"
		}
		*out = append(*out, verdict{"C12/ready-overcount/" + cls, fmt.Sprintf(
			"batchLabelSatisfied reports the batch labelled (%s) although only %d of the %d required pods are live new-revision pods labelled for a batch of this release; "+
				"counted as well: %d live pod(s) of another revision carrying the rollout-id, %d new-revision pod(s) whose batch-id names no batch of the plan", stage, strict, target, nonNew, garbage)})
	}
}

// runCase executes one case. w may be a store left untouched by an earlier case over the same pods (nil: build one).
func runCase(c Case, trace io.Writer, w *world) (res result, wOut *world) {
	if w == nil || w.dirty {
		w = newWorld(c.Pods)
	}
	wOut = w
	w.setCase(c)
	nB := len(c.Plan)
	tr := func(format string, a ...interface{}) {
		if trace != nil {
			fmt.Fprintf(trace, format, a...)
		}
	}
	before, pods1 := w.initial()
	inc := refIncrements(c.Plan, c.Replicas)
	tr("case: family=%s plan=%v replicas=%d currentBatch=%d filter=%s rollout-id=%s update-revision=%s\n", c.Family, c.Plan, c.Replicas, c.CurrentBatch, c.Filter, curID, updateRevision)
	tr("reference: pods each batch adds under the plan = %v\n", inc)
	for i, p := range c.Pods {
		tr("  pod %s [%s] labels=%s\n", w.names[i], p, fmtLabels(before[i].Labels))
	}

	// batchLabelSatisfied on the state before labelling (the patcher may fail or not have run yet)
	w.checkReady("before labelling", before, present(pods1), &res.verdicts, trace)

	// ---- pass 1
	bc1 := w.buildContext(present(pods1))
	tr("pass 1: PatchPodBatchLabel(%s)\n", bc1.Log())
	patcher := labelpatch.NewLabelPatcher(w.cli, klog.ObjectRef{Namespace: ns, Name: "release"}, w.batches)
	var err1 error
	if p := lib.Catch(func() { err1 = patcher.PatchPodBatchLabel(bc1) }); p != nil {
		tr("  PANIC %s at %s\n", p.Value, p.Site)
		res.verdicts = append(res.verdicts, verdict{"C12/panic/" + shortSite(p) + "/" + panicClass(c, before),
			fmt.Sprintf("PatchPodBatchLabel panicked: %s (at %s)", p.Value, p.Site)})
		res.outcome = "panic"
		res.writes1 = len(w.cli.writes)
		w.dirty = w.dirty || res.writes1 > 0
		return
	}
	res.writes1 = len(w.cli.writes)
	w.dirty = w.dirty || res.writes1 > 0
	for _, wr := range w.cli.writes {
		tr("  write: %s %s %s %s\n", wr.Op, wr.Name, wr.Patch, wr.Result)
	}
	tr("  returned: %v\n", err1)
	// the pods handed to pass 1 (possibly reordered / touched by the code under test) are not reused
	_, fresh := w.initial()
	after, pods2 := w.reread(before, fresh)
	res.after = after

	// ---- oracles on pass 1
	labelled, hashed := 0, 0
	for i, p := range c.Pods {
		b, a := before[i], after[i]
		if !sameState(b, a) {
			tr("  pod %s: %s -> %s\n", w.names[i], fmtLabels(b.Labels), fmtLabels(a.Labels))
		}
		if !a.Exists {
			res.verdicts = append(res.verdicts, verdict{"C12/pod-deleted", fmt.Sprintf("pod %s [%s] no longer exists after labelling", w.names[i], p)})
			continue
		}
		if sameBatchLabels(b, a) {
			if !sameState(b, a) {
				hashed++
			}
			continue
		}
		labelled++
		// a pod already labelled for this release is never relabelled
		if b.id() == curID {
			res.verdicts = append(res.verdicts, verdict{"C12/relabel/batch-id-" + batchClass(b.batch(), b.hasBatch(), nB),
				fmt.Sprintf("pod %s [%s] already carried the current rollout-id, but its batch labels changed: (%s,%q) -> (%s,%q)", w.names[i], p, b.id(), b.batch(), a.id(), a.batch())})
		}
		// batch labels are given only to live pods of the new revision
		if p.Term || !p.isNew() {
			cls := "old-revision"
			switch {
			case p.Term:
				cls = "terminating"
			case p.Rev == "cs-none" || p.Rev == "cs-empty" || p.Rev == "bare" || p.Rev == "rs-gone":
				cls = "no-revision"
			}
			res.verdicts = append(res.verdicts, verdict{"C12/label-target/" + cls,
				fmt.Sprintf("pod %s [%s] is not a live pod of the new revision but its batch labels changed: (%s,%q) -> (%s,%q)", w.names[i], p, b.id(), b.batch(), a.id(), a.batch())})
		}
	}
	// labelling never pushes the number of pods carrying (rollout-id, batch i) above what batch i adds under the plan
	for bi := 1; bi <= nB; bi++ {
		key := strconv.Itoa(bi)
		nb, na := 0, 0
		for i, p := range c.Pods {
			if p.Term || !p.isNew() {
				continue
			}
			if before[i].id() == curID && before[i].batch() == key {
				nb++
			}
			if after[i].Exists && after[i].id() == curID && after[i].batch() == key {
				na++
			}
		}
		bound := nb
		if inc[bi-1] > bound {
			bound = inc[bi-1]
		}
		tr("  batch %d: live new-revision pods labelled (%s,%d): before=%d after=%d plan increment=%d\n", bi, curID, bi, nb, na, inc[bi-1])
		if na > bound {
			res.verdicts = append(res.verdicts, verdict{"C12/batch-count/filter-" + c.Filter,
				fmt.Sprintf("batch %d: %d live new-revision pods carry (%s,%d) after labelling; before: %d, the plan lets batch %d add %d", bi, na, curID, bi, nb, bi, inc[bi-1])})
		}
	}
	// labels written must name the current release
	for i := range c.Pods {
		b, a := before[i], after[i]
		if a.Exists && !sameBatchLabels(b, a) && a.id() != curID {
			res.verdicts = append(res.verdicts, verdict{"C12/label-value/rollout-id", fmt.Sprintf("pod %s relabelled with rollout-id %q", w.names[i], a.id())})
		}
	}

	w.checkReady("after labelling", after, present(pods2), &res.verdicts, trace)

	// ---- pass 2 on the pods as a lister would now return them
	w.cli.writes = nil
	bc2 := w.buildContext(present(pods2))
	tr("pass 2: PatchPodBatchLabel(%s)\n", bc2.Log())
	var err2 error
	if p := lib.Catch(func() { err2 = patcher.PatchPodBatchLabel(bc2) }); p != nil {
		w.dirty = w.dirty || len(w.cli.writes) > 0
		tr("  PANIC %s at %s\n", p.Value, p.Site)
		res.verdicts = append(res.verdicts, verdict{"C12/panic/" + shortSite(p) + "/second-pass",
			fmt.Sprintf("second PatchPodBatchLabel panicked: %s (at %s)", p.Value, p.Site)})
	} else {
		tr("  returned: %v, writes: %d\n", err2, len(w.cli.writes))
		if len(w.cli.writes) > 0 {
			w.dirty = true
			after2, _ := w.reread(after, pods2)
			kind := "rewrite-same-value"
			for i := range c.Pods {
				if !sameState(after[i], after2[i]) {
					kind = "other-label-changed"
					if !sameBatchLabels(after[i], after2[i]) {
						kind = "batch-label-changed"
						break
					}
				}
			}
			res.verdicts = append(res.verdicts, verdict{"C12/idempotence/" + kind + "/filter-" + c.Filter,
				fmt.Sprintf("the second labelling pass (on the pods as stored after the first) issued %d write(s): %s", len(w.cli.writes), lib.J(w.cli.writes))})
		}
		if (err1 == nil) != (err2 == nil) {
			res.verdicts = append(res.verdicts, verdict{"C12/idempotence/error-differs", fmt.Sprintf("first pass returned %v, second pass %v", err1, err2)})
		}
	}

	switch {
	case err1 != nil && strings.Contains(err1.Error(), "not found"):
		res.outcome = "error/replicaset-not-found"
	case err1 != nil:
		res.outcome = "error/other"
	case res.writes1 == 0:
		res.outcome = "ok/no-write"
	default:
		res.outcome = fmt.Sprintf("ok/batch-labelled=%d/revision-hash-only=%d", labelled, hashed)
	}
	return
}

// ---------------------------------------------------------------------------------------------
// domain
// ---------------------------------------------------------------------------------------------

type config struct {
	plan     []string
	replicas int
	cb       int
	filter   string
}

type family struct {
	name     string
	alphabet []PodSpec
	maxPods  int
	ordered  bool // enumerate sequences (pod identity = ordinal matters) instead of multisets
	configs  []config
}

func configs(plans [][]string, replicas []int, filter string) []config {
	var out []config
	for _, p := range plans {
		for _, r := range replicas {
			for cb := 0; cb < len(p); cb++ {
				out = append(out, config{p, r, cb, filter})
			}
		}
	}
	return out
}

// labelPairs: pre-existing (rollout-id class, batch-id) pairs; all=false keeps the ones that differ in kind.
func labelPairs(all bool) [][2]string {
	if !all {
		return [][2]string{{"", ""}, {"cur", "1"}, {"cur", "2"}, {"cur", "3"}, {"cur", "0"}, {"cur", "-1"}, {"cur", "99"}, {"cur", "x"},
			{"cur", ""}, {"foreign", "1"}, {"foreign", "x"}, {"", "1"}}
	}
	var out [][2]string
	for _, id := range []string{"", "cur", "foreign"} {
		for _, b := range []string{"", "1", "2", "3", "0", "-1", "99", "x"} {
			out = append(out, [2]string{id, b})
		}
	}
	return out
}

func families(thorough bool) []family {
	plansAll := [][]string{
		{"1"}, {"2"}, {"50%"}, {"100%"}, {"0"},
		{"1", "2"}, {"1", "3"}, {"50%", "100%"}, {"1", "1"}, {"0", "2"}, {"2", "1"},
		{"1", "2", "3"}, {"20%", "50%", "100%"}, {"1", "50%", "100%"}, {"1", "3", "2"}, {"2", "1", "3"}, {"9", "9", "9"},
	}
	// the filter families use fewer plans in the quick tier
	plansFilter := [][]string{
		{"1"}, {"50%"}, {"100%"},
		{"1", "2"}, {"50%", "100%"}, {"2", "1"}, {"0", "2"},
		{"1", "2", "3"}, {"20%", "50%", "100%"}, {"1", "3", "2"},
	}
	plansFew := [][]string{{"1"}, {"1", "2"}, {"50%", "100%"}, {"1", "2", "3"}}
	// replicas: the degenerate 0 comes last so that witnesses are natural
	replAll := []int{1, 2, 3, 5, 0}
	replFew := []int{2, 3}
	if thorough {
		plansAll = append(plansAll, []string{"-1", "2"}, []string{"abc", "1"}, []string{"150%"}, []string{"1", "2", "2"}, []string{"34%", "67%", "100%"})
		plansFilter = plansAll
		replAll = []int{1, 2, 3, 4, 5, 6, 0}
		replFew = []int{1, 3, 4}
	}

	// F1: pre-existing label values on live new-revision pods, next to a few pods that do not belong
	notBelonging := []PodSpec{{Rev: "cs-old"}, {Rev: "cs-old", ID: "cur", Batch: "1"}, {Rev: "cs-new", Term: true}, {Rev: "cs-new", Term: true, ID: "cur", Batch: "1"}}
	var f1, f1b []PodSpec
	for _, l := range labelPairs(false) {
		f1 = append(f1, PodSpec{Rev: "cs-new", ID: l[0], Batch: l[1]})
	}
	f1 = append(f1, notBelonging...)
	// F1b (thorough): the full {absent,cur,foreign} x {absent,"1","2","3","0","-1","99","x"} product of pre-labels
	for _, l := range labelPairs(true) {
		f1b = append(f1b, PodSpec{Rev: "cs-new", ID: l[0], Batch: l[1]})
	}
	f1b = append(f1b, notBelonging...)

	// F2: owners / revisions / terminating
	revs := []string{"cs-new", "cs-old", "cs-none", "cs-empty", "rs-new", "rs-old", "rs-new-hashed", "rs-gone"}
	l2 := [][2]string{{"", ""}, {"cur", "1"}, {"cur", "0"}}
	if thorough {
		revs = append(revs, "bare")
		l2 = append(l2, [2]string{"foreign", "1"}, [2]string{"cur", "x"})
	}
	var f2 []PodSpec
	for _, rv := range revs {
		for _, term := range []bool{false, true} {
			for _, l := range l2 {
				f2 = append(f2, PodSpec{Rev: rv, Term: term, ID: l[0], Batch: l[1]})
			}
		}
	}

	// F3: rollback in batches, unordered filter (no-need-update label)
	var f3 []PodSpec
	for _, nnu := range []bool{false, true} {
		for _, l := range [][2]string{{"", ""}, {"cur", "1"}, {"cur", "2"}, {"foreign", "1"}} {
			f3 = append(f3, PodSpec{Rev: "cs-new", ID: l[0], Batch: l[1], NNU: nnu})
		}
	}
	f3 = append(f3, PodSpec{Rev: "cs-old", NNU: true}, PodSpec{Rev: "cs-old", ID: "cur", Batch: "1"}, PodSpec{Rev: "cs-new", Term: true, NNU: true},
		PodSpec{Rev: "cs-new", ID: "cur", Batch: "0", NNU: true})
	if thorough {
		f3 = append(f3, PodSpec{Rev: "rs-new", NNU: true}, PodSpec{Rev: "rs-new"}, PodSpec{Rev: "cs-new", ID: "cur", Batch: "x"})
	}

	// F4: rollback in batches, ordered filter: the pod's ordinal matters, so sequences instead of multisets
	var f4 []PodSpec
	for _, nnu := range []bool{false, true} {
		for _, l := range [][2]string{{"", ""}, {"cur", "1"}, {"cur", "2"}} {
			f4 = append(f4, PodSpec{Rev: "cs-new", ID: l[0], Batch: l[1], NNU: nnu})
		}
	}
	f4 = append(f4, PodSpec{Rev: "cs-old"}, PodSpec{Rev: "cs-new", Term: true})

	if !thorough {
		return []family{
			{name: "F1-labels", alphabet: f1, maxPods: 4, configs: configs(plansAll, replAll, "nil")},
			{name: "F2-owners", alphabet: f2, maxPods: 3, configs: configs(plansFew, replFew, "nil")},
			{name: "F3-unordered", alphabet: f3, maxPods: 4, configs: configs(plansFilter, replAll, "unordered")},
			{name: "F4-ordered", alphabet: f4, maxPods: 4, ordered: true, configs: configs(plansFilter, replAll, "ordered")},
		}
	}
	return []family{
		{name: "F1-labels", alphabet: f1, maxPods: 5, configs: configs(plansAll, replAll, "nil")},
		{name: "F1b-all-prelabels", alphabet: f1b, maxPods: 3, configs: configs(plansAll, replAll, "nil")},
		{name: "F2-owners", alphabet: f2, maxPods: 3, configs: configs(plansFew, replFew, "nil")},
		{name: "F3-unordered", alphabet: f3, maxPods: 5, configs: configs(plansFilter, replAll, "unordered")},
		{name: "F4-ordered", alphabet: f4, maxPods: 5, ordered: true, configs: configs(plansFilter, replAll, "ordered")},
	}
}

// podSets lists index tuples over an alphabet of size k: all multisets (non-decreasing tuples) or all sequences of
// length 0..max, shortest first.
func podSets(k, max int, ordered bool) [][]uint8 {
	var out [][]uint8
	for n := 0; n <= max; n++ {
		cur := make([]uint8, n)
		var rec func(pos, from int)
		rec = func(pos, from int) {
			if pos == n {
				out = append(out, append([]uint8(nil), cur...))
				return
			}
			start := from
			if ordered {
				start = 0
			}
			for v := start; v < k; v++ {
				cur[pos] = uint8(v)
				rec(pos+1, v)
			}
		}
		rec(0, 0)
	}
	return out
}

type hit struct {
	fam, set, cfg int
	detail        string
	c             Case
	n             int
}

// recorder keeps, per signature, the witness that comes first in enumeration order and the number of occurrences.
type recorder struct {
	mu   sync.Mutex
	hits map[string]*hit
}

func (rc *recorder) add(fam, set, cfg int, c Case, verdicts []verdict, note string) {
	if len(verdicts) == 0 {
		return
	}
	rc.mu.Lock()
	defer rc.mu.Unlock()
	for _, v := range verdicts {
		h := &hit{fam: fam, set: set, cfg: cfg, detail: v.Detail + note, c: c, n: 1}
		old, ok := rc.hits[v.Sig]
		if !ok {
			rc.hits[v.Sig] = h
			continue
		}
		if less(h, old) {
			h.n = old.n + 1
			rc.hits[v.Sig] = h
		} else {
			old.n++
		}
	}
}

func less(a, b *hit) bool {
	if a.fam != b.fam {
		return a.fam < b.fam
	}
	if a.set != b.set {
		return a.set < b.set
	}
	return a.cfg < b.cfg
}

func Run(r *lib.Report) {
	r.Rule = "union of four input families, each the full product (pod multisets up to the size bound, or pod sequences for the ordinal-sensitive ordered filter) x (plan x replicas x every current batch of the plan): " +
		"F1 live new-revision pods carrying every (rollout-id, batch-id) pre-label incl. \"0\",\"-1\",\"99\",\"x\",absent,foreign next to old-revision/terminating pods; " +
		"F2 every owner/revision class (CloneSet new/old/none, ReplicaSet new/old/already-hashed/missing) x live/terminating x pre-label; " +
		"F3 rollback-in-batches with the unordered filter (no-need-update label); F4 with the ordered filter (ordinals); " +
		"plus F5 reachable release histories: every plan x replicas x set of pods already on the new revision x filter x update order, driven batch by batch (labelling pass, workload moves pods to the new revision up to the batch target, labelling pass), every pass judged like a case of F1-F4. " +
		"Each case: real PatchPodBatchLabel on a fake store, store read back, second pass on the re-listed pods, real IsBatchReady (=batchLabelSatisfied) before and after. " +
		"non-trivial = the first pass wrote to the store."
	r.Assumptions = []string{
		"currentBatch < len(plan.batches) and len(batches) >= 1: every caller indexes Batches[currentBatch] in CalculateBatchContext before the patcher is reached.",
		"BatchContext fields (planned/desired replicas, partition, no-need-update count, filter) are derived as partition-style CloneSet/StatefulSet CalculateBatchContext + countAndUpdateNoNeedUpdateReplicas do; before enumerating, the derivation is compared with the REAL cloneset/statefulset CalculateBatchContext for every (plan, replicas, batch, no-need-update count) of the domain (harness error on any difference); FilterFunc is set iff noNeedUpdateReplicas != nil.",
		"'pods batch i adds under the plan' = planned(i) - planned(i-1), planned = integer or percentage rounded up, clamped to [0, replicas], malformed = 0 (independent re-computation), for every batch of the plan (not only the released ones).",
		"counts per (rollout-id, batch i) are taken over live new-revision pods: the statement's last sentence says stale labels on other pods do not count towards a batch, and a terminating pod's replacement must be labelled.",
		"'new revision' is fixed by construction of the pod (its CloneSet revision label, or the template of the ReplicaSet that owns it), not by calling the code under test.",
		"'never relabelled' compares only the rollout-id and rollout-batch-id labels; writing the computed controller-revision-hash label onto ReplicaSet-owned pods is not a batch label and is allowed (but must not recur in the second pass).",
		"second pass = the pods as stored after the first pass with the context re-derived from them (what the next reconcile sees once the cache caught up); it must issue no write at all.",
		"batchLabelSatisfied (reached through IsBatchReady with the replica gates open) must not say 'satisfied' when fewer than PlannedUpdatedReplicas live new-revision pods carry the rollout-id with a batch-id naming a batch of the plan; pods labelled for a valid but not yet released batch are given the benefit of the doubt.",
		"pods are an unordered multiset for the nil and unordered filters (list order = canonical order); for the ordered filter every assignment of pod types to ordinals is enumerated.",
		"F5 workload model: between two passes of a batch the workload controller moves pods to the new revision until the batch's desired count is met (ordered: every ordinal >= desiredPartition; unordered: old pods by ascending or descending ordinal); an updated pod is a recreated pod and carries no rollout labels; pods are not deleted or scaled.",
		"terminating pods carry a finalizer so that the fake store keeps them when patched (it would otherwise delete them and hide a wrongly labelled terminating pod).",
	}
	r.TrustedBase = []string{"controller-runtime v0.14.6 fake client (strategic-merge patch of labels)", "control.CalculateBatchReplicas / util.IsConsistentWithRevision for deriving the context (their own correctness belongs to C01)"}

	// millions of short-lived fake stores over a small live heap: collect less often (restored on return)
	defer debug.SetGCPercent(debug.SetGCPercent(800))

	fams := families(r.Thorough())
	msg, comparisons := selfCheckContext(fams)
	if msg != "" {
		fmt.Println("HARNESS-ERROR C12 context derivation differs from the real CalculateBatchContext: " + msg)
		os.Exit(2)
	}
	r.Extra["context_selfcheck_comparisons_with_real_CalculateBatchContext"] = comparisons
	var mu sync.Mutex
	rec := &recorder{hits: map[string]*hit{}}
	hits := rec.hits
	famStats := map[string]interface{}{}
	only := os.Getenv("VERIF_C12_ONLY") // development aid: restrict to one family (the run is then marked non-exhaustive)
	if only != "" {
		r.NotExhaustive("VERIF_C12_ONLY=" + only + " restricts the run to one family")
	}
	for fi := range fams {
		f := fams[fi]
		if only != "" && !strings.HasPrefix(f.name, only) {
			continue
		}
		if len(f.alphabet) > 255 {
			panic("c12: alphabet too large")
		}
		sets := podSets(len(f.alphabet), f.maxPods, f.ordered)
		famStats[f.name] = map[string]interface{}{"pod_alphabet": len(f.alphabet), "max_pods": f.maxPods, "sequences": f.ordered, "pod_sets": len(sets), "configs": len(f.configs), "cases": len(sets) * len(f.configs)}
		sampled := false
		lib.ParallelFor(len(sets), func(si int) {
			pods := make([]PodSpec, len(sets[si]))
			for i, t := range sets[si] {
				pods[i] = f.alphabet[t]
			}
			var w *world
			for ci, cf := range f.configs {
				c := Case{Family: f.name, Plan: cf.plan, Replicas: cf.replicas, CurrentBatch: cf.cb, Filter: cf.filter, Pods: pods}
				var res result
				if p := lib.Catch(func() { res, w = runCase(c, nil, w) }); p != nil {
					w = nil
					res.verdicts = append(res.verdicts, verdict{"C12/harness/crash", "the check itself panicked: " + p.Value + "\n" + p.Stack})
				}
				r.Outcome(f.name + "/" + res.outcome)
				if res.writes1 > 0 {
					r.Nontrivial(fmt.Sprintf("%d|%d|%d", fi, si, ci))
				}
				rec.add(fi, si, ci, c, res.verdicts, "")
				if res.writes1 > 1 && len(pods) >= 3 && cf.cb > 0 {
					mu.Lock()
					if !sampled {
						sampled = true
						r.Sample(map[string]interface{}{"case": c, "outcome": res.outcome, "writes_first_pass": res.writes1})
					}
					mu.Unlock()
				}
			}
			r.AddEval(int64(len(f.configs)))
		})
	}
	if only == "" || strings.HasPrefix("F5-histories", only) {
		famStats["F5-histories"] = runHistories(r, rec, len(fams))
	}
	r.Extra["families"] = famStats
	r.Extra["update_revision"] = updateRevision

	// report: one witness per signature, the smallest in enumeration order (deterministic under parallelism)
	sigs := make([]string, 0, len(hits))
	for s := range hits {
		sigs = append(sigs, s)
	}
	sort.Slice(sigs, func(i, j int) bool {
		a, b := hits[sigs[i]], hits[sigs[j]]
		if less(a, b) {
			return true
		}
		if less(b, a) {
			return false
		}
		return sigs[i] < sigs[j]
	})
	for _, s := range sigs {
		h := hits[s]
		r.Violate(s, h.detail+"\ncase: "+lib.J(h.c), h.c)
		for i := 1; i < h.n; i++ {
			r.Violate(s, "", nil)
		}
	}
}

// Replay re-executes one recorded case, printing each step and the verdict.
func Replay(r *lib.Report, raw json.RawMessage) {
	var c Case
	if err := json.Unmarshal(raw, &c); err != nil {
		fmt.Fprintln(os.Stderr, "HARNESS-ERROR cannot parse replay case:", err)
		os.Exit(2)
	}
	if len(c.Plan) == 0 || c.CurrentBatch < 0 || c.CurrentBatch >= len(c.Plan) {
		fmt.Fprintln(os.Stderr, "HARNESS-ERROR replay case outside the domain (currentBatch must index the plan)")
		os.Exit(2)
	}
	var res result
	if p := lib.Catch(func() { res, _ = runCase(c, os.Stdout, nil) }); p != nil {
		res.verdicts = append(res.verdicts, verdict{"C12/harness/crash", "the check itself panicked: " + p.Value + "\n" + p.Stack})
	}
	r.AddEval(1)
	if res.writes1 > 0 {
		r.Nontrivial(lib.J(c))
	}
	r.Outcome(res.outcome)
	r.Sample(c)
	fmt.Printf("outcome: %s\n", res.outcome)
	if len(res.verdicts) == 0 {
		fmt.Println("verdict: PASS (no oracle violated)")
	}
	for _, v := range res.verdicts {
		fmt.Printf("verdict: VIOLATION %s\n  %s\n", v.Sig, v.Detail)
		r.Violate(v.Sig, v.Detail+"\ncase: "+lib.J(c), c)
	}
}
