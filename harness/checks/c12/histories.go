package c12

import (
	"fmt"
	"sync"
	"sync/atomic"

	"github.com/openkruise/rollouts/api/v1beta1"
	"github.com/openkruise/rollouts/pkg/util"

	"verifharness/lib"
)

// F5: reachable histories. A release starts with unlabelled pods, some of which may already run the new
// revision (rollback scene; with rollback-in-batches they carry the no-need-update label and the callers set a
// filter). For every batch in turn: a labelling pass, then the workload controller model moves pods to the new
// revision until the batch target is met (ordered: every ordinal >= partition; unordered: old pods in ascending or
// descending ordinal order; an updated pod is a recreated pod and carries no rollout labels), then another labelling
// pass. Every pass is an ordinary Case (so it has the same oracles, the repeated pass, and the same replay format);
// the pods of the next case are the pods as stored after the previous one.

type historyStart struct {
	plan     []string
	replicas int
	filter   string
	// initialNew: bit i set = pod with ordinal i already runs the new revision when the release starts
	initialNew int
	// highFirst: the unordered workload updates the highest ordinals first (else the lowest)
	highFirst bool
}

func specFromState(prev PodSpec, st podState) PodSpec {
	out := PodSpec{Rev: prev.Rev, Term: prev.Term}
	switch st.Labels[v1beta1.RolloutIDLabel] {
	case curID:
		out.ID = "cur"
	case foreignID:
		out.ID = "foreign"
	}
	out.Batch = st.Labels[v1beta1.RolloutBatchIDLabel]
	out.NNU = st.Labels[util.NoNeedUpdatePodLabel] == curID
	return out
}

func runHistories(r *lib.Report, rec *recorder, famIndex int) map[string]interface{} {
	var plans [][]string
	for _, f := range families(r.Thorough()) {
		if f.name == "F1-labels" {
			seen := map[string]bool{}
			for _, cf := range f.configs {
				k := fmt.Sprint(cf.plan)
				if !seen[k] {
					seen[k] = true
					plans = append(plans, cf.plan)
				}
			}
		}
	}
	maxReplicas := 6
	if r.Thorough() {
		maxReplicas = 7
	}
	var starts []historyStart
	for _, filter := range []string{"nil", "unordered", "ordered"} {
		for _, plan := range plans {
			for n := 1; n <= maxReplicas; n++ {
				for s := 0; s < 1<<uint(n); s++ {
					for _, hf := range []bool{false, true} {
						if filter == "ordered" && hf {
							continue // the ordered workload has no choice
						}
						starts = append(starts, historyStart{plan, n, filter, s, hf})
					}
				}
			}
		}
	}
	var cases, labelledHistories int64
	var sigMu sync.Mutex
	type reachedSig struct {
		Occurrences int    `json:"occurrences"`
		History     int    `json:"-"`
		Step        int    `json:"-"`
		FirstCase   Case   `json:"first_case"`
		ReachedBy   string `json:"reached_by"`
	}
	reached := map[string]*reachedSig{}
	lib.ParallelFor(len(starts), func(hi int) {
		h := starts[hi]
		pods := make([]PodSpec, h.replicas)
		for i := range pods {
			pods[i] = PodSpec{Rev: "cs-old"}
			if h.initialNew&(1<<uint(i)) != 0 {
				pods[i] = PodSpec{Rev: "cs-new", NNU: h.filter != "nil"}
			}
		}
		release := &v1beta1.BatchRelease{Spec: v1beta1.BatchReleaseSpec{ReleasePlan: v1beta1.ReleasePlan{Batches: parsePlan(h.plan), RolloutID: curID}}}
		step := 0
		wrote := false
		note := func() string {
			return fmt.Sprintf("\nreached in a release history: plan=%v replicas=%d filter=%s, ordinals on the new revision at the start=%b (bit i = pod demo-i), unordered update order highFirst=%v, pass #%d of the history",
				h.plan, h.replicas, h.filter, h.initialNew, h.highFirst, step)
		}
		pass := func(cb int) bool {
			step++
			c := Case{Family: "F5-histories", Plan: h.plan, Replicas: h.replicas, CurrentBatch: cb, Filter: h.filter, Pods: append([]PodSpec(nil), pods...)}
			var res result
			if p := lib.Catch(func() { res, _ = runCase(c, nil, nil) }); p != nil {
				res.verdicts = append(res.verdicts, verdict{"C12/harness/crash", "the check itself panicked: " + p.Value + "\n" + p.Stack})
			}
			atomic.AddInt64(&cases, 1)
			r.Outcome("F5-histories/" + res.outcome)
			if res.writes1 > 0 {
				wrote = true
				r.Nontrivial(fmt.Sprintf("%d|%d|%d", famIndex, hi, step))
			}
			rec.add(famIndex, hi, step, c, res.verdicts, note())
			if len(res.verdicts) > 0 {
				sigMu.Lock()
				for _, v := range res.verdicts {
					rs := reached[v.Sig]
					if rs == nil {
						rs = &reachedSig{History: hi, Step: step, FirstCase: c, ReachedBy: note()}
						reached[v.Sig] = rs
					} else if hi < rs.History || (hi == rs.History && step < rs.Step) {
						rs.History, rs.Step, rs.FirstCase, rs.ReachedBy = hi, step, c, note()
					}
					rs.Occurrences++
				}
				sigMu.Unlock()
			}
			if res.after == nil {
				return false // the pass crashed: the history ends here (the controller would crash-loop)
			}
			for i := range pods {
				if res.after[i].Exists {
					pods[i] = specFromState(pods[i], res.after[i])
				}
			}
			return true
		}
		for cb := 0; cb < len(h.plan); cb++ {
			if !pass(cb) {
				break
			}
			// the workload controller moves pods to the new revision up to the target of this batch
			var nnu *int32
			if h.filter != "nil" {
				n := int32(0)
				for _, p := range pods {
					if p.isNew() && !p.Term && p.NNU {
						n++
					}
				}
				nnu = &n
			}
			_, desired, partition := deriveFields(release, h.replicas, cb, h.filter, nnu)
			if h.filter == "ordered" {
				for i := range pods {
					if i >= partition.IntValue() && !pods[i].isNew() {
						pods[i] = PodSpec{Rev: "cs-new"}
					}
				}
			} else {
				cur := 0
				for _, p := range pods {
					if p.isNew() {
						cur++
					}
				}
				for k := 0; k < len(pods) && cur < int(desired); k++ {
					i := k
					if h.highFirst {
						i = len(pods) - 1 - k
					}
					if !pods[i].isNew() {
						pods[i] = PodSpec{Rev: "cs-new"}
						cur++
					}
				}
			}
			if !pass(cb) {
				break
			}
		}
		if wrote {
			atomic.AddInt64(&labelledHistories, 1)
		}
	})
	r.AddEval(cases)
	return map[string]interface{}{"violation_signatures_reached_in_a_release_history": reached, "histories": len(starts), "cases": cases, "histories_with_labelling": labelledHistories, "max_replicas": maxReplicas, "plans": len(plans)}
}
