package c12

import (
	"fmt"
	"reflect"

	kruiseappsv1alpha1 "github.com/openkruise/kruise-api/apps/v1alpha1"
	"github.com/openkruise/rollouts/api/v1beta1"
	batchcontext "github.com/openkruise/rollouts/pkg/controller/batchrelease/context"
	"github.com/openkruise/rollouts/pkg/controller/batchrelease/control/partitionstyle"
	"github.com/openkruise/rollouts/pkg/controller/batchrelease/control/partitionstyle/cloneset"
	"github.com/openkruise/rollouts/pkg/controller/batchrelease/control/partitionstyle/statefulset"
	"github.com/openkruise/rollouts/pkg/controller/batchrelease/labelpatch"
	apps "k8s.io/api/apps/v1"
	corev1 "k8s.io/api/core/v1"
	metav1 "k8s.io/apimachinery/pkg/apis/meta/v1"
	"k8s.io/apimachinery/pkg/runtime"
	"k8s.io/apimachinery/pkg/types"
	clientgoscheme "k8s.io/client-go/kubernetes/scheme"
	utilpointer "k8s.io/utils/pointer"
	"sigs.k8s.io/controller-runtime/pkg/client"
	"sigs.k8s.io/controller-runtime/pkg/client/fake"

	"verifharness/lib"
)

func funcName(f batchcontext.FilterFuncType) string {
	switch {
	case f == nil:
		return "nil"
	case reflect.ValueOf(f).Pointer() == reflect.ValueOf(labelpatch.FilterPodsForUnorderedUpdate).Pointer():
		return "unordered"
	case reflect.ValueOf(f).Pointer() == reflect.ValueOf(labelpatch.FilterPodsForOrderedUpdate).Pointer():
		return "ordered"
	}
	return "other"
}

// selfCheckContext runs the real partition-style CloneSet and StatefulSet CalculateBatchContext (on a workload
// without pods and a release without rollout-id, so that only the arithmetic is exercised) for every
// (plan, replicas, current batch, no-need-update count) of the domain and compares the fields the labelling code
// reads with deriveFields. Returns "" when they agree everywhere.
func selfCheckContext(fams []family) (msg string, comparisons int) {
	sch := runtime.NewScheme()
	_ = clientgoscheme.AddToScheme(sch)
	_ = kruiseappsv1alpha1.AddToScheme(sch)
	tmpl := corev1.PodTemplateSpec{ObjectMeta: metav1.ObjectMeta{Labels: map[string]string{"app": "demo"}},
		Spec: corev1.PodSpec{Containers: []corev1.Container{{Name: "main", Image: "img:v2"}}}}
	sel := &metav1.LabelSelector{MatchLabels: map[string]string{"app": "demo"}}
	key := types.NamespacedName{Namespace: ns, Name: "demo"}
	seen := map[string]bool{}
	maxPods := 0
	for _, f := range fams {
		if f.maxPods > maxPods {
			maxPods = f.maxPods
		}
	}
	for _, f := range fams {
		for _, cf := range f.configs {
			k := fmt.Sprint(cf.plan, cf.replicas, cf.cb)
			if seen[k] {
				continue
			}
			seen[k] = true
			for n := -1; n <= maxPods; n++ { // -1: noNeedUpdateReplicas == nil
				var nnu *int32
				if n >= 0 {
					nnu = utilpointer.Int32(int32(n))
				}
				release := &v1beta1.BatchRelease{
					ObjectMeta: metav1.ObjectMeta{Namespace: ns, Name: "release"},
					Spec:       v1beta1.BatchReleaseSpec{ReleasePlan: v1beta1.ReleasePlan{Batches: parsePlan(cf.plan)}},
					Status:     v1beta1.BatchReleaseStatus{UpdateRevision: updateRevision, CanaryStatus: v1beta1.BatchReleaseCanaryStatus{CurrentBatch: int32(cf.cb), NoNeedUpdateReplicas: nnu}},
				}
				for _, kind := range []string{"cloneset", "statefulset"} {
					var obj client.Object
					var ctrl partitionstyle.Interface
					filter := "nil"
					switch kind {
					case "cloneset":
						obj = &kruiseappsv1alpha1.CloneSet{ObjectMeta: metav1.ObjectMeta{Namespace: ns, Name: "demo", UID: "uid-demo"},
							Spec: kruiseappsv1alpha1.CloneSetSpec{Replicas: utilpointer.Int32(int32(cf.replicas)), Selector: sel, Template: tmpl}}
						if nnu != nil {
							filter = "unordered"
						}
					case "statefulset":
						obj = &apps.StatefulSet{ObjectMeta: metav1.ObjectMeta{Namespace: ns, Name: "demo", UID: "uid-demo"},
							Spec: apps.StatefulSetSpec{Replicas: utilpointer.Int32(int32(cf.replicas)), Selector: sel, Template: tmpl}}
						if nnu != nil {
							filter = "ordered"
						}
					}
					cli := fake.NewClientBuilder().WithScheme(sch).WithObjects(obj).Build()
					if kind == "cloneset" {
						ctrl = cloneset.NewController(cli, key, kruiseappsv1alpha1.SchemeGroupVersion.WithKind("CloneSet"))
					} else {
						ctrl = statefulset.NewController(cli, key, apps.SchemeGroupVersion.WithKind("StatefulSet"))
					}
					var real *batchcontext.BatchContext
					var err error
					if p := lib.Catch(func() {
						if ctrl, err = ctrl.BuildController(); err == nil {
							real, err = ctrl.CalculateBatchContext(release)
						}
					}); p != nil {
						return fmt.Sprintf("%s plan=%v replicas=%d batch=%d nnu=%d: real CalculateBatchContext panicked: %s", kind, cf.plan, cf.replicas, cf.cb, n, p.Value), comparisons
					}
					if err != nil {
						return fmt.Sprintf("%s plan=%v replicas=%d batch=%d nnu=%d: real CalculateBatchContext failed: %v", kind, cf.plan, cf.replicas, cf.cb, n, err), comparisons
					}
					comparisons++
					planned, desired, partition := deriveFields(release, cf.replicas, cf.cb, filter, nnu)
					bad := real.PlannedUpdatedReplicas != planned || real.DesiredUpdatedReplicas != desired || real.Replicas != int32(cf.replicas) ||
						real.CurrentBatch != int32(cf.cb) || funcName(real.FilterFunc) != filter || !reflect.DeepEqual(real.NoNeedUpdatedReplicas, nnu)
					// the ordered filter reads DesiredPartition; for CloneSets it may be kept as a percentage and is not read by the unordered filter
					if kind == "statefulset" && real.DesiredPartition != partition {
						bad = true
					}
					if bad {
						return fmt.Sprintf("%s plan=%v replicas=%d batch=%d nnu=%d: real planned=%d desired=%d partition=%s filter=%s, derived planned=%d desired=%d partition=%s filter=%s",
							kind, cf.plan, cf.replicas, cf.cb, n, real.PlannedUpdatedReplicas, real.DesiredUpdatedReplicas, real.DesiredPartition.String(), funcName(real.FilterFunc),
							planned, desired, partition.String(), filter), comparisons
					}
				}
			}
		}
	}
	return "", comparisons
}
