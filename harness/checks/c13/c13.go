// Package c13: small-scope check of the Gateway API HTTPRoute provider (E3, histories).
//
// Every generated HTTPRoute (1..3 rules from a rule alphabet) is put into a controller-runtime fake store,
// every step sequence up to the tier's length is driven through the REAL gateway provider
// (EnsureRoutes ... EnsureRoutes, Finalise, Finalise) and the rules found in the store after every call
// are judged by a reference oracle that demands exactly what property C13 states.
package c13

import (
	"context"
	"encoding/json"
	"fmt"
	"os"
	"regexp"
	"sort"
	"strconv"
	"strings"
	"sync"
	"sync/atomic"

	"github.com/openkruise/rollouts/api/v1beta1"
	"github.com/openkruise/rollouts/pkg/trafficrouting/network"
	"github.com/openkruise/rollouts/pkg/trafficrouting/network/gateway"
	metav1 "k8s.io/apimachinery/pkg/apis/meta/v1"
	"k8s.io/apimachinery/pkg/runtime"
	"k8s.io/apimachinery/pkg/types"
	"sigs.k8s.io/controller-runtime/pkg/client"
	"sigs.k8s.io/controller-runtime/pkg/client/fake"
	gw "sigs.k8s.io/gateway-api/apis/v1beta1"

	"verifharness/lib"
)

const (
	nsName    = "ns"
	routeName = "route"
	stableSvc = "echo"
	canarySvc = "echo-canary"
)

var scheme = func() *runtime.Scheme {
	s := runtime.NewScheme()
	if err := gw.AddToScheme(s); err != nil {
		panic(err)
	}
	return s
}()

// ---------------------------------------------------------------------------------------------
// case description (this is also the replay format)
// ---------------------------------------------------------------------------------------------

// Step is one EnsureRoutes call. Matches non-empty = match step (takes precedence), else weight step.
type Step struct {
	Traffic *string                  `json:"traffic,omitempty"`
	Matches []v1beta1.HttpRouteMatch `json:"matches,omitempty"`
}

func (s Step) kind() string {
	if len(s.Matches) > 0 {
		return "match"
	}
	return "weight"
}

func (s Step) weight() (int32, bool) {
	if s.Traffic == nil || !strings.HasSuffix(*s.Traffic, "%") {
		return 0, false
	}
	n, err := strconv.Atoi(strings.TrimSuffix(*s.Traffic, "%"))
	if err != nil || n < 0 || n > 100 {
		return 0, false
	}
	return int32(n), true
}

// Case = the user's HTTPRoute rules + the step history; the history is always followed by Finalise, Finalise.
type Case struct {
	Rules []gw.HTTPRouteRule `json:"rules"`
	Steps []Step             `json:"steps"`
}

// ---------------------------------------------------------------------------------------------
// small helpers
// ---------------------------------------------------------------------------------------------

func j(v interface{}) string { return lib.J(v) }

func strp(s string) *string { return &s }

func i32(v int32) *int32 { return &v }

type countingClient struct {
	client.Client
	updates int
}

func (c *countingClient) Update(ctx context.Context, obj client.Object, opts ...client.UpdateOption) error {
	c.updates++
	return c.Client.Update(ctx, obj, opts...)
}

func (c *countingClient) Patch(ctx context.Context, obj client.Object, patch client.Patch, opts ...client.PatchOption) error {
	c.updates++
	return c.Client.Patch(ctx, obj, patch, opts...)
}

func (c *countingClient) Create(ctx context.Context, obj client.Object, opts ...client.CreateOption) error {
	c.updates++
	return c.Client.Create(ctx, obj, opts...)
}

func (c *countingClient) Delete(ctx context.Context, obj client.Object, opts ...client.DeleteOption) error {
	c.updates++
	return c.Client.Delete(ctx, obj, opts...)
}

func (c *countingClient) DeleteAllOf(ctx context.Context, obj client.Object, opts ...client.DeleteAllOfOption) error {
	c.updates++
	return c.Client.DeleteAllOf(ctx, obj, opts...)
}

// isSvcRef: does the backendRef denote the core Service <name> of the route's namespace?
// (kind defaults to Service, group to core, namespace to the route's namespace.)
func isSvcRef(ref gw.HTTPBackendRef, name string) bool {
	if ref.Kind != nil && string(*ref.Kind) != "Service" {
		return false
	}
	if ref.Group != nil && string(*ref.Group) != "" {
		return false
	}
	if ref.Namespace != nil && string(*ref.Namespace) != nsName {
		return false
	}
	return string(ref.Name) == name
}

func split(rule gw.HTTPRouteRule) (st, cn, others []gw.HTTPBackendRef) {
	for _, ref := range rule.BackendRefs {
		switch {
		case isSvcRef(ref, stableSvc):
			st = append(st, ref)
		case isSvcRef(ref, canarySvc):
			cn = append(cn, ref)
		default:
			others = append(others, ref)
		}
	}
	return
}

func hasStable(rule gw.HTTPRouteRule) bool { st, _, _ := split(rule); return len(st) > 0 }
func hasCanary(rule gw.HTTPRouteRule) bool { _, cn, _ := split(rule); return len(cn) > 0 }

// core = what identifies a user rule that targets the stable Service regardless of the canary
// reference and of the stable/canary weights: matches, filters and the other backends (in order).
func core(rule gw.HTTPRouteRule) string {
	_, _, others := split(rule)
	return j(map[string]interface{}{"m": rule.Matches, "f": rule.Filters, "o": others})
}

func frameKey(rule gw.HTTPRouteRule) string {
	return j(map[string]interface{}{"m": rule.Matches, "f": rule.Filters})
}

// classify names the structural class of a user rule (signature component).
func classify(rule gw.HTTPRouteRule) string {
	if len(rule.BackendRefs) == 0 {
		return "backend-less" // e.g. a redirect rule
	}
	st, _, others := split(rule)
	if len(st) > 0 {
		if len(others) == 0 {
			return "stable-only"
		}
		return "stable+foreign"
	}
	for _, ref := range rule.BackendRefs {
		if string(ref.Name) != stableSvc {
			continue
		}
		switch {
		case ref.Kind != nil && string(*ref.Kind) != "Service":
			return "same-name-non-Service-kind"
		case ref.Group != nil && string(*ref.Group) != "":
			return "same-name-other-group"
		case ref.Namespace != nil && string(*ref.Namespace) != nsName:
			return "same-name-other-namespace"
		}
	}
	return "foreign-only"
}

type vio struct {
	sig    string
	detail string
}

func newVio(sig, format string, a ...interface{}) *vio {
	return &vio{sig: sig, detail: fmt.Sprintf(format, a...)}
}

func containsJSON(rules []gw.HTTPRouteRule, want string) bool {
	for i := range rules {
		if j(rules[i]) == want {
			return true
		}
	}
	return false
}

// ---------------------------------------------------------------------------------------------
// the tiny request model (Gateway API matching semantics, pure functions)
// ---------------------------------------------------------------------------------------------

type request struct {
	path, method string
	hdr, qry     map[string]string
}

func (q request) String() string {
	return fmt.Sprintf("%s %s headers=%s query=%s", q.method, q.path, j(q.hdr), j(q.qry))
}

func fullMatch(expr, s string) bool {
	re, err := regexp.Compile("^(?:" + expr + ")$")
	return err == nil && re.MatchString(s)
}

func acceptPath(p *gw.HTTPPathMatch, path string) bool {
	if p == nil {
		return true // default: prefix "/"
	}
	typ, val := gw.PathMatchPathPrefix, "/"
	if p.Type != nil {
		typ = *p.Type
	}
	if p.Value != nil {
		val = *p.Value
	}
	switch typ {
	case gw.PathMatchExact:
		return path == val
	case gw.PathMatchPathPrefix:
		v := strings.TrimSuffix(val, "/")
		return v == "" || path == v || strings.HasPrefix(path, v+"/")
	default:
		return fullMatch(val, path)
	}
}

// acceptMatch: one HTTPRouteMatch = AND of path, all headers, all query params, method.
func acceptMatch(m gw.HTTPRouteMatch, q request) bool {
	if !acceptPath(m.Path, q.path) {
		return false
	}
	for _, h := range m.Headers {
		v, ok := q.hdr[strings.ToLower(string(h.Name))]
		if !ok {
			return false
		}
		if h.Type != nil && *h.Type == gw.HeaderMatchRegularExpression {
			if !fullMatch(h.Value, v) {
				return false
			}
		} else if v != h.Value {
			return false
		}
	}
	for _, p := range m.QueryParams {
		v, ok := q.qry[string(p.Name)]
		if !ok {
			return false
		}
		if p.Type != nil && *p.Type == gw.QueryParamMatchRegularExpression {
			if !fullMatch(p.Value, v) {
				return false
			}
		} else if v != p.Value {
			return false
		}
	}
	if m.Method != nil && string(*m.Method) != q.method {
		return false
	}
	return true
}

// acceptRule: a rule accepts a request if any of its matches does; no matches = every request.
func acceptRule(ms []gw.HTTPRouteMatch, q request) bool {
	if len(ms) == 0 {
		return true
	}
	for _, m := range ms {
		if acceptMatch(m, q) {
			return true
		}
	}
	return false
}

func userToGw(m v1beta1.HttpRouteMatch) gw.HTTPRouteMatch {
	return gw.HTTPRouteMatch{Path: m.Path, Headers: m.Headers, QueryParams: m.QueryParams}
}

// allowed: may a generated canary rule derived from the user rule with matches `own` accept q under
// the user's match list? path matches stand alone; header/query matches are combined with the
// source rule's own conditions.
func allowed(own []gw.HTTPRouteMatch, user []v1beta1.HttpRouteMatch, q request) bool {
	for _, u := range user {
		if u.Path != nil {
			if acceptMatch(userToGw(u), q) {
				return true
			}
			continue
		}
		if acceptMatch(userToGw(u), q) && acceptRule(own, q) {
			return true
		}
	}
	return false
}

// universe builds the request model from the atoms mentioned anywhere: every mentioned path, one
// child of it and one unmentioned path; per mentioned header / query name: absent, every mentioned
// value, one other value; GET and POST.
func universe(matchLists ...[]gw.HTTPRouteMatch) []request {
	paths := map[string]bool{"/zz": true}
	hv := map[string]map[string]bool{}
	qv := map[string]map[string]bool{}
	for _, ms := range matchLists {
		for _, m := range ms {
			if m.Path != nil && m.Path.Value != nil {
				v := *m.Path.Value
				paths[v] = true
				paths[strings.TrimSuffix(v, "/")+"/x"] = true
			}
			for _, h := range m.Headers {
				n := strings.ToLower(string(h.Name))
				if hv[n] == nil {
					hv[n] = map[string]bool{}
				}
				hv[n][h.Value] = true
			}
			for _, p := range m.QueryParams {
				if qv[string(p.Name)] == nil {
					qv[string(p.Name)] = map[string]bool{}
				}
				qv[string(p.Name)][p.Value] = true
			}
		}
	}
	type dim struct {
		hdr  bool
		name string
		vals []string // "\x00" = absent
	}
	var dims []dim
	mk := func(hdr bool, m map[string]map[string]bool) {
		names := make([]string, 0, len(m))
		for n := range m {
			names = append(names, n)
		}
		sort.Strings(names)
		for _, n := range names {
			vals := make([]string, 0, len(m[n])+2)
			for v := range m[n] {
				vals = append(vals, v)
			}
			sort.Strings(vals)
			vals = append([]string{"\x00"}, vals...)
			vals = append(vals, "other")
			dims = append(dims, dim{hdr, n, vals})
		}
	}
	mk(true, hv)
	mk(false, qv)
	ps := make([]string, 0, len(paths))
	for p := range paths {
		ps = append(ps, p)
	}
	sort.Strings(ps)
	sizes := []int{len(ps), 2}
	for _, d := range dims {
		sizes = append(sizes, len(d.vals))
	}
	var out []request
	lib.Product(sizes, func(idx []int) bool {
		q := request{path: ps[idx[0]], method: []string{"GET", "POST"}[idx[1]], hdr: map[string]string{}, qry: map[string]string{}}
		for k, d := range dims {
			v := d.vals[idx[2+k]]
			if v == "\x00" {
				continue
			}
			if d.hdr {
				q.hdr[d.name] = v
			} else {
				q.qry[d.name] = v
			}
		}
		out = append(out, q)
		return true
	})
	return out
}

type scopeResult struct {
	over      string // "" = every generated rule is within scope; else description of the first offender
	overIdx   int
	under     bool // informational: some wanted request is not covered by any generated rule
	requests  int
	generated int
}

var scopeMemo sync.Map

// judgeScope evaluates every generated canary rule against the request model.
func judgeScope(gens []gw.HTTPRouteRule, stableUsers []gw.HTTPRouteRule, user []v1beta1.HttpRouteMatch) *scopeResult {
	key := j([]interface{}{gens, stableUsers, user})
	if v, ok := scopeMemo.Load(key); ok {
		return v.(*scopeResult)
	}
	lists := [][]gw.HTTPRouteMatch{}
	for _, g := range gens {
		lists = append(lists, g.Matches)
	}
	for _, u := range stableUsers {
		lists = append(lists, u.Matches)
	}
	um := make([]gw.HTTPRouteMatch, 0, len(user))
	for _, u := range user {
		um = append(um, userToGw(u))
	}
	lists = append(lists, um)
	reqs := universe(lists...)
	res := &scopeResult{requests: len(reqs), generated: len(gens), overIdx: -1}
	for gi, g := range gens {
		// the source rule is not recorded anywhere: the generated rule is in scope if SOME user rule
		// that targets the stable Service explains everything it accepts.
		ok := false
		var firstBad request
		for ui, u := range stableUsers {
			good := true
			for _, q := range reqs {
				if acceptRule(g.Matches, q) && !allowed(u.Matches, user, q) {
					good = false
					if ui == 0 {
						firstBad = q
					}
					break
				}
			}
			if good {
				ok = true
				break
			}
		}
		if len(stableUsers) == 0 {
			for _, q := range reqs {
				if acceptRule(g.Matches, q) {
					firstBad = q
					break
				}
			}
		}
		if !ok {
			res.over = fmt.Sprintf("generated rule matches=%s accepts request {%s} which satisfies none of the user's matches %s (source rule conditions %s)",
				j(g.Matches), firstBad, j(user), j(func() interface{} {
					if len(stableUsers) > 0 {
						return stableUsers[0].Matches
					}
					return nil
				}()))
			res.overIdx = gi
			break
		}
	}
	for _, q := range reqs {
		wanted := false
		for _, u := range stableUsers {
			if allowed(u.Matches, user, q) {
				wanted = true
				break
			}
		}
		if !wanted {
			continue
		}
		covered := false
		for _, g := range gens {
			if acceptRule(g.Matches, q) {
				covered = true
				break
			}
		}
		if !covered {
			res.under = true
			break
		}
	}
	scopeMemo.Store(key, res)
	return res
}

// listClass: structural class of the user's match list (signature component).
func listClass(user []v1beta1.HttpRouteMatch) string {
	hasPath, hasNon, pathBeforeNon := false, false, false
	for _, u := range user {
		if u.Path != nil {
			hasPath = true
		} else {
			hasNon = true
			if hasPath {
				pathBeforeNon = true
			}
		}
	}
	switch {
	case hasPath && !hasNon:
		return "path-only"
	case hasNon && !hasPath:
		return "nonpath-only"
	case pathBeforeNon:
		return "mixed:path-before-nonpath"
	default:
		return "mixed:nonpath-then-path"
	}
}

// ---------------------------------------------------------------------------------------------
// oracles (one per operation kind)
// ---------------------------------------------------------------------------------------------

type judgeInfo struct {
	outcomes  []string
	generated int
}

// rv = a rule with everything the oracles ask about it, computed once per store state.
type rv struct {
	r              gw.HTTPRouteRule
	js, core, fkey string
	st, cn, others []gw.HTTPBackendRef
}

func (v *rv) stable() bool    { return len(v.st) > 0 }
func (v *rv) canary() bool    { return len(v.cn) > 0 }
func (v *rv) generated() bool { return len(v.cn) > 0 && len(v.st) == 0 }

func views(rules []gw.HTTPRouteRule) []rv {
	out := make([]rv, len(rules))
	for i := range rules {
		v := &out[i]
		v.r = rules[i]
		v.st, v.cn, v.others = split(rules[i])
		v.js = j(rules[i])
		v.fkey = frameKey(rules[i])
		v.core = j(map[string]interface{}{"m": rules[i].Matches, "f": rules[i].Filters, "o": v.others})
	}
	return out
}

func rulesOf(vs []rv) []gw.HTTPRouteRule {
	out := make([]gw.HTTPRouteRule, len(vs))
	for i := range vs {
		out[i] = vs[i].r
	}
	return out
}

// counterpartOf: index of the user rule that cur rule c stands for, or -1.
// rules without the stable Service: byte-identical; rules with it: same matches, filters, other backends.
func counterpartOf(u0 []rv, c *rv) int {
	for i := range u0 {
		if !u0[i].stable() && u0[i].js == c.js {
			return i
		}
	}
	if c.stable() {
		for i := range u0 {
			if u0[i].stable() && u0[i].core == c.core {
				return i
			}
		}
	}
	return -1
}

func findStableCounterpart(cur []rv, u *rv) *rv {
	for i := range cur {
		if cur[i].stable() && cur[i].core == u.core {
			return &cur[i]
		}
	}
	return nil
}

// lostOrAltered: diagnosis only - is there a rule with the same matches and filters that stands for
// no other user rule (then the user's rule was altered) or none (lost)?
func lostOrAltered(u0, cur []rv, u *rv) string {
	for i := range cur {
		c := &cur[i]
		if c.fkey != u.fkey || c.generated() {
			continue
		}
		if k := counterpartOf(u0, c); k >= 0 && u0[k].js != u.js {
			continue
		}
		return "altered"
	}
	return "lost"
}

// refOddity says in which respect a backendRef carrying the stable/canary name is NOT that Service
// (separate signature components: each is a different defect of getServiceBackendRef).
func refOddity(ref gw.HTTPBackendRef) string {
	switch {
	case ref.Kind != nil && *ref.Kind != "Service":
		return "other-kind"
	case ref.Group != nil && *ref.Group != "":
		return "other-group"
	case ref.Namespace != nil && string(*ref.Namespace) != nsName:
		return "other-namespace"
	}
	return "other-kind-group-or-namespace"
}

// describeRefs names the backends of an unexpected rule (signature component).
func describeRefs(c *rv) string {
	set := map[string]bool{}
	for _, ref := range c.r.BackendRefs {
		switch {
		case isSvcRef(ref, stableSvc):
			set["stable"] = true
		case isSvcRef(ref, canarySvc):
			set["canary"] = true
		case string(ref.Name) == canarySvc:
			set["canary-name-but-"+refOddity(ref)] = true
		case string(ref.Name) == stableSvc:
			set["stable-name-but-"+refOddity(ref)] = true
		default:
			set["foreign"] = true
		}
	}
	if len(set) == 0 {
		return "no-backends"
	}
	ks := make([]string, 0, len(set))
	for k := range set {
		ks = append(ks, k)
	}
	sort.Strings(ks)
	return strings.Join(ks, "+")
}

// frame: every user rule that does not reference the stable Service is present byte-identical.
func judgeFrame(u0, cur []rv, op string) *vio {
	for i := range u0 {
		u := &u0[i]
		if u.stable() {
			continue
		}
		found := false
		for k := range cur {
			if cur[k].js == u.js {
				found = true
				break
			}
		}
		if !found {
			what := lostOrAltered(u0, cur, u)
			return newVio("C13/frame/rule-without-stable-"+what+"/"+classify(u.r)+"/"+op,
				"a user rule that does not reference the stable Service %q was %s by %s\nuser rule: %s\nrules after: %s", stableSvc, what, op, u.js, j(rulesOf(cur)))
		}
	}
	return nil
}

func judgeWeight(u0, cur []rv, w int32, info *judgeInfo) *vio {
	if v := judgeFrame(u0, cur, "weight-step"); v != nil {
		return v
	}
	rewritten := 0
	for i := range u0 {
		u := &u0[i]
		if !u.stable() {
			continue
		}
		cls := classify(u.r)
		c := findStableCounterpart(cur, u)
		if c == nil {
			diag := "user-rule-lost"
			if lostOrAltered(u0, cur, u) == "altered" {
				diag = "other-backend-changed"
			}
			return newVio("C13/weight-step/"+diag+"/"+cls, "weight %d%%: no rule with the user's matches, filters and untouched other backends that still targets the stable Service\nuser rule: %s\nrules after: %s", w, u.js, j(rulesOf(cur)))
		}
		if len(c.st) != 1 {
			return newVio("C13/weight-step/stable-ref-duplicated/"+cls, "weight %d%%: %d stable refs in %s", w, len(c.st), c.js)
		}
		if c.st[0].Weight == nil || *c.st[0].Weight != 100-w {
			return newVio("C13/weight-step/stable-weight/"+cls, "weight %d%%: stable Service weight is %s, want %d\nrule after: %s", w, j(c.st[0].Weight), 100-w, c.js)
		}
		if len(c.cn) == 0 {
			return newVio("C13/weight-step/canary-missing/"+cls, "weight %d%%: rule targets the stable Service but has no canary backendRef\nrule after: %s", w, c.js)
		}
		if len(c.cn) > 1 {
			return newVio("C13/weight-step/canary-ref-duplicated/"+cls, "weight %d%%: %d canary refs in %s", w, len(c.cn), c.js)
		}
		if c.cn[0].Weight == nil || *c.cn[0].Weight != w {
			return newVio("C13/weight-step/canary-weight/"+cls, "weight %d%%: canary Service weight is %s, want %d\nrule after: %s", w, j(c.cn[0].Weight), w, c.js)
		}
		rewritten++
	}
	leftover := 0
	for i := range cur {
		c := &cur[i]
		if counterpartOf(u0, c) >= 0 {
			continue
		}
		if c.generated() {
			leftover++ // a generated rule of an earlier match step; the property does not say it must go at a weight step
			continue
		}
		return newVio("C13/weight-step/unexpected-rule/backends:"+describeRefs(c), "weight %d%%: rule is neither a user rule nor a generated canary rule: %s\nuser rules: %s", w, c.js, j(rulesOf(u0)))
	}
	o := fmt.Sprintf("weight-step: stable-rules-split=%d", rewritten)
	if leftover > 0 {
		o += " (tolerated: generated rule of an earlier match step still present)"
	}
	info.outcomes = append(info.outcomes, o)
	return nil
}

func judgeMatch(u0, prev, cur []rv, user []v1beta1.HttpRouteMatch, info *judgeInfo) *vio {
	if v := judgeFrame(u0, cur, "match-step"); v != nil {
		return v
	}
	// every user rule that targets the stable Service still exists (matches, filters, other backends; still targets stable)
	var stableUsers []gw.HTTPRouteRule
	for i := range u0 {
		u := &u0[i]
		if !u.stable() {
			continue
		}
		stableUsers = append(stableUsers, u.r)
		if findStableCounterpart(cur, u) == nil {
			return newVio("C13/match-step/user-rule-lost/"+classify(u.r),
				"match step %s: the user's rule is gone (no rule with its matches, filters and other backends targets the stable Service)\nuser rule: %s\nrules before: %s\nrules after: %s", j(user), u.js, j(rulesOf(prev)), j(rulesOf(cur)))
		}
	}
	// the original rules are kept: every rule that carried no canary reference before the step is still there, unchanged
	for i := range prev {
		p := &prev[i]
		if p.canary() {
			continue
		}
		found := false
		for k := range cur {
			if cur[k].js == p.js {
				found = true
				break
			}
		}
		if !found {
			cls := "unknown"
			if k := counterpartOf(u0, p); k >= 0 {
				cls = classify(u0[k].r)
			}
			return newVio("C13/match-step/original-rule-changed/"+cls,
				"match step %s: a rule without canary reference was not kept as it was\nrule before: %s\nrules after: %s", j(user), p.js, j(rulesOf(cur)))
		}
	}
	var gens []gw.HTTPRouteRule
	for i := range cur {
		c := &cur[i]
		if counterpartOf(u0, c) >= 0 {
			continue
		}
		if c.generated() {
			gens = append(gens, c.r)
			continue
		}
		return newVio("C13/match-step/unexpected-rule/backends:"+describeRefs(c), "match step %s: rule is neither a user rule nor a generated canary rule (canary Service without stable Service): %s\nuser rules: %s", j(user), c.js, j(rulesOf(u0)))
	}
	// "the canary rule serves the matching requests, the original is kept": a rule whose backends all carry the explicit
	// weight 0 serves nothing (Gateway API: such a rule answers 500). Judged only when the user wrote no zero weight on a
	// stable reference themselves (a generated rule is a copy of the user's rule and inherits the user's weight).
	userZero := false
	for i := range u0 {
		for _, ref := range u0[i].st {
			if ref.Weight != nil && *ref.Weight == 0 {
				userZero = true
			}
		}
	}
	if !userZero {
		allZero := func(refs []gw.HTTPBackendRef) bool {
			for _, ref := range refs {
				if ref.Weight == nil || *ref.Weight != 0 {
					return false
				}
			}
			return len(refs) > 0
		}
		for i := range gens {
			if allZero(gens[i].BackendRefs) {
				return newVio("C13/match-step/canary-rule-serves-nothing", "match step %s: the generated canary rule carries weight 0 on every backend, matching requests are served by nobody: %s\nrules before: %s\nrules after: %s", j(user), j(gens[i]), j(rulesOf(prev)), j(rulesOf(cur)))
			}
		}
		for i := range u0 {
			u := &u0[i]
			if !u.stable() {
				continue
			}
			if c := findStableCounterpart(cur, u); c != nil && allZero(c.r.BackendRefs) {
				return newVio("C13/match-step/user-rule-serves-nothing/"+classify(u.r), "match step %s: the user's rule is left with weight 0 on every backend: %s\nrules before: %s\nrules after: %s", j(user), c.js, j(rulesOf(prev)), j(rulesOf(cur)))
			}
		}
	}
	info.generated = len(gens)
	sr := judgeScope(gens, stableUsers, user)
	if sr.over != "" {
		return newVio("C13/match-scope/over-accept/"+listClass(user), "%s\nrules after: %s", sr.over, j(rulesOf(cur)))
	}
	o := fmt.Sprintf("match-step(%s): generated=%d", listClass(user), len(gens))
	if sr.under {
		o += " (informational: some request that satisfies a user match and a stable rule is not covered by a generated rule)"
	}
	info.outcomes = append(info.outcomes, o)
	return nil
}

func normStableWeight(rule gw.HTTPRouteRule) string {
	c := rule.DeepCopy()
	for i := range c.BackendRefs {
		if isSvcRef(c.BackendRefs[i], stableSvc) {
			c.BackendRefs[i].Weight = nil
		}
	}
	return j(c)
}

func judgeFinalise(u0, cur []rv, info *judgeInfo) *vio {
	for i := range cur {
		if cur[i].canary() {
			return newVio("C13/finalise/canary-ref-left", "a rule still references the canary Service %q after Finalise: %s", canarySvc, cur[i].js)
		}
	}
	if v := judgeFrame(u0, cur, "finalise"); v != nil {
		return v
	}
	for i := range u0 {
		u := &u0[i]
		if !u.stable() {
			continue
		}
		cls := classify(u.r)
		c := findStableCounterpart(cur, u)
		if c == nil {
			return newVio("C13/finalise/user-rule-"+lostOrAltered(u0, cur, u)+"/"+cls, "after Finalise the user's rule is not there\nuser rule: %s\nrules after: %s", u.js, j(rulesOf(cur)))
		}
		if c.js == u.js {
			continue
		}
		if normStableWeight(c.r) != normStableWeight(u.r) {
			return newVio("C13/finalise/user-rule-altered/"+cls, "after Finalise the rule differs from what the user wrote (beyond the stable weight)\nuser rule: %s\nrule after: %s", u.js, c.js)
		}
		if len(c.others) == 0 {
			// sole backend: any non-zero weight means "all traffic of the rule" - the code's normalisation to 1 is tolerated
			if c.st[0].Weight != nil && *c.st[0].Weight == 0 {
				return newVio("C13/finalise/stable-weight-zero/"+cls, "after Finalise the only backend has weight 0 (no traffic is forwarded): %s", c.js)
			}
			continue
		}
		if j(c.st[0].Weight) != j(u.st[0].Weight) {
			return newVio("C13/finalise/stable-weight-in-mixed-rule/"+cls,
				"the rule splits traffic between the stable Service and other backends; the user's stable weight %s became %s after Finalise (ratio to the other backends changed)\nuser rule: %s\nrule after: %s",
				j(u.st[0].Weight), j(c.st[0].Weight), u.js, c.js)
		}
	}
	for i := range cur {
		if counterpartOf(u0, &cur[i]) < 0 {
			return newVio("C13/finalise/generated-or-unknown-rule-left/backends:"+describeRefs(&cur[i]), "after Finalise a rule that the user did not write is present: %s\nuser rules: %s", cur[i].js, j(rulesOf(u0)))
		}
	}
	info.outcomes = append(info.outcomes, "finalise: restored")
	return nil
}

// ---------------------------------------------------------------------------------------------
// execution of one case on the real provider
// ---------------------------------------------------------------------------------------------

type result struct {
	vio      *vio
	vioOp    int // index of the failing operation: 0..len(steps)-1 = step, len(steps) = Finalise, len(steps)+1 = second Finalise
	outcomes []string
	writes   int
	nWeight  int
	nMatch   int
	nGen     int
	nFin     int
}

func readRules(c client.Client) ([]gw.HTTPRouteRule, error) {
	rt := &gw.HTTPRoute{}
	if err := c.Get(context.TODO(), types.NamespacedName{Namespace: nsName, Name: routeName}, rt); err != nil {
		return nil, err
	}
	return rt.Spec.Rules, nil
}

func newProvider(cli client.Client) (network.NetworkProvider, error) {
	name := routeName
	return gateway.NewGatewayTrafficRouting(cli, gateway.Config{
		Key: "ns/demo", Namespace: nsName, CanaryService: canarySvc, StableService: stableSvc,
		TrafficConf: &v1beta1.GatewayTrafficRouting{HTTPRouteName: &name},
	})
}

func execute(c *Case, trace func(string)) (res result) {
	say := func(format string, a ...interface{}) {
		if trace != nil {
			trace(fmt.Sprintf(format, a...))
		}
	}
	route := &gw.HTTPRoute{
		ObjectMeta: metav1.ObjectMeta{Namespace: nsName, Name: routeName},
		Spec: gw.HTTPRouteSpec{
			CommonRouteSpec: gw.CommonRouteSpec{ParentRefs: []gw.ParentReference{{Name: "gateway"}}},
			Hostnames:       []gw.Hostname{"example.org"},
		},
	}
	for i := range c.Rules {
		route.Spec.Rules = append(route.Spec.Rules, *c.Rules[i].DeepCopy())
	}
	base := fake.NewClientBuilder().WithScheme(scheme).WithObjects(route).Build()
	cli := &countingClient{Client: base}
	u0rules, err := readRules(base)
	if err != nil {
		res.vio = newVio("C13/harness/cannot-read-route", "%v", err)
		return
	}
	u0 := views(u0rules)
	say("store: HTTPRoute %s/%s, stable Service %q, canary Service %q\nuser rules: %s", nsName, routeName, stableSvc, canarySvc, j(u0rules))
	prev := u0
	// the provider can reach the store only through cli, which counts every write verb: when a call wrote
	// nothing the store still holds what was read after the previous call
	read := func(wrote bool) ([]rv, error) {
		if !wrote {
			return prev, nil
		}
		rules, rerr := readRules(base)
		if rerr != nil {
			return nil, rerr
		}
		return views(rules), nil
	}
	fail := func(op int, v *vio) result {
		res.vio, res.vioOp, res.writes = v, op, cli.updates
		say("  VERDICT: VIOLATION %s\n  %s", v.sig, strings.ReplaceAll(v.detail, "\n", "\n  "))
		return res
	}
	for i, st := range c.Steps {
		// the manager builds a fresh provider for every call
		prov, perr := newProvider(cli)
		if perr != nil {
			return fail(i, newVio("C13/harness/provider", "%v", perr))
		}
		strategy := &v1beta1.TrafficRoutingStrategy{}
		if st.Traffic != nil {
			strategy.Traffic = strp(*st.Traffic)
		}
		for _, m := range st.Matches {
			strategy.Matches = append(strategy.Matches, *m.DeepCopy())
		}
		before := cli.updates
		var done bool
		var cerr error
		say("op %d: EnsureRoutes(%s)", i+1, j(st))
		if p := lib.Catch(func() { done, cerr = prov.EnsureRoutes(context.TODO(), strategy) }); p != nil {
			return fail(i, newVio("C13/panic/EnsureRoutes/"+p.Site+"/"+st.kind()+"-step", "EnsureRoutes panicked: %s\nstep: %s\nrules before: %s\n%s", p.Value, j(st), j(rulesOf(prev)), p.Stack))
		}
		if cerr != nil {
			return fail(i, newVio("C13/error/EnsureRoutes/"+st.kind()+"-step", "EnsureRoutes failed on a store that never fails: %v\nstep: %s\nrules before: %s", cerr, j(st), j(rulesOf(prev))))
		}
		wrote := cli.updates > before
		cur, rerr := read(wrote)
		if rerr != nil {
			return fail(i, newVio("C13/harness/cannot-read-route", "%v", rerr))
		}
		say("  returned verified=%v err=nil, wrote=%v\n  rules after: %s", done, wrote, j(rulesOf(cur)))
		info := &judgeInfo{}
		var v *vio
		if len(st.Matches) > 0 {
			res.nMatch++
			v = judgeMatch(u0, prev, cur, st.Matches, info)
			res.nGen += info.generated
		} else {
			w, ok := st.weight()
			if !ok {
				return fail(i, newVio("C13/harness/bad-step", "step outside the domain: %s", j(st)))
			}
			res.nWeight++
			v = judgeWeight(u0, cur, w, info)
		}
		if v != nil {
			return fail(i, v)
		}
		for _, o := range info.outcomes {
			res.outcomes = append(res.outcomes, fmt.Sprintf("%s wrote=%v verified=%v", o, wrote, done))
		}
		say("  VERDICT: ok (%s)", strings.Join(info.outcomes, "; "))
		prev = cur
	}
	for k := 0; k < 2; k++ {
		prov, perr := newProvider(cli)
		if perr != nil {
			return fail(len(c.Steps)+k, newVio("C13/harness/provider", "%v", perr))
		}
		before := cli.updates
		var modified bool
		var cerr error
		say("op %d: Finalise()", len(c.Steps)+1+k)
		suffix := ""
		if k == 1 {
			suffix = "/second-finalise"
		}
		if p := lib.Catch(func() { modified, cerr = prov.Finalise(context.TODO()) }); p != nil {
			return fail(len(c.Steps)+k, newVio("C13/panic/Finalise/"+p.Site+suffix, "Finalise panicked: %s\nrules before: %s\n%s", p.Value, j(rulesOf(prev)), p.Stack))
		}
		if cerr != nil {
			return fail(len(c.Steps)+k, newVio("C13/error/Finalise"+suffix, "Finalise failed on a store that never fails: %v\nrules before: %s", cerr, j(rulesOf(prev))))
		}
		wrote := cli.updates > before
		cur, rerr := read(wrote)
		if rerr != nil {
			return fail(len(c.Steps)+k, newVio("C13/harness/cannot-read-route", "%v", rerr))
		}
		say("  returned modified=%v err=nil, wrote=%v\n  rules after: %s", modified, wrote, j(rulesOf(cur)))
		info := &judgeInfo{}
		res.nFin++
		if v := judgeFinalise(u0, cur, info); v != nil {
			v.sig += suffix
			return fail(len(c.Steps)+k, v)
		}
		name := "finalise"
		if k == 1 {
			name = "second-finalise"
		}
		res.outcomes = append(res.outcomes, fmt.Sprintf("%s: restored wrote=%v modified=%v", name, wrote, modified))
		say("  VERDICT: ok")
		prev = cur
	}
	res.writes = cli.updates
	return res
}

func kindsOf(steps []Step) string {
	var ks []string
	for _, s := range steps {
		k := s.kind()
		if len(ks) == 0 || ks[len(ks)-1] != k {
			ks = append(ks, k)
		}
	}
	return strings.Join(ks, ">")
}

// attribute decides whether a violation found at operation vioOp needs the preceding history: the
// shortest suffix of the preceding steps that still reproduces the same signature at the same
// operation is looked for; if the operation alone reproduces it the signature stays as it is,
// otherwise "/only-after:<kinds of that suffix>" is appended.
func attribute(c *Case, res result, exec func(red *Case, k int) (sig string, op int)) string {
	if exec == nil {
		exec = func(red *Case, _ int) (string, int) {
			rr := execute(red, nil)
			if rr.vio == nil {
				return "", -1
			}
			return rr.vio.sig, rr.vioOp
		}
	}
	base := res.vio.sig
	n := len(c.Steps)
	var pre []Step // steps before the failing op
	var tail []Step
	if res.vioOp < n {
		pre, tail = c.Steps[:res.vioOp], c.Steps[res.vioOp:res.vioOp+1]
	} else {
		pre = c.Steps
	}
	for k := 0; k < len(pre); k++ {
		red := &Case{Rules: c.Rules}
		red.Steps = append(red.Steps, pre[len(pre)-k:]...)
		red.Steps = append(red.Steps, tail...)
		rsig, rop := exec(red, k)
		wantOp := len(red.Steps) - 1 // the failing step is the last step of the reduced history
		if res.vioOp >= n {
			wantOp = len(red.Steps) + (res.vioOp - n) // first / second Finalise
		}
		if rsig == base && rop == wantOp {
			if k == 0 {
				return base
			}
			return base + "/only-after:" + kindsOf(pre[len(pre)-k:])
		}
	}
	if len(pre) == 0 {
		return base
	}
	return base + "/only-after:" + kindsOf(pre)
}

// ---------------------------------------------------------------------------------------------
// alphabets
// ---------------------------------------------------------------------------------------------

func pathMatch(typ gw.PathMatchType, v string) *gw.HTTPPathMatch {
	return &gw.HTTPPathMatch{Type: &typ, Value: &v}
}

func hdrMatch(name, val string) gw.HTTPHeaderMatch {
	t := gw.HeaderMatchExact
	return gw.HTTPHeaderMatch{Type: &t, Name: gw.HTTPHeaderName(name), Value: val}
}

func qryMatch(name, val string) gw.HTTPQueryParamMatch {
	t := gw.QueryParamMatchExact
	return gw.HTTPQueryParamMatch{Type: &t, Name: gw.HTTPHeaderName(name), Value: val}
}

// backendRef as the API server persists it (CRD defaults applied: group "", kind Service, weight 1).
func ref(group, kind, name string, weight int32) gw.HTTPBackendRef {
	g, k, p := gw.Group(group), gw.Kind(kind), gw.PortNumber(80)
	return gw.HTTPBackendRef{BackendRef: gw.BackendRef{
		BackendObjectReference: gw.BackendObjectReference{Group: &g, Kind: &k, Name: gw.ObjectName(name), Port: &p},
		Weight:                 i32(weight),
	}}
}

func svc(name string, weight int32) gw.HTTPBackendRef { return ref("", "Service", name, weight) }

type letter struct {
	name string
	rule gw.HTTPRouteRule
}

func ruleLetters(thorough bool) []letter {
	post := gw.HTTPMethodPost
	mRoot := []gw.HTTPRouteMatch{{Path: pathMatch(gw.PathMatchPathPrefix, "/")}}
	mA := []gw.HTTPRouteMatch{{Path: pathMatch(gw.PathMatchPathPrefix, "/a")}}
	mAH := []gw.HTTPRouteMatch{{Path: pathMatch(gw.PathMatchExact, "/a"), Headers: []gw.HTTPHeaderMatch{hdrMatch("x-own", "1")}}}
	mTwo := []gw.HTTPRouteMatch{{Path: pathMatch(gw.PathMatchPathPrefix, "/a")}, {Path: pathMatch(gw.PathMatchPathPrefix, "/b"), Method: &post}}
	mB := []gw.HTTPRouteMatch{{Path: pathMatch(gw.PathMatchPathPrefix, "/b")}}
	mQ := []gw.HTTPRouteMatch{{Path: pathMatch(gw.PathMatchPathPrefix, "/"), QueryParams: []gw.HTTPQueryParamMatch{qryMatch("q-own", "1")}}}
	fHdr := []gw.HTTPRouteFilter{{Type: gw.HTTPRouteFilterRequestHeaderModifier, RequestHeaderModifier: &gw.HTTPHeaderFilter{Set: []gw.HTTPHeader{{Name: "x-f", Value: "1"}}}}}
	host := gw.PreciseHostname("moved.example.org")
	code := 302
	fRedirect := []gw.HTTPRouteFilter{{Type: gw.HTTPRouteFilterRequestRedirect, RequestRedirect: &gw.HTTPRequestRedirectFilter{Hostname: &host, StatusCode: &code}}}
	otherNs := gw.Namespace("other-ns")
	nsRef := svc(stableSvc, 1)
	nsRef.Namespace = &otherNs

	ls := []letter{
		{"A:/a->stable", gw.HTTPRouteRule{Matches: mA, BackendRefs: []gw.HTTPBackendRef{svc(stableSvc, 1)}}},
		{"B:/+hdrfilter->stable", gw.HTTPRouteRule{Matches: mRoot, Filters: fHdr, BackendRefs: []gw.HTTPBackendRef{svc(stableSvc, 1)}}},
		{"C:/b+redirect->(none)", gw.HTTPRouteRule{Matches: mB, Filters: fRedirect}},
		{"D:/->stable80,other20", gw.HTTPRouteRule{Matches: mRoot, BackendRefs: []gw.HTTPBackendRef{svc(stableSvc, 80), svc("other", 20)}}},
		{"E:/->other", gw.HTTPRouteRule{Matches: mRoot, BackendRefs: []gw.HTTPBackendRef{svc("other", 1)}}},
		{"F:=/a&x-own->stable", gw.HTTPRouteRule{Matches: mAH, BackendRefs: []gw.HTTPBackendRef{svc(stableSvc, 1)}}},
		// quick 3-rule routes use the six letters above
		{"G:/a|POST /b->stable", gw.HTTPRouteRule{Matches: mTwo, BackendRefs: []gw.HTTPBackendRef{svc(stableSvc, 1)}}},
		{"H:/a->other20,stable80", gw.HTTPRouteRule{Matches: mA, BackendRefs: []gw.HTTPBackendRef{svc("other", 20), svc(stableSvc, 80)}}},
		{"I:/a+hdrfilter->stable1,other1", gw.HTTPRouteRule{Matches: mA, Filters: fHdr, BackendRefs: []gw.HTTPBackendRef{svc(stableSvc, 1), svc("other", 1)}}},
		{"J:/a->ServiceImport echo", gw.HTTPRouteRule{Matches: mA, BackendRefs: []gw.HTTPBackendRef{ref("multicluster.x-k8s.io", "ServiceImport", stableSvc, 1)}}},
		{"K:/b->stable1,echo-canary-old1", gw.HTTPRouteRule{Matches: mB, BackendRefs: []gw.HTTPBackendRef{svc(stableSvc, 1), svc(canarySvc+"-old", 1)}}},
		{"L:/b->example.io/Service echo", gw.HTTPRouteRule{Matches: mB, BackendRefs: []gw.HTTPBackendRef{ref("example.io", "Service", stableSvc, 1)}}},
	}
	if thorough {
		ls = append(ls,
			letter{"M:/b->other-ns/echo", gw.HTTPRouteRule{Matches: mB, Filters: fHdr, BackendRefs: []gw.HTTPBackendRef{nsRef}}},
			letter{"N:/?q-own->stable", gw.HTTPRouteRule{Matches: mQ, BackendRefs: []gw.HTTPBackendRef{svc(stableSvc, 1)}}},
			letter{"O:/b->stable50,other30,third20", gw.HTTPRouteRule{Matches: mB, BackendRefs: []gw.HTTPBackendRef{svc(stableSvc, 50), svc("other", 30), svc("third", 20)}}},
			letter{"P:/a|POST /b+hdrfilter->other,third", gw.HTTPRouteRule{Matches: mTwo, Filters: fHdr, BackendRefs: []gw.HTTPBackendRef{svc("other", 1), svc("third", 1)}}},
			letter{"Q:/b->stable100", gw.HTTPRouteRule{Matches: mB, BackendRefs: []gw.HTTPBackendRef{svc(stableSvc, 100)}}},
			letter{"R:/?q-own->(none)", gw.HTTPRouteRule{Matches: mQ}},
			letter{"S:=/a&x-own+hdrfilter->other20,stable80,third0", gw.HTTPRouteRule{Matches: mAH, Filters: fHdr, BackendRefs: []gw.HTTPBackendRef{svc("other", 20), svc(stableSvc, 80), svc("third", 0)}}},
		)
	}
	return ls
}

// user match kinds; values depend on the position in the list so that repeated kinds stay distinguishable
const (
	kP = iota
	kH
	kQ
	kHQ
	kPH
	nKinds
)

var kindNames = []string{"path", "header", "query", "header+query", "path+header"}

func userMatch(kind, pos int) v1beta1.HttpRouteMatch {
	v := fmt.Sprintf("v%d", pos)
	switch kind {
	case kP:
		return v1beta1.HttpRouteMatch{Path: pathMatch(gw.PathMatchPathPrefix, fmt.Sprintf("/c%d", pos))}
	case kH:
		return v1beta1.HttpRouteMatch{Headers: []gw.HTTPHeaderMatch{hdrMatch("x-user", v)}}
	case kQ:
		return v1beta1.HttpRouteMatch{QueryParams: []gw.HTTPQueryParamMatch{qryMatch("q", v)}}
	case kHQ:
		return v1beta1.HttpRouteMatch{Headers: []gw.HTTPHeaderMatch{hdrMatch("x-hq", v)}, QueryParams: []gw.HTTPQueryParamMatch{qryMatch("q-hq", v)}}
	default:
		return v1beta1.HttpRouteMatch{Path: pathMatch(gw.PathMatchPathPrefix, fmt.Sprintf("/d%d", pos)), Headers: []gw.HTTPHeaderMatch{hdrMatch("x-ph", v)}}
	}
}

type stepLetter struct {
	name string
	step Step
}

func weightStep(w int) stepLetter {
	return stepLetter{fmt.Sprintf("w%d", w), Step{Traffic: strp(fmt.Sprintf("%d%%", w))}}
}

// matchSteps: every list of exactly n kinds, in every order.
func matchSteps(n int, repetition bool) []stepLetter {
	var out []stepLetter
	dims := make([]int, n)
	for i := range dims {
		dims[i] = nKinds
	}
	lib.Product(dims, func(idx []int) bool {
		if !repetition {
			seen := map[int]bool{}
			for _, k := range idx {
				if seen[k] {
					return true
				}
				seen[k] = true
			}
		}
		var names []string
		var st Step
		for pos, k := range idx {
			names = append(names, kindNames[k])
			st.Matches = append(st.Matches, userMatch(k, pos))
		}
		out = append(out, stepLetter{"m[" + strings.Join(names, ",") + "]", st})
		return true
	})
	return out
}

// ---------------------------------------------------------------------------------------------
// enumeration
// ---------------------------------------------------------------------------------------------

type job struct {
	route int32
	n     int8
	s     [3]int16
}

type domain struct {
	letters []letter
	routes  [][]int // letter indices
	steps   []stepLetter
	jobs    []job
	sizes   map[string]interface{}
	nSteps  int
	l1      int     // number of jobs of length 0 and 1 (phase 1)
	l1index []int32 // route*nSteps+step -> job index of the length-1 history (route, step), -1 if not enumerated
}

func routesOver(idx []int, n int) [][]int {
	var out [][]int
	dims := make([]int, n)
	for i := range dims {
		dims[i] = len(idx)
	}
	lib.Product(dims, func(p []int) bool {
		seen := map[int]bool{}
		r := make([]int, 0, n)
		for _, k := range p {
			if seen[k] {
				return true
			}
			seen[k] = true
			r = append(r, idx[k])
		}
		out = append(out, r)
		return true
	})
	return out
}

func buildDomain(thorough bool) *domain {
	d := &domain{letters: ruleLetters(thorough), sizes: map[string]interface{}{}}
	all := make([]int, len(d.letters))
	for i := range all {
		all[i] = i
	}
	small := []int{0, 1, 2, 3, 4, 5}
	// routes, simplest first; remember index ranges
	r1 := routesOver(all, 1)
	r2 := routesOver(all, 2)
	var r3 [][]int
	if thorough {
		// every ordered triple over the twelve quick letters + every triple that involves a thorough-only
		// letter in one (index) order - all orders are covered by the 2-rule routes
		r3 = routesOver(all[:12], 3)
		for a := 0; a < len(all); a++ {
			for b := a + 1; b < len(all); b++ {
				for c := b + 1; c < len(all); c++ {
					if c >= 12 {
						r3 = append(r3, []int{a, b, c})
					}
				}
			}
		}
	} else {
		r3 = routesOver(small, 3)
	}
	d.routes = append(append(append(d.routes, r1...), r2...), r3...)
	n1, n2 := len(r1), len(r1)+len(r2)
	// which routes are "reduced" 3-rule / 2-rule routes (letters from `small` only)
	isSmall := func(r []int) bool {
		for _, l := range r {
			if l >= len(small) {
				return false
			}
		}
		return true
	}

	// step alphabet; indices: weights first, then match lists by length
	add := func(sl ...stepLetter) []int {
		var ids []int
		for _, s := range sl {
			ids = append(ids, len(d.steps))
			d.steps = append(d.steps, s)
		}
		return ids
	}
	var wAll, wFive, wThree []int
	five := map[int]bool{0: true, 1: true, 50: true, 99: true, 100: true}
	three := map[int]bool{0: true, 50: true, 100: true}
	ws := []int{0, 1, 50, 99, 100}
	if thorough {
		ws = ws[:0]
		for w := 0; w <= 100; w++ {
			ws = append(ws, w)
		}
	}
	// simplest first: 50, then the edge values, then the rest
	sort.SliceStable(ws, func(a, b int) bool {
		rank := func(w int) int {
			switch {
			case w == 50:
				return 0
			case five[w]:
				return 1
			}
			return 2
		}
		return rank(ws[a]) < rank(ws[b])
	})
	for _, w := range ws {
		id := add(weightStep(w))[0]
		wAll = append(wAll, id)
		if five[w] {
			wFive = append(wFive, id)
		}
		if three[w] {
			wThree = append(wThree, id)
		}
	}
	m1 := add(matchSteps(1, false)...)
	m2nr := add(matchSteps(2, false)...)
	m3nr := add(matchSteps(3, false)...)
	var m2rep, m3rep, both []int
	if thorough {
		// lists with a repeated kind (the lists without repetition are already in)
		for _, s := range matchSteps(2, true) {
			if !hasStep(d.steps, s.name) {
				m2rep = append(m2rep, add(s)...)
			}
		}
		for _, s := range matchSteps(3, true) {
			if !hasStep(d.steps, s.name) {
				m3rep = append(m3rep, add(s)...)
			}
		}
		// Traffic and Matches both set: Matches take precedence (documented in the API type)
		for _, ks := range [][]int{{kH}, {kP, kH}, {kHQ, kP}} {
			var st Step
			var names []string
			for pos, k := range ks {
				st.Matches = append(st.Matches, userMatch(k, pos))
				names = append(names, kindNames[k])
			}
			st.Traffic = strp("30%")
			both = append(both, add(stepLetter{"w30+m[" + strings.Join(names, ",") + "]", st})...)
		}
	}
	cat := func(xs ...[]int) []int {
		var o []int
		for _, x := range xs {
			o = append(o, x...)
		}
		return o
	}
	sAll := cat(wAll, m1, m2nr, m3nr, m2rep, m3rep, both)

	push := func(route int, ss ...int) {
		jb := job{route: int32(route), n: int8(len(ss))}
		for i, s := range ss {
			jb.s[i] = int16(s)
		}
		d.jobs = append(d.jobs, jb)
	}
	// length 0 (Finalise on the untouched route) and length 1: every route x every step
	for ri := range d.routes {
		push(ri)
	}
	// (3-rule routes: the five edge weights only - the split of a rule does not depend on the other rules)
	sAll3 := cat(wFive, m1, m2nr, m3nr, m2rep, m3rep, both)
	d.l1index = make([]int32, len(d.routes)*len(d.steps))
	for i := range d.l1index {
		d.l1index[i] = -1
	}
	for ri := range d.routes {
		alpha := sAll
		if ri >= n2 {
			alpha = sAll3
		}
		for _, s := range alpha {
			d.l1index[ri*len(d.steps)+s] = int32(len(d.jobs))
			push(ri, s)
		}
	}
	l1 := len(d.jobs)
	d.nSteps = len(d.steps)
	d.l1 = l1
	byName := func(names ...string) []int {
		var ids []int
		for _, n := range names {
			for i, st := range d.steps {
				if st.name == n {
					ids = append(ids, i)
				}
			}
		}
		return ids
	}
	// length 2: 1- and 2-rule routes x (alphabet)^2; quick: 2-rule routes with the reduced alphabet s3
	s2 := cat(wFive, m1, m2nr, m2rep, both)
	s2small := cat(wFive, m1, m2nr)
	s3 := cat(wThree, m1, byName("m[path,header]", "m[header,path]", "m[path+header,header]", "m[header,header+query]",
		"m[query,path]", "m[path,query]", "m[header+query,path+header]", "m[path,path+header]"))
	for ri, r := range d.routes {
		switch {
		case ri < n2:
			alpha := s2
			if !thorough && ri >= n1 {
				alpha = s3
			}
			for _, a := range alpha {
				for _, b := range alpha {
					push(ri, a, b)
				}
			}
			if thorough && ri < n1 {
				// 1-rule routes: the 3-element lists before / after every letter of the alphabet
				for _, a := range s2 {
					for _, b := range m3nr {
						push(ri, a, b)
						push(ri, b, a)
					}
				}
			}
		case thorough && isSmall(r):
			for _, a := range s2small {
				for _, b := range s2small {
					push(ri, a, b)
				}
			}
		}
	}
	l2 := len(d.jobs)
	// length 3 (thorough): 1-rule routes and 2-rule routes over the six basic letters
	if thorough {
		for ri, r := range d.routes {
			if ri >= n2 || (ri >= n1 && !isSmall(r)) {
				continue
			}
			for _, a := range s3 {
				for _, b := range s3 {
					for _, c := range s3 {
						push(ri, a, b, c)
					}
				}
			}
		}
	}
	d.sizes = map[string]interface{}{
		"rule_letters":            len(d.letters),
		"routes_1_2_3_rules":      []int{len(r1), len(r2), len(r3)},
		"step_letters":            len(d.steps),
		"weight_steps":            len(wAll),
		"match_lists_len_1_2_3":   []int{len(m1), len(m2nr) + len(m2rep), len(m3nr) + len(m3rep)},
		"steps_with_both":         len(both),
		"histories_len_0_1":       l1,
		"histories_len_2":         l2 - l1,
		"histories_len_3":         len(d.jobs) - l2,
		"len2_step_alphabet":      len(s2),
		"reduced_step_alphabet":   len(s3),
		"every_history_ends_with": "Finalise, Finalise",
	}
	return d
}

func hasStep(steps []stepLetter, name string) bool {
	for _, s := range steps {
		if s.name == name {
			return true
		}
	}
	return false
}

func (d *domain) caseOf(jb job) *Case {
	c := &Case{}
	for _, l := range d.routes[jb.route] {
		c.Rules = append(c.Rules, *d.letters[l].rule.DeepCopy())
	}
	for i := 0; i < int(jb.n); i++ {
		c.Steps = append(c.Steps, d.steps[jb.s[i]].step)
	}
	return c
}

func (d *domain) nameOf(jb job) string {
	var rs, ss []string
	for _, l := range d.routes[jb.route] {
		rs = append(rs, d.letters[l].name)
	}
	for i := 0; i < int(jb.n); i++ {
		ss = append(ss, d.steps[jb.s[i]].name)
	}
	return "route{" + strings.Join(rs, " ; ") + "} steps{" + strings.Join(ss, " ; ") + "} Finalise Finalise"
}

// selfCheck: user rules of one route must be told apart by the oracle (distinct JSON, distinct cores).
func (d *domain) selfCheck() error {
	seenJ, seenC := map[string]string{}, map[string]string{}
	for _, l := range d.letters {
		if o, ok := seenJ[j(l.rule)]; ok {
			return fmt.Errorf("rule letters %s and %s are identical", o, l.name)
		}
		seenJ[j(l.rule)] = l.name
		if hasStable(l.rule) {
			if o, ok := seenC[core(l.rule)]; ok {
				return fmt.Errorf("rule letters %s and %s share a core", o, l.name)
			}
			seenC[core(l.rule)] = l.name
		}
		if hasCanary(l.rule) {
			return fmt.Errorf("rule letter %s references the canary Service", l.name)
		}
	}
	return nil
}

type found struct {
	idx    int
	detail string
	replay interface{}
	count  int
}

func Run(r *lib.Report) {
	th := r.Thorough()
	d := buildDomain(th)
	if err := d.selfCheck(); err != nil {
		fmt.Fprintln(os.Stderr, "HARNESS-ERROR C13 domain:", err)
		os.Exit(2)
	}
	r.Rule = "every HTTPRoute made of 1..3 pairwise different rules of the rule alphabet (ordered) is stored in a controller-runtime fake client; " +
		"every step history of the tier's alphabet (weight w% / match list of 1..3 matchers over {path, header, query, header+query, path+header} in every order) " +
		"is applied with the real gateway provider's EnsureRoutes (fresh provider per call, as the manager does), followed by Finalise twice; " +
		"spec.rules read back from the store after EVERY call is judged (weight split per stable rule, scope of every generated canary rule on a request model built from all mentioned atoms, " +
		"byte-identical frame for rules without the stable Service, restore after Finalise). non-trivial = the provider wrote to the store at least once; distinct = distinct (route, history)"
	r.Assumptions = []string{
		"objects are generated as the API server persists them (Gateway API CRD defaults applied: backendRef group \"\", kind Service, weight 1; every match has a path; path/header/query match types set); un-defaulted shapes (nil kind, rule without matches) are outside the domain because the fake store does not default",
		"'targets the stable Service' = a backendRef of the core group, kind Service, the route's namespace and the stable name; a ref with the same name but another kind, group or namespace is a different backend and its rule must not be altered",
		"the user's route never references the canary Service before the rollout, holds at most one stable ref per rule, and the own header/query names of a rule differ from the names used by the step's matches (duplicate names in one match are rejected by the real API server)",
		"steps with neither traffic nor matches are not generated (trafficrouting.Manager returns before calling the provider); traffic strings are always 'N%' with N in 0..100",
		"weight step: only {stable: 100-w, canary: w, other refs byte-identical in order} is demanded; port/filters of the canary ref and the position of the refs are not judged; a generated canary rule left over from an earlier match step is tolerated at a weight step (the property does not say when it has to go) and counted as an outcome",
		"match step: demanded are (a) every rule that carried no canary ref before the step is still present byte-identical, (b) every user rule that targets the stable Service still has a counterpart (same matches, filters, other backends; still targets stable), (c) every other rule references the canary and not the stable Service and accepts ONLY requests allowed by the user's list w.r.t. SOME stable user rule (path matches standalone; header/query matches ANDed with that rule's own conditions). Completeness (every wanted request reaches the canary) is NOT demanded, only reported as an outcome",
		"Gateway API request semantics used by the model: PathPrefix is element-wise, Exact is string equality, headers/query exact, all conditions of one match ANDed, matches of a rule ORed, no matches = every request; precedence between rules is not modelled (only acceptance sets are compared)",
		"after Finalise the stable ref's weight is ignored when it is the rule's only backend and non-zero (the code normalises it to 1: same traffic); for a rule that also has other backends the user's weight is part of the rule the user wrote",
		"the first violating operation ends the judgement of a history (later operations would only show consequences); the signature gets '/only-after:<kinds>' when the failing operation alone on the pristine route does not reproduce it",
		"return values (verified / modified) are recorded as outcomes, not judged",
		"the provider reaches the store only through a wrapper that counts every write verb; spec.rules is re-read from the store after every call that wrote, after a call that wrote nothing the previous reading is reused",
		"tier domains: quick = all 1-/2-rule routes + 3-rule routes over six basic letters, every single step, step pairs (30-letter alphabet on 1-rule routes, 16-letter alphabet on 2-rule routes); thorough = all 1-/2-rule routes over 19 letters + 3-rule routes (every ordered triple of the 12 quick letters, every other triple in one order), weights 0..100 (3-rule routes: five edge weights), every match list of length 1..3 with repetition, step pairs and triples over reduced alphabets (sizes in the evidence)",
	}
	r.TrustedBase = []string{"controller-runtime fake client (JSON round trip, resourceVersion conflicts)", "request model in c13.go (acceptMatch / universe)"}
	for k, v := range d.sizes {
		r.Extra[k] = v
	}

	const shards = 64
	type shard struct {
		mu  sync.Mutex
		out map[string]int64
	}
	sh := make([]shard, shards)
	for i := range sh {
		sh[i].out = map[string]int64{}
	}
	var mu sync.Mutex
	vios := map[string]*found{}
	var nW, nM, nG, nF, nWrote, nHeld int64

	// phase 1 = histories of length 0 and 1; their verdicts also answer "does the failing operation alone
	// reproduce the signature?" for the longer histories of phase 2
	type p1res struct {
		sig string
		op  int
	}
	p1 := make([]p1res, d.l1)
	work := func(i int) {
		jb := d.jobs[i]
		c := d.caseOf(jb)
		var res result
		if p := lib.Catch(func() { res = execute(c, nil) }); p != nil {
			// a panic outside lib.Catch of the provider calls = the oracle itself crashed on a generated input
			mu.Lock()
			if _, ok := vios["C13/harness/oracle-panic"]; !ok {
				vios["C13/harness/oracle-panic"] = &found{idx: i, detail: p.Value + "\n" + p.Stack, replay: c}
			}
			mu.Unlock()
			return
		}
		atomic.AddInt64(&nW, int64(res.nWeight))
		atomic.AddInt64(&nM, int64(res.nMatch))
		atomic.AddInt64(&nG, int64(res.nGen))
		atomic.AddInt64(&nF, int64(res.nFin))
		if res.writes > 0 {
			atomic.AddInt64(&nWrote, 1)
			r.Nontrivial(strconv.Itoa(int(jb.route)) + "|" + strconv.Itoa(int(jb.s[0])) + "." + strconv.Itoa(int(jb.s[1])) + "." + strconv.Itoa(int(jb.s[2])) + "/" + strconv.Itoa(int(jb.n)))
		}
		s := &sh[i%shards]
		s.mu.Lock()
		for _, o := range res.outcomes {
			s.out[o]++
		}
		if res.vio != nil {
			s.out["VIOLATION at "+opName(c, res.vioOp)]++
		}
		s.mu.Unlock()
		if res.vio == nil {
			atomic.AddInt64(&nHeld, 1)
			return
		}
		if i < d.l1 {
			p1[i] = p1res{res.vio.sig, res.vioOp}
		}
		sig := attribute(c, res, func(red *Case, k int) (string, int) {
			if k == 0 && i >= d.l1 {
				idx := int(jb.route) // Finalise on the untouched route = job <route>
				if res.vioOp < int(jb.n) {
					idx = int(d.l1index[int(jb.route)*d.nSteps+int(jb.s[res.vioOp])])
				}
				if idx >= 0 {
					return p1[idx].sig, p1[idx].op
				}
			}
			rr := execute(red, nil)
			if rr.vio == nil {
				return "", -1
			}
			return rr.vio.sig, rr.vioOp
		})
		mu.Lock()
		f := vios[sig]
		if f == nil {
			f = &found{idx: i}
			vios[sig] = f
		}
		f.count++
		if i <= f.idx {
			f.idx = i
			f.detail = "case: " + d.nameOf(jb) + "\nfailing operation: " + opName(c, res.vioOp) + "\n" + res.vio.detail
			f.replay = c
		}
		mu.Unlock()
	}
	lib.ParallelFor(d.l1, work)
	lib.ParallelFor(len(d.jobs)-d.l1, func(i int) { work(d.l1 + i) })

	r.AddEval(int64(len(d.jobs)))
	// the TrafficRouting custom resource mode (canary Service = stable Service), judged relationally
	runSameService(r)
	// outcomes (merged deterministically)
	merged := map[string]int64{}
	for i := range sh {
		for k, v := range sh[i].out {
			merged[k] += v
		}
	}
	keys := make([]string, 0, len(merged))
	for k := range merged {
		keys = append(keys, k)
	}
	sort.Strings(keys)
	for _, k := range keys {
		for n := int64(0); n < merged[k]; n++ {
			r.Outcome(k)
		}
	}
	r.Extra["judged"] = map[string]int64{
		"weight_steps": nW, "match_steps": nM, "generated_canary_rules": nG, "finalise_calls": nF,
		"histories_with_a_store_write": nWrote, "histories_held": nHeld,
	}
	if nW == 0 || nM == 0 || nG == 0 || nF == 0 {
		r.Warn(fmt.Sprintf("an oracle never fired: weight=%d match=%d generated=%d finalise=%d", nW, nM, nG, nF))
	}
	// samples: a few fixed positions of the job list
	for _, pos := range []int{1, len(d.jobs) / 7, len(d.jobs) / 3, len(d.jobs) / 2, len(d.jobs) - 1} {
		if pos < 0 || pos >= len(d.jobs) {
			continue
		}
		c := d.caseOf(d.jobs[pos])
		res := execute(c, nil)
		verdict := "held"
		if res.vio != nil {
			verdict = "violation " + res.vio.sig
		}
		r.Sample(map[string]interface{}{"case": d.nameOf(d.jobs[pos]), "input": c, "outcomes": res.outcomes, "store_writes": res.writes, "verdict": verdict})
	}
	// violations, simplest witness first, deterministic order
	sigs := make([]string, 0, len(vios))
	for s := range vios {
		sigs = append(sigs, s)
	}
	sort.Slice(sigs, func(a, b int) bool {
		if vios[sigs[a]].idx != vios[sigs[b]].idx {
			return vios[sigs[a]].idx < vios[sigs[b]].idx
		}
		return sigs[a] < sigs[b]
	})
	for _, s := range sigs {
		f := vios[s]
		r.Violate(s, f.detail, f.replay)
		for k := 1; k < f.count; k++ {
			r.Violate(s, "", nil)
		}
	}
}

func opName(c *Case, op int) string {
	switch {
	case op < len(c.Steps):
		return fmt.Sprintf("op %d EnsureRoutes(%s step)", op+1, c.Steps[op].kind())
	case op == len(c.Steps):
		return fmt.Sprintf("op %d Finalise", op+1)
	default:
		return fmt.Sprintf("op %d second Finalise", op+1)
	}
}

// ReplayViolated reports whether the last Replay reproduced a violation (for the driver's exit status).
var ReplayViolated bool

// Replay re-executes ONE recorded case (the `replay` value of a violation file) on the real provider,
// printing every operation, the rules in the store after it and the verdict.
func Replay(r *lib.Report, raw json.RawMessage) {
	if replaySame(r, raw) {
		return
	}
	c := &Case{}
	if err := json.Unmarshal(raw, c); err != nil {
		fmt.Fprintln(os.Stderr, "HARNESS-ERROR C13 replay: cannot parse case:", err)
		os.Exit(2)
	}
	r.Rule = "replay of one recorded case"
	r.AddEval(1)
	var res result
	if p := lib.Catch(func() { res = execute(c, func(s string) { fmt.Println(s) }) }); p != nil {
		fmt.Fprintln(os.Stderr, "HARNESS-ERROR C13 replay: oracle panicked:", p.Value, "\n", p.Stack)
		os.Exit(2)
	}
	if res.writes > 0 {
		r.Nontrivial("replay")
	}
	for _, o := range res.outcomes {
		r.Outcome(o)
	}
	r.Sample(c)
	if res.vio == nil {
		fmt.Println("REPLAY VERDICT: property held on this case")
		return
	}
	ReplayViolated = true
	sig := attribute(c, res, nil)
	fmt.Printf("REPLAY VERDICT: VIOLATION %s at %s\n", sig, opName(c, res.vioOp))
	r.Violate(sig, "failing operation: "+opName(c, res.vioOp)+"\n"+res.vio.detail, c)
}
