package c13

import (
	"context"
	"encoding/json"
	"fmt"
	"sort"

	"github.com/openkruise/rollouts/api/v1beta1"
	"github.com/openkruise/rollouts/pkg/trafficrouting/network/gateway"
	metav1 "k8s.io/apimachinery/pkg/apis/meta/v1"
	"sigs.k8s.io/controller-runtime/pkg/client/fake"
	gw "sigs.k8s.io/gateway-api/apis/v1beta1"

	"verifharness/lib"
)

// Sub-domain "same service": a TrafficRouting custom resource (trafficrouting.Manager with OnlyTrafficRouting) hands
// the gateway provider a canary Service that IS the stable Service (getCanaryServiceName returns the stable name).
// Only the last clause of the property is judged there, relationally: after any step history followed by Finalise
// every rule the user wrote is still present (a lone stable ref may have had its weight normalised).

type sameCase struct {
	Kind    string   `json:"kind"` // "same-service"
	Letters []string `json:"letters"`
	Steps   []string `json:"steps"` // "w20" or "m:header"
}

func sameSteps() []string { return []string{"w0", "w20", "w100", "m:header", "m:path"} }

func sameProviderStep(p interface {
	EnsureRoutes(ctx context.Context, strategy *v1beta1.TrafficRoutingStrategy) (bool, error)
}, st string) error {
	s := &v1beta1.TrafficRoutingStrategy{}
	switch st {
	case "w0", "w20", "w100":
		t := st[1:] + "%"
		s.Traffic = &t
	case "m:header":
		s.Matches = []v1beta1.HttpRouteMatch{userMatch(kH, 0)}
	case "m:path":
		s.Matches = []v1beta1.HttpRouteMatch{userMatch(kP, 0)}
	}
	_, err := p.EnsureRoutes(context.TODO(), s)
	return err
}

func execSame(c *sameCase, trace func(string)) (sig, detail string, wrote bool) {
	byName := map[string]gw.HTTPRouteRule{}
	for _, l := range ruleLetters(true) {
		byName[l.name] = l.rule
	}
	route := &gw.HTTPRoute{ObjectMeta: metav1.ObjectMeta{Namespace: nsName, Name: routeName},
		Spec: gw.HTTPRouteSpec{CommonRouteSpec: gw.CommonRouteSpec{ParentRefs: []gw.ParentReference{{Name: "gateway"}}}, Hostnames: []gw.Hostname{"example.org"}}}
	for _, n := range c.Letters {
		ru := byName[n]
		route.Spec.Rules = append(route.Spec.Rules, *ru.DeepCopy())
	}
	user := make([]string, len(route.Spec.Rules))
	for i, ru := range route.Spec.Rules {
		user[i] = normStableWeight(ru)
	}
	sort.Strings(user)
	cli := fake.NewClientBuilder().WithScheme(scheme).WithObjects(route).Build()
	cc := &countingClient{Client: cli}
	mk := func() (interface {
		EnsureRoutes(ctx context.Context, strategy *v1beta1.TrafficRoutingStrategy) (bool, error)
		Finalise(ctx context.Context) (bool, error)
	}, error) {
		name := routeName
		return gateway.NewGatewayTrafficRouting(cc, gateway.Config{Key: "ns/tr", Namespace: nsName, CanaryService: stableSvc, StableService: stableSvc,
			TrafficConf: &v1beta1.GatewayTrafficRouting{HTTPRouteName: &name}})
	}
	say := func(f string, a ...interface{}) {
		if trace != nil {
			trace(fmt.Sprintf(f, a...))
		}
	}
	say("same-service mode: canary Service = stable Service = %q; user rules: %s", stableSvc, j(route.Spec.Rules))
	for _, st := range c.Steps {
		p, err := mk()
		if err != nil {
			return "", "", false
		}
		var serr error
		if pn := lib.Catch(func() { serr = sameProviderStep(p, st) }); pn != nil {
			return "C13/same-service/panic/" + pn.Site, fmt.Sprintf("EnsureRoutes(%s) panicked: %s", st, pn.Value), true
		}
		rs, _ := readRules(cli)
		say("after EnsureRoutes(%s) (err=%v): %s", st, serr, j(rs))
	}
	for k := 0; k < 2; k++ {
		p, err := mk()
		if err != nil {
			return "", "", false
		}
		var ferr error
		if pn := lib.Catch(func() { _, ferr = p.Finalise(context.TODO()) }); pn != nil {
			return "C13/same-service/panic/" + pn.Site, fmt.Sprintf("Finalise panicked: %s", pn.Value), true
		}
		rs, _ := readRules(cli)
		say("after Finalise #%d (err=%v): %s", k+1, ferr, j(rs))
	}
	wrote = cc.updates > 0
	rs, err := readRules(cli)
	if err != nil {
		return "", "", wrote
	}
	cur := make([]string, len(rs))
	for i, ru := range rs {
		cur[i] = normStableWeight(ru)
	}
	sort.Strings(cur)
	missing := 0
	ci := map[string]int{}
	for _, s := range cur {
		ci[s]++
	}
	for _, s := range user {
		if ci[s] > 0 {
			ci[s]--
		} else {
			missing++
		}
	}
	if missing > 0 {
		cls := "some-user-rules-lost"
		if len(rs) == 0 {
			cls = "all-rules-lost"
		}
		return "C13/same-service/finalise/" + cls, fmt.Sprintf("canary Service = stable Service (TrafficRouting custom resource mode): after %v and Finalise %d of the user's %d rules are gone or altered; rules now: %s", c.Steps, missing, len(user), j(rs)), wrote
	}
	if len(cur) != len(user) {
		return "C13/same-service/finalise/generated-rule-left", fmt.Sprintf("after %v and Finalise the route has %d rules, the user wrote %d: %s", c.Steps, len(cur), len(user), j(rs)), wrote
	}
	return "", "", wrote
}

func runSameService(r *lib.Report) {
	letters := ruleLetters(r.Thorough())
	steps := sameSteps()
	var cases []*sameCase
	for _, a := range letters {
		for _, s1 := range steps {
			cases = append(cases, &sameCase{Kind: "same-service", Letters: []string{a.name}, Steps: []string{s1}})
			for _, s2 := range steps {
				if s1 != s2 {
					cases = append(cases, &sameCase{Kind: "same-service", Letters: []string{a.name}, Steps: []string{s1, s2}})
				}
			}
		}
		for _, b := range letters {
			if a.name == b.name {
				continue
			}
			for _, s1 := range steps {
				cases = append(cases, &sameCase{Kind: "same-service", Letters: []string{a.name, b.name}, Steps: []string{s1}})
			}
		}
	}
	r.Extra["same_service_cases"] = len(cases)
	lib.ParallelFor(len(cases), func(i int) {
		c := cases[i]
		sig, detail, wrote := execSame(c, nil)
		r.AddEval(1)
		if wrote {
			r.Nontrivial("same|" + j(c))
		}
		if sig != "" {
			r.Outcome("same-service/violation")
			r.Violate(sig, detail, c)
		} else {
			r.Outcome("same-service/restored")
		}
	})
}

func replaySame(r *lib.Report, raw json.RawMessage) bool {
	var c sameCase
	if json.Unmarshal(raw, &c) != nil || c.Kind != "same-service" {
		return false
	}
	sig, detail, _ := execSame(&c, func(s string) { fmt.Println("  " + s) })
	if sig != "" {
		fmt.Println("  VERDICT", sig, ":", detail)
		r.Violate(sig, detail, &c)
	} else {
		fmt.Println("  VERDICT: restored")
	}
	return true
}
