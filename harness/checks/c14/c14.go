// Package c14: canary Ingress provider (pkg/trafficrouting/network/ingress) with the built-in class scripts
// (lua_configuration/trafficrouting_ingress/{nginx,aliyun-alb,higress,mse}.lua), driven on a fake client
// store: exhaustive bounded enumeration of stable Ingresses x class x step sequences (E3).
//
// What is demanded (and nothing more, see r.Assumptions):
//   - no panic escapes EnsureRoutes / Finalise on any generated Ingress;
//   - whenever a canary Ingress exists, the multiset of its paths equals the stable Ingress's paths whose
//     backend is the stable Service, re-targeted to the canary Service;
//   - history independence: for a step s, the canary annotations after "sigma . s" equal those after the
//     reference history for s (the shortest history ending in s in which a canary Ingress exists);
//   - the stable Ingress (and an unrelated bystander Ingress) are identical in the store after every call;
//   - after Finalise the canary Ingress is gone;
//   - a step of a kind the class supports is accepted (no error) and, when it routes anything (weight > 0 or
//     matches), a canary Ingress exists once the provider reports "done".
package c14

import (
	"context"
	"encoding/json"
	"flag"
	"fmt"
	"io"
	"reflect"
	"regexp"
	"runtime/debug"
	"sort"
	"strings"

	"github.com/openkruise/rollouts/api/v1beta1"
	"github.com/openkruise/rollouts/pkg/trafficrouting/network/ingress"
	corev1 "k8s.io/api/core/v1"
	netv1 "k8s.io/api/networking/v1"
	apierrors "k8s.io/apimachinery/pkg/api/errors"
	metav1 "k8s.io/apimachinery/pkg/apis/meta/v1"
	"k8s.io/apimachinery/pkg/runtime"
	"k8s.io/apimachinery/pkg/types"
	clientgoscheme "k8s.io/client-go/kubernetes/scheme"
	"k8s.io/klog/v2"
	utilpointer "k8s.io/utils/pointer"
	"sigs.k8s.io/controller-runtime/pkg/client"
	"sigs.k8s.io/controller-runtime/pkg/client/fake"
	gatewayv1beta1 "sigs.k8s.io/gateway-api/apis/v1beta1"

	"verifharness/lib"
)

const (
	ns        = "ns"
	ingName   = "ing"
	canaryIng = "ing-canary"
	stableSvc = "stable"
	canarySvc = "stable-canary"
	otherSvc  = "other"
	bystander = "zzz"
	// an EnsureRoutes history "enters" a step by calling EnsureRoutes until it reports done; the real
	// provider needs at most 3 calls (create with weight 0, patch, verify).
	maxCalls = 5
)

var scheme = func() *runtime.Scheme {
	s := runtime.NewScheme()
	_ = clientgoscheme.AddToScheme(s)
	return s
}()

func init() {
	// klog copies ERROR lines to stderr regardless of SetOutput unless the threshold is raised; the
	// provider logs every (expected) script error.
	fs := flag.NewFlagSet("klog", flag.ContinueOnError)
	klog.InitFlags(fs)
	_ = fs.Set("logtostderr", "false")
	_ = fs.Set("alsologtostderr", "false")
	_ = fs.Set("stderrthreshold", "FATAL")
	klog.SetOutput(io.Discard)
}

var classes = []string{"nginx", "aliyun-alb", "higress", "mse"}

// ---------- the case format (also the replay format) ----------

// Step is one canary step's traffic strategy.
type Step struct {
	Name string `json:"name"`
	// Kind is a coarse label used in outcome classes.
	Kind string                         `json:"kind"`
	S    v1beta1.TrafficRoutingStrategy `json:"strategy"`
}

// Case is one executed case. One sequence: the absolute monitors are evaluated. Two sequences ending in
// the same step: additionally the annotations after the two are compared (history independence).
type Case struct {
	Ingress *netv1.Ingress `json:"ingress"`
	Class   string         `json:"class"`
	Seqs    [][]Step       `json:"seqs"`
}

// ---------- alphabets ----------

func hm(t *gatewayv1beta1.HeaderMatchType, name, val string) gatewayv1beta1.HTTPHeaderMatch {
	return gatewayv1beta1.HTTPHeaderMatch{Type: t, Name: gatewayv1beta1.HTTPHeaderName(name), Value: val}
}

func qm(t *gatewayv1beta1.QueryParamMatchType, name, val string) gatewayv1beta1.HTTPQueryParamMatch {
	return gatewayv1beta1.HTTPQueryParamMatch{Type: t, Name: gatewayv1beta1.HTTPHeaderName(name), Value: val}
}

// stepAlphabet returns the steps of a class, simplest first. Every step has traffic or matches (the
// manager never passes a step with neither to the provider); nginx / aliyun-alb / higress get header and
// cookie matches only, mse additionally query-parameter matches and requestHeaderModifier.set.
func stepAlphabet(class string, thorough bool) []Step {
	hExact := gatewayv1beta1.HeaderMatchExact
	hRegex := gatewayv1beta1.HeaderMatchRegularExpression
	qExact := gatewayv1beta1.QueryParamMatchExact
	qRegex := gatewayv1beta1.QueryParamMatchRegularExpression
	tr := func(s string) *string { return utilpointer.String(s) }
	hdr := func(h ...gatewayv1beta1.HTTPHeaderMatch) []v1beta1.HttpRouteMatch {
		return []v1beta1.HttpRouteMatch{{Headers: h}}
	}
	rhm := &gatewayv1beta1.HTTPHeaderFilter{Set: []gatewayv1beta1.HTTPHeader{{Name: "x-env", Value: "canary"}}}
	out := []Step{
		{Name: "w30", Kind: "weight", S: v1beta1.TrafficRoutingStrategy{Traffic: tr("30%")}},
		{Name: "w0", Kind: "weight0", S: v1beta1.TrafficRoutingStrategy{Traffic: tr("0%")}},
		{Name: "hdr-exact", Kind: "header", S: v1beta1.TrafficRoutingStrategy{Matches: hdr(hm(&hExact, "user-agent", "pc"))}},
		{Name: "hdr-regex", Kind: "header-regex", S: v1beta1.TrafficRoutingStrategy{Matches: hdr(hm(&hRegex, "user-agent", "^pc.*"))}},
		{Name: "cookie", Kind: "cookie", S: v1beta1.TrafficRoutingStrategy{Matches: hdr(hm(&hExact, "canary-by-cookie", "demo"))}},
		{Name: "w30+hdr-notype", Kind: "weight+header", S: v1beta1.TrafficRoutingStrategy{Traffic: tr("30%"), Matches: hdr(hm(nil, "x-env", "gray"))}},
		// traffic "0%" is admitted by the webhook for blue-green strategies, also together with matches
		{Name: "w0+hdr-exact", Kind: "weight0+header", S: v1beta1.TrafficRoutingStrategy{Traffic: tr("0%"), Matches: hdr(hm(&hExact, "user-agent", "pc"))}},
	}
	if thorough {
		out = append(out,
			Step{Name: "w100", Kind: "weight", S: v1beta1.TrafficRoutingStrategy{Traffic: tr("100%")}},
			Step{Name: "two-matches", Kind: "header+header-regex", S: v1beta1.TrafficRoutingStrategy{Matches: []v1beta1.HttpRouteMatch{
				{Headers: []gatewayv1beta1.HTTPHeaderMatch{hm(&hExact, "a", "1"), hm(&hExact, "ignored", "2")}},
				{Headers: []gatewayv1beta1.HTTPHeaderMatch{hm(&hRegex, "b", "^2$")}}}}},
		)
	}
	if class == "mse" {
		q := func(p ...gatewayv1beta1.HTTPQueryParamMatch) []v1beta1.HttpRouteMatch {
			return []v1beta1.HttpRouteMatch{{QueryParams: p}}
		}
		out = append(out,
			Step{Name: "query-exact", Kind: "query", S: v1beta1.TrafficRoutingStrategy{Matches: q(qm(&qExact, "user", "demo"))}},
			Step{Name: "query-regex", Kind: "query-regex", S: v1beta1.TrafficRoutingStrategy{Matches: q(qm(&qRegex, "user", "^d.*"))}},
			Step{Name: "w30+rhm", Kind: "weight+headerModifier", S: v1beta1.TrafficRoutingStrategy{Traffic: tr("30%"), RequestHeaderModifier: rhm}},
			Step{Name: "hdr+query", Kind: "header+query", S: v1beta1.TrafficRoutingStrategy{Matches: []v1beta1.HttpRouteMatch{
				{Headers: []gatewayv1beta1.HTTPHeaderMatch{hm(&hExact, "user-agent", "pc")}, QueryParams: []gatewayv1beta1.HTTPQueryParamMatch{qm(nil, "user", "demo")}}}}},
			Step{Name: "query+rhm", Kind: "query+headerModifier", S: v1beta1.TrafficRoutingStrategy{Matches: q(qm(&qExact, "user", "demo")), RequestHeaderModifier: rhm}},
		)
	}
	return out
}

func annPrefix(class string) string {
	if class == "aliyun-alb" {
		return "alb.ingress.kubernetes.io"
	}
	return "nginx.ingress.kubernetes.io"
}

type annShape struct {
	name string
	m    map[string]string
}

// annAlphabet: annotations of the stable Ingress, incl. nil vs empty and pre-existing canary keys.
func annAlphabet(class string) []annShape {
	p := annPrefix(class)
	return []annShape{
		{"user", map[string]string{"foo": "bar"}},
		{"nil", nil},
		{"empty", map[string]string{}},
		{"class+rewrite", map[string]string{"kubernetes.io/ingress.class": "nginx", p + "/rewrite-target": "/"}},
		{"stale-canary-keys", map[string]string{"foo": "bar", p + "/canary": "true", p + "/canary-weight": "50", p + "/canary-by-header": "old",
			p + "/canary-by-header-value": "v", p + "/canary-by-header-pattern": "p", p + "/canary-by-cookie": "c"}},
		{"mse-subset", map[string]string{"foo": "bar", "mse.ingress.kubernetes.io/service-subset": "base"}},
		{"stale-query+modifier-keys", map[string]string{"foo": "bar", "nginx.ingress.kubernetes.io/canary-by-query": "old", "nginx.ingress.kubernetes.io/canary-by-query-value": "v",
			"mse.ingress.kubernetes.io/canary-by-query": "m", "mse.ingress.kubernetes.io/request-header-control-update": "h v"}},
	}
}

func svcBackend(name string, port int32, portName string) netv1.IngressBackend {
	return netv1.IngressBackend{Service: &netv1.IngressServiceBackend{Name: name, Port: netv1.ServiceBackendPort{Number: port, Name: portName}}}
}

func resBackend(name string) netv1.IngressBackend {
	return netv1.IngressBackend{Resource: &corev1.TypedLocalObjectReference{APIGroup: utilpointer.String("k8s.example.com"), Kind: "StorageBucket", Name: name}}
}

type ruleShape struct {
	name string
	r    netv1.IngressRule
}

// ruleAlphabet: rules with / without an http section; paths to the stable Service (port number and port
// name), to another Service, to a Resource backend (also one that is named like the stable Service).
func ruleAlphabet() []ruleShape {
	prefix, exact, impl := netv1.PathTypePrefix, netv1.PathTypeExact, netv1.PathTypeImplementationSpecific
	pS := netv1.HTTPIngressPath{Path: "/", PathType: &prefix, Backend: svcBackend(stableSvc, 80, "")}
	pS2 := netv1.HTTPIngressPath{Path: "/s", PathType: &exact, Backend: svcBackend(stableSvc, 0, "http")}
	pO := netv1.HTTPIngressPath{Path: "/o", PathType: &prefix, Backend: svcBackend(otherSvc, 80, "")}
	pR := netv1.HTTPIngressPath{Path: "/r", PathType: &impl, Backend: resBackend("bucket")}
	pRs := netv1.HTTPIngressPath{Path: "/rs", PathType: &impl, Backend: resBackend(stableSvc)}
	rule := func(host string, paths ...netv1.HTTPIngressPath) netv1.IngressRule {
		return netv1.IngressRule{Host: host, IngressRuleValue: netv1.IngressRuleValue{HTTP: &netv1.HTTPIngressRuleValue{Paths: paths}}}
	}
	return []ruleShape{
		{"a.com[stable]", rule("a.com", pS)},
		{"nohost[stable]", rule("", pS)},
		{"b.com[other]", rule("b.com", pO)},
		{"a.com[stable,other]", rule("a.com", pS, pO)},
		{"a.com[other,stable:http,stable]", rule("a.com", pO, pS2, pS)},
		{"c.com(no-http)", netv1.IngressRule{Host: "c.com"}},
		{"a.com[resource]", rule("a.com", pR)},
		{"a.com[stable,resource-named-stable]", rule("a.com", pS, pRs)},
		{"b.com[resource-named-stable,stable]", rule("b.com", pRs, pS)},
	}
}

// buildIngress assembles a stable Ingress from rule indices, an annotation shape and the "extras" switch
// (labels, ingressClassName, tls, defaultBackend pointing at the stable Service).
func buildIngress(rules []ruleShape, ridx []int, ann map[string]string, extras bool) *netv1.Ingress {
	ing := &netv1.Ingress{ObjectMeta: metav1.ObjectMeta{Name: ingName, Namespace: ns}}
	if ann != nil {
		ing.Annotations = map[string]string{}
		for k, v := range ann {
			ing.Annotations[k] = v
		}
	}
	for _, i := range ridx {
		ing.Spec.Rules = append(ing.Spec.Rules, *rules[i].r.DeepCopy())
	}
	if extras {
		ing.Labels = map[string]string{"app": "demo"}
		ing.Spec.IngressClassName = utilpointer.String("nginx")
		ing.Spec.TLS = []netv1.IngressTLS{{Hosts: []string{"a.com"}, SecretName: "tls"}}
		b := svcBackend(stableSvc, 80, "")
		ing.Spec.DefaultBackend = &b
	}
	return ing
}

// ---------- execution of one sequence on the real provider ----------

type finding struct{ sig, detail string }

type stepResult struct {
	Calls   int
	Wrote   bool
	Done    bool
	Err     string
	Panic   *lib.Panic
	Exists  bool
	Ann     map[string]string
	Outcome string
}

type trace struct {
	steps    []stepResult
	findings []finding
	seen     map[string]bool
	log      []string
	finalise string
	wrote    bool
	flaky    bool // the 1 s real-time Lua deadline fired (machine load) - not a verdict
}

// recClient records every write the provider issues (verb + object name); the store can only change
// through these calls, so "stable Ingress untouched" is decided on the write log after every call and
// confirmed by a byte comparison of the stored objects at the end of the sequence.
type recClient struct {
	client.Client
	writes []string
}

func (c *recClient) Create(ctx context.Context, obj client.Object, opts ...client.CreateOption) error {
	c.writes = append(c.writes, "create "+obj.GetName())
	return c.Client.Create(ctx, obj, opts...)
}
func (c *recClient) Update(ctx context.Context, obj client.Object, opts ...client.UpdateOption) error {
	c.writes = append(c.writes, "update "+obj.GetName())
	return c.Client.Update(ctx, obj, opts...)
}
func (c *recClient) Patch(ctx context.Context, obj client.Object, patch client.Patch, opts ...client.PatchOption) error {
	c.writes = append(c.writes, "patch "+obj.GetName())
	return c.Client.Patch(ctx, obj, patch, opts...)
}
func (c *recClient) Delete(ctx context.Context, obj client.Object, opts ...client.DeleteOption) error {
	c.writes = append(c.writes, "delete "+obj.GetName())
	return c.Client.Delete(ctx, obj, opts...)
}
func (c *recClient) DeleteAllOf(ctx context.Context, obj client.Object, opts ...client.DeleteAllOfOption) error {
	c.writes = append(c.writes, "deleteAllOf "+obj.GetName())
	return c.Client.DeleteAllOf(ctx, obj, opts...)
}
func (c *recClient) Status() client.StatusWriter { return &recStatus{c.Client.Status(), c} }

type recStatus struct {
	client.StatusWriter
	c *recClient
}

func (s *recStatus) Update(ctx context.Context, obj client.Object, opts ...client.SubResourceUpdateOption) error {
	s.c.writes = append(s.c.writes, "status-update "+obj.GetName())
	return s.StatusWriter.Update(ctx, obj, opts...)
}
func (s *recStatus) Patch(ctx context.Context, obj client.Object, patch client.Patch, opts ...client.SubResourcePatchOption) error {
	s.c.writes = append(s.c.writes, "status-patch "+obj.GetName())
	return s.StatusWriter.Patch(ctx, obj, patch, opts...)
}

type env struct {
	cli      *recClient
	seenW    int
	canary   *netv1.Ingress // canary Ingress in the store after the last call (nil = absent)
	class    string
	stable0  *netv1.Ingress
	by0      *netv1.Ingress
	expPaths []string
	tr       *trace
	verbose  bool
}

func (e *env) logf(format string, a ...interface{}) {
	if e.verbose {
		e.tr.log = append(e.tr.log, fmt.Sprintf(format, a...))
	}
}

func (e *env) find(sig, detail string) {
	if e.tr.seen[sig] {
		return
	}
	e.tr.seen[sig] = true
	e.tr.findings = append(e.tr.findings, finding{sig, detail})
	e.logf("  !! %s: %s", sig, detail)
}

func (e *env) get(name string) *netv1.Ingress {
	o := &netv1.Ingress{}
	err := e.cli.Get(context.TODO(), types.NamespacedName{Namespace: ns, Name: name}, o)
	if apierrors.IsNotFound(err) {
		return nil
	}
	if err != nil {
		panic("harness: fake client Get failed: " + err.Error())
	}
	return o
}

func pathTuple(host string, p netv1.HTTPIngressPath) string {
	pt := "<nil>"
	if p.PathType != nil {
		pt = string(*p.PathType)
	}
	return host + " | " + p.Path + " | " + pt + " | " + lib.J(p.Backend)
}

// expectedCanaryPaths: the paths of the stable Ingress that point at the stable Service, re-targeted.
func expectedCanaryPaths(st *netv1.Ingress) []string {
	out := []string{}
	for _, rule := range st.Spec.Rules {
		if rule.HTTP == nil {
			continue
		}
		for _, p := range rule.HTTP.Paths {
			if p.Backend.Service == nil || p.Backend.Service.Name != stableSvc {
				continue
			}
			q := *p.DeepCopy()
			q.Backend.Service.Name = canarySvc
			out = append(out, pathTuple(rule.Host, q))
		}
	}
	sort.Strings(out)
	return out
}

func actualPaths(c *netv1.Ingress) []string {
	out := []string{}
	for _, rule := range c.Spec.Rules {
		if rule.HTTP == nil {
			continue
		}
		for _, p := range rule.HTTP.Paths {
			out = append(out, pathTuple(rule.Host, p))
		}
	}
	sort.Strings(out)
	return out
}

func multisetDiff(a, b []string) (onlyA, onlyB []string) {
	cnt := map[string]int{}
	for _, x := range a {
		cnt[x]++
	}
	for _, x := range b {
		if cnt[x] > 0 {
			cnt[x]--
		} else {
			onlyB = append(onlyB, x)
		}
	}
	for _, x := range a {
		if cnt[x] > 0 {
			cnt[x]--
			onlyA = append(onlyA, x)
		}
	}
	return
}

// invariants evaluated after every call of the provider: the write log (nothing but the canary Ingress
// may be written) and the canary Ingress's paths.
func (e *env) invariants(op string) *netv1.Ingress {
	opName := strings.SplitN(op, "(", 2)[0]
	opName = strings.SplitN(opName, "#", 2)[0]
	for _, w := range e.cli.writes[e.seenW:] {
		name := w[strings.Index(w, " ")+1:]
		switch name {
		case canaryIng:
		case ingName:
			e.find("C14/stable-modified/"+opName, fmt.Sprintf("%s issued a write to the stable Ingress: %s", op, w))
		default:
			e.find("C14/foreign-write/"+opName, fmt.Sprintf("%s issued a write to an object that is not the canary Ingress: %s", op, w))
		}
	}
	wrote := len(e.cli.writes) > e.seenW
	e.seenW = len(e.cli.writes)
	if wrote {
		e.canary = e.get(canaryIng)
	}
	c := e.canary
	if c != nil && wrote {
		missing, extra := multisetDiff(e.expPaths, actualPaths(c))
		if len(missing)+len(extra) > 0 {
			kind := "missing+extra"
			if len(extra) == 0 {
				kind = "missing"
			} else if len(missing) == 0 {
				kind = "extra"
			}
			e.find("C14/paths/"+kind, fmt.Sprintf("after %s the canary Ingress paths are not the stable-service paths re-targeted\nmissing: %v\nextra:   %v\ncanary rules: %s", op, missing, extra, lib.J(c.Spec.Rules)))
		}
	}
	return c
}

// storeUnchanged: byte comparison of the stable and the bystander Ingress with their initial stored form.
func (e *env) storeUnchanged() {
	st := e.get(ingName)
	if !reflect.DeepEqual(st, e.stable0) {
		e.find("C14/stable-modified/store", fmt.Sprintf("at the end of the sequence the stable Ingress in the store differs at %v\nbefore: %s\nafter:  %s", lib.JSONDiff(e.stable0, st), lib.J(e.stable0), lib.J(st)))
	}
	by := e.get(bystander)
	if !reflect.DeepEqual(by, e.by0) {
		e.find("C14/foreign-write/store", fmt.Sprintf("at the end of the sequence the unrelated Ingress %q differs at %v", bystander, lib.JSONDiff(e.by0, by)))
	}
	e.logf("stable Ingress and bystander Ingress byte-identical to their initial stored form: %v", reflect.DeepEqual(st, e.stable0) && reflect.DeepEqual(by, e.by0))
}

var reDigits = regexp.MustCompile(`[0-9]+`)

// errClass turns an error text into a short stable class (line numbers and keys removed).
func errClass(msg string) string {
	if i := strings.Index(msg, "\nstack traceback"); i >= 0 {
		msg = msg[:i]
	}
	if i := strings.Index(msg, " with key"); i >= 0 {
		msg = msg[:i]
	}
	msg = reDigits.ReplaceAllString(msg, "N")
	msg = strings.TrimSpace(strings.TrimPrefix(msg, "<string>:N:"))
	if len(msg) > 60 {
		msg = msg[:60]
	}
	return strings.ReplaceAll(strings.ReplaceAll(msg, "/", "_"), " ", "-")
}

func (e *env) conf() ingress.Config {
	return ingress.Config{
		Key: "c14", Namespace: ns, CanaryService: canarySvc, StableService: stableSvc,
		TrafficConf: &v1beta1.IngressTrafficRouting{ClassType: e.class, Name: ingName},
		OwnerRef:    metav1.OwnerReference{APIVersion: "rollouts.kruise.io/v1beta1", Kind: "Rollout", Name: "demo", UID: "uid-1", Controller: utilpointer.Bool(true), BlockOwnerDeletion: utilpointer.Bool(true)},
	}
}

func routes(s *v1beta1.TrafficRoutingStrategy) bool {
	if len(s.Matches) > 0 {
		return true
	}
	return s.Traffic != nil && *s.Traffic != "0%"
}

// enter calls EnsureRoutes (a fresh provider per call, like the manager does per reconcile) until done.
func (e *env) enter(st Step) stepResult {
	res := stepResult{}
	kinds := []string{}
	for res.Calls < maxCalls {
		res.Calls++
		before := e.canary
		var done bool
		var err error
		p := lib.Catch(func() {
			prov, perr := ingress.NewIngressTrafficRouting(e.cli, e.conf())
			if perr != nil {
				err = perr
				return
			}
			done, err = prov.EnsureRoutes(context.TODO(), st.S.DeepCopy())
		})
		op := fmt.Sprintf("EnsureRoutes(%s)#%d", st.Name, res.Calls)
		after := e.invariants(op)
		phase := "update"
		if before == nil {
			phase = "create"
		}
		switch {
		case p != nil:
			res.Panic = p
			e.logf("  %s -> PANIC %s at %s", op, p.Value, p.Site)
			e.find("C14/panic/"+p.Site+"/"+panicInputClass(e.stable0), fmt.Sprintf("%s panicked: %s (frame %s)\nstable Ingress rules: %s", op, p.Value, p.Site, lib.J(e.stable0.Spec.Rules)))
			kinds = append(kinds, "panic")
		case err != nil:
			res.Err = err.Error()
			e.logf("  %s -> error %s", op, firstLine(res.Err))
			if strings.Contains(res.Err, "deadline exceeded") || strings.Contains(res.Err, "context canceled") {
				e.tr.flaky = true
			} else {
				e.find("C14/error/"+e.class+"/"+phase+"/"+errClass(res.Err), fmt.Sprintf("%s (canary Ingress %s) returned an error for a step kind the class supports: %s\nstable annotations: %s\nstep: %s",
					op, map[bool]string{true: "absent", false: "present"}[before == nil], firstLine(res.Err), lib.J(e.stable0.Annotations), lib.J(st.S)))
			}
			kinds = append(kinds, "error")
		case done:
			res.Done = true
			if after != nil {
				e.logf("  %s -> done; canary annotations %s", op, lib.J(after.Annotations))
			} else {
				e.logf("  %s -> done; no canary Ingress", op)
			}
		default:
			res.Wrote = true
			e.tr.wrote = true
			if before == nil && after != nil {
				kinds = append(kinds, "created")
			} else if after != nil && !reflect.DeepEqual(before.Annotations, after.Annotations) {
				kinds = append(kinds, "patched")
			} else {
				kinds = append(kinds, "not-done-without-change")
			}
			if after != nil {
				e.logf("  %s -> not done (wrote); canary annotations %s paths %v", op, lib.J(after.Annotations), actualPaths(after))
			} else {
				e.logf("  %s -> not done; no canary Ingress", op)
			}
		}
		if res.Panic != nil || res.Err != "" || res.Done {
			break
		}
	}
	c := e.canary
	res.Exists = c != nil
	if c != nil {
		res.Ann = c.Annotations
		if res.Ann == nil {
			res.Ann = map[string]string{}
		}
	}
	if res.Panic == nil && res.Err == "" && !res.Done {
		e.find("C14/not-converged/"+e.class, fmt.Sprintf("EnsureRoutes(%s) did not report done within %d calls", st.Name, maxCalls))
		kinds = append(kinds, "not-converged")
	}
	if res.Done && !res.Exists {
		kinds = append(kinds, "no-canary")
		if routes(&st.S) {
			cls := "step-with-weight"
			if st.S.Traffic != nil && *st.S.Traffic == "0%" {
				cls = "zero-weight-with-matches"
			}
			e.find("C14/canary-missing/"+cls, fmt.Sprintf("EnsureRoutes(%s) reports done but no canary Ingress exists although the step routes traffic: %s", st.Name, lib.J(st.S)))
		}
	}
	if len(kinds) == 0 {
		kinds = append(kinds, "noop")
	}
	res.Outcome = strings.Join(kinds, "+")
	return res
}

func firstLine(s string) string {
	if i := strings.Index(s, "\n"); i >= 0 {
		return s[:i]
	}
	return s
}

// panicInputClass: the structural class of the first thing in iteration order the builder cannot handle.
func panicInputClass(st *netv1.Ingress) string {
	for _, rule := range st.Spec.Rules {
		if rule.HTTP == nil {
			return "rule-without-http"
		}
		for _, p := range rule.HTTP.Paths {
			if p.Backend.Service == nil {
				return "resource-backend"
			}
		}
	}
	return "other"
}

func (e *env) finalise() {
	for i := 1; i <= 2; i++ {
		before := e.canary
		var modified bool
		var err error
		p := lib.Catch(func() {
			prov, perr := ingress.NewIngressTrafficRouting(e.cli, e.conf())
			if perr != nil {
				err = perr
				return
			}
			modified, err = prov.Finalise(context.TODO())
		})
		op := fmt.Sprintf("Finalise#%d", i)
		// the canary paths monitor is still evaluated by invariants() if the object survived
		after := e.invariants(op)
		switch {
		case p != nil:
			e.logf("  %s -> PANIC %s at %s", op, p.Value, p.Site)
			e.find("C14/panic/"+p.Site+"/finalise", fmt.Sprintf("%s panicked: %s", op, p.Value))
		case err != nil:
			e.logf("  %s -> error %s", op, err.Error())
			e.find("C14/error/"+e.class+"/finalise/"+errClass(err.Error()), op+" returned "+err.Error())
		default:
			e.logf("  %s -> modified=%v; canary Ingress present afterwards: %v", op, modified, after != nil)
		}
		if after != nil {
			e.find("C14/finalise/canary-remains", fmt.Sprintf("after %s (modified=%v, err=%v) the canary Ingress still exists: %s", op, modified, err, lib.J(after.ObjectMeta)))
		}
		if i == 1 {
			if before != nil && after == nil {
				e.tr.finalise = "deleted"
				e.tr.wrote = true
			} else if before == nil {
				e.tr.finalise = "nothing-to-delete"
			} else {
				e.tr.finalise = "not-deleted"
			}
		} else if p == nil && err == nil && modified {
			e.tr.finalise += "+second-call-modified"
		}
	}
}

// execute runs one step sequence followed by Finalise on a fresh store.
func execute(ing *netv1.Ingress, class string, seq []Step, verbose bool) *trace {
	tr := &trace{seen: map[string]bool{}}
	prefix := netv1.PathTypePrefix
	by := &netv1.Ingress{ObjectMeta: metav1.ObjectMeta{Name: bystander, Namespace: ns, Annotations: map[string]string{"foo": "bar"}},
		Spec: netv1.IngressSpec{Rules: []netv1.IngressRule{{Host: "z.com", IngressRuleValue: netv1.IngressRuleValue{HTTP: &netv1.HTTPIngressRuleValue{
			Paths: []netv1.HTTPIngressPath{{Path: "/", PathType: &prefix, Backend: svcBackend(stableSvc, 80, "")}}}}}}}}
	cli := fake.NewClientBuilder().WithScheme(scheme).WithObjects(ing.DeepCopy(), by).Build()
	e := &env{cli: &recClient{Client: cli}, class: class, tr: tr, verbose: verbose}
	e.stable0 = e.get(ingName)
	e.by0 = e.get(bystander)
	e.expPaths = expectedCanaryPaths(e.stable0)
	e.logf("class %s; stable Ingress annotations %s rules %s", class, lib.J(e.stable0.Annotations), lib.J(e.stable0.Spec.Rules))
	e.logf("expected canary paths: %v", e.expPaths)
	for _, st := range seq {
		e.logf("step %s %s", st.Name, lib.J(st.S))
		res := e.enter(st)
		tr.steps = append(tr.steps, res)
		if res.Panic != nil {
			break // every later call would hit the same panic
		}
	}
	e.logf("finalise")
	e.finalise()
	e.storeUnchanged()
	tr.wrote = len(e.cli.writes) > 0
	return tr
}

// ---------- history independence ----------

var reFamily = regexp.MustCompile(`-(value|pattern)$`)

func family(key string) string { return reFamily.ReplaceAllString(key, "") + "*" }

// usable: the step was entered successfully and a canary Ingress exists, so its annotations are defined.
func usable(s stepResult) bool { return s.Done && s.Err == "" && s.Panic == nil && s.Exists }

// compareHistories compares the annotations after the last step of two executions.
func compareHistories(class string, refSeq, seq []Step, ref, got stepResult) []finding {
	if !usable(ref) || !usable(got) || reflect.DeepEqual(ref.Ann, got.Ann) {
		return nil
	}
	fams := map[string][]string{}
	keys := map[string]bool{}
	for k := range ref.Ann {
		keys[k] = true
	}
	for k := range got.Ann {
		keys[k] = true
	}
	for k := range keys {
		a, aok := ref.Ann[k]
		b, bok := got.Ann[k]
		if aok != bok || a != b {
			f := family(k)
			fams[f] = append(fams[f], k)
		}
	}
	names := make([]string, 0, len(fams))
	for f := range fams {
		names = append(names, f)
	}
	sort.Strings(names)
	var out []finding
	for _, f := range names {
		sort.Strings(fams[f])
		out = append(out, finding{"C14/history/" + class + "/" + f, fmt.Sprintf("class %s: canary annotations after %v differ from those after %v at %v\nafter %v: %s\nafter %v: %s",
			class, seqNames(seq), seqNames(refSeq), fams[f], seqNames(refSeq), lib.J(ref.Ann), seqNames(seq), lib.J(got.Ann))})
	}
	return out
}

func seqNames(s []Step) []string {
	out := make([]string, len(s))
	for i := range s {
		out[i] = s[i].Name
	}
	return out
}

// ---------- enumeration ----------

type job struct {
	ing    *netv1.Ingress
	label  string
	class  string
	alpha  []Step
	maxLen int
	// refs[i]: the reference history for step i (shortest history ending in alpha[i] with a canary Ingress)
	refSeq [][]Step
	refRes []stepResult
}

type item struct {
	job int32
	seq []int8
}

func seqsOfLen(n, l int) [][]int8 {
	var out [][]int8
	dims := make([]int, l)
	for i := range dims {
		dims[i] = n
	}
	lib.Product(dims, func(idx []int) bool {
		s := make([]int8, l)
		for i, v := range idx {
			s[i] = int8(v)
		}
		out = append(out, s)
		return true
	})
	return out
}

func (j *job) steps(seq []int8) []Step {
	out := make([]Step, len(seq))
	for i, s := range seq {
		out[i] = j.alpha[s]
	}
	return out
}

func (j *job) computeRefs() {
	j.refSeq = make([][]Step, len(j.alpha))
	j.refRes = make([]stepResult, len(j.alpha))
	for i := range j.alpha {
		// alpha[0] ("w30") creates the canary Ingress; it is the prefix used when the step alone does not
		for _, cand := range [][]Step{{j.alpha[i]}, {j.alpha[0], j.alpha[i]}} {
			tr := execute(j.ing, j.class, cand, false)
			last := tr.steps[len(tr.steps)-1]
			if len(tr.steps) == len(cand) && usable(last) && !tr.flaky {
				j.refSeq[i], j.refRes[i] = cand, last
				break
			}
		}
	}
}

func Run(r *lib.Report) {
	th := r.Thorough()
	// the cases are allocation-heavy (a Lua VM and JSON round trips per call) and small; trade memory for GC time
	debug.SetGCPercent(400)
	r.Rule = "part A (structure): every stable Ingress with 0..2 rules from a 9-rule alphabet (with/without http section; paths to the stable Service by port number/name, to another Service, " +
		"to Resource backends incl. one named like the stable Service) x {bare, labels+className+tls+defaultBackend} x annotation shapes {user, nil} (thorough: all 7) x class {nginx,aliyun-alb,higress,mse} " +
		"x every single step of the class alphabet, then Finalise twice; thorough adds every 3-rule Ingress (bare, 2 annotation shapes, single steps) and every 2-step sequence on the bare user-annotated <=2-rule Ingresses. " +
		"Part B (histories): the Ingress [a.com(stable,other), no-host(stable)] (thorough also [a.com(stable)]) x all 7 annotation shapes (user, nil, empty, class+rewrite, stale canary keys, mse service-subset, " +
		"stale query/modifier keys) x class x every step sequence of length <=3 (thorough: <=4 for 2 annotation shapes) over the class's step alphabet (30%, 0%, header exact/regex/no-type, cookie, 30%+header, " +
		"0%+header; mse adds query exact/regex, header+query, requestHeaderModifier.set with weight / with query; thorough adds 100% and a two-match step), each sequence followed by Finalise twice and compared " +
		"with the reference history of its last step. Every case runs the real provider with the built-in Lua script on a fresh fake store; non-trivial = the provider wrote (create/patch/delete) in the case."
	r.Assumptions = []string{
		"entering a step = calling EnsureRoutes with that step (fresh provider per call, as the manager does per reconcile) until it reports done, at most 5 calls; the annotations of a step are those in the store at that moment",
		"history independence is judged between executions in which a canary Ingress exists after the step: reference = the step alone, or [w30, step] when the step alone does not create one; an absent canary Ingress after a 0%-without-matches step is accepted (nothing to route)",
		"canary paths are compared as a multiset of (host, path, pathType, backend) - rule grouping and order are not demanded; spec.defaultBackend, tls, labels are not part of the property",
		"steps are restricted to the kinds the class script supports (headers/cookie for nginx, aliyun-alb, higress; plus queryParams and requestHeaderModifier.set for mse) and always carry traffic or matches (the manager skips other steps); an error for such a step on a generated Ingress is reported under its own signature C14/error/...",
		"a step that routes traffic (weight > 0 or matches) for which the provider reports done without a canary Ingress is reported as C14/canary-missing (the annotations of that step are then undefined); steps of traffic \"0%\" with matches are admitted by the webhook for blue-green strategies",
		"the fake client does not run API-server validation (a canary Ingress without rules is stored); no ConfigMap override of the scripts is present, so the built-in files under ./lua_configuration are the scripts under test",
		"the Lua VM's 1 s real-time deadline is not under test here; a case that hits it (machine load) is dropped and the run is marked non-exhaustive",
	}
	rules := ruleAlphabet()
	var jobs []*job
	// ---- part A: structure
	maxRules := 2
	if th {
		maxRules = 3
	}
	var ruleLists [][]int
	for l := 0; l <= maxRules; l++ {
		dims := make([]int, l)
		for i := range dims {
			dims[i] = len(rules)
		}
		if l == 0 {
			// the plain one-rule Ingress first (it becomes the witness of input-independent findings), then the empty one
			ruleLists = append(ruleLists, []int{0}, nil)
			continue
		}
		lib.Product(dims, func(idx []int) bool {
			if !(l == 1 && idx[0] == 0) {
				ruleLists = append(ruleLists, append([]int{}, idx...))
			}
			return true
		})
	}
	label := func(rl []int, extras bool, ann string) string {
		names := make([]string, len(rl))
		for i, x := range rl {
			names[i] = rules[x].name
		}
		return fmt.Sprintf("rules=%v extras=%v ann=%s", names, extras, ann)
	}
	ingressesA := 0
	for _, rl := range ruleLists {
		for _, extras := range []bool{false, true} {
			if len(rl) == 3 && extras {
				continue
			}
			for ci, class := range classes {
				anns := annAlphabet(class)
				if !th || len(rl) == 3 {
					anns = anns[:2] // user, nil
				}
				for _, a := range anns {
					ml := 1
					if th && len(rl) <= 2 && !extras && a.name == "user" {
						ml = 2
					}
					if ci == 0 {
						ingressesA++
					}
					jobs = append(jobs, &job{ing: buildIngress(rules, rl, a.m, extras), label: "A " + label(rl, extras, a.name), class: class, alpha: stepAlphabet(class, th), maxLen: ml})
				}
			}
		}
	}
	// ---- part B: histories
	histLen := 3
	if th {
		histLen = 4
	}
	ingressesB := 0
	histIngresses := [][]int{{3, 1}}
	if th {
		histIngresses = [][]int{{3, 1}, {0}}
	}
	for hi, rl := range histIngresses {
		for ci, class := range classes {
			for _, a := range annAlphabet(class) {
				if ci == 0 {
					ingressesB++
				}
				ml := 3
				if th && hi == 0 && (a.name == "user" || a.name == "stale-query+modifier-keys") {
					ml = 4
				}
				jobs = append(jobs, &job{ing: buildIngress(rules, rl, a.m, false), label: "B " + label(rl, false, a.name), class: class, alpha: stepAlphabet(class, th), maxLen: ml})
			}
		}
	}
	r.Extra["domain"] = map[string]interface{}{
		"partA_ingresses": ingressesA, "partB_ingresses": ingressesB, "classes": classes, "jobs": len(jobs),
		"steps_per_class": map[string]int{"nginx": len(stepAlphabet("nginx", th)), "aliyun-alb": len(stepAlphabet("aliyun-alb", th)), "higress": len(stepAlphabet("higress", th)), "mse": len(stepAlphabet("mse", th))},
		"history_length":  histLen,
	}

	// reference histories
	lib.ParallelFor(len(jobs), func(k int) { jobs[k].computeRefs() })

	// items, simplest first: by sequence length, then job order, then lexicographic
	seqCache := map[[2]int][][]int8{}
	var items []item
	for l := 1; l <= histLen; l++ {
		for k, j := range jobs {
			if l > j.maxLen {
				continue
			}
			key := [2]int{len(j.alpha), l}
			if _, ok := seqCache[key]; !ok {
				seqCache[key] = seqsOfLen(len(j.alpha), l)
			}
			for _, s := range seqCache[key] {
				items = append(items, item{job: int32(k), seq: s})
			}
		}
	}
	r.Extra["sequences_executed"] = len(items)

	outs := make([][]finding, len(items))
	pairs := make([][]finding, len(items))
	lib.ParallelFor(len(items), func(k int) {
		it := items[k]
		j := jobs[it.job]
		seq := j.steps(it.seq)
		tr := execute(j.ing, j.class, seq, false)
		r.AddEval(1)
		if tr.flaky {
			r.NotExhaustive("a Lua run hit the VM's 1 s real-time deadline (machine load); case dropped: " + j.label)
			return
		}
		if tr.wrote {
			r.Nontrivial(fmt.Sprintf("%d/%v", it.job, it.seq))
		}
		last := tr.steps[len(tr.steps)-1]
		lastStep := seq[len(tr.steps)-1]
		r.Outcome(j.class + "/" + lastStep.Kind + "/" + last.Outcome + "/finalise:" + tr.finalise)
		outs[k] = tr.findings
		if len(tr.steps) == len(seq) {
			li := int(it.seq[len(it.seq)-1])
			if j.refSeq[li] != nil {
				pairs[k] = compareHistories(j.class, j.refSeq[li], seq, j.refRes[li], last)
			}
		}
		if k%(len(items)/5+1) == 0 {
			r.Sample(map[string]interface{}{"ingress": j.label, "class": j.class, "steps": seqNames(seq), "outcome_last_step": last.Outcome, "canary_annotations_after_last_step": last.Ann, "finalise": tr.finalise})
		}
	})
	// report in enumeration order (deterministic first witness per signature)
	for k, it := range items {
		j := jobs[it.job]
		for _, f := range outs[k] {
			r.Violate(f.sig, "["+j.label+"] "+f.detail, Case{Ingress: j.ing, Class: j.class, Seqs: [][]Step{j.steps(it.seq)}})
		}
		for _, f := range pairs[k] {
			li := int(it.seq[len(it.seq)-1])
			r.Violate(f.sig, "["+j.label+"] "+f.detail, Case{Ingress: j.ing, Class: j.class, Seqs: [][]Step{j.refSeq[li], j.steps(it.seq)}})
		}
	}
	noRef := 0
	for _, j := range jobs {
		for i := range j.alpha {
			if j.refSeq[i] == nil {
				noRef++
			}
		}
	}
	r.Extra["steps_without_reference_history(panic/error inputs)"] = noRef
}

// Replay re-executes one recorded case, printing every call and the verdict.
func Replay(r *lib.Report, raw json.RawMessage) {
	var c Case
	if err := json.Unmarshal(raw, &c); err != nil {
		fmt.Println("HARNESS-ERROR cannot parse replay:", err)
		return
	}
	if c.Ingress == nil || len(c.Seqs) == 0 {
		fmt.Println("HARNESS-ERROR replay has no ingress / sequences")
		return
	}
	var lasts []stepResult
	complete := true
	for i, seq := range c.Seqs {
		fmt.Printf("--- execution %d: class %s, steps %v, then Finalise\n", i+1, c.Class, seqNames(seq))
		tr := execute(c.Ingress, c.Class, seq, true)
		for _, l := range tr.log {
			fmt.Println(l)
		}
		r.AddEval(1)
		if tr.flaky {
			r.NotExhaustive("Lua deadline hit during replay")
		}
		for _, f := range tr.findings {
			r.Violate(f.sig, f.detail, c)
		}
		if len(tr.steps) != len(seq) {
			complete = false
		}
		lasts = append(lasts, tr.steps[len(tr.steps)-1])
	}
	if len(c.Seqs) == 2 && complete {
		fs := compareHistories(c.Class, c.Seqs[0], c.Seqs[1], lasts[0], lasts[1])
		fmt.Printf("--- history independence: after %v vs after %v\n", seqNames(c.Seqs[0]), seqNames(c.Seqs[1]))
		fmt.Printf("  reference: %s\n  observed:  %s\n", lib.J(lasts[0].Ann), lib.J(lasts[1].Ann))
		for _, f := range fs {
			fmt.Printf("  !! %s\n", f.sig)
			r.Violate(f.sig, f.detail, c)
		}
		if len(fs) == 0 {
			fmt.Println("  equal (or not comparable)")
		}
	}
	r.Sample(map[string]interface{}{"replayed": seqNamesAll(c.Seqs), "class": c.Class})
}

func seqNamesAll(s [][]Step) [][]string {
	out := make([][]string, len(s))
	for i := range s {
		out[i] = seqNames(s[i])
	}
	return out
}
