// Package c15: small-scope check of the custom (Lua) network provider (E3, histories, programs).
//
// The REAL customNetworkProvider (EnsureRoutes / Finalise) is driven on a controller-runtime fake client holding
// unstructured objects. Scripts are the two built-in Istio scripts (found by the provider in ./lua_configuration)
// and every script of a small "well-behaved" grammar, supplied through the rollout configuration ConfigMap exactly
// like custom_network_provider_test.go does.
//
// Monitors (first component of the signature):
//
//	C15/stateless  object after σ·s (one EnsureRoutes call per element) == object after s alone
//	C15/restore    after Finalise spec / labels / annotations == what the user had; snapshot annotation gone
//	C15/istio-split, C15/istio-untouched   built-in VirtualService script: single stable destination => {100-w, w};
//	               rules that route to other hosts are left as they were
//	C15/fixpoint   C07-O3: EnsureRoutes reaches `true` within 3 calls, one more call returns true and writes nothing;
//	               a second Finalise returns false and writes nothing
//	C15/panic      any panic of the code under test
package c15

import (
	"context"
	"encoding/json"
	"flag"
	"fmt"
	"os"
	"reflect"
	goruntime "runtime"
	"sort"
	"strconv"
	"strings"
	"sync/atomic"
	"time"

	"github.com/openkruise/rollouts/api/v1beta1"
	"github.com/openkruise/rollouts/pkg/trafficrouting/network"
	custom "github.com/openkruise/rollouts/pkg/trafficrouting/network/customNetworkProvider"
	"github.com/openkruise/rollouts/pkg/util"
	"github.com/openkruise/rollouts/pkg/util/configuration"
	corev1 "k8s.io/api/core/v1"
	apierrors "k8s.io/apimachinery/pkg/api/errors"
	metav1 "k8s.io/apimachinery/pkg/apis/meta/v1"
	"k8s.io/apimachinery/pkg/apis/meta/v1/unstructured"
	"k8s.io/apimachinery/pkg/runtime"
	"k8s.io/apimachinery/pkg/types"
	utiljson "k8s.io/apimachinery/pkg/util/json"
	clientgoscheme "k8s.io/client-go/kubernetes/scheme"
	"k8s.io/klog/v2"
	"sigs.k8s.io/controller-runtime/pkg/client"
	"sigs.k8s.io/controller-runtime/pkg/client/fake"
	gatewayv1beta1 "sigs.k8s.io/gateway-api/apis/v1beta1"

	"verifharness/lib"
)

const (
	ns         = "demo"
	stableSvc  = "stable"
	canarySvc  = "canary"
	istioAV    = "networking.istio.io/v1alpha3"
	genericAV  = "example.io/v1"
	maxEnsure  = 3 // C07-O3: EnsureRoutes must return true within this many calls
	bigInt     = "9007199254740993"
	snapshotAn = custom.OriginalSpecAnnotation
)

func init() {
	// the provider logs every failed script at ERROR level; klog copies ERROR to stderr unless told otherwise
	fs := flag.NewFlagSet("klog", flag.ContinueOnError)
	klog.InitFlags(fs)
	_ = fs.Set("logtostderr", "false")
	_ = fs.Set("alsologtostderr", "false")
	_ = fs.Set("stderrthreshold", "FATAL")
	_ = fs.Set("one_output", "true")
}

var scheme = func() *runtime.Scheme {
	s := runtime.NewScheme()
	_ = clientgoscheme.AddToScheme(s)
	_ = v1beta1.AddToScheme(s)
	return s
}()

// ---------------------------------------------------------------------------------------------------
// case description (this is also the replay format)

// World is everything except the operation history.
type World struct {
	ID      string                   `json:"id"`
	Objects []map[string]interface{} `json:"objects"` // unstructured objects put into the store
	Scripts map[string]string        `json:"scripts"` // data of the rollout configuration ConfigMap
	Refs    []v1beta1.ObjectRef      `json:"refs"`
	Stable  string                   `json:"stableService"`
	Canary  string                   `json:"canaryService"`
}

// Case = world + history. Every element of Ops is ONE EnsureRoutes call; afterwards (optionally after iterating the
// last strategy to its fixed point) Finalise is called twice.
type Case struct {
	World    World                            `json:"world"`
	Ops      []v1beta1.TrafficRoutingStrategy `json:"ops"`
	Converge bool                             `json:"converge"`
	// Cycles: 1 (default) or 2 = the whole history incl. Finalise is executed twice on the same store (a second
	// rollout over the restored object)
	Cycles int `json:"cycles,omitempty"`
	// Delete: the USER deletes one referenced object during the history (after the AfterOp-th EnsureRoutes call;
	// AfterOp == len(Ops) means right before Finalise). The remaining refs must still be restored exactly.
	Delete *DeleteOp `json:"delete,omitempty"`
	// Fault: fault-injection case (see FaultOp); Converge / Cycles / Delete are not combined with it
	Fault *FaultOp `json:"fault,omitempty"`
	// FixpointOnly: replay of a C15/fixpoint, istio or reference witness: Ops has one element which is iterated
	// from the fresh store.
	FixpointOnly bool `json:"fixpointOnly,omitempty"`
}

const (
	faultError = "write-error"       // the K-th write of the call returns an API error (nothing stored)
	faultCrash = "crash-after-write" // the call is abandoned after its K-th write succeeded (every later API call of that invocation fails)
)

// FaultOp disturbs ONE provider call: the last EnsureRoutes of Ops (Call "ensure") or the Finalise after Ops
// (Call "finalise"). Afterwards the call is retried without faults.
type FaultOp struct {
	Call string `json:"call,omitempty"`
	Kind string `json:"kind,omitempty"`
	K    int    `json:"k,omitempty"`
}

type DeleteOp struct {
	Ref     int `json:"ref"`     // index into World.Refs
	AfterOp int `json:"afterOp"` // number of EnsureRoutes calls executed before the deletion
}

// ---------------------------------------------------------------------------------------------------
// store + provider

type countingClient struct {
	client.Client
	writes int // writes forwarded to the store
	// fault plan of the current provider invocation (see FaultOp); zero = none
	plan     FaultOp
	attempts int  // write attempts of the invocation
	done     int  // writes of the invocation that reached the store
	fired    bool // the planned fault was actually injected
}

var errInjected = apierrors.NewInternalError(fmt.Errorf("injected API fault"))

func (c *countingClient) begin(plan FaultOp) {
	c.plan, c.attempts, c.done, c.fired = plan, 0, 0, false
}

// end clears the plan and keeps `fired` readable until the next begin.
func (c *countingClient) end() { c.plan = FaultOp{} }

// crashed: the invocation was abandoned after its K-th successful write: nothing it does afterwards has an effect.
func (c *countingClient) crashed() bool {
	return c.plan.Kind == faultCrash && c.plan.K > 0 && c.done >= c.plan.K
}

func (c *countingClient) write(f func() error) error {
	c.attempts++
	if c.crashed() || (c.plan.Kind == faultError && c.attempts == c.plan.K) {
		c.fired = true
		return errInjected
	}
	c.writes++
	err := f()
	if err == nil {
		c.done++
		if c.crashed() {
			c.fired = true
		}
	}
	return err
}

func (c *countingClient) Get(ctx context.Context, key client.ObjectKey, obj client.Object, opts ...client.GetOption) error {
	if c.crashed() {
		return errInjected
	}
	return c.Client.Get(ctx, key, obj, opts...)
}
func (c *countingClient) List(ctx context.Context, list client.ObjectList, opts ...client.ListOption) error {
	if c.crashed() {
		return errInjected
	}
	return c.Client.List(ctx, list, opts...)
}
func (c *countingClient) Create(ctx context.Context, obj client.Object, opts ...client.CreateOption) error {
	return c.write(func() error { return c.Client.Create(ctx, obj, opts...) })
}
func (c *countingClient) Update(ctx context.Context, obj client.Object, opts ...client.UpdateOption) error {
	return c.write(func() error { return c.Client.Update(ctx, obj, opts...) })
}
func (c *countingClient) Patch(ctx context.Context, obj client.Object, patch client.Patch, opts ...client.PatchOption) error {
	return c.write(func() error { return c.Client.Patch(ctx, obj, patch, opts...) })
}
func (c *countingClient) Delete(ctx context.Context, obj client.Object, opts ...client.DeleteOption) error {
	return c.write(func() error { return c.Client.Delete(ctx, obj, opts...) })
}
func (c *countingClient) DeleteAllOf(ctx context.Context, obj client.Object, opts ...client.DeleteAllOfOption) error {
	return c.write(func() error { return c.Client.DeleteAllOf(ctx, obj, opts...) })
}

type env struct {
	w    *World
	cli  *countingClient
	ctrl network.NetworkProvider
}

func newEnv(w *World) (*env, error) {
	objs := make([]client.Object, 0, len(w.Objects)+1)
	for _, o := range w.Objects {
		objs = append(objs, &unstructured.Unstructured{Object: runtime.DeepCopyJSON(o)})
	}
	data := map[string]string{}
	for k, v := range w.Scripts {
		data[k] = v
	}
	objs = append(objs, &corev1.ConfigMap{
		ObjectMeta: metav1.ObjectMeta{Name: custom.LuaConfigMap, Namespace: util.GetRolloutNamespace()},
		Data:       data,
	})
	cli := &countingClient{Client: fake.NewClientBuilder().WithScheme(scheme).WithObjects(objs...).Build()}
	ctrl, err := custom.NewCustomController(cli, custom.Config{
		Key:           "rollout-demo",
		RolloutNs:     ns,
		CanaryService: w.Canary,
		StableService: w.Stable,
		TrafficConf:   w.Refs,
		OwnerRef:      metav1.OwnerReference{APIVersion: "rollouts.kruise.io/v1beta1", Kind: "Rollout", Name: "rollout-demo", UID: "uid"},
	})
	if err != nil {
		return nil, err
	}
	return &env{w: w, cli: cli, ctrl: ctrl}, nil
}

type callRes struct {
	Done   bool
	Err    string
	Panic  *lib.Panic
	Writes int
	// Timeout: the Lua VM's 1 s REAL-TIME deadline fired. None of the scripts of this check loops; on an overloaded
	// machine a starved worker can still exceed it. Such a call is environment noise, never a verdict: the history is
	// re-executed (see Run) and, if it keeps happening, the case is reported as not executed (exhaustive=false).
	Timeout bool
}

func (r callRes) String() string {
	if r.Panic != nil {
		return "PANIC " + r.Panic.Value + " at " + r.Panic.Site
	}
	if r.Err != "" {
		return fmt.Sprintf("error(%s) writes=%d", r.Err, r.Writes)
	}
	return fmt.Sprintf("%v writes=%d", r.Done, r.Writes)
}

func (e *env) ensure(s *v1beta1.TrafficRoutingStrategy) callRes { return e.ensureF(s, FaultOp{}) }

func (e *env) ensureF(s *v1beta1.TrafficRoutingStrategy, plan FaultOp) (res callRes) {
	e.cli.begin(plan)
	defer e.cli.end()
	before := e.cli.writes
	res.Panic = lib.Catch(func() {
		done, err := e.ctrl.EnsureRoutes(context.TODO(), s.DeepCopy())
		res.Done = done
		if err != nil {
			res.Err = err.Error()
			res.Timeout = strings.Contains(res.Err, "context deadline exceeded") || strings.Contains(res.Err, "context canceled")
		}
	})
	res.Writes = e.cli.writes - before
	return
}

func (e *env) finalise() callRes { return e.finaliseF(FaultOp{}) }

func (e *env) finaliseF(plan FaultOp) (res callRes) {
	e.cli.begin(plan)
	defer e.cli.end()
	before := e.cli.writes
	res.Panic = lib.Catch(func() {
		done, err := e.ctrl.Finalise(context.TODO())
		res.Done = done
		if err != nil {
			res.Err = err.Error()
		}
	})
	res.Writes = e.cli.writes - before
	return
}

// get returns the stored object of ref i (nil when it does not exist).
func (e *env) get(i int) *unstructured.Unstructured {
	ref := e.w.Refs[i]
	o := &unstructured.Unstructured{}
	o.SetAPIVersion(ref.APIVersion)
	o.SetKind(ref.Kind)
	if err := e.cli.Client.Get(context.TODO(), types.NamespacedName{Namespace: ns, Name: ref.Name}, o); err != nil {
		return nil
	}
	return o
}

// userDelete removes the object of ref i the way a user would (not counted as a provider write).
func (e *env) userDelete(i int) bool {
	o := e.get(i)
	if o == nil {
		return false
	}
	return e.cli.Client.Delete(context.TODO(), o) == nil
}

// dump renders every referenced object completely (including resourceVersion): "the store".
func (e *env) dump() string {
	var b strings.Builder
	for i := range e.w.Refs {
		o := e.get(i)
		if o == nil {
			b.WriteString("<absent>;")
			continue
		}
		b.WriteString(lib.J(o.Object))
		b.WriteString(";")
	}
	return b.String()
}

// view is the part of an object the property talks about.
type view struct {
	Exists      bool
	Spec        string // canonical JSON of .spec; an absent spec and a null spec are the same (see Assumptions)
	Labels      map[string]string
	Annotations map[string]string
	obj         *unstructured.Unstructured
}

func specOf(o *unstructured.Unstructured) interface{} {
	if o == nil {
		return nil
	}
	return o.Object["spec"]
}

func viewOf(o *unstructured.Unstructured) view {
	if o == nil {
		return view{}
	}
	v := view{Exists: true, obj: o, Labels: o.GetLabels(), Annotations: o.GetAnnotations()}
	sp := specOf(o)
	if sp == nil {
		v.Spec = "null"
	} else {
		v.Spec = lib.J(sp)
	}
	return v
}

func (e *env) views() []view {
	out := make([]view, len(e.w.Refs))
	for i := range e.w.Refs {
		out[i] = viewOf(e.get(i))
	}
	return out
}

func sameStrMap(a, b map[string]string) bool {
	if len(a) == 0 && len(b) == 0 {
		return true
	}
	return reflect.DeepEqual(a, b)
}

func without(m map[string]string, key string) map[string]string {
	out := map[string]string{}
	for k, v := range m {
		if k != key {
			out[k] = v
		}
	}
	return out
}

// ---------------------------------------------------------------------------------------------------
// structural difference classes (for signatures)

func isEmptyColl(v interface{}) bool {
	switch t := v.(type) {
	case nil:
		return true
	case map[string]interface{}:
		return len(t) == 0
	case []interface{}:
		return len(t) == 0
	}
	return false
}

func isNumber(v interface{}) bool {
	switch v.(type) {
	case int64, float64, int, int32, json.Number:
		return true
	}
	return false
}

// diffKind returns the path and the class of the first difference (deterministic order) between two JSON values.
func diffKind(p string, a, b interface{}) (string, string) {
	if lib.J(a) == lib.J(b) {
		return "", ""
	}
	am, aok := a.(map[string]interface{})
	bm, bok := b.(map[string]interface{})
	if aok && bok && len(am) > 0 && len(bm) > 0 {
		keys := map[string]bool{}
		for k := range am {
			keys[k] = true
		}
		for k := range bm {
			keys[k] = true
		}
		ks := make([]string, 0, len(keys))
		for k := range keys {
			ks = append(ks, k)
		}
		sort.Strings(ks)
		for _, k := range ks {
			av, ain := am[k]
			bv, bin := bm[k]
			switch {
			case ain && !bin:
				if av == nil {
					return p + "." + k, "null-valued-key-dropped"
				}
				return p + "." + k, "key-lost"
			case !ain && bin:
				return p + "." + k, "key-added"
			}
			if pp, kind := diffKind(p+"."+k, av, bv); kind != "" {
				return pp, kind
			}
		}
		return p, "value"
	}
	al, aok := a.([]interface{})
	bl, bok := b.([]interface{})
	if aok && bok && len(al) > 0 && len(bl) > 0 {
		if len(al) != len(bl) {
			return p + "[]", "list-length"
		}
		for i := range al {
			if pp, kind := diffKind(p+"[]", al[i], bl[i]); kind != "" {
				return pp, kind
			}
		}
		return p, "value"
	}
	switch {
	case isEmptyColl(a) && isEmptyColl(b):
		return p, "empty-collection-kind-changed"
	case isNumber(a) && isNumber(b):
		return p, "number-changed"
	case reflect.TypeOf(a) != reflect.TypeOf(b):
		return p, "type-changed"
	}
	return p, "value-changed"
}

// coarseKind folds the difference classes into the three that separate distinct defects.
func coarseKind(k string) string {
	switch k {
	case "number-changed":
		return "number-precision"
	case "empty-collection-kind-changed", "null-valued-key-dropped":
		return "empty-or-null-representation"
	}
	return "content"
}

// normEmpty: empty map == empty list == null == absent key (proto3 / JSON "no configuration" equivalence). Only used
// by the "untouched" / "split" oracles for values that went through the Lua bridge (which cannot represent empty
// collections); NOT used by the restore oracle.
func normEmpty(v interface{}) interface{} {
	switch t := v.(type) {
	case map[string]interface{}:
		out := map[string]interface{}{}
		for k, x := range t {
			n := normEmpty(x)
			if n != nil {
				out[k] = n
			}
		}
		if len(out) == 0 {
			return nil
		}
		return out
	case []interface{}:
		if len(t) == 0 {
			return nil
		}
		out := make([]interface{}, len(t))
		for i, x := range t {
			out[i] = normEmpty(x)
		}
		return out
	}
	return v
}

func sameModEmpty(a, b interface{}) bool { return lib.J(normEmpty(a)) == lib.J(normEmpty(b)) }

// ---------------------------------------------------------------------------------------------------
// classification helpers

func group(apiVersion string) string { return strings.Split(apiVersion, "/")[0] }

func scriptClass(ref v1beta1.ObjectRef) string {
	if group(ref.APIVersion) == "networking.istio.io" {
		switch ref.Kind {
		case "VirtualService":
			return "istio-vs"
		case "DestinationRule":
			return "istio-dr"
		}
	}
	return "generic"
}

func errClass(e string) string {
	switch {
	case e == "":
		return "ok"
	case strings.Contains(e, "not found"):
		return "object-not-found"
	case strings.Contains(e, "attempt to index"):
		return "lua-index-nil"
	case strings.Contains(e, "bad argument"):
		return "lua-bad-argument"
	case strings.Contains(e, "expect table output"):
		return "lua-non-table-result"
	case strings.Contains(e, "cannot unmarshal"):
		return "result-unmarshal"
	case strings.Contains(e, "failed to get original spec"):
		return "empty-snapshot"
	case strings.Contains(e, "cannot encode"):
		return "lua-encode"
	}
	if len(e) > 40 {
		e = e[:40]
	}
	return "other:" + e
}

func weightOf(s *v1beta1.TrafficRoutingStrategy) (int64, bool) {
	if s.Traffic == nil {
		return 0, false
	}
	t := strings.TrimSuffix(*s.Traffic, "%")
	var w int64
	if _, err := fmt.Sscanf(t, "%d", &w); err != nil || !strings.HasSuffix(*s.Traffic, "%") {
		return 0, false
	}
	return w, true
}

func opName(s *v1beta1.TrafficRoutingStrategy) string {
	var parts []string
	if s.Traffic != nil {
		parts = append(parts, "traffic="+*s.Traffic)
	}
	if len(s.Matches) > 0 {
		parts = append(parts, fmt.Sprintf("matches=%d", len(s.Matches)))
	}
	if s.RequestHeaderModifier != nil {
		parts = append(parts, "hdrmod")
	}
	if len(parts) == 0 {
		return "none"
	}
	return strings.Join(parts, ",")
}

func opsName(ops []v1beta1.TrafficRoutingStrategy) string {
	n := make([]string, len(ops))
	for i := range ops {
		n[i] = opName(&ops[i])
	}
	return "[" + strings.Join(n, " ; ") + "]"
}

// ---------------------------------------------------------------------------------------------------
// reference: the state after ONE EnsureRoutes(s) on the untouched store

type refResult struct {
	Res   callRes
	Views []view
}

type tracer func(format string, a ...interface{})

func noTrace(string, ...interface{}) {}

type runner struct {
	r     *lib.Report
	w     *World
	trace tracer
	refs  map[string]*refResult
	orig  []view
	// statistics
	calls int64
	// violations are buffered per world and flushed in world order so that the kept witness is deterministic
	buffered bool
	pendSig  []string
	pend     map[string]*pending
	// signatures raised in the first cycle of the running history (second-cycle reports are suppressed for them)
	cycle      int
	firstCycle map[string]bool
	// timedOut: a call of the running history hit the Lua real-time deadline (see callRes.Timeout)
	timedOut bool
}

type pending struct {
	detail string
	c      *Case
	count  int
}

func (rn *runner) flush() {
	for _, sig := range rn.pendSig {
		p := rn.pend[sig]
		for i := 0; i < p.count; i++ {
			rn.r.Violate(sig, p.detail, p.c)
		}
	}
	rn.pendSig, rn.pend = nil, nil
}

func newRunner(r *lib.Report, w *World, trace tracer) (*runner, error) {
	rn := &runner{r: r, w: w, trace: trace, refs: map[string]*refResult{}}
	e, err := newEnv(w)
	if err != nil {
		return nil, err
	}
	rn.orig = e.views()
	return rn, nil
}

func (rn *runner) violate(sig, detail string, c *Case) {
	if rn.cycle >= 2 {
		if rn.firstCycle[sig] {
			return
		}
		sig += "/second-cycle"
	} else if rn.firstCycle != nil {
		rn.firstCycle[sig] = true
	}
	rn.trace("  VERDICT violation %s\n    %s", sig, strings.ReplaceAll(detail, "\n", "\n    "))
	if !rn.buffered {
		rn.r.Violate(sig, detail, c)
		return
	}
	if rn.pend == nil {
		rn.pend = map[string]*pending{}
	}
	if p, ok := rn.pend[sig]; ok {
		p.count++
		return
	}
	rn.pend[sig] = &pending{detail: detail, c: c, count: 1}
	rn.pendSig = append(rn.pendSig, sig)
}

func (rn *runner) mkCase(ops []v1beta1.TrafficRoutingStrategy, converge, fixOnly bool) *Case {
	return rn.mkCaseN(ops, converge, fixOnly, 1)
}

func (rn *runner) mkCaseN(ops []v1beta1.TrafficRoutingStrategy, converge, fixOnly bool, cycles int) *Case {
	cp := make([]v1beta1.TrafficRoutingStrategy, len(ops))
	for i := range ops {
		cp[i] = *ops[i].DeepCopy()
	}
	return &Case{World: *rn.w, Ops: cp, Converge: converge, FixpointOnly: fixOnly, Cycles: cycles}
}

func (rn *runner) panicked(where string, res callRes, c *Case) bool {
	if res.Panic == nil {
		return false
	}
	rn.violate("C15/panic/"+where+"/"+res.Panic.Site, where+" panicked: "+res.Panic.Value+"\n"+firstStack(res.Panic.Stack), c)
	return true
}

func firstStack(s string) string {
	l := strings.Split(s, "\n")
	if len(l) > 24 {
		l = l[:24]
	}
	return strings.Join(l, "\n")
}

// ref computes (memoised) the reference for strategy s and, on that occasion, runs the monitors that only need
// "s alone on the fresh store": the Istio oracles and the C07-O3 fixed-point oracle.
func (rn *runner) ref(s *v1beta1.TrafficRoutingStrategy) *refResult {
	key := lib.J(s)
	if rr, ok := rn.refs[key]; ok {
		return rr
	}
	c := rn.mkCase([]v1beta1.TrafficRoutingStrategy{*s}, false, true)
	savedCycle, savedFirst := rn.cycle, rn.firstCycle
	rn.cycle, rn.firstCycle = 1, nil
	defer func() { rn.cycle, rn.firstCycle = savedCycle, savedFirst }()
	var e *env
	var res callRes
	for attempt := 0; attempt < 5; attempt++ {
		var err error
		if e, err = newEnv(rn.w); err != nil {
			panic(err)
		}
		rn.trace("reference: EnsureRoutes(%s) alone on the untouched store", opName(s))
		res = e.ensure(s)
		rn.calls++
		if !res.Timeout {
			break
		}
		rn.trace("  (Lua real-time deadline hit; retrying)")
	}
	rr := &refResult{Res: res, Views: e.views()}
	rn.refs[key] = rr
	rn.trace("  call 1 -> %s", res)
	rn.traceViews(rr.Views)
	if rn.panicked("EnsureRoutes", res, c) {
		return rr
	}
	if res.Timeout {
		rn.timedOut = true
		delete(rn.refs, key)
		return rr
	}
	rn.r.Outcome("ensure-alone/" + errClass(res.Err) + fmt.Sprintf("/done=%v", res.Done))
	if res.Err != "" {
		return rr
	}
	for i := range rn.w.Refs {
		rn.checkIstio(s, i, rn.orig[i], rr.Views[i], c)
	}
	rn.fixpoint(e, s, res, 1, c, "fresh")
	if rn.timedOut {
		delete(rn.refs, key) // the fixed-point monitor was cut short: evaluate again on the retry
	}
	return rr
}

// fixpoint: C07-O3. `last` is the result of call number `n` (already executed).
func (rn *runner) fixpoint(e *env, s *v1beta1.TrafficRoutingStrategy, last callRes, n int, c *Case, ctx string) bool {
	cls := rn.worldClass()
	for !last.Done && n < maxEnsure {
		last = e.ensure(s)
		rn.calls++
		n++
		rn.trace("  fixpoint: call %d -> %s", n, last)
		if rn.panicked("EnsureRoutes", last, c) {
			return false
		}
		if last.Timeout {
			rn.timedOut = true
			return false
		}
		if last.Err != "" {
			// an error after a successful first call with the same inputs depends on the state: not a fixed point
			rn.violate("C15/fixpoint/ensure-error-after-success/"+cls, fmt.Sprintf("EnsureRoutes(%s) succeeded and then failed on call %d: %s", opName(s), n, last.Err), c)
			return false
		}
	}
	if !last.Done {
		rn.violate("C15/fixpoint/ensure-no-convergence/"+cls, fmt.Sprintf("EnsureRoutes(%s) did not return true within %d calls (%s store); last call wrote %d times", opName(s), maxEnsure, ctx, last.Writes), c)
		return false
	}
	rn.r.Outcome(fmt.Sprintf("fixpoint/%s/calls-to-true=%d", ctx, n))
	before := e.dump()
	extra := e.ensure(s)
	rn.calls++
	rn.trace("  fixpoint: one more call -> %s", extra)
	if rn.panicked("EnsureRoutes", extra, c) {
		return false
	}
	if extra.Timeout {
		rn.timedOut = true
		return false
	}
	after := e.dump()
	if extra.Err != "" || !extra.Done || extra.Writes != 0 || before != after {
		rn.violate("C15/fixpoint/ensure-not-stable/"+cls, fmt.Sprintf("after EnsureRoutes(%s) returned true, one more call returned %s; store changed=%v", opName(s), extra, before != after), c)
		return false
	}
	return true
}

func (rn *runner) worldClass() string {
	set := map[string]bool{}
	for _, ref := range rn.w.Refs {
		set[scriptClass(ref)] = true
	}
	var l []string
	for k := range set {
		l = append(l, k)
	}
	sort.Strings(l)
	return strings.Join(l, "+")
}

func (rn *runner) traceViews(vs []view) {
	for i, v := range vs {
		if !v.Exists {
			rn.trace("    %s/%s: <absent>", rn.w.Refs[i].Kind, rn.w.Refs[i].Name)
			continue
		}
		rn.trace("    %s/%s: spec=%s labels=%s annotations=%s", rn.w.Refs[i].Kind, rn.w.Refs[i].Name, v.Spec, lib.J(v.Labels), lib.J(v.Annotations))
	}
}

// ---------------------------------------------------------------------------------------------------
// Istio oracles (built-in VirtualService script)

func asList(v interface{}) []interface{} {
	l, _ := v.([]interface{})
	return l
}
func asMap(v interface{}) map[string]interface{} {
	m, _ := v.(map[string]interface{})
	return m
}

// hostIsStable: does this destination host denote the stable Service of the rollout's namespace?
// (short name, name.ns, name.ns.svc, name.ns.svc.<domain>). A same-named Service of another namespace is another host.
func hostIsStable(host, stable string) bool {
	if host == stable {
		return true
	}
	for _, suf := range []string{"." + ns, "." + ns + ".svc", "." + ns + ".svc.cluster.local"} {
		if host == stable+suf {
			return true
		}
	}
	return false
}

func hostClass(rule map[string]interface{}, stable string) string {
	routes := asList(rule["route"])
	if len(routes) == 0 {
		return "no-route"
	}
	cls := "other-host"
	for _, rt := range routes {
		h, _ := asMap(asMap(rt)["destination"])["host"].(string)
		if hostIsStable(h, stable) {
			return "stable"
		}
		if strings.HasPrefix(h, stable+".") {
			cls = "same-first-label-other-host"
		}
	}
	return cls
}

func (rn *runner) checkIstio(s *v1beta1.TrafficRoutingStrategy, i int, orig, now view, c *Case) {
	if scriptClass(rn.w.Refs[i]) != "istio-vs" || !orig.Exists || !now.Exists {
		return
	}
	oSpec, nSpec := asMap(specOf(orig.obj)), asMap(specOf(now.obj))
	w, hasW := weightOf(s)
	nMatch := len(s.Matches)
	for _, proto := range []string{"http", "tcp", "tls"} {
		oRules, nRules := asList(oSpec[proto]), asList(nSpec[proto])
		off := 0
		if proto == "http" {
			off = nMatch
		}
		for k, orule := range oRules {
			or := asMap(orule)
			hc := hostClass(or, rn.w.Stable)
			var nr map[string]interface{}
			if k+off < len(nRules) {
				nr = asMap(nRules[k+off])
			}
			if hc != "stable" {
				// "routes to other hosts are untouched"
				if nr == nil || !sameModEmpty(or, nr) {
					rn.violate("C15/istio-untouched/"+proto+"/"+hc,
						fmt.Sprintf("EnsureRoutes(%s): %s rule #%d routes only to other hosts but was changed\n before: %s\n after:  %s", opName(s), proto, k, lib.J(or), lib.J(nr)), c)
				} else {
					rn.r.Outcome("istio/" + proto + "/" + hc + "-rule-untouched")
				}
				continue
			}
			_, hasMatch := or["match"]
			routes := asList(or["route"])
			if hasMatch {
				// by the script's documented design rules carrying their own match are left alone; the property
				// sentence is judged on match-less rules only (see Assumptions). Observed, not judged.
				if nr != nil && sameModEmpty(or, nr) {
					rn.r.Outcome("istio/" + proto + "/stable-rule-with-own-match-left-alone")
				} else {
					rn.r.Outcome("istio/" + proto + "/stable-rule-with-own-match-changed")
				}
				continue
			}
			if len(routes) != 1 {
				rn.r.Outcome("istio/" + proto + "/multi-destination-rule-not-judged")
				continue
			}
			if !hasW || nMatch > 0 {
				rn.r.Outcome("istio/" + proto + "/single-stable-no-weight-step")
				continue
			}
			// "a route with a single stable destination is split into exactly 100-w for stable and w for canary"
			od := asMap(routes[0])
			wcls := "weight-absent"
			if ow, ok := od["weight"]; ok {
				if lib.J(ow) == "100" {
					wcls = "weight-100"
				} else {
					wcls = "weight-" + lib.J(ow)
				}
			}
			bad := ""
			nroutes := asList(nr["route"])
			if nr == nil || len(nroutes) != 2 {
				bad = fmt.Sprintf("expected 2 destinations, got %d", len(nroutes))
			} else {
				st, ca := asMap(nroutes[0]), asMap(nroutes[1])
				expStable := runtime.DeepCopyJSON(od)
				expStable["weight"] = 100 - w
				cd := asMap(ca["destination"])
				chost, _ := cd["host"].(string)
				csub, _ := cd["subset"].(string)
				canaryOK := chost == rn.w.Canary && (rn.w.Canary != rn.w.Stable || csub == "canary")
				restO, restN := runtime.DeepCopyJSON(or), runtime.DeepCopyJSON(nr)
				delete(restO, "route")
				delete(restN, "route")
				switch {
				case !sameModEmpty(expStable, st):
					bad = fmt.Sprintf("stable destination is %s, expected %s", lib.J(st), lib.J(expStable))
				case lib.J(ca["weight"]) != fmt.Sprint(w):
					bad = fmt.Sprintf("canary weight is %s, expected %d", lib.J(ca["weight"]), w)
				case !canaryOK:
					bad = fmt.Sprintf("canary destination is %s", lib.J(cd))
				case !sameModEmpty(restO, restN):
					bad = fmt.Sprintf("other fields of the rule changed: %s -> %s", lib.J(restO), lib.J(restN))
				}
			}
			if bad != "" {
				rn.violate("C15/istio-split/"+proto+"/single-stable/"+wcls,
					fmt.Sprintf("EnsureRoutes(traffic=%d%%): %s rule #%d has a single stable destination; %s\n before: %s\n after:  %s", w, proto, k, bad, lib.J(or), lib.J(nr)), c)
			} else {
				rn.r.Outcome("istio/" + proto + "/single-stable-split-exact/" + wcls)
			}
		}
	}
}

// ---------------------------------------------------------------------------------------------------
// one history

// runHistory executes ops (one EnsureRoutes call each), optionally converges the last one, then Finalise twice;
// with cycles == 2 the same is repeated on the same store. Returns whether the provider wrote anything.
func (rn *runner) runHistory(ops []v1beta1.TrafficRoutingStrategy, converge bool, cycles int, del *DeleteOp) (wrote bool) {
	if cycles < 1 || del != nil {
		cycles = 1
	}
	c := rn.mkCaseN(ops, converge, false, cycles)
	if del != nil {
		d := *del
		c.Delete = &d
	}
	e, err := newEnv(rn.w)
	if err != nil {
		panic(err)
	}
	rn.firstCycle = map[string]bool{}
	defer func() { rn.cycle, rn.firstCycle = 0, nil }()
	for cy := 1; cy <= cycles; cy++ {
		rn.cycle = cy
		w, ok := rn.runCycle(e, c, ops, converge, cy)
		wrote = wrote || w
		if !ok {
			break
		}
		// a second cycle presupposes that the first one gave the user's object back
		broken := false
		for sig := range rn.firstCycle {
			if strings.HasPrefix(sig, "C15/restore/") {
				broken = true
			}
		}
		if broken {
			break
		}
	}
	return
}

// runCycle returns (wrote, completed).
func (rn *runner) runCycle(e *env, c *Case, ops []v1beta1.TrafficRoutingStrategy, converge bool, cy int) (wrote bool, completed bool) {
	cls := rn.worldClass()
	rn.trace("history %s converge=%v cycle=%d delete=%s", opsName(ops), converge, cy, lib.J(c.Delete))
	var last callRes
	deleted := -1
	userDelete := func(after int) {
		if c.Delete == nil || c.Delete.AfterOp != after || c.Delete.Ref < 0 || c.Delete.Ref >= len(rn.w.Refs) {
			return
		}
		if e.userDelete(c.Delete.Ref) {
			deleted = c.Delete.Ref
			rn.trace("  USER deletes %s %s", rn.w.Refs[deleted].Kind, rn.w.Refs[deleted].Name)
		}
	}
	userDelete(0)
	for k := range ops {
		s := &ops[k]
		rr := rn.ref(s)
		last = e.ensure(s)
		rn.calls++
		rn.trace("  step %d EnsureRoutes(%s) -> %s", k+1, opName(s), last)
		if last.Writes > 0 {
			wrote = true
		}
		if rn.panicked("EnsureRoutes", last, c) {
			return
		}
		if last.Timeout || rr.Res.Timeout {
			rn.timedOut = true
			return
		}
		now := e.views()
		rn.traceViews(now)
		if deleted >= 0 {
			// the user changed the world: the "s alone on the untouched store" reference no longer applies
			rn.r.Outcome("ensure-after-user-delete/" + errClass(last.Err))
			userDelete(k + 1)
			continue
		}
		userDelete(k + 1)
		if rr.Res.Panic != nil {
			continue
		}
		// statelessness: same inputs (original configuration + this step) => same result, whatever came before
		if (last.Err == "") != (rr.Res.Err == "") {
			rn.violate("C15/stateless/"+cls+"/error-depends-on-history",
				fmt.Sprintf("EnsureRoutes(%s) after %s: %s; alone on the untouched store: %s", opName(s), opsName(ops[:k]), last, rr.Res), c)
			continue
		}
		if last.Err != "" {
			continue
		}
		for i := range rn.w.Refs {
			a, b := now[i], rr.Views[i]
			field := ""
			switch {
			case a.Exists != b.Exists:
				field = "existence"
			case !a.Exists:
			case a.Spec != b.Spec:
				field = "spec"
			case !sameStrMap(a.Labels, b.Labels):
				field = "labels"
			case a.Annotations[snapshotAn] != b.Annotations[snapshotAn]:
				field = "snapshot"
			case !sameStrMap(a.Annotations, b.Annotations):
				field = "annotations"
			}
			if field != "" {
				rn.violate("C15/stateless/"+scriptClass(rn.w.Refs[i])+"/"+field,
					fmt.Sprintf("%s %s after history %s differs in %s from the object after the last step alone\n after history: spec=%s labels=%s annotations=%s\n after %s alone: spec=%s labels=%s annotations=%s",
						rn.w.Refs[i].Kind, rn.w.Refs[i].Name, opsName(ops[:k+1]), field, a.Spec, lib.J(a.Labels), lib.J(a.Annotations), opName(s), b.Spec, lib.J(b.Labels), lib.J(b.Annotations)), c)
			}
		}
	}
	if converge && len(ops) > 0 && last.Err == "" && last.Panic == nil {
		rn.fixpoint(e, &ops[len(ops)-1], last, 1, c, "after-history")
		if rn.timedOut {
			return
		}
	}
	// Finalise
	f1 := e.finalise()
	rn.calls++
	rn.trace("  Finalise -> %s", f1)
	if f1.Writes > 0 {
		wrote = true
	}
	if rn.panicked("Finalise", f1, c) {
		return
	}
	fin := e.views()
	rn.traceViews(fin)
	if f1.Err != "" {
		rn.r.Outcome("finalise/error/" + errClass(f1.Err))
		return
	}
	rn.r.Outcome(fmt.Sprintf("finalise/modified=%v", f1.Done))
	ctx := ""
	if deleted >= 0 {
		ctx = "/other-ref-deleted"
		rn.r.Outcome(fmt.Sprintf("finalise-after-user-delete/ref#%d-of-%d/modified=%v", deleted, len(rn.w.Refs), f1.Done))
	}
	for i := range rn.w.Refs {
		o, a := rn.orig[i], fin[i]
		sc := scriptClass(rn.w.Refs[i])
		if i == deleted {
			continue // gone by the user's own act
		}
		if o.Exists != a.Exists {
			rn.violate("C15/restore/"+sc+"/existence"+ctx, fmt.Sprintf("%s %s existed=%v before, exists=%v after Finalise", rn.w.Refs[i].Kind, rn.w.Refs[i].Name, o.Exists, a.Exists), c)
			continue
		}
		if !o.Exists {
			continue
		}
		where := fmt.Sprintf("%s %s after %s + Finalise", rn.w.Refs[i].Kind, rn.w.Refs[i].Name, opsName(ops))
		if _, left := a.Annotations[snapshotAn]; left {
			// the object was not given back at all: differences in spec / labels / annotations are consequences
			if deleted >= 0 {
				rn.violate("C15/restore/not-restored/other-ref-deleted", fmt.Sprintf("%s (the user deleted %s %s before): annotation %s is still present and spec=%s (original %s)",
					where, rn.w.Refs[deleted].Kind, rn.w.Refs[deleted].Name, snapshotAn, a.Spec, o.Spec), c)
			} else {
				rn.violate("C15/restore/"+sc+"/snapshot-annotation-left", where+": annotation "+snapshotAn+" is still present: "+lib.J(a.Annotations)+" spec="+a.Spec, c)
			}
			continue
		}
		if o.Spec != a.Spec {
			p, kind := diffKind("spec", specOf(o.obj), specOf(a.obj))
			kind = coarseKind(kind)
			rn.violate("C15/restore/"+sc+"/spec/"+kind+ctx, fmt.Sprintf("%s: spec differs at %s (%s)\n original: %s\n restored: %s", where, p, kind, o.Spec, a.Spec), c)
		}
		if !sameStrMap(o.Labels, a.Labels) {
			rn.violate("C15/restore/"+sc+"/labels"+ctx, fmt.Sprintf("%s: labels differ\n original: %s\n restored: %s", where, lib.J(o.Labels), lib.J(a.Labels)), c)
		}
		if !sameStrMap(without(o.Annotations, snapshotAn), without(a.Annotations, snapshotAn)) {
			rn.violate("C15/restore/"+sc+"/annotations"+ctx, fmt.Sprintf("%s: annotations differ\n original: %s\n restored: %s", where, lib.J(o.Annotations), lib.J(a.Annotations)), c)
		}
	}
	// C07-O3 for Finalise: the second call returns false and writes nothing
	before := e.dump()
	f2 := e.finalise()
	rn.calls++
	rn.trace("  Finalise (second) -> %s", f2)
	if rn.panicked("Finalise", f2, c) {
		return
	}
	if f2.Err != "" || f2.Done || f2.Writes != 0 || before != e.dump() {
		rn.violate("C15/fixpoint/finalise-second-call/"+cls, fmt.Sprintf("second Finalise after %s returned %s (expected false, no write)", opsName(ops), f2), c)
	}
	completed = true
	return
}

// ---------------------------------------------------------------------------------------------------
// fault enumeration (interrupted calls are retried; the outcome must be the undisturbed one)

// restoreDiff compares a finalised object with what the user had: "" = exact.
func restoreDiff(o, a view) (what, detail string) {
	switch {
	case o.Exists != a.Exists:
		return "existence", fmt.Sprintf("existed=%v before, exists=%v now", o.Exists, a.Exists)
	case !o.Exists:
		return "", ""
	}
	if _, left := a.Annotations[snapshotAn]; left {
		return "not-restored", fmt.Sprintf("annotation %s is still present, spec=%s (original %s)", snapshotAn, a.Spec, o.Spec)
	}
	if o.Spec != a.Spec {
		return "inexact", fmt.Sprintf("spec %s, original %s", a.Spec, o.Spec)
	}
	if !sameStrMap(o.Labels, a.Labels) {
		return "inexact", fmt.Sprintf("labels %s, original %s", lib.J(a.Labels), lib.J(o.Labels))
	}
	if !sameStrMap(o.Annotations, a.Annotations) {
		return "inexact", fmt.Sprintf("annotations %s, original %s", lib.J(a.Annotations), lib.J(o.Annotations))
	}
	return "", ""
}

// runFaultCase executes ONE fault case: ops[:n-1] undisturbed, then either the last EnsureRoutes or the Finalise after
// it disturbed by `f`, then retries without faults. Returns whether the fault was actually injected.
func (rn *runner) runFaultCase(ops []v1beta1.TrafficRoutingStrategy, f FaultOp) (fired bool) {
	if len(ops) == 0 {
		return false
	}
	c := rn.mkCase(ops, false, false)
	c.Fault = &f
	e, err := newEnv(rn.w)
	if err != nil {
		panic(err)
	}
	rn.trace("fault case %s: %s of the %s call, history %s", f.Kind, fmt.Sprintf("k=%d", f.K), f.Call, opsName(ops))
	s := &ops[len(ops)-1]
	rr := rn.ref(s)
	if rr.Res.Timeout || rr.Res.Panic != nil {
		return false
	}
	plain := func(k int, st *v1beta1.TrafficRoutingStrategy) bool {
		res := e.ensure(st)
		rn.calls++
		rn.trace("  step %d EnsureRoutes(%s) -> %s", k+1, opName(st), res)
		if rn.panicked("EnsureRoutes", res, c) {
			return false
		}
		if res.Timeout {
			rn.timedOut = true
			return false
		}
		return true
	}
	for k := 0; k < len(ops)-1; k++ {
		if !plain(k, &ops[k]) {
			return false
		}
	}
	switch f.Call {
	case "ensure":
		res := e.ensureF(s, f)
		rn.calls++
		fired = e.cli.fired
		rn.trace("  step %d EnsureRoutes(%s) DISTURBED (%s k=%d, injected=%v) -> %s", len(ops), opName(s), f.Kind, f.K, fired, res)
		rn.traceViews(e.views())
		if rn.panicked("EnsureRoutes", res, c) {
			return
		}
		if res.Timeout {
			rn.timedOut = true
			return
		}
		if !fired {
			rn.r.Outcome("fault/ensure/not-reached")
			return
		}
		if rr.Res.Err != "" {
			rn.r.Outcome("fault/ensure/undisturbed-call-fails-anyway")
			return
		}
		rn.r.Outcome(fmt.Sprintf("fault/ensure/%s/disturbed-call-reports-error=%v", f.Kind, res.Err != ""))
		// retry until done
		var last callRes
		n := 0
		for n < maxEnsure+1 {
			last = e.ensure(s)
			rn.calls++
			n++
			rn.trace("  retry %d EnsureRoutes(%s) -> %s", n, opName(s), last)
			if rn.panicked("EnsureRoutes", last, c) {
				return
			}
			if last.Timeout {
				rn.timedOut = true
				return
			}
			if last.Err != "" || last.Done {
				break
			}
		}
		now := e.views()
		rn.traceViews(now)
		switch {
		case last.Err != "":
			rn.violate("C15/fault/ensure-not-resumed/error-persists", fmt.Sprintf("EnsureRoutes(%s) disturbed by %s at write %d; retry %d without faults fails: %s", opName(s), f.Kind, f.K, n, last.Err), c)
			return
		case !last.Done:
			rn.violate("C15/fault/ensure-not-resumed/no-convergence", fmt.Sprintf("EnsureRoutes(%s) disturbed by %s at write %d; %d retries without faults never reported done", opName(s), f.Kind, f.K, n), c)
			return
		}
		rn.r.Outcome(fmt.Sprintf("fault/ensure/retries-to-done=%d", n))
		for i := range rn.w.Refs {
			a, b := now[i], rr.Views[i]
			if a.Exists != b.Exists || (a.Exists && (a.Spec != b.Spec || !sameStrMap(a.Labels, b.Labels) || !sameStrMap(a.Annotations, b.Annotations))) {
				rn.violate("C15/fault/ensure-not-resumed/differs-from-undisturbed",
					fmt.Sprintf("EnsureRoutes(%s) disturbed by %s at write %d and retried until done: %s %s differs from the undisturbed result\n after retries: spec=%s labels=%s annotations=%s\n undisturbed:   spec=%s labels=%s annotations=%s",
						opName(s), f.Kind, f.K, rn.w.Refs[i].Kind, rn.w.Refs[i].Name, a.Spec, lib.J(a.Labels), lib.J(a.Annotations), b.Spec, lib.J(b.Labels), lib.J(b.Annotations)), c)
				return
			}
		}
		// and the interrupted step can still be undone exactly
		for try := 0; try < 2; try++ {
			fr := e.finalise()
			rn.calls++
			rn.trace("  Finalise -> %s", fr)
			if rn.panicked("Finalise", fr, c) {
				return
			}
		}
		fin := e.views()
		rn.traceViews(fin)
		for i := range rn.w.Refs {
			if what, d := restoreDiff(rn.orig[i], fin[i]); what != "" {
				rn.violate("C15/fault/ensure-not-resumed/restore-"+what, fmt.Sprintf("EnsureRoutes(%s) disturbed by %s at write %d, retried, then Finalise: %s %s: %s", opName(s), f.Kind, f.K, rn.w.Refs[i].Kind, rn.w.Refs[i].Name, d), c)
				return
			}
		}
	case "finalise":
		if !plain(len(ops)-1, s) {
			return
		}
		res := e.finaliseF(f)
		rn.calls++
		fired = e.cli.fired
		rn.trace("  Finalise DISTURBED (%s k=%d, injected=%v) -> %s", f.Kind, f.K, fired, res)
		rn.traceViews(e.views())
		if rn.panicked("Finalise", res, c) {
			return
		}
		if !fired {
			rn.r.Outcome("fault/finalise/not-reached")
			return
		}
		rn.r.Outcome(fmt.Sprintf("fault/finalise/%s/disturbed-call-reports-error=%v", f.Kind, res.Err != ""))
		var last callRes
		n := 0
		for n < 3 {
			last = e.finalise()
			rn.calls++
			n++
			rn.trace("  retry %d Finalise -> %s", n, last)
			if rn.panicked("Finalise", last, c) {
				return
			}
			if last.Err == "" && !last.Done {
				break // reports: nothing left to do
			}
		}
		fin := e.views()
		rn.traceViews(fin)
		if last.Err != "" {
			rn.violate("C15/fault/finalise-not-resumed/error-persists", fmt.Sprintf("Finalise after %s disturbed by %s at write %d; retry %d without faults fails: %s", opsName(ops), f.Kind, f.K, n, last.Err), c)
			return
		}
		rn.r.Outcome(fmt.Sprintf("fault/finalise/retries-to-quiescence=%d", n))
		for i := range rn.w.Refs {
			if what, d := restoreDiff(rn.orig[i], fin[i]); what != "" {
				rn.violate("C15/fault/finalise-not-resumed/"+what,
					fmt.Sprintf("Finalise after %s disturbed by %s at write %d, then retried %d times without faults (last retry: %s): %s %s: %s", opsName(ops), f.Kind, f.K, n, last, rn.w.Refs[i].Kind, rn.w.Refs[i].Name, d), c)
				return
			}
		}
		before := e.dump()
		extra := e.finalise()
		rn.calls++
		rn.trace("  further Finalise -> %s", extra)
		if rn.panicked("Finalise", extra, c) {
			return
		}
		if extra.Err != "" || extra.Done || extra.Writes != 0 || before != e.dump() {
			rn.violate("C15/fault/finalise-not-resumed/not-quiescent", fmt.Sprintf("Finalise after %s disturbed by %s at write %d and retried; a further Finalise returned %s (expected false, no write)", opsName(ops), f.Kind, f.K, extra), c)
		}
	}
	return
}

// faultEnum enumerates EVERY fault point of the last EnsureRoutes of ops and of the Finalise after ops: the number of
// writes of each call is learned from an undisturbed run. Returns (cases executed, cases in which a fault was injected).
func (rn *runner) faultEnum(ops []v1beta1.TrafficRoutingStrategy, onCase func(f FaultOp, fired bool)) {
	e, err := newEnv(rn.w)
	if err != nil {
		panic(err)
	}
	var r0 callRes
	for k := range ops {
		r0 = e.ensure(&ops[k])
		rn.calls++
		if r0.Timeout {
			rn.timedOut = true
			return
		}
		if r0.Panic != nil {
			return // reported by the history runs
		}
	}
	f0 := e.finalise()
	rn.calls++
	if f0.Panic != nil {
		return
	}
	for _, call := range []struct {
		name   string
		writes int
	}{{"ensure", r0.Writes}, {"finalise", f0.Writes}} {
		for _, kind := range []string{faultError, faultCrash} {
			for k := 1; k <= call.writes; k++ {
				f := FaultOp{Call: call.name, Kind: kind, K: k}
				fired := rn.runFaultCase(ops, f)
				if rn.timedOut {
					return
				}
				onCase(f, fired)
			}
		}
	}
}

// ---------------------------------------------------------------------------------------------------
// alphabets

func mustJSON(s string) interface{} {
	var v interface{}
	if err := utiljson.Unmarshal([]byte(s), &v); err != nil {
		panic(fmt.Sprintf("bad shape literal %q: %v", s, err))
	}
	return v
}

type metaMode struct {
	name  string
	json_ string // "" = absent
}

var labelModes = []metaMode{
	{"absent", ""},
	{"empty", `{}`},
	{"set", `{"app":"demo"}`},
	{"clash", `{"app":"demo","canary":"false"}`}, // a key the label-writing scripts also write
}

var annotationModes = []metaMode{
	{"absent", ""},
	{"empty", `{}`},
	{"set", `{"a":"b"}`},
	{"clash", `{"a":"b","canary-weight":"user","empty":""}`},
	// what every object created with `kubectl apply` carries (a long, JSON-valued annotation under a well-known key)
	{"kubectl", `{"a":"b","kubectl.kubernetes.io/last-applied-configuration":"{\"apiVersion\":\"v1\",\"spec\":{\"x\":1}}"}`},
}

type specShape struct {
	name  string
	json_ string // "" = no spec key at all
}

func mkObject(apiVersion, kind, name string, lab, ann metaMode, spec specShape) map[string]interface{} {
	md := map[string]interface{}{"name": name, "namespace": ns}
	if lab.json_ != "" {
		md["labels"] = mustJSON(lab.json_)
	}
	if ann.json_ != "" {
		md["annotations"] = mustJSON(ann.json_)
	}
	o := map[string]interface{}{"apiVersion": apiVersion, "kind": kind, "metadata": md}
	if spec.json_ != "" {
		o["spec"] = mustJSON(spec.json_)
	}
	return o
}

// ---- generic nested-spec generator (depth <= 3 below the field "f")

func genericSpecs() []specShape {
	scalars := []string{`"s"`, `7`, `1.5`, `true`, `null`, `""`, `0`, `false`, bigInt}
	inner := []string{`"s"`, `7`, `null`, `{}`, `[]`}
	var vals []string
	vals = append(vals, scalars...)
	vals = append(vals, `{}`, `[]`)
	for _, x := range inner {
		vals = append(vals, `{"k":`+x+`}`)
	}
	for _, x := range inner {
		vals = append(vals, `[`+x+`]`)
	}
	vals = append(vals, `{"k":{"j":{}}}`, `{"k":[{}]}`, `[{"j":[]}]`, `[{"j":"s","e":{}}]`, `{"k":{"j":[1,"a"]}}`, `[[1],[]]`)
	out := []specShape{
		{"routes", `{"routes":[{"host":"stable","weight":100}]}`},
		{"absent", ""},
		{"emptymap", `{}`},
	}
	for _, v := range vals {
		out = append(out, specShape{"f=" + v, `{"f":` + v + `}`})
	}
	out = append(out,
		specShape{"routes-empty", `{"routes":[],"f":{}}`},
		specShape{"rich", `{"f":{"k":[{"j":"s","e":{}},7],"n":null},"routes":[{"host":"stable","weight":100,"headers":{}}],"weight":1,"matches":[],"extra":{"x":1.5}}`},
		specShape{"string-spec", `"just a string"`},
		specShape{"list-spec", `[1,{"a":{}}]`},
	)
	return out
}

// ---- well-behaved script grammar: prelude; spec action; label action; annotation action; return obj.data

type action struct{ name, code string }

var specActions = []action{
	{"copy", ``},
	{"set-weight", `if d.spec == nil then d.spec = {} end
if type(d.spec) == "table" then d.spec.weight = obj.canaryWeight end`},
	{"set-nested", `if type(d.spec) == "table" then d.spec.canary = { service = obj.canaryService, weight = obj.canaryWeight, stable = { service = obj.stableService, weight = obj.stableWeight } } end`},
	{"append-route", `if type(d.spec) == "table" then
  if d.spec.routes == nil then d.spec.routes = {} end
  table.insert(d.spec.routes, { host = obj.canaryService, weight = obj.canaryWeight })
end`},
	{"set-matches", `if type(d.spec) == "table" then d.spec.matches = obj.matches end`},
	{"remove-field", `if type(d.spec) == "table" then d.spec.f = nil end`},
}

var labelActions = []action{
	{"keep", ``},
	{"add", `if d.labels == nil then d.labels = {} end
d.labels["canary"] = "true"`},
	{"drop-all", `d.labels = nil`},
	{"change-user", `if d.labels ~= nil and d.labels["app"] ~= nil then d.labels["app"] = "canary" end`},
	{"empty-table", `d.labels = {}`},
	// STEP-DEPENDENT keys: which keys exist depends on the step, so a later step must remove what an earlier one set
	{"step-keys", `if d.labels == nil then d.labels = {} end
if obj.matches ~= nil and next(obj.matches) ~= nil then d.labels["demo-by-header"] = "true" end
if obj.canaryWeight ~= -1 then d.labels["demo-weight"] = tostring(obj.canaryWeight) end`},
}

var annotationActions = []action{
	{"keep", ``},
	{"add", `if d.annotations == nil then d.annotations = {} end
d.annotations["canary-weight"] = tostring(obj.canaryWeight)`},
	{"drop-all", `d.annotations = nil`},
	{"remove-user", `if d.annotations ~= nil then d.annotations["a"] = nil end`},
	{"step-keys", `if d.annotations == nil then d.annotations = {} end
if obj.matches ~= nil and next(obj.matches) ~= nil then d.annotations["demo/by-header"] = "true" end
if obj.canaryWeight ~= -1 then d.annotations["demo/weight"] = tostring(obj.canaryWeight) end`},
}

type script struct{ name, code string }

func mkScript(s, l, a int) script {
	return script{
		name: specActions[s].name + "/" + labelActions[l].name + "/" + annotationActions[a].name,
		code: "local d = obj.data\n" + specActions[s].code + "\n" + labelActions[l].code + "\n" + annotationActions[a].code + "\nreturn d\n",
	}
}

func cmKey(kind, apiVersion string) string {
	return fmt.Sprintf("%s.%s.%s", configuration.LuaTrafficRoutingCustomTypePrefix, kind, group(apiVersion))
}

// ---- Istio shapes

type ruleShape struct{ name, json_ string }

var vsRules = []ruleShape{
	{"single", `{"route":[{"destination":{"host":"stable"}}]}`},
	{"other", `{"route":[{"destination":{"host":"other"}}],"timeout":"3s"}`},
	{"single100", `{"route":[{"destination":{"host":"stable"},"weight":100}]}`},
	{"own-match", `{"match":[{"uri":{"prefix":"/api"}}],"route":[{"destination":{"host":"stable"}}]}`},
	{"two-subsets", `{"route":[{"destination":{"host":"stable","subset":"v1"},"weight":70},{"destination":{"host":"stable","subset":"v2"},"weight":30}]}`},
	{"fqdn", `{"name":"primary","route":[{"destination":{"host":"stable.demo.svc.cluster.local","port":{"number":80}},"weight":100}],"timeout":"5s"}`},
	{"stable+other", `{"route":[{"destination":{"host":"stable"},"weight":80},{"destination":{"host":"other"},"weight":20}]}`},
	{"other-empties", `{"route":[{"destination":{"host":"other"},"headers":{}}],"retries":{}}`},
	{"other-own-match", `{"match":[{"headers":{"x":{"exact":"1"}}}],"route":[{"destination":{"host":"other"}}]}`},
	{"prefix-host", `{"route":[{"destination":{"host":"stable-v2"}}]}`},
	{"single50", `{"route":[{"destination":{"host":"stable"},"weight":50}]}`},
	{"other-namespace", `{"route":[{"destination":{"host":"stable.prod.svc.cluster.local"}}]}`},
	{"redirect-only", `{"redirect":{"uri":"/x"}}`},
}

func vsSpecs(th bool) []specShape {
	var out []specShape
	httpOf := func(idx ...int) specShape {
		var names, js []string
		for _, i := range idx {
			names = append(names, vsRules[i].name)
			js = append(js, vsRules[i].json_)
		}
		return specShape{"http=" + strings.Join(names, ","), `{"hosts":["demo.example.com"],"http":[` + strings.Join(js, ",") + `]}`}
	}
	for i := range vsRules {
		out = append(out, httpOf(i))
	}
	pairAlpha := 5
	if th {
		pairAlpha = len(vsRules)
	}
	for i := 0; i < pairAlpha; i++ {
		for j := 0; j < pairAlpha; j++ {
			out = append(out, httpOf(i, j))
		}
	}
	if th {
		for i := 0; i < 4; i++ {
			for j := 0; j < 4; j++ {
				for k := 0; k < 4; k++ {
					out = append(out, httpOf(i, j, k))
				}
			}
		}
	}
	out = append(out,
		specShape{"tcp-only", `{"hosts":["db"],"tcp":[{"route":[{"destination":{"host":"stable","port":{"number":3306}}}]}]}`},
		specShape{"http+tcp-other", `{"hosts":["x"],"http":[` + vsRules[0].json_ + `],"tcp":[{"match":[{"port":27017}],"route":[{"destination":{"host":"other"}}]}]}`},
		specShape{"http+tls", `{"hosts":["x"],"http":[` + vsRules[0].json_ + `],"tls":[{"match":[{"sniHosts":["x"]}],"route":[{"destination":{"host":"stable"}}]}]}`},
		specShape{"http-empty-list", `{"hosts":["x"],"http":[]}`},
		specShape{"no-routes", `{"hosts":["x"]}`},
		specShape{"top-level-empties", `{"hosts":["x"],"gateways":[],"exportTo":[],"http":[` + vsRules[0].json_ + `]}`},
		specShape{"tcp-stable+tcp-other", `{"hosts":["x"],"tcp":[{"route":[{"destination":{"host":"stable"},"weight":100}]},{"route":[{"destination":{"host":"other"}}]}]}`},
	)
	return out
}

var drSpecs = []specShape{
	{"dr-basic", `{"host":"stable","subsets":[{"name":"v1","labels":{"version":"v1"}}]}`},
	{"dr-empty-subsets", `{"host":"stable","subsets":[]}`},
	{"dr-policy", `{"host":"stable","trafficPolicy":{"loadBalancer":{"simple":"ROUND_ROBIN"},"tls":{}},"subsets":[{"name":"base","labels":{}}]}`},
	{"dr-no-subsets", `{"host":"stable"}`},
}

func hdrMatch(name, val string, t gatewayv1beta1.HeaderMatchType) gatewayv1beta1.HTTPHeaderMatch {
	return gatewayv1beta1.HTTPHeaderMatch{Type: &t, Name: gatewayv1beta1.HTTPHeaderName(name), Value: val}
}

func sp(s string) *string { return &s }

// strategies, simplest first
func strategies() []v1beta1.TrafficRoutingStrategy {
	pp := gatewayv1beta1.PathMatchPathPrefix
	qt := gatewayv1beta1.QueryParamMatchExact
	return []v1beta1.TrafficRoutingStrategy{
		{Traffic: sp("20%")},
		{Matches: []v1beta1.HttpRouteMatch{{Headers: []gatewayv1beta1.HTTPHeaderMatch{hdrMatch("user-agent", "pc", gatewayv1beta1.HeaderMatchExact)}}}},
		{Traffic: sp("100%")},
		{},
		{Traffic: sp("0%")},
		{Traffic: sp("50%"), Matches: []v1beta1.HttpRouteMatch{{Headers: []gatewayv1beta1.HTTPHeaderMatch{hdrMatch("x-user", "^a.*", gatewayv1beta1.HeaderMatchRegularExpression)}}},
			RequestHeaderModifier: &gatewayv1beta1.HTTPHeaderFilter{Set: []gatewayv1beta1.HTTPHeader{{Name: "x-env", Value: "canary"}}, Remove: []string{"x-old"}}},
		{Traffic: sp("50%")},
		{Matches: []v1beta1.HttpRouteMatch{
			{Headers: []gatewayv1beta1.HTTPHeaderMatch{hdrMatch("a", "1", gatewayv1beta1.HeaderMatchExact), hdrMatch("b", "2", gatewayv1beta1.HeaderMatchExact)}},
			{Path: &gatewayv1beta1.HTTPPathMatch{Type: &pp, Value: sp("/v2")}, QueryParams: []gatewayv1beta1.HTTPQueryParamMatch{{Type: &qt, Name: "q", Value: "1"}}},
		}},
	}
}

// ---------------------------------------------------------------------------------------------------
// worlds

func vsRef(name string) v1beta1.ObjectRef {
	return v1beta1.ObjectRef{APIVersion: istioAV, Kind: "VirtualService", Name: name}
}
func drRef(name string) v1beta1.ObjectRef {
	return v1beta1.ObjectRef{APIVersion: istioAV, Kind: "DestinationRule", Name: name}
}

func istioWorlds(th bool) []*World {
	var out []*World
	specs := vsSpecs(th)
	nSingles := len(vsRules)
	type mm struct{ l, a int }
	diag := []mm{{0, 0}, {1, 1}, {2, 2}}
	var full []mm
	for l := 0; l < 3; l++ {
		for a := 0; a < 3; a++ {
			full = append(full, mm{l, a})
		}
	}
	full = append(full, mm{3, 3})
	vs2 := specShape{"vs2", `{"hosts":["second"],"http":[` + vsRules[1].json_ + `,` + vsRules[0].json_ + `]}`}
	for si, spc := range specs {
		// single-rule and tcp/tls/empty specs get every diagonal meta mode (thorough: singles get all 10 meta modes);
		// the multi-rule http lists get one meta mode each (rotating) in quick, the diagonal in thorough
		multi := strings.HasPrefix(spc.name, "http=") && strings.Contains(spc.name, ",")
		metas := diag
		switch {
		case th && si < nSingles:
			metas = full
		case !th && multi:
			metas = diag[si%3 : si%3+1]
		}
		for mi, m := range metas {
			lab, ann := labelModes[m.l], annotationModes[m.a]
			vs := func() map[string]interface{} { return mkObject(istioAV, "VirtualService", "vs", lab, ann, spc) }
			id := func(mode string) string {
				return fmt.Sprintf("istio/%s/labels=%s/annotations=%s/%s", spc.name, lab.name, ann.name, mode)
			}
			// [VS], distinct canary service
			out = append(out, &World{ID: id("vs"), Objects: []map[string]interface{}{vs()}, Refs: []v1beta1.ObjectRef{vsRef("vs")}, Stable: stableSvc, Canary: canarySvc})
			// [VS, DR], subset mode (canary service == stable service)
			out = append(out, &World{ID: id("vs+dr-basic/subset-mode"), Objects: []map[string]interface{}{vs(), mkObject(istioAV, "DestinationRule", "dr", lab, ann, drSpecs[0])},
				Refs: []v1beta1.ObjectRef{vsRef("vs"), drRef("dr")}, Stable: stableSvc, Canary: stableSvc})
			// the other ref sets: first six single-rule specs (thorough: all single-rule specs), one meta mode (thorough: diagonal)
			if th && (si >= nSingles || m.l != m.a || m.l == 3) {
				continue
			}
			if !th && (si >= 6 || mi != si%3) {
				continue
			}
			for _, d := range drSpecs[1:] {
				out = append(out, &World{ID: id("vs+" + d.name + "/subset-mode"), Objects: []map[string]interface{}{vs(), mkObject(istioAV, "DestinationRule", "dr", labelModes[(m.l+1)%3], annotationModes[(m.a+2)%3], d)},
					Refs: []v1beta1.ObjectRef{vsRef("vs"), drRef("dr")}, Stable: stableSvc, Canary: stableSvc})
			}
			out = append(out, &World{ID: id("vs+vs2"), Objects: []map[string]interface{}{vs(), mkObject(istioAV, "VirtualService", "vs2", labelModes[2], annotationModes[0], vs2)},
				Refs: []v1beta1.ObjectRef{vsRef("vs"), vsRef("vs2")}, Stable: stableSvc, Canary: canarySvc})
			out = append(out, &World{ID: id("vs+missing-dr"), Objects: []map[string]interface{}{vs()},
				Refs: []v1beta1.ObjectRef{vsRef("vs"), drRef("nope")}, Stable: stableSvc, Canary: stableSvc})
			out = append(out, &World{ID: id("missing-dr+vs"), Objects: []map[string]interface{}{vs()},
				Refs: []v1beta1.ObjectRef{drRef("nope"), vsRef("vs")}, Stable: stableSvc, Canary: stableSvc})
			out = append(out, &World{ID: id("dr-basic+vs"), Objects: []map[string]interface{}{mkObject(istioAV, "DestinationRule", "dr", lab, ann, drSpecs[0]), vs()},
				Refs: []v1beta1.ObjectRef{drRef("dr"), vsRef("vs")}, Stable: stableSvc, Canary: stableSvc})
		}
	}
	return out
}

func widgetRef(name string) v1beta1.ObjectRef {
	return v1beta1.ObjectRef{APIVersion: genericAV, Kind: "Widget", Name: name}
}

func genericWorlds(th bool) []*World {
	var out []*World
	specs := genericSpecs()
	one := func(spc specShape, l, a int, sc script) *World {
		return &World{
			ID:      fmt.Sprintf("generic/spec=%s/labels=%s/annotations=%s/script=%s", spc.name, labelModes[l].name, annotationModes[a].name, sc.name),
			Objects: []map[string]interface{}{mkObject(genericAV, "Widget", "w1", labelModes[l], annotationModes[a], spc)},
			Scripts: map[string]string{cmKey("Widget", genericAV): sc.code},
			Refs:    []v1beta1.ObjectRef{widgetRef("w1")}, Stable: stableSvc, Canary: canarySvc,
		}
	}
	seen := map[string]bool{}
	add := func(w *World) {
		if !seen[w.ID] {
			seen[w.ID] = true
			out = append(out, w)
		}
	}
	if th {
		// every script of the grammar × (first three spec shapes × 10 meta modes (3×3 + clash/clash)  ∪  every other spec shape × one
		// diagonal meta mode, rotating): label / annotation actions do not look at the spec, spec actions not at metadata
		for si, spc := range specs {
			for l := range labelModes {
				for a := range annotationModes {
					if si >= 3 && (l != a || l != si%3) {
						continue
					}
					if (l == 3) != (a == 3) {
						continue // the "clash" modes only together
					}
					for s := range specActions {
						for la := range labelActions {
							for aa := range annotationActions {
								if labelActions[la].name == "empty-table" && (s != 0 || aa != 0) {
									continue // same JSON as drop-all after the bridge: only on its own
								}
								add(one(spc, l, a, mkScript(s, la, aa)))
							}
						}
					}
				}
			}
		}
	} else {
		// (A) every spec shape × every spec action, meta mode rotating over the diagonal (spec actions do not look at metadata)
		for si, spc := range specs {
			for s := range specActions {
				m := (si + s) % 3
				add(one(spc, m, m, mkScript(s, 0, 0)))
			}
		}
		// (B) first three spec shapes × every label mode × every annotation mode × label/annotation actions (one at a time + two combinations)
		var scripts []script
		for la := 1; la < len(labelActions); la++ {
			scripts = append(scripts, mkScript(0, la, 0))
		}
		for aa := 1; aa < len(annotationActions); aa++ {
			scripts = append(scripts, mkScript(0, 0, aa))
		}
		scripts = append(scripts, mkScript(3, 1, 1), mkScript(1, 2, 2), mkScript(1, 5, 4))
		for _, spc := range specs[:3] {
			for l := range labelModes {
				for a := range annotationModes {
					for _, sc := range scripts {
						add(one(spc, l, a, sc))
					}
				}
			}
		}
	}
	// (C) two refs: same kind (one script, two differently shaped objects) and two kinds (two scripts)
	multiSpecs := specs[:3]
	multiScripts := []script{mkScript(0, 0, 0), mkScript(3, 1, 1), mkScript(1, 2, 2), mkScript(5, 3, 3), mkScript(0, 5, 4)}
	if th {
		multiSpecs = specs
		multiScripts = nil
		for s := range specActions {
			multiScripts = append(multiScripts, mkScript(s, s%len(labelActions), s%len(annotationActions)))
		}
	}
	rich := specs[len(specs)-3]
	for _, spc := range multiSpecs {
		for m := 0; m < 3; m++ {
			for _, sc := range multiScripts {
				add(&World{
					ID: fmt.Sprintf("generic2/same-kind/spec=%s/meta=%d/script=%s", spc.name, m, sc.name),
					Objects: []map[string]interface{}{
						mkObject(genericAV, "Widget", "w1", labelModes[m], annotationModes[m], spc),
						mkObject(genericAV, "Widget", "w2", labelModes[(m+1)%3], annotationModes[(m+2)%3], rich)},
					Scripts: map[string]string{cmKey("Widget", genericAV): sc.code},
					Refs:    []v1beta1.ObjectRef{widgetRef("w1"), widgetRef("w2")}, Stable: stableSvc, Canary: canarySvc,
				})
				add(&World{
					ID:      fmt.Sprintf("generic2/missing-first/spec=%s/meta=%d/script=%s", spc.name, m, sc.name),
					Objects: []map[string]interface{}{mkObject(genericAV, "Widget", "w1", labelModes[m], annotationModes[m], spc)},
					Scripts: map[string]string{cmKey("Widget", genericAV): sc.code},
					Refs:    []v1beta1.ObjectRef{widgetRef("nope"), widgetRef("w1")}, Stable: stableSvc, Canary: canarySvc,
				})
				add(&World{
					ID: fmt.Sprintf("generic2/two-kinds/spec=%s/meta=%d/script=%s", spc.name, m, sc.name),
					Objects: []map[string]interface{}{
						mkObject(genericAV, "Widget", "w1", labelModes[m], annotationModes[m], spc),
						mkObject("other.example.io/v2", "Gadget", "g1", labelModes[(m+2)%3], annotationModes[(m+1)%3], rich)},
					Scripts: map[string]string{cmKey("Widget", genericAV): sc.code, cmKey("Gadget", "other.example.io/v2"): mkScript(3, 1, 1).code},
					Refs:    []v1beta1.ObjectRef{widgetRef("w1"), {APIVersion: "other.example.io/v2", Kind: "Gadget", Name: "g1"}}, Stable: stableSvc, Canary: canarySvc,
				})
			}
		}
	}
	return out
}

// sequences enumerates all sequences over [0,n) of length 1..maxLen, shortest first (plus the empty one).
func sequences(n, maxLen int) [][]int {
	out := [][]int{{}}
	level := [][]int{{}}
	for l := 1; l <= maxLen; l++ {
		var next [][]int
		for _, p := range level {
			for i := 0; i < n; i++ {
				q := append(append([]int{}, p...), i)
				next = append(next, q)
			}
		}
		out = append(out, next...)
		level = next
	}
	return out
}

// ---------------------------------------------------------------------------------------------------
// Run

func Run(r *lib.Report) {
	th := r.Thorough()
	// every provider call builds a fresh Lua VM (large, short-lived allocations) while the live heap is tiny: with the
	// default pacing the collector runs thousands of cycles per second and the workers spend their time in
	// stop-the-world hand-shakes. A never-touched 1 GiB ballast (address space only) spaces the cycles out.
	ballast := make([]byte, 1<<30)
	defer goruntime.KeepAlive(ballast)
	all := strategies()
	// sequence alphabets = prefixes of strategies(); the single-call oracles (reference, Istio split / untouched,
	// fixed point) are evaluated for ALL strategies in every world
	nIstio, nGeneric, maxLen := 4, 4, 3
	if th {
		nIstio = 6 // generic scripts see a weight as just a number: the thorough tier widens the worlds instead
	}
	budget := 240 * time.Second
	if th {
		budget = 14 * time.Minute
	}
	if v, err := strconv.Atoi(os.Getenv("VERIF_C15_DEADLINE_S")); err == nil && v > 0 {
		budget = time.Duration(v) * time.Second
	}
	deadline := time.Now().Add(budget)
	r.Rule = "worlds = (Istio VirtualService specs built from a 13-rule alphabet [all singles, ordered pairs, thorough: triples] + tcp/tls/empty variants) × " +
		"label/annotation modes (absent/empty/set/clash) × ref sets ([VS]; [VS,DR×4 shapes] in subset mode; [VS,VS2]; [VS,missing]; [missing,VS]; [DR,VS]) with the built-in scripts, " +
		"plus generic Widget objects from a nested-spec generator (scalars incl. null/big int, empty maps/lists, depth<=3, absent/non-map spec) × meta modes × " +
		"every script of the grammar {6 spec actions}×{6 label actions}×{5 annotation actions} (incl. actions writing STEP-DEPENDENT label/annotation keys) (quick: one action dimension at a time + combinations) delivered through the ConfigMap, 1-2 refs. " +
		"Per world: each of the 8 strategies alone (reference state, Istio oracles, C07-O3 fixed point), then EVERY sequence of length 0..3 over the first 4 (thorough, Istio worlds: 6) strategies " +
		"(one real EnsureRoutes call per element) followed by Finalise twice, " +
		"for sequences of length 1..2 the same again with the last strategy iterated to its fixed point before Finalise, " +
		"for sequences of length 1 the same again as two consecutive cycles (history, Finalise, history, Finalise) on one store, " +
		"and in multi-ref worlds, for sequences of length 1..2 and every existing ref, the same with that ref DELETED BY THE USER before Finalise (thorough: also between the two steps). " +
		"In multi-ref worlds additionally FAULT ENUMERATION: for every strategy of the sequence alphabet (thorough: also after every one-step prefix) the number of writes W of the EnsureRoutes call and of the following Finalise is learned from an undisturbed run, " +
		"then for every k in 1..W and both fault kinds (k-th write returns an API error / call abandoned after the k-th write) the call is disturbed and retried without faults. " +
		"evaluation = one (world, sequence, variant) or one (world, history, fault point); non-trivial = the provider wrote to the store during the history; distinct = distinct (world, sequence, variant)"
	r.Assumptions = []string{
		"labels/annotations: an empty map and an absent map are the same configuration (API server semantics) and compare equal",
		"a top-level `spec: null` and an absent spec compare equal (the API server prunes null for non-nullable fields); inside the spec the restore oracle is exact (canonical JSON, int64 preserved)",
		"statelessness reference = the objects after ONE EnsureRoutes(s) call on the untouched store; compared after every successful call of a history; when the call fails only the fact of failing is compared",
		"the object the user had = the object as read back from the store right after creation; objects that already carry the snapshot annotation (left-overs of an interrupted rollout) are outside the domain",
		"Istio split oracle is judged on rules WITHOUT their own `match` whose only destination is the stable Service, for steps with traffic and without matches (API: matches take precedence); rules with their own match are left alone by the script's documented design and are only observed",
		"Istio 'other host' = no destination of the rule denotes the stable Service of the rollout namespace (short name, name.ns, name.ns.svc[.cluster.local]); 'untouched' is compared modulo {} == [] == null == absent because the Lua bridge cannot represent empty collections",
		"the same object is never referenced twice in one ref list",
		"fault model: an injected write error stores nothing; 'crash after write k' = every API call of that invocation after the k-th successful write fails (no further effect on the store); retries are fault-free; EnsureRoutes is retried until it reports done (at most 4 calls), Finalise until it reports nothing-to-do (at most 3 calls); expected result = the undisturbed one (objects after one undisturbed EnsureRoutes / the user's objects)",
		"a ref deleted by the user during the history is not judged itself; after the deletion EnsureRoutes calls are only observed (the untouched-store reference no longer applies); every remaining ref must be restored exactly by Finalise (signatures end in /other-ref-deleted)",
		"fake client = controller-runtime v0.14.6 fake with unstructured objects (no admission, no pruning)",
		"the Lua VM's 1 s deadline is real time; no script of this domain loops, so a `context deadline exceeded` is machine overload: the case is re-executed (4 tries) and otherwise reported as not judged (exhaustive=false), never as a verdict",
	}
	r.TrustedBase = []string{"controller-runtime fake client (unstructured tracker)", "hostIsStable / normEmpty reference helpers in c15.go"}

	iw := istioWorlds(th)
	gw := genericWorlds(th)
	type job struct {
		w    *World
		nStr int
	}
	var jobs []job
	// interleave so that the simplest worlds of both families come first
	for i := 0; i < len(iw) || i < len(gw); i++ {
		if i < len(gw) {
			jobs = append(jobs, job{gw[i], nGeneric})
		}
		if i < len(iw) {
			jobs = append(jobs, job{iw[i], nIstio})
		}
	}
	seqI := sequences(nIstio, maxLen)
	seqG := sequences(nGeneric, maxLen)
	r.Extra["worlds_istio"] = len(iw)
	r.Extra["worlds_generic"] = len(gw)
	r.Extra["strategies_istio"] = nIstio
	r.Extra["strategies_generic"] = nGeneric
	r.Extra["sequences_per_istio_world"] = len(seqI)
	r.Extra["sequences_per_generic_world"] = len(seqG)
	r.Extra["max_history_length"] = maxLen

	var calls, evals, skipped, starved, faultCases int64
	runners := make([]*runner, len(jobs))
	type variant struct {
		conv   bool
		cycles int
		del    *DeleteOp
	}
	lib.ParallelFor(len(jobs), func(j int) {
		w := jobs[j].w
		seqs := seqG
		if strings.HasPrefix(w.ID, "istio/") {
			seqs = seqI
		}
		if time.Now().After(deadline) {
			if atomic.AddInt64(&skipped, 1) == 1 {
				r.NotExhaustive(fmt.Sprintf("wall-clock budget of %s used up; remaining worlds skipped", budget))
			}
			return
		}
		rn, err := newRunner(r, w, noTrace)
		if err != nil {
			r.Violate("C15/harness/new-controller", err.Error(), w)
			return
		}
		rn.buffered = true
		runners[j] = rn
		var n int64
		// attempt re-executes a case whose run was disturbed by the Lua VM's real-time deadline (machine overload)
		attempt := func(f func()) {
			for try := 0; try < 4; try++ {
				rn.timedOut = false
				f()
				if !rn.timedOut {
					return
				}
			}
			rn.timedOut = false
			if atomic.AddInt64(&starved, 1) == 1 {
				r.NotExhaustive("the Lua VM's 1 s real-time deadline fired repeatedly (overloaded machine); those cases were not judged")
			}
		}
		for i := range all {
			s := &all[i]
			attempt(func() {
				if p := lib.Catch(func() { rn.ref(s) }); p != nil {
					r.Violate("C15/harness/panic-in-check", p.Value+"\n"+firstStack(p.Stack), rn.mkCase(all[i:i+1], false, true))
				}
			})
		}
		for _, sq := range seqs {
			ops := make([]v1beta1.TrafficRoutingStrategy, len(sq))
			for k, i := range sq {
				ops[k] = all[i]
			}
			variants := []variant{{false, 1, nil}}
			if len(sq) == 1 || len(sq) == 2 {
				variants = append(variants, variant{true, 1, nil})
			}
			if len(sq) == 1 {
				variants = append(variants, variant{false, 2, nil})
			}
			// the user deletes one (existing) ref of a multi-ref world: right before Finalise for histories of length
			// 1..2, thorough also between the two steps of a length-2 history
			if len(w.Refs) > 1 && (len(sq) == 1 || len(sq) == 2) {
				for ri := range w.Refs {
					if !rn.orig[ri].Exists {
						continue
					}
					variants = append(variants, variant{false, 1, &DeleteOp{Ref: ri, AfterOp: len(sq)}})
					if th && len(sq) == 2 {
						variants = append(variants, variant{false, 1, &DeleteOp{Ref: ri, AfterOp: 1}})
					}
				}
			}
			for _, v := range variants {
				var wrote bool
				attempt(func() {
					if p := lib.Catch(func() { wrote = rn.runHistory(ops, v.conv, v.cycles, v.del) }); p != nil {
						c := rn.mkCaseN(ops, v.conv, false, v.cycles)
						c.Delete = v.del
						r.Violate("C15/harness/panic-in-check", p.Value+"\n"+firstStack(p.Stack), c)
					}
				})
				n++
				if wrote {
					r.Nontrivial(fmt.Sprintf("%s|%v|%v|%d|%s", w.ID, sq, v.conv, v.cycles, lib.J(v.del)))
				}
			}
		}
		// fault enumeration in multi-ref worlds: every write of the (last) EnsureRoutes and of the Finalise after it
		// fails / is the last one before a crash; then the call is retried without faults
		if len(w.Refs) > 1 {
			nSeq := nGeneric
			if strings.HasPrefix(w.ID, "istio/") {
				nSeq = nIstio
			}
			for i := 0; i < nSeq; i++ {
				histories := [][]v1beta1.TrafficRoutingStrategy{{all[i]}}
				if th {
					for p := 0; p < nSeq; p++ {
						histories = append(histories, []v1beta1.TrafficRoutingStrategy{all[p], all[i]})
					}
				}
				for _, ops := range histories {
					var cnt int64
					attempt(func() {
						cnt = 0
						if p := lib.Catch(func() {
							rn.faultEnum(ops, func(f FaultOp, fired bool) {
								cnt++
								if fired {
									r.Nontrivial(fmt.Sprintf("%s|%s|fault|%s", w.ID, opsName(ops), lib.J(f)))
								}
							})
						}); p != nil {
							r.Violate("C15/harness/panic-in-check", p.Value+"\n"+firstStack(p.Stack), rn.mkCase(ops, false, false))
						}
					})
					n += cnt
					atomic.AddInt64(&faultCases, cnt)
				}
			}
		}
		r.AddEval(n)
		atomic.AddInt64(&evals, n)
		atomic.AddInt64(&calls, rn.calls)
		rn.refs, rn.orig = nil, nil // only the buffered violations are needed after the job
		if j == 1 || j == len(jobs)/2 || j == len(jobs)-1 {
			r.Sample(map[string]interface{}{"world": w.ID, "objects": w.Objects, "refs": w.Refs, "histories": len(seqs)})
		}
	})
	// flush in world order (simplest first): the witness kept per signature does not depend on scheduling
	for _, rn := range runners {
		if rn != nil {
			rn.flush()
		}
	}
	r.Extra["provider_calls"] = calls
	r.Extra["worlds_skipped_by_deadline"] = skipped
	r.Extra["fault_cases"] = faultCases
	r.Extra["cases_not_judged_lua_deadline_under_load"] = starved
	if evals == 0 {
		r.Warn("no case executed")
	}
}

// ---------------------------------------------------------------------------------------------------
// Replay

// Replay re-executes one recorded case, printing every step and the verdict.
func Replay(r *lib.Report, raw json.RawMessage) {
	var c Case
	// k8s json keeps integers as int64 (the big-int witness must survive the replay file)
	var generic map[string]interface{}
	if err := utiljson.Unmarshal(raw, &generic); err != nil {
		fmt.Println("cannot parse replay:", err)
		return
	}
	if err := json.Unmarshal(raw, &c); err != nil {
		fmt.Println("cannot parse replay:", err)
		return
	}
	if wm, ok := generic["world"].(map[string]interface{}); ok {
		if objs, ok := wm["objects"].([]interface{}); ok {
			c.World.Objects = nil
			for _, o := range objs {
				c.World.Objects = append(c.World.Objects, o.(map[string]interface{}))
			}
		}
	}
	fmt.Printf("world %s\n refs=%s stable=%s canary=%s\n", c.World.ID, lib.J(c.World.Refs), c.World.Stable, c.World.Canary)
	for _, o := range c.World.Objects {
		fmt.Printf(" object %s\n", lib.J(o))
	}
	for k, v := range c.World.Scripts {
		fmt.Printf(" script %s:\n   %s\n", k, strings.ReplaceAll(v, "\n", "\n   "))
	}
	found := false
	trace := func(f string, a ...interface{}) {
		s := fmt.Sprintf(f, a...)
		if strings.Contains(s, "VERDICT violation") {
			found = true
		}
		fmt.Println(s)
	}
	rn, err := newRunner(r, &c.World, trace)
	if err != nil {
		fmt.Println("cannot build the provider:", err)
		return
	}
	fmt.Println("original objects:")
	rn.traceViews(rn.orig)
	if c.Fault != nil {
		if p := lib.Catch(func() { rn.runFaultCase(c.Ops, *c.Fault) }); p != nil {
			fmt.Println("check panicked:", p.Value)
		}
	} else if c.FixpointOnly {
		for i := range c.Ops {
			rn.ref(&c.Ops[i])
		}
	} else {
		if p := lib.Catch(func() { rn.runHistory(c.Ops, c.Converge, c.Cycles, c.Delete) }); p != nil {
			fmt.Println("check panicked:", p.Value)
		}
	}
	if !found {
		fmt.Println("VERDICT no violation")
	}
}
