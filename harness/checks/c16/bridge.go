package c16

import (
	"encoding/json"
	"fmt"
	"reflect"
	"sort"

	"verifharness/lib"
)

// ---------------------------------------------------------------------------------------------
// Value bridge: every JSON-like value of a bounded domain goes
//     Go value -> decodeValue (RunLuaScript) -> script identity -> Encode/MarshalJSON -> json.Unmarshal
// and must come back equal modulo the documented losses.
// ---------------------------------------------------------------------------------------------

// domain is a finite set of values addressed by index (nothing is materialised beyond the base).
type domain struct {
	n  int
	at func(i int) interface{}
}

var bridgeKeys = [2]string{"a", "1"} // a plain key and a numeric-looking one

// containersOver: lists of width 0..2 and maps over the key subsets {}, {a}, {1}, {a,1}, elements from base.
func containersOver(base []interface{}) domain {
	b := len(base)
	nl := 1 + b + b*b
	nm := 1 + 2*b + b*b
	return domain{n: nl + nm, at: func(i int) interface{} {
		if i < nl {
			switch {
			case i == 0:
				return []interface{}{}
			case i < 1+b:
				return []interface{}{base[i-1]}
			default:
				j := i - 1 - b
				return []interface{}{base[j/b], base[j%b]}
			}
		}
		i -= nl
		switch {
		case i == 0:
			return map[string]interface{}{}
		case i < 1+b:
			return map[string]interface{}{bridgeKeys[0]: base[i-1]}
		case i < 1+2*b:
			return map[string]interface{}{bridgeKeys[1]: base[i-1-b]}
		default:
			j := i - 1 - 2*b
			return map[string]interface{}{bridgeKeys[0]: base[j/b], bridgeKeys[1]: base[j%b]}
		}
	}}
}

// valuesUpTo materialises scalars ∪ containers(depth-1) for depth >= 0 (depth 0 = scalars only).
func valuesUpTo(scalars []interface{}, depth int) []interface{} {
	cur := append([]interface{}{}, scalars...)
	for d := 0; d < depth; d++ {
		dom := containersOver(cur)
		next := append([]interface{}{}, scalars...)
		for i := 0; i < dom.n; i++ {
			next = append(next, dom.at(i))
		}
		cur = next
	}
	return cur
}

// bridgeDomain = scalars ∪ containers over valuesUpTo(scalars, depth-1), without materialising the top level.
func bridgeDomain(scalars []interface{}, depth int) domain {
	base := valuesUpTo(scalars, depth-1)
	top := containersOver(base)
	ns := len(scalars)
	return domain{n: ns + top.n, at: func(i int) interface{} {
		if i < ns {
			return scalars[i]
		}
		return top.at(i - ns)
	}}
}

// canon implements the documented losses and nothing else:
//   - int / float unification: every number is compared as float64
//   - empty table -> null: an empty list / map is nil; a map entry whose value is nil is the same as
//     an absent entry (Lua tables cannot hold nil; JSON null field == absent field for the API server)
func canon(v interface{}) interface{} {
	switch x := v.(type) {
	case nil:
		return nil
	case bool, string:
		return x
	case int64:
		return float64(x)
	case int:
		return float64(x)
	case int32:
		return float64(x)
	case float64:
		return x
	case []interface{}:
		if len(x) == 0 {
			return nil
		}
		out := make([]interface{}, len(x))
		for i, e := range x {
			out[i] = canon(e)
		}
		return out
	case map[string]interface{}:
		out := map[string]interface{}{}
		for k, e := range x {
			if c := canon(e); c != nil {
				out[k] = c
			}
		}
		if len(out) == 0 {
			return nil
		}
		return out
	}
	return fmt.Sprintf("<%T>", v)
}

// listHasNil: some list inside v has a nil element (after canon if canonFirst).
func listHasNil(v interface{}) bool {
	switch x := v.(type) {
	case []interface{}:
		for _, e := range x {
			if e == nil || listHasNil(e) {
				return true
			}
		}
	case map[string]interface{}:
		for _, e := range x {
			if listHasNil(e) {
				return true
			}
		}
	}
	return false
}

func typeName(v interface{}) string {
	switch v.(type) {
	case nil:
		return "null"
	case bool:
		return "bool"
	case float64:
		return "number"
	case string:
		return "string"
	case []interface{}:
		return "list"
	case map[string]interface{}:
		return "map"
	}
	return fmt.Sprintf("%T", v)
}

// firstDiff returns a structural description of the first difference (expected vs actual), breadth first.
func firstDiff(exp, act interface{}) string {
	type pair struct{ e, a interface{} }
	q := []pair{{exp, act}}
	for len(q) > 0 {
		p := q[0]
		q = q[1:]
		te, ta := typeName(p.e), typeName(p.a)
		if te != ta {
			return te + "->" + ta
		}
		switch e := p.e.(type) {
		case []interface{}:
			a := p.a.([]interface{})
			if len(e) != len(a) {
				return "list-length"
			}
			for i := range e {
				q = append(q, pair{e[i], a[i]})
			}
		case map[string]interface{}:
			a := p.a.(map[string]interface{})
			keys := map[string]bool{}
			for k := range e {
				keys[k] = true
			}
			for k := range a {
				keys[k] = true
			}
			ks := make([]string, 0, len(keys))
			for k := range keys {
				ks = append(ks, k)
			}
			sort.Strings(ks)
			for _, k := range ks {
				ev, eok := e[k]
				av, aok := a[k]
				if eok != aok {
					if eok {
						return "map-key-lost"
					}
					return "map-key-invented"
				}
				q = append(q, pair{ev, av})
			}
		default:
			if !reflect.DeepEqual(p.e, p.a) {
				return te + "-value"
			}
		}
	}
	return ""
}

// tagged JSON form of a value (keeps int64 vs float64), used in replay files.
func tagValue(v interface{}) interface{} {
	switch x := v.(type) {
	case nil:
		return nil
	case bool:
		return map[string]interface{}{"b": x}
	case int64:
		return map[string]interface{}{"i": x}
	case float64:
		return map[string]interface{}{"f": x}
	case string:
		return map[string]interface{}{"s": x}
	case []interface{}:
		out := make([]interface{}, len(x))
		for i, e := range x {
			out[i] = tagValue(e)
		}
		return map[string]interface{}{"l": out}
	case map[string]interface{}:
		out := map[string]interface{}{}
		for k, e := range x {
			out[k] = tagValue(e)
		}
		return map[string]interface{}{"m": out}
	}
	return map[string]interface{}{"s": fmt.Sprintf("<%T>", v)}
}

func untagValue(raw json.RawMessage) (interface{}, error) {
	if len(raw) == 0 || string(raw) == "null" {
		return nil, nil
	}
	var m map[string]json.RawMessage
	if err := json.Unmarshal(raw, &m); err != nil {
		return nil, err
	}
	for k, v := range m {
		switch k {
		case "b":
			var b bool
			return b, json.Unmarshal(v, &b)
		case "i":
			var i int64
			err := json.Unmarshal(v, &i)
			return i, err
		case "f":
			var f float64
			err := json.Unmarshal(v, &f)
			return f, err
		case "s":
			var s string
			err := json.Unmarshal(v, &s)
			return s, err
		case "l":
			var l []json.RawMessage
			if err := json.Unmarshal(v, &l); err != nil {
				return nil, err
			}
			out := make([]interface{}, len(l))
			for i, e := range l {
				x, err := untagValue(e)
				if err != nil {
					return nil, err
				}
				out[i] = x
			}
			return out, nil
		case "m":
			var mm map[string]json.RawMessage
			if err := json.Unmarshal(v, &mm); err != nil {
				return nil, err
			}
			out := map[string]interface{}{}
			for kk, e := range mm {
				x, err := untagValue(e)
				if err != nil {
					return nil, err
				}
				out[kk] = x
			}
			return out, nil
		}
	}
	return nil, fmt.Errorf("bad tagged value %s", string(raw))
}

type bridgeVariant struct {
	Name   string
	Script string
}

var bridgeVariants = []bridgeVariant{
	// decodeValue (lua.go) -> identity -> Encode / MarshalJSON (json.go)
	{"identity", `return obj`},
	// additionally json.encode / json.decode inside the VM: jsonEncode, Decode, DecodeValue (json.go)
	{"json-roundtrip", `return json.decode(json.encode(obj))`},
}

type bridgeVerdict struct {
	Class    string // outcome class
	Sig      string // violation signature ("" = none)
	Detail   string
	Nontrivi bool
}

// bridgeCase pushes one value through one variant and judges it.
func bridgeCase(v interface{}, variant bridgeVariant, trace func(string, ...interface{})) bridgeVerdict {
	obj := map[string]interface{}{"v": v}
	res := callSite(obj, variant.Script, true)
	expected := canon(obj)
	if trace != nil {
		trace("input object      : %s", lib.J(obj))
		trace("script            : %s", variant.Script)
		trace("call-site result  : kind=%s type=%s err=%q enc=%s (%.2f ms)", res.Kind, res.RetType, res.Err, res.Enc, res.ElapsedMs)
		trace("expected (canon)  : %s", lib.J(expected))
	}
	pre := "bridge/" + variant.Name + "/"
	if res.Panic != nil {
		return bridgeVerdict{Class: pre + "panic", Sig: "C16/panic/bridge/" + res.Panic.Site,
			Detail: fmt.Sprintf("value %s through `%s`: panic %s\n%s", lib.J(obj), variant.Script, res.Panic.Value, res.Panic.Stack)}
	}
	if res.ElapsedMs > float64(oracleBound.Milliseconds()) {
		return bridgeVerdict{Class: pre + "slow", Sig: "C16/deadline/bridge/" + variant.Name,
			Detail: fmt.Sprintf("value %s through `%s` took %.0f ms", lib.J(obj), variant.Script, res.ElapsedMs)}
	}
	if res.InputMutated {
		return bridgeVerdict{Class: pre + "input-mutated", Sig: "C16/isolation/input-mutated",
			Detail: fmt.Sprintf("value %s through `%s`: the caller's object was modified", lib.J(obj), variant.Script)}
	}
	// null inside a list is not part of the property's value domain (nested maps/lists/numbers/strings):
	// Lua arrays cannot hold nil. Executed, classified, not judged for equality.
	if listHasNil(obj) {
		return bridgeVerdict{Class: pre + "not-judged: null element in a list (kind=" + res.Kind + ")"}
	}
	if variant.Name == "json-roundtrip" && listHasNil(expected) {
		// an empty container inside a list becomes null after json.encode (documented loss) and the
		// null is then dropped by json.decode: composition of the documented loss with the case above.
		return bridgeVerdict{Class: pre + "not-judged: empty container in a list (kind=" + res.Kind + ")"}
	}
	var actual interface{}
	switch res.Kind {
	case "table":
		var back interface{}
		if err := json.Unmarshal([]byte(res.Enc), &back); err != nil {
			return bridgeVerdict{Class: pre + "unparsable", Sig: "C16/bridge/" + variant.Name + "/unparsable-output",
				Detail: fmt.Sprintf("value %s through `%s`: Encode produced %q which json.Unmarshal rejects: %v", lib.J(obj), variant.Script, res.Enc, err)}
		}
		actual = canon(back)
	case "nontable":
		if res.RetType == "nil" && variant.Name == "json-roundtrip" && expected == nil {
			// the whole object is empty: json.encode gives "null", json.decode gives nil (documented loss at top level)
			return bridgeVerdict{Class: pre + "equal (empty object -> nil)"}
		}
		fallthrough
	default:
		return bridgeVerdict{Class: pre + res.Kind, Sig: "C16/bridge/" + variant.Name + "/" + res.Kind,
			Detail: fmt.Sprintf("value %s through `%s`: no table came back: kind=%s type=%s err=%s", lib.J(obj), variant.Script, res.Kind, res.RetType, res.Err)}
	}
	if trace != nil {
		trace("actual (canon)    : %s", lib.J(actual))
	}
	if d := firstDiff(expected, actual); d != "" {
		return bridgeVerdict{Class: pre + "different", Sig: "C16/bridge/" + variant.Name + "/" + d,
			Detail: fmt.Sprintf("value %s through `%s` came back as %s\nexpected (modulo empty-table->null and int/float unification): %s\nactual: %s\nfirst difference: %s",
				lib.J(obj), variant.Script, res.Enc, lib.J(expected), lib.J(actual), d)}
	}
	return bridgeVerdict{Class: pre + "equal", Nontrivi: expected != nil}
}
