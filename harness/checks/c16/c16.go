// Package c16: "a Lua plugin cannot hang, crash or escape" (E3, programs, REAL clock).
//
// The real luamanager.LuaManager.RunLuaScript plus the value bridge (decodeValue / Encode /
// MarshalJSON) are driven the way ingress.go and custom_network_provider.go drive them, with
//  1. every program of a bounded grammar (grammar.go), exhaustively,
//  2. a fixed hostile corpus (corpus.go) and exhaustive short character / token soups,
//  3. an exhaustive walk of the capability surface reachable from _G inside the real VM, confirmed
//     by functional probes against canary files,
//  4. every JSON-like value of a bounded domain through script identity (bridge.go),
//  5. a fresh-state relation: a probe script observes the same world after any polluting script.
//
// Scripts run in watchdogged worker subprocesses (worker.go) because the 1 s VM deadline itself is
// under test.
package c16

import (
	"encoding/json"
	"fmt"
	"os"
	"path/filepath"
	"runtime"
	"runtime/debug"
	"sort"
	"strings"
	"sync"
	"sync/atomic"
	"time"

	"verifharness/lib"
)

const prop = "C16"

// ---------------------------------------------------------------------------------------------
// staged violations: tasks finish in any order, the witness kept per signature is the one with
// the smallest enumeration index (enumeration is simplest-first).
// ---------------------------------------------------------------------------------------------

type staged struct {
	idx    int
	detail string
	replay interface{}
	count  int
}

type stage struct {
	mu sync.Mutex
	m  map[string]*staged
}

func (s *stage) add(sig string, idx int, detail string, replay interface{}) {
	s.mu.Lock()
	defer s.mu.Unlock()
	if s.m == nil {
		s.m = map[string]*staged{}
	}
	cur, ok := s.m[sig]
	if !ok {
		s.m[sig] = &staged{idx: idx, detail: detail, replay: replay, count: 1}
		return
	}
	cur.count++
	if idx < cur.idx {
		cur.idx, cur.detail, cur.replay = idx, detail, replay
	}
}

func (s *stage) flush(r *lib.Report) {
	s.mu.Lock()
	defer s.mu.Unlock()
	sigs := make([]string, 0, len(s.m))
	for k := range s.m {
		sigs = append(sigs, k)
	}
	sort.Slice(sigs, func(i, j int) bool {
		if s.m[sigs[i]].idx != s.m[sigs[j]].idx {
			return s.m[sigs[i]].idx < s.m[sigs[j]].idx
		}
		return sigs[i] < sigs[j]
	})
	for _, sig := range sigs {
		v := s.m[sig]
		for i := 0; i < v.count; i++ {
			r.Violate(sig, v.detail, v.replay)
		}
	}
	s.m = nil
}

// replayCase is the `replay` value of every violation.
type replayCase struct {
	Kind string `json:"kind"` // script | bridge | shape | probe | isolation
	// script
	Script string `json:"script,omitempty"`
	Obj    string `json:"obj,omitempty"`
	Meta   *meta  `json:"meta,omitempty"`
	// bridge
	Value   interface{} `json:"value,omitempty"` // tagged form
	Variant string      `json:"variant,omitempty"`
	// shape (table constructor source; Variant = nesting)
	Shape string `json:"shape,omitempty"`
	// probe
	Probe string `json:"probe,omitempty"`
	// isolation
	Polluter string `json:"polluter,omitempty"`
}

// ---------------------------------------------------------------------------------------------
// verdict on one executed script (parts 1, 2)
// ---------------------------------------------------------------------------------------------

type lateCase struct {
	idx int
	it  item
	m   meta
	ms  float64
}

type judge struct {
	r        *lib.Report
	st       *stage
	mu       sync.Mutex
	late     []lateCase
	deadline int64 // scripts ended by the VM deadline
	killed   int64
	membomb  int64
	skipped  int64
	maxMs    float64
	byFamily map[string]int64
	slow     []map[string]interface{}
	errTop   map[string]int64
}

func sigClass(m meta) string {
	if m.Family == "grammar" {
		return "grammar/" + m.Class
	}
	if m.Family == "lexical" || m.Family == "isolation" || m.Family == "probe" || m.Family == "surface" {
		return m.Family + "/" + m.Class
	}
	return m.Class
}

func showScript(s string) string {
	if len(s) > 600 {
		return fmt.Sprintf("%s … (%d bytes) … %s", s[:300], len(s), s[len(s)-100:])
	}
	return s
}

func (j *judge) one(idx int, it item, m meta, o outcome) {
	if o.Skipped {
		atomic.AddInt64(&j.skipped, 1)
		j.r.Outcome(m.Family + ": " + outcomeClass(o))
		return
	}
	j.r.AddEval(1)
	j.r.Outcome(m.Family + ": " + outcomeClass(o))
	j.mu.Lock()
	j.byFamily[m.Family]++
	if o.ElapsedMs > j.maxMs && !o.Killed {
		j.maxMs = o.ElapsedMs
	}
	if (o.Killed || o.ElapsedMs > 1500) && len(j.slow) < 40 {
		j.slow = append(j.slow, map[string]interface{}{"idx": idx, "family": m.Family, "class": m.Class, "name": m.Name, "obj": it.Obj, "ms": o.ElapsedMs, "killed": o.Killed, "script": clip(it.Script, 120)})
	}
	if o.Kind == "error" || o.Kind == "encode-error" {
		if j.errTop == nil {
			j.errTop = map[string]int64{}
		}
		if k := errClass(o.Err); len(j.errTop) < 400 || j.errTop[k] > 0 {
			j.errTop[k]++
		}
	}
	j.mu.Unlock()
	rp := replayCase{Kind: "script", Script: it.Script, Obj: it.Obj, Meta: &m}
	head := fmt.Sprintf("[%s/%s %s] input object %q, script:\n%s\n", m.Family, m.Class, m.Name, it.Obj, showScript(it.Script))
	switch {
	case o.Killed:
		atomic.AddInt64(&j.killed, 1)
		j.r.Nontrivial("killed:" + it.Script)
		j.st.add("C16/deadline/"+sigClass(m), idx,
			head+fmt.Sprintf("RunLuaScript did not return within %v (10x the 1 s VM deadline; oracle bound %v); the worker process had to be killed.", watchdog, oracleBound), rp)
		return
	case o.MemBomb:
		atomic.AddInt64(&j.membomb, 1)
		return
	case o.Crashed:
		j.r.Nontrivial("crash:" + it.Script)
		j.st.add("C16/crash/"+crashClass(o.Stderr, o.ExitCode), idx,
			head+fmt.Sprintf("the process executing the script died (exit code %d); stderr tail:\n%s", o.ExitCode, tailLines(o.Stderr, 25)), rp)
		return
	}
	if o.Panic != nil {
		j.r.Nontrivial("panic:" + it.Script)
		j.st.add("C16/panic/"+o.Panic.Site, idx, head+"panic escaped RunLuaScript/Encode: "+o.Panic.Value+"\n"+o.Panic.Stack, rp)
		return
	}
	if o.InputMutated {
		j.st.add("C16/isolation/input-mutated", idx, head+"the caller's input object was modified by the script run", rp)
	}
	if o.ElapsedMs > float64(oracleBound.Milliseconds()) {
		j.mu.Lock()
		j.late = append(j.late, lateCase{idx: idx, it: it, m: m, ms: o.ElapsedMs})
		j.mu.Unlock()
	}
	if o.Kind == "error" && strings.Contains(o.Err, "context deadline exceeded") {
		atomic.AddInt64(&j.deadline, 1)
		j.r.Nontrivial("deadline:" + it.Script)
	} else if o.Kind == "table" && o.EncLen > 4 || o.Kind == "encode-error" {
		// the script produced a table that went through Encode/MarshalJSON (accepted or rejected)
		j.r.Nontrivial("enc:" + it.Script)
	}
	if idx%9973 == 0 || m.Family == "corpus" && idx%37 == 0 {
		j.r.Sample(map[string]interface{}{"family": m.Family, "class": m.Class, "script": clip(it.Script, 200), "obj": it.Obj,
			"outcome": outcomeClass(o), "ms": o.ElapsedMs, "encoded": clip(o.Enc, 120)})
	}
}

// crashClass: Go fatal error / panic line plus the first repository frame of the dying goroutine
// (falls back to the script's structural class when the stack shows no repository frame).
func crashClass(stderr string, code int) string {
	kind := fmt.Sprintf("exit-%d", code)
	lines := strings.Split(stderr, "\n")
	start := -1
	for i, l := range lines {
		if strings.HasPrefix(l, "fatal error: ") {
			kind = strings.ReplaceAll(strings.TrimPrefix(l, "fatal error: "), " ", "-")
			start = i
			break
		}
		if strings.HasPrefix(l, "panic: ") {
			kind = "panic"
			start = i
			break
		}
	}
	if start >= 0 {
		for _, l := range lines[start:] {
			if strings.HasPrefix(l, "github.com/openkruise/rollouts/") {
				fn := strings.TrimPrefix(l, "github.com/openkruise/rollouts/")
				if j := strings.LastIndex(fn, "("); j > 0 {
					fn = fn[:j]
				}
				return kind + "/" + fn
			}
		}
	}
	return kind
}

func tailLines(s string, n int) string {
	lines := strings.Split(strings.TrimRight(s, "\n"), "\n")
	// prefer the part starting at the Go fatal error / panic line
	for i, l := range lines {
		if strings.HasPrefix(l, "fatal error: ") || strings.HasPrefix(l, "panic: ") {
			lines = lines[i:]
			break
		}
	}
	if len(lines) > n {
		lines = lines[:n]
	}
	for i := range lines {
		lines[i] = clip(lines[i], 300)
	}
	return strings.Join(lines, "\n")
}

// ---------------------------------------------------------------------------------------------
// capability surface (part 3)
// ---------------------------------------------------------------------------------------------

// walkScript lists every function reachable from _G (tables, metatables, function environments,
// metatables of the primitive types), with every path it is reachable by, sorted.
const walkScript = `
local seen, out = {}, {}
local function keyname(k)
  if type(k) == "string" then return k end
  return "[" .. tostring(k) .. "]"
end
local function walk(v, path)
  local tv = type(v)
  if tv == "function" then
    out[#out + 1] = path
    if seen[v] == nil then
      seen[v] = true
      local ok, env = pcall(getfenv, v)
      if ok and type(env) == "table" then walk(env, path .. ".<fenv>") end
    end
    return
  end
  if tv == "table" then
    if seen[v] ~= nil then return end
    seen[v] = true
    local keys = {}
    for k in next, v do keys[#keys + 1] = k end
    table.sort(keys, function(a, b)
      local ta, tb = type(a), type(b)
      if ta ~= tb then return ta < tb end
      if ta == "string" or ta == "number" then return a < b end
      return tostring(a) < tostring(b)
    end)
    for _, k in ipairs(keys) do
      local p = (path == "" and keyname(k)) or (path .. "." .. keyname(k))
      if type(k) == "table" or type(k) == "function" then walk(k, p .. ".<key>") end
      walk(rawget(v, k), p)
    end
    local mt = getmetatable(v)
    if type(mt) == "table" then walk(mt, path .. ".<mt>") end
    return
  end
  if tv == "userdata" then
    local mt = getmetatable(v)
    if type(mt) == "table" then walk(mt, path .. ".<mt>") end
  end
end
walk(_G, "")
for _, n in ipairs({"os", "io", "package", "debug", "coroutine", "channel", "string", "table", "math", "json", "_G"}) do
  local ok, m = pcall(require, n)
  if ok and (type(m) == "table" or type(m) == "function") then walk(m, "<require:" .. n .. ">") end
end
local prim = { {"string", ""}, {"number", 0}, {"boolean", true}, {"function", walk}, {"nil", nil} }
for _, p in ipairs(prim) do
  local mt = getmetatable(p[2])
  if type(mt) == "table" then walk(mt, "<mt:" .. p[1] .. ">") end
end
table.sort(out)
local tables = {}
for k, v in next, _G do if type(v) == "table" then tables[#tables + 1] = k end end
table.sort(tables)
return { functions = out, tables = tables }
`

// allowList: the reviewed pure functions of the five libraries RunLuaScript opens (gopher-lua base,
// math, table, string; luamanager json). "Pure" = computes on Lua values only; no file, process,
// environment or network access. print/_printregs write to the controller's stdout (not a file the
// script chooses); collectgarbage triggers a GC; load/loadstring compile strings inside the same
// sandbox; require/module are inert without the package library (no loaders in the registry) —
// that is re-confirmed functionally by the `require` probe.
var allowList = func() map[string]bool {
	m := map[string]bool{}
	for _, n := range strings.Fields(`_printregs assert collectgarbage error getfenv getmetatable ipairs load loadstring module
		newproxy next pairs pcall print rawequal rawget rawset require select setfenv setmetatable tonumber tostring type unpack xpcall
		json.decode json.encode
		math.abs math.acos math.asin math.atan math.atan2 math.ceil math.cos math.cosh math.deg math.exp math.floor math.fmod math.frexp
		math.ldexp math.log math.log10 math.max math.min math.mod math.modf math.pow math.rad math.random math.randomseed math.sin
		math.sinh math.sqrt math.tan math.tanh
		string.byte string.char string.dump string.find string.format string.gfind string.gmatch string.gsub string.len string.lower
		string.match string.rep string.reverse string.sub string.upper
		table.concat table.getn table.insert table.maxn table.remove table.sort`) {
		m[n] = true
	}
	return m
}()

// capabilityNames: names that by the Lua reference manual reach the operating system.
func osCapable(name string) bool {
	for _, p := range []string{"os.", "io.", "package.", "debug."} {
		if strings.HasPrefix(name, p) {
			return true
		}
	}
	return name == "dofile" || name == "loadfile"
}

type probe struct {
	Name   string // function name the probe exercises (signature component)
	Script string
	// confirm decides, from the outcome and the file system, whether the capability was exercised
	confirm func(o outcome, dir string) (bool, string)
}

func canaryDir() string {
	return filepath.Join(lib.VerifRoot, ".cache", "c16", fmt.Sprintf("run-%d", os.Getpid()))
}

func encHasToken(o outcome, _ string) (bool, string) {
	if o.Kind == "table" && strings.Contains(o.Enc, canaryToken) {
		return true, "the script returned the content of the canary: " + clip(o.Enc, 200)
	}
	return false, ""
}

// requirePrelude: the libraries a script may obtain through require() replace the globals before the probe
// body runs (a library opened "restricted" as a global may still sit complete in the registry's _LOADED table,
// which the base library's require returns without consulting any loader).
const requirePrelude = `for _, n in ipairs({"os", "io", "package", "debug"}) do local ok, m = pcall(require, n) if ok and type(m) == "table" then _G[n] = m end end `

// probes: every functional probe twice — on the globals as they are, and after requirePrelude.
func probes(dir string) []probe {
	out := probesVariant(dir, "", "", "")
	return append(out, probesVariant(dir, "/via-require", "-rq", requirePrelude)...)
}

func probesVariant(dir, nameSuffix, fileSuffix, prelude string) []probe {
	q := func(s string) string { return fmt.Sprintf("%q", s) }
	canary := filepath.Join(dir, "canary.lua")
	fileGone := func(name string) func(o outcome, dir string) (bool, string) {
		return func(o outcome, dir string) (bool, string) {
			if _, err := os.Stat(filepath.Join(dir, name)); os.IsNotExist(err) {
				return true, "file " + name + " no longer exists after the script ran"
			}
			return false, ""
		}
	}
	fileExists := func(name string) func(o outcome, dir string) (bool, string) {
		return func(o outcome, dir string) (bool, string) {
			if _, err := os.Stat(filepath.Join(dir, name)); err == nil {
				return true, "file " + name + " exists after the script ran"
			}
			return false, ""
		}
	}
	list := []probe{
		{"dofile", `return {r = dofile(` + q(canary) + `)}`, encHasToken},
		{"loadfile", `local f = loadfile(` + q(canary) + `) return {r = f and f()}`, encHasToken},
		{"require", `package = package or {} package.path = ` + q(dir+"/?.lua") + ` package.loaded = package.loaded or {} package.preload = package.preload or {}
package.loaders = package.loaders or {} return {r = require("canarymod")}`, encHasToken},
		{"io.open", `local f = io.open(` + q(canary) + `) return {r = f:read("*a")}`, encHasToken},
		{"io.lines", `for l in io.lines(` + q(canary) + `) do return {r = l} end`, encHasToken},
		{"io.popen", `local p = io.popen("echo ` + canaryToken + `") return {r = p:read("*a")}`, encHasToken},
		{"io.open(w)", `local f = io.open(` + q(filepath.Join(dir, "written-by-io"+fileSuffix)) + `, "w") f:write("x") f:close() return {}`, fileExists("written-by-io" + fileSuffix)},
		{"os.getenv", `return {r = os.getenv(` + q(canaryEnvName) + `)}`, encHasToken},
		{"os.execute", `os.execute("touch " .. ` + q(filepath.Join(dir, "touched-by-os-execute"+fileSuffix)) + `) return {}`, fileExists("touched-by-os-execute" + fileSuffix)},
		{"os.remove", `os.remove(` + q(filepath.Join(dir, "victim-remove"+fileSuffix)) + `) return {}`, fileGone("victim-remove" + fileSuffix)},
		{"os.rename", `os.rename(` + q(filepath.Join(dir, "victim-rename"+fileSuffix)) + `, ` + q(filepath.Join(dir, "renamed"+fileSuffix)) + `) return {}`, fileGone("victim-rename" + fileSuffix)},
		{"os.tmpname", `return {r = os.tmpname()}`, func(o outcome, _ string) (bool, string) {
			if o.Kind == "table" && strings.Contains(o.Enc, "/") {
				return true, "os.tmpname returned a file system path: " + clip(o.Enc, 100)
			}
			return false, ""
		}},
		{"os.exit", `os.exit(7)`, func(o outcome, _ string) (bool, string) {
			if o.Crashed && o.ExitCode == 7 {
				return true, "the process executing the script exited with status 7"
			}
			return false, ""
		}},
		{"package.loadlib", `return {r = tostring(package.loadlib("libc.so.6", "getpid"))}`, func(o outcome, _ string) (bool, string) {
			if o.Kind == "table" && strings.Contains(o.Enc, "function") {
				return true, "package.loadlib returned a function"
			}
			return false, ""
		}},
		{"debug.getregistry", `return {r = type(debug.getregistry())}`, func(o outcome, _ string) (bool, string) {
			if o.Kind == "table" && strings.Contains(o.Enc, `"table"`) {
				return true, "debug.getregistry handed the registry to the script"
			}
			return false, ""
		}},
	}
	for i := range list {
		list[i].Name += nameSuffix
		list[i].Script = prelude + list[i].Script
	}
	return list
}

func prepareCanaries(dir string) error {
	if err := os.MkdirAll(dir, 0o755); err != nil {
		return err
	}
	content := []byte("return \"" + canaryToken + "\"\n")
	for _, f := range []string{"canary.lua", "canarymod.lua"} {
		if err := os.WriteFile(filepath.Join(dir, f), content, 0o644); err != nil {
			return err
		}
	}
	for _, f := range []string{"victim-remove", "victim-rename", "victim-remove-rq", "victim-rename-rq"} {
		if err := os.WriteFile(filepath.Join(dir, f), []byte("x"), 0o644); err != nil {
			return err
		}
	}
	for _, f := range []string{"written-by-io", "touched-by-os-execute", "renamed", "written-by-io-rq", "touched-by-os-execute-rq", "renamed-rq"} {
		_ = os.Remove(filepath.Join(dir, f))
	}
	return nil
}

// ---------------------------------------------------------------------------------------------
// fresh state per call (part 5)
// ---------------------------------------------------------------------------------------------

const isolationProbe = `
local names = {}
for k, v in pairs(_G) do names[#names + 1] = k .. ":" .. type(v) end
table.sort(names)
local lib = {}
for _, n in ipairs({"string", "table", "math", "json"}) do
  local fs = {}
  for k, v in pairs(_G[n]) do fs[#fs + 1] = k .. ":" .. type(v) end
  table.sort(fs)
  lib[n] = table.concat(fs, ",")
end
return {
  globals = table.concat(names, ","), lib = lib,
  strmt = tostring(getmetatable("").__index == string), gmt = tostring(getmetatable(_G)), leak = tostring(leak),
  weight = tostring(obj.canaryWeight), data = type(obj.data), up = ("x"):upper(), one = tostring(1), enc = json.encode({1}),
  rnd = type(math.random()), fenv = tostring(getfenv(0) == _G),
}
`

var polluters = []string{
	`leak = 1 return {}`,
	`_G.leak = {} string.leak = 1 return {}`,
	`string.upper = function() return "polluted" end return {}`,
	`string.find = nil table.sort = nil math.random = nil json.encode = nil return {}`,
	`getmetatable("").__index = function() return function() return "polluted" end end return {}`,
	`getmetatable("").__index = nil return {}`,
	`setmetatable(_G, {__index = function() return "polluted" end}) return {}`,
	`tostring = function() return "polluted" end pairs = nil type = nil return {}`,
	`obj.canaryWeight = 99 obj.data = nil return obj`,
	`for k in pairs(_G) do _G[k] = nil end`,
	`setfenv(0, {}) return {}`,
	`leak = 1 error("after polluting")`,
	`leak = 1 while true do end`,
	`math.randomseed(1) leak = math.random() return {}`,
}

// ---------------------------------------------------------------------------------------------
// Run
// ---------------------------------------------------------------------------------------------

func lexicalSoups(thorough bool) (chars []string, charLen int, tokens []string, tokLen int) {
	chars = []string{"\"", "'", "[", "]", "=", "-", "\\", "\n", "0", "x", ".", "e", "{", "(", ":", "#"}
	tokens = []string{"return", "x", "=", "{", "}", "(", ")", "function", "end", "..", "1", `"a"`, "[", "]", ",", "nil", "--[[", "[[", "local", "...", "do", "if", "then", ";"}
	charLen, tokLen = 3, 3
	if thorough {
		charLen, tokLen = 4, 4
	}
	return
}

func Run(r *lib.Report) {
	th := r.Thorough()
	g := quickGrammar()
	if th {
		g = thoroughGrammar()
	}
	par := runtime.NumCPU()
	r.Rule = "Scripts: (1) every program of the bounded Lua grammar in checks/c16/grammar.go (all syntax trees up to the node / depth / statement bounds in coverage.bounds, smallest first); " +
		"(2) the fixed hostile corpus in corpus.go, each with both call-site input objects, plus every character string and every token sequence up to the lexical bounds; " +
		"(3) every function reachable from _G inside the real VM (exhaustive walk through tables, metatables, function environments) and one functional probe per OS-capable name against canary files; " +
		"(4) every JSON-like value of the bounded domain (coverage.bridge_domains, coverage.bridge_scalars) through `return obj` and `return json.decode(json.encode(obj))`; " +
		"(5) every polluting script followed by a probe script in the same process. " +
		"Each script runs through the real RunLuaScript -> l.Get(-1) -> Encode -> json.Unmarshal sequence of the two providers, in a worker subprocess with a 10 s watchdog. " +
		"Non-trivial = the script ran into the VM deadline, or produced a table that went through Encode/MarshalJSON (accepted or rejected by the cycle / sparse / key checks), or a bridge value containing data came back as a table."
	r.Assumptions = []string{
		"REAL CLOCK: the oracle 'RunLuaScript returns within 3 s (3x the 1 s VM deadline)' is the only wall-clock oracle (DESIGN.md §7). A script that returned late (3-10 s) is re-executed once on an otherwise idle pool and reported only if it is late again; a script that has not returned after 10 s is reported without re-execution.",
		"The call sites are replicated, not called: executeLuaForCanary of ingress.go / custom_network_provider.go are unexported methods; the sequence RunLuaScript, l.Get(-1), type check, luamanager.Encode, json.Unmarshal into map[string]string and custom.Data is copied from them, and the input objects are built with the same LuaData types through runtime.DefaultUnstructuredConverter.",
		"'Table result or error': any Lua error, compile error, non-table return value, Encode rejection or Unmarshal error is the accepted 'error for that one rollout'. Only a Go panic escaping RunLuaScript+Encode, a dead process, or a late / missing return is a violation.",
		"Memory and nesting bombs are outside the property: a worker whose heap exceeds 768 MB while running a script ends itself and the script is counted as 'excluded: memory budget exceeded', never as a verdict. Corpus scripts are kept below 1 MiB (ConfigMap object limit) and below nesting depth 5000.",
		"Capability surface: a reachable function outside the reviewed allow-list is a violation only when a functional probe confirms file / process / environment access (canary file read, file created / removed, environment variable read, process exit). An unreviewed reachable function that no probe confirms makes the run non-exhaustive (warning), it is not a verdict. print/_printregs (controller stdout), collectgarbage, load/loadstring (same sandbox) and require/module (inert without package loaders; probed) are on the allow-list.",
		"Value bridge equality is modulo exactly: int/float unification (numbers compared as float64); empty table -> null (empty list/map == null, and a map entry holding null == absent entry). Values with a null element inside a list are outside the property's value domain (maps/lists/numbers/strings; Lua arrays cannot hold nil): they are executed and must not panic, but are not judged for equality; for the json-roundtrip variant the same holds for an empty container inside a list (documented loss composed with the former).",
		"A worker crash is attributed to the script that was executing when the process died. Workers run with a 64 MB goroutine stack limit (production default 1 GB): unbounded Go recursion ends in the same fatal 'stack overflow', only sooner; Lua call depth is bounded by the VM (256 frames) and the deepest corpus nesting (5000) needs far less.",
	}
	r.TrustedBase = []string{"gopher-lua VM semantics are not modelled: the real VM executes every script", "Go os/exec process control for the watchdog", "the reviewed allow-list of pure library functions (c16.go allowList)"}

	dir := canaryDir()
	if err := prepareCanaries(dir); err != nil {
		fmt.Fprintf(os.Stderr, "HARNESS-ERROR cannot create canary files: %v\n", err)
		os.Exit(2)
	}
	defer os.RemoveAll(dir)

	st := &stage{}
	jd := &judge{r: r, st: st, byFamily: map[string]int64{}}
	cut := newClassCut(3)

	// ----- special tasks (surface, probes, isolation): results needed individually -----
	prs := probes(dir)
	var surfaceOut outcome
	probeOuts := make([]outcome, len(prs))
	isoBase := make([]outcome, 1)
	isoOuts := make([][]outcome, len(polluters))

	corpus := hostileCorpus()
	chars, charLen, tokens, tokLen := lexicalSoups(th)

	var total int64
	gen := func(emit func(task)) {
		idx := 0
		next := func(items []item, metas []meta) {
			emit(task{first: idx, items: items, metas: metas})
			idx += len(items)
		}
		// heavy corpus entries first: they occupy a worker for up to 10 s, so they start early
		for pass := 0; pass < 2; pass++ {
			for _, e := range corpus {
				if e.Heavy != (pass == 0) || (e.ThoroughOnly && !th) {
					continue
				}
				objs := e.Objs
				if len(objs) == 0 {
					objs = []string{"custom", "ingress"}
				}
				for _, o := range objs {
					next([]item{{Script: e.Script, Obj: o}}, []meta{{Family: "corpus", Class: e.Class, Name: e.Name}})
				}
			}
			if pass == 0 {
				// surface walk, probes, isolation
				next([]item{{Script: walkScript, Obj: "custom", Full: true}}, []meta{{Family: "surface", Class: "walk"}})
				for _, p := range prs {
					next([]item{{Script: p.Script, Obj: "custom", Full: true}}, []meta{{Family: "probe", Class: p.Name}})
				}
				next([]item{{Script: isolationProbe, Obj: "custom", Full: true}}, []meta{{Family: "isolation", Class: "baseline"}})
				for _, p := range polluters {
					next([]item{{Script: p, Obj: "custom", Full: true}, {Script: isolationProbe, Obj: "custom", Full: true}},
						[]meta{{Family: "isolation", Class: "polluter"}, {Family: "isolation", Class: "probe"}})
				}
			}
		}
		// lexical soups
		batchItems, batchMetas := []item{}, []meta{}
		flush := func() {
			if len(batchItems) > 0 {
				next(batchItems, batchMetas)
				batchItems, batchMetas = []item{}, []meta{}
			}
		}
		push := func(it item, m meta) {
			batchItems = append(batchItems, it)
			batchMetas = append(batchMetas, m)
			if len(batchItems) >= 64 {
				flush()
			}
		}
		// breadth first by length so that shorter strings come first
		for l := 1; l <= charLen; l++ {
			soupExact(chars, "", l, func(s string) { push(item{Script: s, Obj: "min"}, meta{Family: "lexical", Class: "chars"}) })
		}
		for l := 1; l <= tokLen; l++ {
			soupExact(tokens, " ", l, func(s string) { push(item{Script: s, Obj: "min"}, meta{Family: "lexical", Class: "tokens"}) })
		}
		flush()
		// grammar programs, smallest first
		g.forEachProgram(func(p program) {
			push(item{Script: p.src, Obj: "custom"}, meta{Family: "grammar", Class: grammarClass(p.f)})
		})
		flush()
		total = int64(idx)
	}

	sink := func(t task, outs []outcome) {
		for i := range outs {
			m := t.metas[i]
			switch m.Family {
			case "surface":
				surfaceOut = outs[i]
			case "probe":
				for k := range prs {
					if prs[k].Name == m.Class {
						probeOuts[k] = outs[i]
					}
				}
			case "isolation":
				if m.Class == "baseline" {
					isoBase[0] = outs[i]
				}
			}
			if m.Family == "isolation" && m.Class == "polluter" {
				for k := range polluters {
					if polluters[k] == t.items[i].Script {
						isoOuts[k] = outs
					}
				}
			}
			if m.Family == "probe" && outs[i].Crashed {
				// a probe that ends the process (os.exit) is judged by its confirm function, not as a crash
				r.AddEval(1)
				r.Outcome("probe: worker exited")
				continue
			}
			jd.one(t.first+i, t.items[i], m, outs[i])
		}
	}

	phases := map[string]float64{}
	t0 := time.Now()
	lap := func(name string) { phases[name] = time.Since(t0).Seconds(); t0 = time.Now() }
	if err := runPool(par, gen, cut, sink); err != nil {
		fmt.Fprintf(os.Stderr, "HARNESS-ERROR worker pool: %v\n", err)
		os.Exit(2)
	}

	lap("scripts")
	// ----- late returns: re-execute once on a quiet pool -----
	sort.Slice(jd.late, func(a, b int) bool { return jd.late[a].idx < jd.late[b].idx })
	if len(jd.late) > 0 {
		lateMax := 12
		cases := jd.late
		if len(cases) > lateMax {
			r.NotExhaustive(fmt.Sprintf("%d scripts returned later than %v; only the first %d were re-executed for confirmation", len(cases), oracleBound, lateMax))
			cases = cases[:lateMax]
		}
		again := make([]outcome, len(cases))
		_ = runPool(4, func(emit func(task)) {
			for i, c := range cases {
				emit(task{first: i, items: []item{c.it}, metas: []meta{c.m}})
			}
		}, nil, func(t task, outs []outcome) { again[t.first] = outs[0] })
		for i, c := range cases {
			c := c
			o := again[i]
			second := fmt.Sprintf("%.0f ms", o.ElapsedMs)
			if o.Killed {
				second = "no return within 10 s"
			}
			if o.Killed || o.ElapsedMs > float64(oracleBound.Milliseconds()) {
				r.Outcome(c.m.Family + ": late return confirmed")
				r.Nontrivial("late:" + c.it.Script)
				st.add("C16/deadline/"+sigClass(c.m), c.idx,
					fmt.Sprintf("[%s/%s %s] input object %q, script:\n%s\nRunLuaScript returned after %.0f ms, and after %s when re-executed on an idle pool: more than %v (3x the 1 s VM deadline).",
						c.m.Family, c.m.Class, c.m.Name, c.it.Obj, showScript(c.it.Script), c.ms, second, oracleBound),
					replayCase{Kind: "script", Script: c.it.Script, Obj: c.it.Obj, Meta: &c.m})
			} else {
				r.Outcome(c.m.Family + ": late return NOT confirmed (load noise)")
			}
		}
	}

	lap("late-confirmation")
	// ----- capability surface -----
	judgeSurface(r, st, surfaceOut, prs, probeOuts, dir)

	// ----- fresh state per call -----
	judgeIsolation(r, st, isoBase[0], isoOuts)

	// ----- value bridge (in-process: identity scripts cannot hang) -----
	runBridge(r, st, th)
	runShapes(r, st, th)
	lap("bridge")
	r.Extra["phase_seconds"] = phases

	st.flush(r)

	// ----- evidence -----
	cutInfo := map[string]int{}
	cut.mu.Lock()
	for k, v := range cut.cut {
		cutInfo[k] = v
	}
	cut.mu.Unlock()
	if len(cutInfo) > 0 {
		r.NotExhaustive(fmt.Sprintf("classes cut after 3 watchdog kills or 25 worker crashes (scripts skipped): %v", cutInfo))
	}
	r.Extra["bounds"] = map[string]interface{}{
		"grammar": map[string]interface{}{"atoms": g.atoms, "keys": g.keys, "while_conditions": g.whileCnd, "unary_ops": len(g.unary), "binary_ops": len(g.binary),
			"max_nodes": g.maxNodes, "max_depth": g.maxDepth, "max_statements": g.maxStmts, "while_body_nodes": g.whileBodyNodes, "while_program_nodes": g.whileMaxTotal},
		"lexical": map[string]interface{}{"chars": len(chars), "char_len": charLen, "tokens": len(tokens), "token_len": tokLen},
		"corpus":  len(corpus),
	}
	r.Extra["scripts_dispatched"] = total
	r.Extra["scripts_by_family"] = jd.byFamily
	r.Extra["ended_by_vm_deadline"] = jd.deadline
	r.Extra["killed_by_watchdog"] = jd.killed
	r.Extra["excluded_memory_budget"] = jd.membomb
	r.Extra["skipped_after_class_cut"] = jd.skipped
	r.Extra["slowest_returning_script_ms"] = jd.maxMs
	sort.Slice(jd.slow, func(a, b int) bool { return jd.slow[a]["idx"].(int) < jd.slow[b]["idx"].(int) })
	r.Extra["scripts_slower_than_1500ms"] = jd.slow
	r.Extra["distinct_error_messages"] = len(jd.errTop)
	r.Extra["workers"] = par
	if jd.deadline == 0 {
		r.Warn("no script was ended by the VM deadline: the deadline oracle's antecedent never fired")
	}
}

// soupExact enumerates every sequence of exactly n symbols.
func soupExact(alpha []string, sep string, n int, f func(string)) {
	idx := make([]int, n)
	for {
		parts := make([]string, n)
		for i, k := range idx {
			parts[i] = alpha[k]
		}
		f(strings.Join(parts, sep))
		k := n - 1
		for k >= 0 {
			idx[k]++
			if idx[k] < len(alpha) {
				break
			}
			idx[k] = 0
			k--
		}
		if k < 0 {
			return
		}
	}
}

func judgeSurface(r *lib.Report, st *stage, so outcome, prs []probe, pouts []outcome, dir string) {
	var walk struct {
		Functions []string `json:"functions"`
		Tables    []string `json:"tables"`
	}
	if so.Kind != "table" || json.Unmarshal([]byte(so.Enc), &walk) != nil || len(walk.Functions) == 0 {
		r.NotExhaustive("capability surface walk did not produce a function list: kind=" + so.Kind + " err=" + clip(so.Err, 200))
		r.Warn("capability surface not enumerated")
	}
	reachable := map[string]bool{}
	for _, f := range walk.Functions {
		reachable[f] = true
	}
	r.Extra["reachable_functions"] = walk.Functions
	r.Extra["global_tables"] = walk.Tables
	confirmed := map[string]string{}
	for i, p := range prs {
		ok, why := p.confirm(pouts[i], dir)
		base := strings.Replace(p.Name, "(w)", "", 1)
		if ok {
			confirmed[base] = why
			r.Outcome("capability: " + p.Name + " CONFIRMED")
			r.Nontrivial("probe:" + p.Name)
			st.add("C16/capability/"+base, -1000+i,
				fmt.Sprintf("function `%s` is reachable from inside the sandbox (reachable by name: %v) and the functional probe succeeded: %s\nprobe script:\n%s\nresult: kind=%s err=%s enc=%s",
					base, reachable[base], why, p.Script, pouts[i].Kind, clip(pouts[i].Err, 200), clip(pouts[i].Enc, 200)),
				replayCase{Kind: "probe", Probe: p.Name})
		} else {
			r.Outcome("capability probe: not available")
		}
	}
	var unreviewed []string
	for _, f := range walk.Functions {
		if strings.HasPrefix(f, "<require:") {
			// a library handed out by require(): judged under the library's own name
			nf := strings.Replace(strings.TrimPrefix(f, "<require:"), ">", "", 1)
			switch {
			case allowList[nf]:
				r.Outcome("surface: allow-listed function reachable (through require)")
			case confirmed[nf+"/via-require"] != "":
				// reported above
			default:
				unreviewed = append(unreviewed, f)
			}
			continue
		}
		switch {
		case allowList[f]:
			r.Outcome("surface: allow-listed function reachable")
		case confirmed[f] != "":
			// reported above
		case osCapable(f):
			r.Outcome("surface: OS-capable name reachable, no probe confirmed access")
			unreviewed = append(unreviewed, f)
		default:
			// aliases through metatables / environments of allow-listed functions
			if i := strings.LastIndex(f, ">."); i >= 0 && allowList[f[i+2:]] {
				r.Outcome("surface: allow-listed function reachable (alias)")
				continue
			}
			if strings.HasPrefix(f, "<mt:string>.") && allowList["string."+strings.TrimPrefix(f, "<mt:string>.")] {
				r.Outcome("surface: allow-listed function reachable (alias)")
				continue
			}
			unreviewed = append(unreviewed, f)
		}
	}
	if len(unreviewed) > 0 {
		r.Extra["unreviewed_functions"] = unreviewed
		r.NotExhaustive(fmt.Sprintf("%d reachable function(s) are neither on the reviewed allow-list nor confirmed by a probe: %v", len(unreviewed), unreviewed))
		r.Warn("capability surface contains unreviewed functions")
	}
}

func judgeIsolation(r *lib.Report, st *stage, base outcome, outs [][]outcome) {
	if base.Kind != "table" {
		r.NotExhaustive("isolation baseline probe did not return a table: " + base.Kind + " " + clip(base.Err, 200))
		r.Warn("fresh-state relation not evaluated")
		return
	}
	for k, p := range polluters {
		o := outs[k]
		if len(o) != 2 {
			r.NotExhaustive("isolation case not executed")
			continue
		}
		after := o[1]
		if after.Kind == "table" && after.Enc == base.Enc {
			r.Outcome("isolation: probe after polluter == probe alone")
			r.Nontrivial("iso:" + p)
			continue
		}
		if o[0].Killed || o[0].Crashed || o[0].MemBomb {
			// the worker was replaced: the probe ran in a new process, nothing to compare in-process
			r.Outcome("isolation: polluter ended the worker")
			continue
		}
		var a, b interface{}
		_ = json.Unmarshal([]byte(base.Enc), &a)
		_ = json.Unmarshal([]byte(after.Enc), &b)
		st.add("C16/isolation/state-leak", -500+k,
			fmt.Sprintf("state leaked from one RunLuaScript call into the next one in the same process.\npolluting script: %s\nprobe alone      : %s\nprobe afterwards : kind=%s err=%s %s\ndiffering fields: %v",
				p, clip(base.Enc, 600), after.Kind, clip(after.Err, 200), clip(after.Enc, 600), lib.JSONDiff(a, b)),
			replayCase{Kind: "isolation", Polluter: p})
	}
}

func bridgeScalars(th bool) (full, small []interface{}) {
	full = []interface{}{nil, true, int64(0), int64(1), 0.5, "", "a"}
	small = []interface{}{int64(1)}
	if th {
		full = []interface{}{nil, true, false, int64(0), int64(1), int64(-1), 0.5, "", "a", int64(2147483648), "é\n\""}
		small = []interface{}{int64(1), "a"}
	}
	return
}

func runBridge(r *lib.Report, st *stage, th bool) {
	defer debug.SetGCPercent(debug.SetGCPercent(400))
	full, small := bridgeScalars(th)
	doms := []struct {
		name string
		d    domain
	}{
		{"depth<=2", bridgeDomain(full, 2)},
		{"depth<=3(small alphabet)", bridgeDomain(small, 3)},
	}
	var sizes []string
	base := 1 << 40 // after all script indices
	for di, dm := range doms {
		sizes = append(sizes, fmt.Sprintf("%s: %d values", dm.name, dm.d.n))
		for vi, variant := range bridgeVariants {
			variant := variant
			d := dm.d
			off := base + (di*len(bridgeVariants)+vi)*(1<<32)
			lib.ParallelFor(d.n, func(i int) {
				v := d.at(i)
				bv := bridgeCase(v, variant, nil)
				r.AddEval(1)
				r.Outcome(bv.Class)
				if bv.Nontrivi {
					r.Nontrivial(fmt.Sprintf("bridge:%s:%d:%d", variant.Name, di, i))
				}
				if bv.Sig != "" {
					st.add(bv.Sig, off+i, bv.Detail, replayCase{Kind: "bridge", Value: tagValue(v), Variant: variant.Name})
				}
				if i%40009 == 7 {
					r.Sample(map[string]interface{}{"family": "bridge", "variant": variant.Name, "value": clip(lib.J(v), 200), "outcome": bv.Class})
				}
			})
		}
	}
	r.Extra["bridge_domains"] = sizes
	r.Extra["bridge_scalars"] = map[string]interface{}{"depth<=2": lib.J(full), "depth<=3": lib.J(small), "keys": bridgeKeys, "list_width": "0..2", "map_width": "0..2"}
}

// ---------------------------------------------------------------------------------------------
// Replay: re-executes ONE recorded case without the enumerator.
// ---------------------------------------------------------------------------------------------

func Replay(r *lib.Report, raw json.RawMessage) {
	var rc replayCase
	if err := json.Unmarshal(raw, &rc); err != nil {
		fmt.Fprintf(os.Stderr, "HARNESS-ERROR bad replay value: %v\n", err)
		os.Exit(2)
	}
	st := &stage{}
	say := func(f string, a ...interface{}) { fmt.Printf("  "+f+"\n", a...) }
	runOne := func(items []item) []outcome {
		_, outs, err := func() (*workerProc, []outcome, error) {
			wp, outs, err := runItems(nil, items, nil, nil)
			if wp != nil {
				wp.stop()
			}
			return nil, outs, err
		}()
		if err != nil {
			fmt.Fprintf(os.Stderr, "HARNESS-ERROR worker: %v\n", err)
			os.Exit(2)
		}
		return outs
	}
	describe := func(o outcome) string {
		switch {
		case o.Killed:
			return fmt.Sprintf("NO RETURN within %v, worker killed", watchdog)
		case o.MemBomb:
			return "worker exceeded the memory budget (excluded)"
		case o.Crashed:
			return fmt.Sprintf("worker died, exit code %d, stderr: %s", o.ExitCode, tailLines(o.Stderr, 6))
		}
		return fmt.Sprintf("returned after %.1f ms: kind=%s type=%s err=%q enc=%s", o.ElapsedMs, o.Kind, o.RetType, clip(o.Err, 200), clip(o.Enc, 300))
	}
	switch rc.Kind {
	case "script":
		m := meta{Family: "corpus", Class: "replay"}
		if rc.Meta != nil {
			m = *rc.Meta
		}
		fmt.Printf("replay C16 script case [%s/%s %s], input object %q\n", m.Family, m.Class, m.Name, rc.Obj)
		say("script: %s", showScript(rc.Script))
		say("step 1: worker subprocess, RunLuaScript -> l.Get(-1) -> Encode -> json.Unmarshal (oracle: return within %v, no panic, process alive)", oracleBound)
		jd := &judge{r: r, st: st, byFamily: map[string]int64{}}
		it := item{Script: rc.Script, Obj: rc.Obj}
		o := runOne([]item{it})[0]
		say("        %s", describe(o))
		jd.one(0, it, m, o)
		if len(jd.late) > 0 {
			say("step 2: late return (> %v): executing once more", oracleBound)
			o2 := runOne([]item{it})[0]
			say("        %s", describe(o2))
			if o2.Killed || o2.ElapsedMs > float64(oracleBound.Milliseconds()) {
				st.add("C16/deadline/"+sigClass(m), 0, fmt.Sprintf("script returned after %.0f ms and %.0f ms (> %v)", o.ElapsedMs, o2.ElapsedMs, oracleBound), rc)
			}
		}
	case "shape":
		fmt.Printf("replay C16 table-shape case, nesting %s\n", rc.Variant)
		bv := replayShape(rc.Shape, rc.Variant, say)
		r.AddEval(1)
		say("verdict: %s", bv.Class)
		if bv.Sig != "" {
			st.add(bv.Sig, 0, bv.Detail, rc)
		}
	case "bridge":
		rawV, _ := json.Marshal(rc.Value)
		v, err := untagValue(rawV)
		if err != nil {
			fmt.Fprintf(os.Stderr, "HARNESS-ERROR bad bridge value: %v\n", err)
			os.Exit(2)
		}
		fmt.Printf("replay C16 value-bridge case, variant %s\n", rc.Variant)
		for _, variant := range bridgeVariants {
			if variant.Name != rc.Variant {
				continue
			}
			bv := bridgeCase(v, variant, say)
			r.AddEval(1)
			say("verdict class     : %s", bv.Class)
			if bv.Sig != "" {
				st.add(bv.Sig, 0, bv.Detail, rc)
			}
		}
	case "probe":
		dir := canaryDir()
		if err := prepareCanaries(dir); err != nil {
			fmt.Fprintf(os.Stderr, "HARNESS-ERROR cannot create canary files: %v\n", err)
			os.Exit(2)
		}
		defer os.RemoveAll(dir)
		fmt.Printf("replay C16 capability probe %s (canary directory %s)\n", rc.Probe, dir)
		for i, p := range probes(dir) {
			if p.Name != rc.Probe {
				continue
			}
			say("step 1: canary files created; script: %s", p.Script)
			o := runOne([]item{{Script: p.Script, Obj: "custom", Full: true}})[0]
			r.AddEval(1)
			say("step 2: %s", describe(o))
			ok, why := p.confirm(o, dir)
			say("step 3: capability exercised: %v %s", ok, why)
			if ok {
				st.add("C16/capability/"+strings.Replace(p.Name, "(w)", "", 1), i, "functional probe succeeded: "+why+"\nprobe script:\n"+p.Script, rc)
			}
		}
	case "isolation":
		fmt.Printf("replay C16 fresh-state case\n")
		say("step 1: probe script alone in a fresh process")
		base := runOne([]item{{Script: isolationProbe, Obj: "custom", Full: true}})[0]
		say("        %s", describe(base))
		say("step 2: polluter, then the probe, in ONE process; polluter: %s", rc.Polluter)
		outs := runOne([]item{{Script: rc.Polluter, Obj: "custom", Full: true}, {Script: isolationProbe, Obj: "custom", Full: true}})
		say("        polluter: %s", describe(outs[0]))
		say("        probe   : %s", describe(outs[1]))
		r.AddEval(2)
		if outs[0].Killed || outs[0].Crashed || outs[0].MemBomb {
			say("        the polluter ended the worker: nothing to compare")
		} else if !(outs[1].Kind == "table" && outs[1].Enc == base.Enc) {
			var a, b interface{}
			_ = json.Unmarshal([]byte(base.Enc), &a)
			_ = json.Unmarshal([]byte(outs[1].Enc), &b)
			say("        differing fields: %v", lib.JSONDiff(a, b))
			st.add("C16/isolation/state-leak", 0, "probe after polluter differs from probe alone; polluter: "+rc.Polluter, rc)
		}
	default:
		fmt.Fprintf(os.Stderr, "HARNESS-ERROR unknown replay kind %q\n", rc.Kind)
		os.Exit(2)
	}
	n := len(st.m)
	for sig := range st.m {
		fmt.Printf("  verdict: VIOLATION %s\n", sig)
	}
	if n == 0 {
		fmt.Printf("  verdict: property held on this case\n")
	}
	st.flush(r)
}
