package c16

import (
	"fmt"
	"strings"
)

// corpusEntry is one hostile script. Class is the structural input class used in signatures.
type corpusEntry struct {
	Name   string
	Class  string
	Script string
	// Objs: input objects to run with (default: both call-site objects)
	Objs []string
	// Heavy: expected to run into the watchdog on the current code (kept few in the quick tier)
	Heavy bool
	// ThoroughOnly: skipped in the quick tier
	ThoroughOnly bool
}

func c(name, class, script string) corpusEntry {
	return corpusEntry{Name: name, Class: class, Script: script}
}

// The slow-pattern witness of DESIGN.md §9 (31-byte subject, exponential backtracking inside one Go call).
const slowSubject = `("a"):rep(30).."b"`
const slowPattern = `("a*"):rep(15).."c"`

func hostileCorpus() []corpusEntry {
	var out []corpusEntry
	add := func(e ...corpusEntry) { out = append(out, e...) }

	// ---- non-terminating scripts: must be cut by the 1 s VM deadline ----
	add(
		c("while-true", "infinite-loop", `while true do end`),
		c("repeat-until-false", "infinite-loop", `repeat until false`),
		c("for-huge", "infinite-loop", `for i = 1, math.huge do end`),
		c("for-1e12", "infinite-loop", `for i = 1, 1e12 do end return {}`),
		c("counter", "infinite-loop", `local i = 0 while true do i = i + 1 end`),
		c("loop-then-table", "infinite-loop", `local t = {} while true do t.a = 1 end return t`),
		c("loop-gocall-rep", "go-call-loop", `while true do string.rep("a", 10) end`),
		c("loop-gocall-tostring", "go-call-loop", `while true do tostring(1) end`),
		c("loop-gocall-json", "go-call-loop", `while true do json.decode(json.encode({1, {a = "b"}})) end`),
		c("loop-gocall-sort", "go-call-loop", `while true do table.sort({3, 2, 1}) end`),
		c("sort-cmp-loop", "go-call-loop", `table.sort({3, 2, 1}, function(a, b) while true do end end)`),
		c("gsub-repl-loop", "go-call-loop", `string.gsub("abc", ".", function(c) while true do end end)`),
		c("load-reader-loop", "go-call-loop", `return {load(function() return " " end)}`),
		c("pcall-error-loop", "pcall-loop", `while true do pcall(error, "x") end`),
		c("pcall-inner-loop", "pcall-loop", `while true do pcall(function() while true do end end) end`),
		c("pcall-swallow", "pcall-loop", `pcall(function() while true do end end) return {}`),
		c("pcall-swallow-twice", "pcall-loop", `pcall(function() while true do end end) pcall(function() while true do end end) return {a = 1}`),
		c("pcall-self-loop", "pcall-loop", `local function f() while true do pcall(f) end end f()`),
		c("pcall-recursion-loop", "pcall-loop", `local function f() pcall(f) while true do end end f()`),
		c("xpcall-handler-loop", "pcall-loop", `xpcall(function() while true do end end, function(e) while true do end end)`),
		c("xpcall-loop", "pcall-loop", `while true do xpcall(error, function() end) end`),
		c("string-mt-index-loop", "metatable-loop", `getmetatable("").__index = function(s, k) while true do end end return ("x").foo`),
		c("index-fn-loop", "metatable-loop", `local t = setmetatable({}, {__index = function(t, k) while true do end end}) return t.x`),
		c("tostring-loop", "metatable-loop", `return tostring(setmetatable({}, {__tostring = function() while true do end end}))`),
		c("eq-loop", "metatable-loop", `local mt = {__eq = function() while true do end end} return setmetatable({}, mt) == setmetatable({}, mt)`),
		c("concat-loop", "metatable-loop", `return setmetatable({}, {__concat = function() while true do end end}) .. "x"`),
		c("loadstring-loop", "load-loop", `return loadstring("while true do end")()`),
		c("loadstring-rec", "load-loop", `local s = 'return loadstring(...)(...)' return loadstring(s)(s)`),
		c("coroutine-wrap-loop", "coroutine", `coroutine.wrap(function() while true do end end)()`),
		c("coroutine-yield-loop", "coroutine", `local co = coroutine.wrap(function() while true do coroutine.yield() end end) while true do co() end`),
		c("coroutine-nested", "coroutine", `local function f() return coroutine.wrap(f)() end return f()`),
		c("growing-table-loop", "infinite-loop", `local t = {} while true do t[#t + 1] = 1 end`),
		c("string-append-loop", "infinite-loop", `local s = "" while true do s = s .. "a" end`),
	)

	// ---- recursion ----
	add(
		c("recursion", "deep-recursion", `local function f() return 1 + f() end return f()`),
		c("recursion-mutual", "deep-recursion", `local g local function f() return 1 + g() end g = function() return 1 + f() end return f()`),
		c("recursion-pcall", "deep-recursion", `local function f() return pcall(f) end return {f()}`),
		c("recursion-index", "deep-recursion", `local t t = setmetatable({}, {__index = function(_, k) return t[k] end}) return t.x`),
		c("recursion-tostring", "deep-recursion", `local t t = setmetatable({}, {__tostring = function(s) return tostring(s) end}) return tostring(t)`),
		c("recursion-gsub", "deep-recursion", `local function f(s) return (string.gsub(s, ".", f)) end return f("aaaa")`),
		c("recursion-sort", "deep-recursion", `local function f(a, b) table.sort({3, 2, 1}, f) return a < b end table.sort({3, 2, 1}, f)`),
		c("index-cycle", "deep-recursion", `local a, b = {}, {} setmetatable(a, {__index = b}) setmetatable(b, {__index = a}) return a.x`),
		c("newindex-cycle", "deep-recursion", `local a, b = {}, {} setmetatable(a, {__newindex = b}) setmetatable(b, {__newindex = a}) a.x = 1 return a`),
		c("call-self", "deep-recursion", `local t = setmetatable({}, {}) getmetatable(t).__call = t return t()`),
		c("finite-tailcalls", "deep-recursion", `local function f(n) if n == 0 then return {} end return f(n - 1) end return f(100000)`),
		// infinite tail recursion: no stack growth, only the deadline can end it
	)
	add(
		corpusEntry{Name: "tailcall-return", Class: "tailcall-recursion", Heavy: true, Objs: []string{"custom"},
			Script: `local function f() return f() end return f()`},
		corpusEntry{Name: "tailcall-mutual", Class: "tailcall-recursion", Heavy: true, Objs: []string{"ingress"},
			Script: `local g local function f() return g() end g = function() return f() end return f()`},
	)

	// ---- error with every kind of value ----
	for i, a := range []string{``, `nil`, `{}`, `{code = 1}`, `1`, `true`, `"x"`, `"x", 0`, `"x", 2`, `"x", 99`, `"x", -1`,
		`function() end`, `error`, `obj`, `newproxy(true)`, `0/0`, `("x"):rep(100000)`, `"a\0b"`, `"\255\254"`,
		`setmetatable({}, {__tostring = function() return "x" end})`,
		`setmetatable({}, {__tostring = function() error("y") end})`,
		`setmetatable({}, {__tostring = function() return 1 end})`,
		`setmetatable({}, {__tostring = function() while true do end end})`,
		`setmetatable({}, {__index = function() error("z") end})`} {
		add(c(fmt.Sprintf("error-%02d", i), "error-value", `error(`+a+`)`))
	}
	add(
		c("assert-false", "error-value", `assert(false)`),
		c("assert-table", "error-value", `assert(nil, {})`),
		c("error-in-pcall-rethrow", "error-value", `local ok, e = pcall(error, {}) error(e)`),
		c("error-tostring-nil", "error-value", `tostring = nil error({})`),
		c("runtime-index-nil", "error-value", `return obj.nothing.deeper`),
		c("runtime-call-nil", "error-value", `return undefined_function()`),
		c("runtime-arith", "error-value", `return {} + 1`),
		c("runtime-compare", "error-value", `return {} < 1`),
		c("runtime-concat", "error-value", `return {} .. "x"`),
	)

	// ---- wrong return types / arity ----
	for i, s := range []string{``, ` `, `return`, `return nil`, `return 1`, `return "s"`, `return true`, `return function() end`,
		`return print`, `return newproxy()`, `return 1, 2, 3`, `return {}, 1`, `return 1, {}`, `return unpack({1, 2, {}})`,
		`return obj`, `return obj.data`, `return _G`, `return string`, `return getmetatable("")`, `return {obj, obj}`,
		`return {a = 1}`, `return {a = "1"}`, `return {a = {}}`, `return {1, 2}`, `return {"a", "b"}`,
		`return {spec = 1, labels = {a = 1}}`, `return {spec = {1, 2}, labels = {a = "1"}, annotations = {}}`,
		`return {labels = "x"}`, `return {annotations = {1}}`, `x = 1`, `local x = 1`, `do return {} end`,
		`return (function() return {} end)()`, `return select(2, 1, {})`, `return {} --[[ unterminated`, `return {} -- comment`,
		`return "\0"`, `return {a = "\0", ["\0"] = 1}`, `return {[""] = "x"}`, `return {a = "\255\254", ["\255"] = "x"}`,
		"\xef\xbb\xbfreturn {}", "#!/usr/bin/lua\nreturn {}", "return {}\x00garbage", "\x00", "\x1bLua", "return {\n", `end`, `x = = 1`,
		`return [[ unterminated`, `return "unterminated`, `return 0x`, `return 1e`, `return 1..2`, `::top:: goto top`,
		`return {` + strings.Repeat("(", 1000) + "1" + strings.Repeat(")", 1000) + `}`,
		`return ` + strings.Repeat("{", 150) + strings.Repeat("}", 150),
		`return ` + strings.Repeat("{", 1000) + strings.Repeat("}", 1000),
		`local a = ` + strings.Repeat("1 .. ", 300) + `1 return {a}`,
		`local function f(x) return x end return {` + strings.Repeat("f(", 300) + "1" + strings.Repeat(")", 300) + `}`,
		`local ` + joinN("a", 300) + ` = 1 return {}`,
		`local function f(...) return select("#", ...) end return {f(` + strings.TrimSuffix(strings.Repeat("1,", 300), ",") + `)}`,
	} {
		add(c(fmt.Sprintf("return-%02d", i), "return-shape", s))
	}

	// ---- tables the encoder must reject or survive ----
	for i, s := range []string{
		`local t = {} t.t = t return t`,
		`local t = {} t[1] = t return t`,
		`local a, b = {}, {} a.b = b b.a = a return a`,
		`local a = {} a.x = {y = {z = a}} return a`,
		`local s = {1} return {a = s, b = s}`, // shared, not cyclic
		`local s = {} return {s, s}`,
		`return {1, 2, nil, 4}`, `return {nil, 2}`, `return {nil}`, `return {[1] = 1, [3] = 3}`, `return {[2] = 1}`, `return {[0] = 1}`,
		`return {[-1] = 1}`, `return {[1.5] = 1}`, `return {[1e300] = 1}`, `return {[0/0] = 1}`, `return {[1/0] = 1}`, `return {[2^53] = 1}`,
		`return {1, a = 2}`, `return {a = 1, [1] = 2}`, `return {[true] = 1}`, `return {[{}] = 1}`, `return {[print] = 1}`, `return {["1"] = 1, [1] = 2}`,
		`return {a = print}`, `return {a = newproxy()}`, `return {function() end}`, `return {a = 0/0}`, `return {a = 1/0}`, `return {a = -1/0}`, `return {-0, a = -0}`,
		`return {a = 2^63, b = -2^63, c = 2^53 + 1, d = 1e308, e = 5e-324}`, `return {1e308 * 10}`,
		`local t = {1, 2, 3} t[2] = nil return t`, `local t = {1, 2, 3} t[3] = nil return t`, `local t = {1, 2, 3} table.remove(t, 1) return t`,
		`local t = {} t[5] = 5 return t`, `local t = {} table.insert(t, 2^40, 1) return t`, `local t = {} table.insert(t, -5, 1) return t`,
		`local t = {} for i = 1, 100000 do t[i] = i end return t`,
		`local t = {} for i = 1, 20000 do t["k" .. i] = {i} end return t`,
		`local t = {} for i = 1, 200 do t = {t} end return t`,
		`local t = {} for i = 1, 200 do t = {a = t} end return t`,
		`return setmetatable({a = 1}, {__index = {b = 2}})`,
		`return setmetatable({}, {__len = function() return 5 end})`,
		`return setmetatable({1, 2}, {__index = function(t, k) return k end})`,
		`return setmetatable({}, {__newindex = function() error("ro") end})`,
		`return setmetatable({a = 1}, {__metatable = "locked"})`,
		`return setmetatable({a = 1}, {__mode = "kv"})`,
		`return setmetatable({{}, {}}, {__mode = "v"})`,
		`return setmetatable({}, {__tostring = function() error("x") end})`,
		`return setmetatable({}, {__gc = function() error("x") end})`,
		`return setmetatable({}, {__call = function() return {} end})`,
		`local t = {a = 1} return setmetatable(t, t)`,
		`local t = {} t.__index = t return setmetatable({a = t}, t)`,
	} {
		add(c(fmt.Sprintf("table-%02d", i), "table-shape", s))
	}

	// ---- library abuse (Go functions called with hostile arguments) ----
	for i, s := range []string{
		`return {string.rep("a", 1e18)}`, `return {string.rep("ab", 2^62)}`, `return {string.rep("a", -1)}`, `return {string.rep("", 1e9)}`,
		`return {string.format("%99d", 1)}`, `return {string.format("%d", 1e100)}`, `return {string.format("%s")}`, `return {string.format("%y", 1)}`,
		`return {string.format("%5.2s", "abc")}`, `return {string.format("%q", "a\0\n")}`, `return {string.format("%", 1)}`, `return {string.format("%c", 1e9)}`,
		`return {string.format("%.99f", 1/3)}`, `return {string.format("%x", -1)}`, `return {string.format("%d", 0/0)}`,
		`return {string.char(256)}`, `return {string.char(-1)}`, `return {string.char()}`, `return {string.byte("abc", -10, 10)}`, `return {string.byte("abc", 1, 1e9)}`,
		`return {string.sub("abc", -1e18, 1e18)}`, `return {string.sub("abc", 0/0)}`, `return {("x"):len(), #"x"}`, `return {string.dump(function() end)}`,
		`return {string.find("a", "(")}`, `return {string.find("a", "%")}`, `return {string.find("a", "[")}`, `return {string.find("a", "%b")}`, `return {string.find("a", "%f")}`,
		`return {string.find("a()", "%b()")}`, `return {string.find("THE (quick) fox", "%f[%a]%a+")}`, `return {string.find("a", "a", 1e18)}`, `return {string.find("a", "a", -1e18, true)}`,
		`return {string.find("abc", "()b()")}`, `return {string.find("abc", "(((((((((((((((((((((((((((((((((a)))))))))))))))))))))))))))))))))")}`,
		`return {string.gsub("abc", "", "-")}`, `return {string.gsub("abc", ".", "%2")}`, `return {string.gsub("abc", ".", {a = true})}`, `return {string.gsub("abc", "%w", "%%%0")}`,
		`return {string.gsub("abc", ".", function() return {} end)}`, `return {string.gsub("abc", "b", "x", -1)}`, `return {string.gsub(("a"):rep(2000), "a", "bb")}`,
		`local n = 0 for w in string.gmatch("a b c", "%a") do n = n + 1 end return {n}`, `for w in string.gmatch("abc", "") do end return {}`,
		`return {string.match("key=val", "(%w+)=(%w+)")}`, `return {string.match("x", ".-")}`,
		// patterns that backtrack but finish well inside the deadline
		`return {string.find(("a"):rep(18) .. "b", ("a*"):rep(6) .. "c")}`,
		`return {string.find(("a"):rep(50), ".-.-.-x")}`,
		`return {table.concat({1, {}, 3})}`, `return {table.concat({}, "", 1, 1e8)}`, `return {table.concat({1, 2}, {})}`, `return {table.concat(("x"):rep(3))}`,
		`return {table.maxn({[1e300] = 1})}`, `return {table.getn("x")}`, `local t = {1} table.remove(t, 2^40) return t`, `return {table.remove({})}`,
		`local t = {} for i = 1, 100 do t[i] = i % 7 end table.sort(t, function(a, b) return true end) return t`,
		`table.sort({3, 2, 1}, function() error({}) end)`, `table.sort({3, "a", {}})`, `local t = {3, 2, 1} table.sort(t, function(a, b) t[1] = nil return a < b end) return t`,
		`return {unpack({}, 1, 1e7)}`, `local t = {} for i = 1, 100000 do t[i] = i end return {unpack(t)}`, `return {select(-1, 1, 2)}`, `return {select(-5, 1)}`, `return {select(1e18, 1)}`, `return {select("#")}`,
		`return {tonumber("zz", 36), tonumber("1", 99), tonumber("1", 1)}`, `return {tonumber("0x"), tonumber("1e"), tonumber(""), tonumber("  1  "), tonumber("1e400")}`,
		`return {tostring(), tostring(nil), tostring(0/0), tostring(-0), tostring(2^63)}`,
		`return {math.random(0)}`, `return {math.random(5, 1)}`, `return {math.random(1e300)}`, `return {math.fmod(1, 0), math.floor(0/0), math.ldexp(1, 1e9), math.frexp(0/0)}`, `return {math.max()}`, `math.randomseed(0/0) return {math.random()}`,
		`return {rawset({}, nil, 1)}`, `return {rawset({}, 0/0, 1)}`, `return {rawget("x", 1)}`, `return {next({}, "nokey")}`, `return {next({}, 1)}`, `return {pairs(nil)}`, `return {ipairs()}`,
		`local t = {1, 2, 3} for k in pairs(t) do t[k] = nil t[k + 10] = 1 end return {}`, `for i, v in ipairs(setmetatable({}, {__index = function(t, i) return i end})) do if i > 1000 then break end end return {}`,
		`return {json.encode()}`, `return {json.encode(print)}`, `return {json.encode(_G)}`, `return {json.encode({[1] = 1, a = 2})}`, `return {json.encode(0/0)}`, `return {json.encode(("x"):rep(1000000))}`,
		`return {json.decode()}`, `return {json.decode("")}`, `return {json.decode("{")}`, `return {json.decode("[1e999]")}`, `return {json.decode('{"a":{"a":{"a":[[[[1]]]]}}}')}`,
		`return json.decode("[" .. ("["):rep(5000) .. ("]"):rep(5000) .. "]")`, `return json.decode('{"a":1,"a":2}')`, `return json.decode('"\\ud800"')`, `return {json.decode('[null,1,null]')}`, `return json.decode('12345678901234567890')`,
		`return json.decode(json.encode(obj))`, `local t = json.decode("[1,2]") t[4] = 1 return t`,
		`return {getfenv(0) == _G, getfenv(1) == _G, getfenv(print) == _G}`, `return {getfenv(99)}`, `return {getfenv(-1)}`, `setfenv(0, {}) return {}`, `setfenv(1, {}) return {}`, `setfenv(print, {}) return {}`, `setfenv(99, {})`,
		`return {collectgarbage("collect"), collectgarbage("count"), collectgarbage("bogus")}`, `print(obj, {}, nil) _printregs() return {}`, `for i = 1, 20000 do print(i) end return {}`,
		`local p = newproxy(true) getmetatable(p).__index = function() return 1 end return {p.x}`, `return {newproxy({})}`, `return {newproxy(newproxy(true))}`,
		`module("m") x = 1 return {}`, `module("string") return {}`, `module()`, `return {require("string")}`, `return {require("nothing")}`, `return {require()}`, `package = {loaded = {}, loaders = {function() return function() return {} end end}, path = "?"} return {require("m")}`,
		`return {load(function() return nil end)}`, `local n = 0 return {load(function() n = n + 1 if n < 3 then return "return " end if n == 3 then return "1" end end)}`, `return {load("return 1")}`, `return {loadstring("return {")}`, `return {loadstring(("x"):rep(100000))}`, `return loadstring("return ...")({})`,
		`return {dofile()}`, `return {dofile("/nonexistent/c16")}`, `return {loadfile("/nonexistent/c16")}`, `return {loadfile()}`,
		`return {os and os.execute("id"), io and io.open("/etc/passwd"), debug and debug.getregistry(), package and package.loadlib("x", "y")}`,
		`return {os.execute("id")}`, `return {io.open("/etc/passwd")}`, `return {debug.traceback()}`, `return {package.path}`,
	} {
		add(c(fmt.Sprintf("lib-%03d", i), "library-abuse", s))
	}

	// ---- sandbox / metatable tricks ----
	for i, s := range []string{
		`getmetatable("").__index = nil return {("x"):len()}`, `getmetatable("").__add = function() return {} end return "a" + 1`,
		`getmetatable("").__index = function(s, k) return string[k] end return {("x"):upper()}`, `getmetatable("").__metatable = false return {getmetatable("")}`,
		`setmetatable(_G, {__index = function(t, k) return k end}) return {undefined_global}`, `setmetatable(_G, {__newindex = function() error("ro") end}) x = 1 return {}`,
		`setmetatable(_G, {__index = function(t, k) return t[k] end}) return {nothing}`, `rawset(_G, "obj", nil) return {obj}`, `_G = nil return {}`, `string = nil json = nil table = nil math = nil return {}`,
		`for k in pairs(_G) do _G[k] = nil end return {}`, `for k, v in pairs(string) do string[k] = nil end return {("x").len}`, `type = nil pairs = nil tostring = nil error = nil return {}`,
		`obj = nil return {}`, `setmetatable(obj, {__index = function() error("x") end}) return obj`, `obj.data.spec = obj return obj`, `obj.data = print return obj`, `obj[1] = 1 return obj`,
		`error = function() end error("x") return {}`, `pcall = nil return {}`, `local e = error error = nil e("x")`, `json.encode = function() while true do end end return {a = 1}`,
		`json.encode = nil return {a = 1}`, `rawset(string, "__index", function() error("x") end) return {("x"):foo()}`, `debug = {traceback = function() while true do end end} error("x")`,
		`local mt = {} mt.__index = mt mt.__newindex = mt return setmetatable({}, mt)`, `return {rawequal(getmetatable(""), string), getmetatable("").__index == string}`,
		`getmetatable(newproxy(true)).__gc = function() while true do end end collectgarbage() return {}`,
		`local t = setmetatable({}, {__unm = function() return {} end, __len = function() return {} end}) return {-t}`,
		`local t = setmetatable({}, {__lt = function() return {} end, __le = function() error({}) end}) return {t < t, pcall(function() return t <= t end)}`,
	} {
		add(c(fmt.Sprintf("trick-%02d", i), "sandbox-trick", s))
	}

	// ---- pathological patterns: one Go call with exponential backtracking (DESIGN.md §9 witness first) ----
	add(
		corpusEntry{Name: "pattern-find", Class: "pattern-backtracking", Heavy: true, Objs: []string{"custom"},
			Script: `return {string.find(` + slowSubject + `, ` + slowPattern + `)}`},
		corpusEntry{Name: "pattern-gsub", Class: "pattern-backtracking", Heavy: true, Objs: []string{"ingress"},
			Script: `return {string.gsub(` + slowSubject + `, ` + slowPattern + `, "")}`},
		corpusEntry{Name: "pattern-match", Class: "pattern-backtracking", Heavy: true, ThoroughOnly: true, Objs: []string{"custom"},
			Script: `return {string.match(` + slowSubject + `, ` + slowPattern + `)}`},
		corpusEntry{Name: "pattern-gmatch", Class: "pattern-backtracking", Heavy: true, ThoroughOnly: true, Objs: []string{"custom"},
			Script: `for w in string.gmatch(` + slowSubject + `, ` + slowPattern + `) do end return {}`},
	)

	// ---- one library call whose cost is quadratic in a modest (100 KB) string: gsub re-copies the buffer per match ----
	add(corpusEntry{Name: "gsub-100k-matches", Class: "gsub-quadratic", Heavy: true, Objs: []string{"custom"},
		Script: `return {string.gsub(("a"):rep(100000), "a", "bb")}`})

	// ---- long flat scripts (no nesting, modest memory): compile time is outside the VM deadline ----
	// 100 000 distinct numeric literals, ~590 KB: below the 1 MiB limit of the ConfigMap the script comes from.
	var sb strings.Builder
	sb.WriteString("return {")
	for i := 0; i < 100000; i++ {
		if i > 0 {
			sb.WriteByte(',')
		}
		fmt.Fprintf(&sb, "%d", i)
	}
	sb.WriteString("}")
	add(corpusEntry{Name: "flat-100k-literals", Class: "compile-time", Heavy: true, Objs: []string{"custom"}, Script: sb.String()})
	sb.Reset()
	sb.WriteString("return {")
	for i := 0; i < 10000; i++ {
		if i > 0 {
			sb.WriteByte(',')
		}
		fmt.Fprintf(&sb, "%d", i)
	}
	sb.WriteString("}")
	add(corpusEntry{Name: "flat-10k-literals", Class: "compile-time", Objs: []string{"custom"}, Script: sb.String()})
	add(corpusEntry{Name: "flat-10k-statements", Class: "compile-time", Objs: []string{"custom"},
		Script: strings.Repeat("type(1) ", 10000) + "return {}"})

	return out
}

func joinN(prefix string, n int) string {
	parts := make([]string, n)
	for i := range parts {
		parts[i] = fmt.Sprintf("%s%d", prefix, i)
	}
	return strings.Join(parts, ",")
}
