package c16

import "fmt"

func DebugCounts() {
	for _, g := range []grammarCfg{quickGrammar(), thoroughGrammar()} {
		ps := g.programs()
		byN := map[int]int{}
		wh := 0
		for _, p := range ps {
			byN[p.nodes]++
			if p.f&fWhile != 0 {
				wh++
			}
		}
		fmt.Println("programs", len(ps), "while", wh, byN)
		for i := 0; i < len(ps); i += len(ps) / 12 {
			fmt.Printf("  %q\n", ps[i].src[len(prelude):])
		}
	}
}
