package c16

import (
	"fmt"
	"strings"
)

// ---------------------------------------------------------------------------------------------
// Bounded program grammar (Lua 5.1 subset). Every program of the grammar whose syntax tree has at
// most maxNodes nodes, expression depth <= maxDepth and at most maxStmts top-level statements is
// generated, smallest first. Nothing is sampled.
//
//   prog := "local x, t = 0, {}"  stmt{0..maxStmts}  "return t"   (the trailer is omitted after a top-level return)
//   stmt := x = E | t[K] = E | error(E) | return E
//         | if E then body end | while W do body end | for i = 1, 3 do body end
//   body := x = E | t[#t + 1] = E | return E | break (inside loops only)
//   E    := A | unary(E) | binary(E, E)
//   A    := nil | true | 1 | "a" | x | t | obj.data | ...        (obj is the call-site input object)
//
// "return" and "break" are only generated where Lua allows them (last statement of a block).
// ---------------------------------------------------------------------------------------------

type feat uint32

const (
	fWhile feat = 1 << iota
	fFor
	fPattern // string.find / gsub / match / format with generated arguments
	fJSON
	fMeta
	fPcall
	fError
	fLoad
	fReturn
	fTopReturn // the program ends with its own top-level return
)

type frag struct {
	s     string
	nodes int
	depth int
	f     feat
}

type grammarCfg struct {
	atoms    []string
	keys     []string // K
	whileCnd []string // W: conditions of while loops (kept small: most of them never terminate)
	unary    []opDef
	binary   []opDef
	maxNodes int
	maxDepth int
	maxStmts int
	// whileBodyNodes bounds the body of a while loop (every non-terminating program costs a full
	// second of the VM deadline, so the loop bodies are bounded separately from the rest).
	whileBodyNodes int
	// whileMaxTotal: programs containing a while loop are limited to this many nodes in total.
	whileMaxTotal int
}

type opDef struct {
	fmt string
	f   feat
}

func quickGrammar() grammarCfg {
	return grammarCfg{
		atoms:    []string{`nil`, `true`, `1`, `"a"`, `x`, `t`, `obj.data`},
		keys:     []string{`1`, `3`, `"a"`, `x`},
		whileCnd: []string{`true`, `x`},
		unary: []opDef{
			{`{%s}`, 0}, {`{a=%s}`, 0}, {`#%s`, 0}, {`-%s`, 0}, {`not %s`, 0}, {`tostring(%s)`, 0},
			{`(%s).spec`, 0}, {`(%s)()`, 0}, {`json.encode(%s)`, fJSON}, {`json.decode(%s)`, fJSON},
			{`setmetatable({}, %s)`, fMeta}, {`pcall(%s)`, fPcall}, {`error(%s)`, fError},
			{`%s .. "a"`, 0}, {`loadstring(%s)`, fLoad},
		},
		binary: []opDef{
			{`%s + %s`, 0}, {`%s < %s`, 0}, {`%s == %s`, 0}, {`(%s)[%s]`, 0}, {`%s or %s`, 0},
			{`{%s, %s}`, 0}, {`{%s, a=%s}`, 0}, {`string.find(%s, %s)`, fPattern},
			{`setmetatable(%s, %s)`, fMeta}, {`pcall(%s, %s)`, fPcall}, {`%s / %s`, 0},
		},
		maxNodes: 5, maxDepth: 3, maxStmts: 3, whileBodyNodes: 2, whileMaxTotal: 5,
	}
}

func thoroughGrammar() grammarCfg {
	g := quickGrammar()
	g.atoms = append(g.atoms, `obj`)
	g.whileCnd = append(g.whileCnd, `not x`, `x == 0`)
	g.unary = append(g.unary, opDef{`unpack(%s)`, 0})
	g.binary = append(g.binary, opDef{`string.gsub(%s, %s, "")`, fPattern})
	g.maxNodes, g.maxStmts, g.whileBodyNodes, g.whileMaxTotal = 6, 4, 3, 5
	return g
}

const prelude = "local x, t = 0, {}\n"

// exprs[n] = all expressions with exactly n nodes (depth <= maxDepth), in generation order.
func (g grammarCfg) exprTable() [][]frag {
	// a statement costs one node itself, so expressions have at most maxNodes-1 nodes
	tab := make([][]frag, g.maxNodes)
	for _, a := range g.atoms {
		tab[1] = append(tab[1], frag{s: a, nodes: 1, depth: 1})
	}
	for n := 2; n < g.maxNodes; n++ {
		for _, u := range g.unary {
			for _, e := range tab[n-1] {
				if e.depth+1 > g.maxDepth {
					continue
				}
				tab[n] = append(tab[n], frag{s: fmt.Sprintf(u.fmt, paren(e)), nodes: n, depth: e.depth + 1, f: e.f | u.f})
			}
		}
		for _, b := range g.binary {
			for n1 := 1; n1 <= n-2; n1++ {
				n2 := n - 1 - n1
				for _, e1 := range tab[n1] {
					if e1.depth+1 > g.maxDepth {
						continue
					}
					for _, e2 := range tab[n2] {
						if e2.depth+1 > g.maxDepth {
							continue
						}
						d := e1.depth
						if e2.depth > d {
							d = e2.depth
						}
						tab[n] = append(tab[n], frag{s: fmt.Sprintf(b.fmt, paren(e1), paren(e2)), nodes: n, depth: d + 1, f: e1.f | e2.f | b.f})
					}
				}
			}
		}
	}
	return tab
}

// paren wraps compound sub-expressions so that operator precedence never changes the tree.
func paren(e frag) string {
	if e.nodes == 1 {
		return e.s
	}
	return "(" + e.s + ")"
}

type stmtFrag struct {
	frag
	// final: must be the last statement of its block (return / break)
	final bool
}

// eachBody: simple statements usable as the single-statement body of if / for / while, exactly n nodes.
func (g grammarCfg) eachBody(ex [][]frag, n int, inLoop bool, f func(stmtFrag)) {
	if n == 1 && inLoop {
		f(stmtFrag{frag{s: "break", nodes: 1}, true})
	}
	if n >= 2 && n-1 < len(ex) {
		for _, e := range ex[n-1] {
			f(stmtFrag{frag{s: "x = " + e.s, nodes: n, f: e.f}, false})
		}
		for _, e := range ex[n-1] {
			f(stmtFrag{frag{s: "return " + e.s, nodes: n, f: e.f | fReturn}, true})
		}
		for _, e := range ex[n-1] {
			f(stmtFrag{frag{s: "t[#t + 1] = " + e.s, nodes: n, f: e.f}, false})
		}
	}
}

// eachStmt: every top-level statement with exactly n nodes.
func (g grammarCfg) eachStmt(ex [][]frag, n int, f func(stmtFrag)) {
	if n < 2 {
		return
	}
	if n-1 < len(ex) {
		for _, e := range ex[n-1] {
			f(stmtFrag{frag{s: "x = " + e.s, nodes: n, f: e.f}, false})
		}
		for _, e := range ex[n-1] {
			f(stmtFrag{frag{s: "return " + e.s, nodes: n, f: e.f | fReturn}, true})
		}
		for _, e := range ex[n-1] {
			f(stmtFrag{frag{s: "error(" + e.s + ")", nodes: n, f: e.f | fError}, false})
		}
		for _, k := range g.keys {
			for _, e := range ex[n-1] {
				f(stmtFrag{frag{s: "t[" + k + "] = " + e.s, nodes: n, f: e.f}, false})
			}
		}
	}
	// for i = 1, 3 do S end : 1 + |S|
	g.eachBody(ex, n-1, true, func(s stmtFrag) {
		f(stmtFrag{frag{s: "for i = 1, 3 do " + s.s + " end", nodes: n, f: s.f | fFor}, false})
	})
	// if E then S end : 1 + |E| + |S|
	for ne := 1; ne <= n-3; ne++ {
		ns := n - 1 - ne
		for _, e := range ex[ne] {
			g.eachBody(ex, ns, false, func(s stmtFrag) {
				f(stmtFrag{frag{s: "if " + e.s + " then " + s.s + " end", nodes: n, f: e.f | s.f}, false})
			})
		}
	}
	// while W do S end : 1 + 1 + |S|, |S| <= whileBodyNodes
	if n >= 3 && n-2 <= g.whileBodyNodes {
		for _, w := range g.whileCnd {
			g.eachBody(ex, n-2, true, func(s stmtFrag) {
				f(stmtFrag{frag{s: "while " + w + " do " + s.s + " end", nodes: n, f: s.f | fWhile}, false})
			})
		}
	}
}

type program struct {
	src   string
	nodes int
	f     feat
}

// forEachProgram enumerates every program of the grammar, ordered by node count (smallest first),
// without materialising the set.
func (g grammarCfg) forEachProgram(emit func(program)) {
	ex := g.exprTable()
	emit(program{src: prelude, nodes: 0})
	emit(program{src: prelude + "return t\n", nodes: 0})
	for total := 2; total <= g.maxNodes; total++ {
		var rec func(prefix string, left, stmtsLeft int, ff feat)
		rec = func(prefix string, left, stmtsLeft int, ff feat) {
			if left == 0 {
				if ff&fTopReturn == 0 {
					prefix += "return t\n"
				}
				emit(program{src: prelude + prefix, nodes: total, f: ff})
				return
			}
			if stmtsLeft == 0 {
				return
			}
			for sn := 2; sn <= left; sn++ {
				rest := left - sn
				if rest == 1 || (stmtsLeft == 1 && rest != 0) {
					continue // no top-level statement has a single node
				}
				g.eachStmt(ex, sn, func(s stmtFrag) {
					if s.final && rest != 0 {
						return
					}
					nf := ff | s.f
					if s.final {
						nf |= fTopReturn
					}
					if nf&fWhile != 0 && total > g.whileMaxTotal {
						return
					}
					rec(prefix+s.s+"\n", rest, stmtsLeft-1, nf)
				})
			}
		}
		rec("", total, g.maxStmts, 0)
	}
}

// grammarClass is the structural class used in signatures of grammar programs: loops dominate,
// then the library families used.
func grammarClass(f feat) string {
	var parts []string
	if f&fWhile != 0 {
		return "while-loop"
	}
	if f&fPattern != 0 {
		parts = append(parts, "pattern")
	}
	if f&fJSON != 0 {
		parts = append(parts, "json")
	}
	if f&fMeta != 0 {
		parts = append(parts, "metatable")
	}
	if f&fPcall != 0 {
		parts = append(parts, "pcall")
	}
	if f&fLoad != 0 {
		parts = append(parts, "loadstring")
	}
	if f&fFor != 0 {
		parts = append(parts, "for")
	}
	if len(parts) == 0 {
		return "straight-line"
	}
	return strings.Join(parts, "+")
}
