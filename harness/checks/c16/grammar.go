package c16

import (
	"fmt"
	"sort"
	"strings"
)

// ---------------------------------------------------------------------------------------------
// Bounded program grammar (Lua 5.1 subset). Every program of the grammar whose syntax tree has at
// most maxNodes nodes, expression depth <= maxDepth and at most maxStmts top-level statements is
// generated, smallest first. Nothing is sampled.
//
//   prog := "local x, t = 0, {}"  stmt{0..maxStmts}
//   stmt := x = E | t[K] = E | if E then stmt end | while W do stmt end | for i = 1, 3 do stmt end
//         | error(E) | table.insert(t, E) | setmetatable(t, E) | return E | break (inside loops only)
//   E    := A | unary(E) | binary(E, E)
//   A    := nil | true | 1 | "a" | x | t | obj.data | ...        (obj is the call-site input object)
//
// "return" and "break" are only generated where Lua allows them (last statement of a block).
// ---------------------------------------------------------------------------------------------

type feat uint32

const (
	fWhile feat = 1 << iota
	fFor
	fPattern // string.find / gsub / match / format with generated arguments
	fJSON
	fMeta
	fPcall
	fError
	fLoad
	fReturn
)

type frag struct {
	s     string
	nodes int
	depth int
	f     feat
}

type grammarCfg struct {
	atoms    []string
	keys     []string // K
	whileCnd []string // W: conditions of while loops (kept small: most of them never terminate)
	unary    []opDef
	binary   []opDef
	maxNodes int
	maxDepth int
	maxStmts int
	// whileBodyNodes bounds the body of a while loop (every non-terminating program costs a full
	// second of the VM deadline, so the loop bodies are bounded separately from the rest).
	whileBodyNodes int
	// whileMaxTotal: programs containing a while loop are limited to this many nodes in total.
	whileMaxTotal int
}

type opDef struct {
	fmt string
	f   feat
}

func quickGrammar() grammarCfg {
	return grammarCfg{
		atoms:    []string{`nil`, `true`, `1`, `"a"`, `x`, `t`, `obj.data`},
		keys:     []string{`1`, `3`, `"a"`, `x`},
		whileCnd: []string{`true`, `x`},
		unary: []opDef{
			{`{%s}`, 0}, {`{a=%s}`, 0}, {`#%s`, 0}, {`-%s`, 0}, {`not %s`, 0}, {`tostring(%s)`, 0},
			{`(%s).spec`, 0}, {`(%s)()`, 0}, {`json.encode(%s)`, fJSON}, {`json.decode(%s)`, fJSON},
			{`setmetatable({}, %s)`, fMeta}, {`pcall(%s)`, fPcall}, {`error(%s)`, fError},
			{`%s .. "a"`, 0}, {`loadstring(%s)`, fLoad},
		},
		binary: []opDef{
			{`%s + %s`, 0}, {`%s < %s`, 0}, {`%s == %s`, 0}, {`(%s)[%s]`, 0}, {`%s or %s`, 0},
			{`{%s, %s}`, 0}, {`{%s, a=%s}`, 0}, {`string.find(%s, %s)`, fPattern},
			{`setmetatable(%s, %s)`, fMeta}, {`pcall(%s, %s)`, fPcall}, {`%s / %s`, 0},
		},
		maxNodes: 6, maxDepth: 3, maxStmts: 3, whileBodyNodes: 2, whileMaxTotal: 5,
	}
}

func thoroughGrammar() grammarCfg {
	g := quickGrammar()
	g.atoms = append(g.atoms, `obj`, `0.5`)
	g.keys = append(g.keys, `true`)
	g.whileCnd = append(g.whileCnd, `not x`, `x == 0`)
	g.unary = append(g.unary,
		opDef{`type(%s)`, 0}, opDef{`tonumber(%s)`, 0}, opDef{`unpack(%s)`, 0}, opDef{`next(%s)`, 0},
		opDef{`table.concat(%s)`, 0}, opDef{`getmetatable(%s)`, fMeta}, opDef{`string.rep("ab", %s)`, 0},
		opDef{`string.format("%%5.2f", %s)`, fPattern}, opDef{`rawget(t, %s)`, 0},
	)
	g.binary = append(g.binary,
		opDef{`%s and %s`, 0}, opDef{`{a=%s, b=%s}`, 0}, opDef{`string.format(%s, %s)`, fPattern},
		opDef{`string.gsub(%s, %s, "")`, fPattern}, opDef{`rawset(t, %s, %s)`, 0}, opDef{`%s %% %s`, 0},
		opDef{`%s ^ %s`, 0}, opDef{`string.match(%s, %s)`, fPattern}, opDef{`xpcall(%s, %s)`, fPcall},
	)
	g.maxNodes, g.maxStmts, g.whileBodyNodes, g.whileMaxTotal = 6, 4, 3, 6
	return g
}

const prelude = "local x, t = 0, {}\n"

// exprs[n] = all expressions with exactly n nodes (depth <= maxDepth), in generation order.
func (g grammarCfg) exprTable() [][]frag {
	tab := make([][]frag, g.maxNodes+1)
	for _, a := range g.atoms {
		tab[1] = append(tab[1], frag{s: a, nodes: 1, depth: 1})
	}
	for n := 2; n <= g.maxNodes; n++ {
		for _, u := range g.unary {
			for _, e := range tab[n-1] {
				if e.depth+1 > g.maxDepth {
					continue
				}
				tab[n] = append(tab[n], frag{s: fmt.Sprintf(u.fmt, paren(e)), nodes: n, depth: e.depth + 1, f: e.f | u.f})
			}
		}
		for _, b := range g.binary {
			for n1 := 1; n1 <= n-2; n1++ {
				n2 := n - 1 - n1
				for _, e1 := range tab[n1] {
					if e1.depth+1 > g.maxDepth {
						continue
					}
					for _, e2 := range tab[n2] {
						if e2.depth+1 > g.maxDepth {
							continue
						}
						d := e1.depth
						if e2.depth > d {
							d = e2.depth
						}
						tab[n] = append(tab[n], frag{s: fmt.Sprintf(b.fmt, paren(e1), paren(e2)), nodes: n, depth: d + 1, f: e1.f | e2.f | b.f})
					}
				}
			}
		}
	}
	return tab
}

// paren wraps compound sub-expressions so that operator precedence never changes the tree.
func paren(e frag) string {
	if e.nodes == 1 {
		return e.s
	}
	return "(" + e.s + ")"
}

type stmtFrag struct {
	frag
	// final: must be the last statement of its block (return / break)
	final bool
}

// stmts[n] = all statements with exactly n nodes. inLoop allows `break`.
func (g grammarCfg) stmtTable(ex [][]frag, limit int, inLoop bool, allowWhile bool) [][]stmtFrag {
	tab := make([][]stmtFrag, limit+1)
	for n := 1; n <= limit; n++ {
		if n == 1 && inLoop {
			tab[1] = append(tab[1], stmtFrag{frag{s: "break", nodes: 1}, true})
		}
		if n >= 2 {
			for _, e := range ex[n-1] {
				tab[n] = append(tab[n], stmtFrag{frag{s: "x = " + e.s, nodes: n, f: e.f}, false})
			}
			for _, e := range ex[n-1] {
				tab[n] = append(tab[n], stmtFrag{frag{s: "return " + e.s, nodes: n, f: e.f | fReturn}, true})
			}
			for _, e := range ex[n-1] {
				tab[n] = append(tab[n], stmtFrag{frag{s: "error(" + e.s + ")", nodes: n, f: e.f | fError}, false})
				tab[n] = append(tab[n], stmtFrag{frag{s: "table.insert(t, " + e.s + ")", nodes: n, f: e.f}, false})
				tab[n] = append(tab[n], stmtFrag{frag{s: "setmetatable(t, " + e.s + ")", nodes: n, f: e.f | fMeta}, false})
			}
			for _, k := range g.keys {
				for _, e := range ex[n-1] {
					tab[n] = append(tab[n], stmtFrag{frag{s: "t[" + k + "] = " + e.s, nodes: n, f: e.f}, false})
				}
			}
		}
	}
	// compound statements (bodies are single statements; built bottom-up by size)
	for n := 2; n <= limit; n++ {
		// for i = 1, 3 do S end : 1 + |S|
		body := g.bodyTable(ex, n-1, true)
		for _, s := range body[n-1] {
			tab[n] = append(tab[n], stmtFrag{frag{s: "for i = 1, 3 do " + s.s + " end", nodes: n, f: s.f | fFor}, false})
		}
		// if E then S end : 1 + |E| + |S|
		for ne := 1; ne <= n-2; ne++ {
			ns := n - 1 - ne
			bodyIf := g.bodyTable(ex, ns, inLoop)
			for _, e := range ex[ne] {
				for _, s := range bodyIf[ns] {
					tab[n] = append(tab[n], stmtFrag{frag{s: "if " + e.s + " then " + s.s + " end", nodes: n, f: e.f | s.f}, false})
				}
			}
		}
		// while W do S end : 1 + 1 + |S|, |S| <= whileBodyNodes
		if allowWhile && n >= 3 && n-2 <= g.whileBodyNodes {
			bodyW := g.bodyTable(ex, n-2, true)
			for _, w := range g.whileCnd {
				for _, s := range bodyW[n-2] {
					tab[n] = append(tab[n], stmtFrag{frag{s: "while " + w + " do " + s.s + " end", nodes: n, f: s.f | fWhile}, false})
				}
			}
		}
	}
	return tab
}

// bodyTable: simple (non-compound) statements usable as the body of if/for/while.
func (g grammarCfg) bodyTable(ex [][]frag, limit int, inLoop bool) [][]stmtFrag {
	tab := make([][]stmtFrag, limit+1)
	for n := 1; n <= limit; n++ {
		if n == 1 && inLoop {
			tab[1] = append(tab[1], stmtFrag{frag{s: "break", nodes: 1}, true})
		}
		if n >= 2 {
			for _, e := range ex[n-1] {
				tab[n] = append(tab[n], stmtFrag{frag{s: "x = " + e.s, nodes: n, f: e.f}, false})
				tab[n] = append(tab[n], stmtFrag{frag{s: "return " + e.s, nodes: n, f: e.f | fReturn}, true})
				tab[n] = append(tab[n], stmtFrag{frag{s: "table.insert(t, " + e.s + ")", nodes: n, f: e.f}, false})
			}
		}
	}
	return tab
}

type program struct {
	src   string
	nodes int
	f     feat
}

// programs enumerates every program of the grammar, ordered by node count (smallest first).
func (g grammarCfg) programs() []program {
	ex := g.exprTable()
	st := g.stmtTable(ex, g.maxNodes, false, true)
	// seqs[k][n] = sequences of k statements with n nodes in total
	type seq struct {
		s     string
		nodes int
		f     feat
		final bool
	}
	var all []program
	all = append(all, program{src: prelude, nodes: 0})
	prev := map[int][]seq{0: {{s: "", nodes: 0}}}
	for k := 1; k <= g.maxStmts; k++ {
		cur := map[int][]seq{}
		for pn := 0; pn <= g.maxNodes; pn++ {
			for _, p := range prev[pn] {
				if p.final {
					continue
				}
				for sn := 1; pn+sn <= g.maxNodes; sn++ {
					for _, s := range st[sn] {
						tot := pn + sn
						ff := p.f | s.f
						if ff&fWhile != 0 && tot > g.whileMaxTotal {
							continue
						}
						cur[tot] = append(cur[tot], seq{s: p.s + s.s + "\n", nodes: tot, f: ff, final: s.final})
					}
				}
			}
		}
		for n := 1; n <= g.maxNodes; n++ {
			for _, q := range cur[n] {
				all = append(all, program{src: prelude + q.s, nodes: n, f: q.f})
			}
		}
		prev = cur
	}
	sort.SliceStable(all, func(i, j int) bool { return all[i].nodes < all[j].nodes })
	return all
}

// grammarClass is the structural class used in signatures of grammar programs: loops dominate,
// then the library families used.
func grammarClass(f feat) string {
	var parts []string
	if f&fWhile != 0 {
		return "while-loop"
	}
	if f&fPattern != 0 {
		parts = append(parts, "pattern")
	}
	if f&fJSON != 0 {
		parts = append(parts, "json")
	}
	if f&fMeta != 0 {
		parts = append(parts, "metatable")
	}
	if f&fPcall != 0 {
		parts = append(parts, "pcall")
	}
	if f&fLoad != 0 {
		parts = append(parts, "loadstring")
	}
	if f&fFor != 0 {
		parts = append(parts, "for")
	}
	if len(parts) == 0 {
		return "straight-line"
	}
	return strings.Join(parts, "+")
}
