package c16

import (
	"encoding/json"
	"fmt"
	"sort"
	"strings"

	"verifharness/lib"
)

// ---------------------------------------------------------------------------------------------
// Table shapes built BY THE SCRIPT (part 4b of the value bridge): every table constructor of a small
// grammar - positional entries, named entries, explicit integer keys in every order, a boolean key, a
// fractional key - returned at the top level and nested one level down. A Lua table whose keys are
// exactly 1..n is a list, one whose keys are all strings is an object, the empty table is null; every
// other table has NO JSON form. "Values ... survive the conversion unchanged in meaning": a table with
// a JSON form comes back as that value or is refused with an error for this one rollout; a table
// without one must be refused - coming back as a table means entries were dropped silently.
// ---------------------------------------------------------------------------------------------

type shapeEntry struct {
	Src  string // constructor fragment
	Kind string // "pos" | "int" | "str" | "other"
	Int  int    // key for Kind int
	Str  string // key for Kind str
	Val  string // the string value stored
}

var shapeAtoms = []shapeEntry{
	{Src: `"p1"`, Kind: "pos", Val: "p1"},
	{Src: `"p2"`, Kind: "pos", Val: "p2"},
	{Src: `[1]="i1"`, Kind: "int", Int: 1, Val: "i1"},
	{Src: `[2]="i2"`, Kind: "int", Int: 2, Val: "i2"},
	{Src: `[3]="i3"`, Kind: "int", Int: 3, Val: "i3"},
	{Src: `[4]="i4"`, Kind: "int", Int: 4, Val: "i4"},
	{Src: `host="h"`, Kind: "str", Str: "host", Val: "h"},
	{Src: `weight="w"`, Kind: "str", Str: "weight", Val: "w"},
	{Src: `[true]="b"`, Kind: "other", Val: "b"},
	{Src: `[1.5]="f"`, Kind: "other", Val: "f"},
}

type shape struct {
	Src      string
	Class    string      // list | object | empty | no-json-form/<why>
	Expected interface{} // for list / object / empty
}

// shapesUpTo: every ORDERED selection of up to k distinct atoms (order matters: it decides which part of the
// table implementation an entry lands in), without selections whose keys collide.
func shapesUpTo(k int) []shape {
	var out []shape
	var rec func(sel []int)
	rec = func(sel []int) {
		out = append(out, mkShape(sel))
		if len(sel) == k {
			return
		}
		for i := range shapeAtoms {
			dup := false
			for _, j := range sel {
				dup = dup || j == i
			}
			if !dup {
				rec(append(append([]int{}, sel...), i))
			}
		}
	}
	rec(nil)
	return out
}

func mkShape(sel []int) shape {
	var parts []string
	ints := map[int]string{}
	strs := map[string]interface{}{}
	other, collide := 0, false
	pos := 0
	for _, i := range sel {
		a := shapeAtoms[i]
		parts = append(parts, a.Src)
		switch a.Kind {
		case "pos":
			pos++
		case "str":
			strs[a.Str] = a.Val
		case "other":
			other++
		}
	}
	// Lua constructor semantics: positional entries get the keys 1..pos and are assigned AFTER the explicit ones
	// (they overwrite an explicit [i]= with the same key): such selections are ambiguous to read, they are skipped
	// from the judged set by marking them as colliding
	for _, i := range sel {
		if a := shapeAtoms[i]; a.Kind == "int" {
			if a.Int <= pos {
				collide = true
			}
			ints[a.Int] = a.Val
		}
	}
	p := 0
	for _, i := range sel {
		if a := shapeAtoms[i]; a.Kind == "pos" {
			p++
			ints[p] = a.Val
		}
	}
	s := shape{Src: "{" + strings.Join(parts, ", ") + "}"}
	switch {
	case collide:
		s.Class = "not-judged/positional-and-explicit-key-collide"
	case len(sel) == 0:
		s.Class, s.Expected = "empty", nil
	case other > 0:
		s.Class = "no-json-form/non-string-non-integer-key"
	case len(ints) > 0 && len(strs) > 0:
		s.Class = "no-json-form/mixed-integer-and-string-keys"
	case len(strs) > 0:
		s.Class, s.Expected = "object", strs
	default:
		keys := make([]int, 0, len(ints))
		for k := range ints {
			keys = append(keys, k)
		}
		sort.Ints(keys)
		if keys[0] != 1 || keys[len(keys)-1] != len(keys) {
			s.Class = "no-json-form/sparse-integer-keys"
		} else {
			l := make([]interface{}, len(keys))
			for i, k := range keys {
				l[i] = ints[k]
			}
			s.Class, s.Expected = "list", l
		}
	}
	return s
}

var shapeNestings = []struct{ Name, Pre, Post string }{
	{"top", `return {v = `, `}`},
	{"nested", `return {spec = {routes = `, `, keep = "k"}}`},
}

func shapeCase(s shape, nest int, trace func(string, ...interface{})) bridgeVerdict {
	n := shapeNestings[nest]
	script := n.Pre + s.Src + n.Post
	res := callSite(map[string]interface{}{}, script, true)
	pre := "shapes/" + n.Name + "/" + s.Class + "/"
	if trace != nil {
		trace("script            : %s", script)
		trace("class (oracle)    : %s", s.Class)
		trace("call-site result  : kind=%s type=%s err=%q enc=%s", res.Kind, res.RetType, res.Err, res.Enc)
	}
	if res.Panic != nil {
		return bridgeVerdict{Class: pre + "panic", Sig: "C16/panic/shapes/" + res.Panic.Site, Detail: fmt.Sprintf("script `%s`: panic %s\n%s", script, res.Panic.Value, res.Panic.Stack)}
	}
	if strings.HasPrefix(s.Class, "not-judged") {
		return bridgeVerdict{Class: pre + res.Kind}
	}
	if res.Kind != "table" {
		// refused: always allowed (an error for this one rollout)
		return bridgeVerdict{Class: pre + "refused (" + res.Kind + ")", Nontrivi: true}
	}
	var back interface{}
	if err := json.Unmarshal([]byte(res.Enc), &back); err != nil {
		return bridgeVerdict{Class: pre + "unparsable", Sig: "C16/bridge/shapes/unparsable-output", Detail: fmt.Sprintf("script `%s`: Encode produced %q: %v", script, res.Enc, err)}
	}
	if strings.HasPrefix(s.Class, "no-json-form") {
		return bridgeVerdict{Class: pre + "ENCODED", Sig: "C16/bridge/shapes/table-without-json-form-encoded/" + strings.TrimPrefix(s.Class, "no-json-form/") + "/" + n.Name,
			Detail: fmt.Sprintf("script `%s` returns a table that has no JSON form (%s); the conversion did not refuse it but produced %s: entries were dropped silently", script, s.Class, res.Enc)}
	}
	var expected interface{}
	if nest == 0 {
		expected = canon(map[string]interface{}{"v": s.Expected})
	} else {
		expected = canon(map[string]interface{}{"spec": map[string]interface{}{"routes": s.Expected, "keep": "k"}})
	}
	if d := firstDiff(expected, canon(back)); d != "" {
		return bridgeVerdict{Class: pre + "different", Sig: "C16/bridge/shapes/" + s.Class + "-changed/" + n.Name,
			Detail: fmt.Sprintf("script `%s` came back as %s, expected %s (first difference: %s)", script, res.Enc, lib.J(expected), d)}
	}
	return bridgeVerdict{Class: pre + "equal", Nontrivi: true}
}

func runShapes(r *lib.Report, st *stage, th bool) {
	k := 3
	if th {
		k = 4
	}
	shapes := shapesUpTo(k)
	base := 1 << 41
	for nest := range shapeNestings {
		nest := nest
		lib.ParallelFor(len(shapes), func(i int) {
			bv := shapeCase(shapes[i], nest, nil)
			r.AddEval(1)
			r.Outcome(bv.Class)
			if bv.Nontrivi {
				r.Nontrivial(fmt.Sprintf("shape:%d:%d", nest, i))
			}
			if bv.Sig != "" {
				st.add(bv.Sig, base+nest*(1<<30)+i, bv.Detail, replayCase{Kind: "shape", Shape: shapes[i].Src, Variant: shapeNestings[nest].Name})
			}
		})
	}
	r.Extra["table_shapes"] = map[string]interface{}{"constructors": len(shapes), "atoms": len(shapeAtoms), "max_entries": k, "nestings": len(shapeNestings)}
}

func replayShape(src, nesting string, say func(string, ...interface{})) bridgeVerdict {
	for _, s := range shapesUpTo(4) {
		if s.Src == src {
			for i, n := range shapeNestings {
				if n.Name == nesting {
					return shapeCase(s, i, say)
				}
			}
		}
	}
	return bridgeVerdict{Class: "unknown shape"}
}
