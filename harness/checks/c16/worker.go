package c16

import (
	"bufio"
	"encoding/json"
	"fmt"
	"os"
	"os/exec"
	"reflect"
	"regexp"
	"runtime"
	"runtime/debug"
	"strings"
	"sync"
	"sync/atomic"
	"time"

	"github.com/openkruise/rollouts/api/v1beta1"
	custom "github.com/openkruise/rollouts/pkg/trafficrouting/network/customNetworkProvider"
	"github.com/openkruise/rollouts/pkg/util/luamanager"
	lua "github.com/yuin/gopher-lua"
	"k8s.io/apimachinery/pkg/apis/meta/v1/unstructured"
	k8sruntime "k8s.io/apimachinery/pkg/runtime"
	gatewayv1beta1 "sigs.k8s.io/gateway-api/apis/v1beta1"

	"verifharness/lib"
)

// ---------------------------------------------------------------------------------------------
// Worker subprocesses. Every generated / hostile script is executed in a child process of the same
// binary (os.Args[0] re-executed with the hidden flag below), because the thing under test is the
// real-clock deadline: a script that never returns must not hang the check. The parent feeds a
// batch of scripts over fd 3 and reads one result line per script from fd 4; if a result does not
// arrive within the watchdog time the child is killed, the script is recorded as "killed" and the
// rest of the batch continues in a fresh child.
//
// The hidden mode is entered from init(), so any driver that imports this package supports it
// without changes to its main().
// ---------------------------------------------------------------------------------------------

const (
	workerFlag     = "--c16-worker"
	canaryEnvName  = "C16_CANARY_ENV"
	memBombExit    = 86
	memBudgetBytes = 768 << 20
	oracleBound    = 3 * time.Second  // 3x the VM deadline (DESIGN.md §4 C16)
	watchdog       = 10 * time.Second // hard per-script limit, then the worker is killed
	maxEncKeep     = 4096
)

func init() {
	if len(os.Args) >= 2 && os.Args[1] == workerFlag {
		workerMain()
		os.Exit(0)
	}
}

// item is one script execution request.
type item struct {
	Script string `json:"s"`
	// Obj selects the input object: "custom" (custom_network_provider.go LuaData), "ingress"
	// (ingress.go LuaData) or "min" ({"a":1}).
	Obj string `json:"o"`
	// Full keeps the whole encoded result (surface walk, probes, isolation).
	Full bool `json:"f,omitempty"`
}

type panicInfo struct {
	Value string `json:"value"`
	Site  string `json:"site"`
	Stack string `json:"stack"`
}

// itemResult is what the call sites of RunLuaScript would observe, plus timing.
type itemResult struct {
	ElapsedMs float64 `json:"ms"`
	// Kind: "table" (script returned a table and Encode succeeded), "encode-error", "nontable"
	// (call site returns its "expect table output" error), "error" (RunLuaScript returned an error),
	// "panic".
	Kind    string `json:"k"`
	RetType string `json:"rt,omitempty"`
	Err     string `json:"e,omitempty"`
	Enc     string `json:"enc,omitempty"`
	EncLen  int    `json:"n,omitempty"`
	// AnnErr / DataErr: json.Unmarshal of the encoded result into the two call-site targets
	// (map[string]string for ingress.go, custom.Data for custom_network_provider.go).
	AnnErr       string     `json:"ae,omitempty"`
	DataErr      string     `json:"de,omitempty"`
	Panic        *panicInfo `json:"p,omitempty"`
	InputMutated bool       `json:"im,omitempty"`
}

// ingressLuaData mirrors the function-local type LuaData of
// pkg/trafficrouting/network/ingress/ingress.go:executeLuaForCanary (field for field).
type ingressLuaData struct {
	Annotations           map[string]string
	Weight                string
	Matches               []v1beta1.HttpRouteMatch
	CanaryService         string
	RequestHeaderModifier *gatewayv1beta1.HTTPHeaderFilter
}

func headerMatch(name, val string) gatewayv1beta1.HTTPHeaderMatch {
	t := gatewayv1beta1.HeaderMatchExact
	return gatewayv1beta1.HTTPHeaderMatch{Type: &t, Name: gatewayv1beta1.HTTPHeaderName(name), Value: val}
}

// inputObjects builds the input objects exactly as the two call sites do
// (runtime.DefaultUnstructuredConverter.ToUnstructured of their LuaData).
func inputObjects() map[string]map[string]interface{} {
	matches := []v1beta1.HttpRouteMatch{{Headers: []gatewayv1beta1.HTTPHeaderMatch{headerMatch("user", "demo")}}}
	c := &custom.LuaData{
		Data: custom.Data{
			Spec: map[string]interface{}{
				"hosts": []interface{}{"svc"},
				"http": []interface{}{map[string]interface{}{"route": []interface{}{
					map[string]interface{}{"destination": map[string]interface{}{"host": "svc"}, "weight": int64(100)}}}},
			},
			Labels:      map[string]string{"l": "1"},
			Annotations: map[string]string{},
		},
		CanaryWeight: 20, StableWeight: 80, Matches: matches, CanaryService: "svc-canary", StableService: "svc",
	}
	i := &ingressLuaData{
		Annotations:   map[string]string{"nginx.ingress.kubernetes.io/canary": "true"},
		Weight:        "20",
		Matches:       matches,
		CanaryService: "svc-canary",
	}
	out := map[string]map[string]interface{}{"min": {"a": int64(1)}}
	cu, err := k8sruntime.DefaultUnstructuredConverter.ToUnstructured(c)
	if err != nil {
		panic(err)
	}
	iu, err := k8sruntime.DefaultUnstructuredConverter.ToUnstructured(i)
	if err != nil {
		panic(err)
	}
	out["custom"], out["ingress"] = cu, iu
	return out
}

// callSite executes one script the way ingress.go:executeLuaForCanary and
// custom_network_provider.go:executeLuaForCanary do: RunLuaScript, l.Get(-1), table => Encode =>
// json.Unmarshal into the provider's result type; anything else is an error for that rollout.
func callSite(obj map[string]interface{}, script string, full bool) (res itemResult) {
	in := k8sruntime.DeepCopyJSON(obj)
	start := time.Now()
	p := lib.Catch(func() {
		l, err := (&luamanager.LuaManager{}).RunLuaScript(&unstructured.Unstructured{Object: in}, script)
		if err != nil {
			res.Kind, res.Err = "error", clip(err.Error(), 400)
			return
		}
		rv := l.Get(-1)
		res.RetType = rv.Type().String()
		if rv.Type() != lua.LTTable {
			res.Kind = "nontable"
			res.Err = fmt.Sprintf("expect table output from Lua script, not %s", rv.Type().String())
			return
		}
		b, err := luamanager.Encode(rv)
		if err != nil {
			res.Kind, res.Err = "encode-error", clip(err.Error(), 400)
			return
		}
		res.Kind, res.EncLen = "table", len(b)
		if full {
			res.Enc = string(b)
		} else {
			res.Enc = clip(string(b), maxEncKeep)
		}
		ann := map[string]string{}
		if err := json.Unmarshal(b, &ann); err != nil {
			res.AnnErr = clip(err.Error(), 120)
		}
		var d custom.Data
		if err := json.Unmarshal(b, &d); err != nil {
			res.DataErr = clip(err.Error(), 120)
		}
	})
	res.ElapsedMs = float64(time.Since(start).Microseconds()) / 1000
	if p != nil {
		res.Kind = "panic"
		res.Panic = &panicInfo{Value: clip(p.Value, 300), Site: p.Site, Stack: clip(p.Stack, 3000)}
	}
	// the script works on a copy (decodeValue); the caller's object must be untouched
	if !reflect.DeepEqual(in, obj) {
		res.InputMutated = true
	}
	return res
}

func clip(s string, n int) string {
	if len(s) > n {
		return s[:n] + "…"
	}
	return s
}

func workerMain() {
	in := os.NewFile(3, "c16-jobs")
	out := os.NewFile(4, "c16-results")
	if in == nil || out == nil {
		fmt.Fprintln(os.Stderr, "c16 worker: fds 3/4 missing")
		os.Exit(2)
	}
	// Memory budget: memory bombs are outside the sandbox's claim (property text); a script that
	// grows the heap beyond the budget ends this worker with a dedicated exit code and is recorded
	// as "excluded", never as a verdict.
	go func() {
		var ms runtime.MemStats
		for {
			time.Sleep(10 * time.Millisecond)
			runtime.ReadMemStats(&ms)
			if ms.HeapAlloc > memBudgetBytes {
				// garbage of earlier scripts does not count: collect, then look again
				runtime.GC()
				runtime.ReadMemStats(&ms)
				if ms.HeapAlloc > memBudgetBytes {
					os.Exit(memBombExit)
				}
			}
		}
	}()
	debug.SetGCPercent(400) // every call allocates a fresh VM; collect less often
	debug.SetMemoryLimit(memBudgetBytes / 2)
	// production default is 1 GB: unbounded Go recursion (e.g. in the encoder) ends in the same fatal
	// "stack overflow", only sooner; Lua call depth is bounded by the VM itself
	debug.SetMaxStack(64 << 20)
	objs := inputObjects()
	dec := json.NewDecoder(bufio.NewReaderSize(in, 1<<20))
	w := bufio.NewWriterSize(out, 1<<16)
	enc := json.NewEncoder(w)
	for {
		var batch []item
		if err := dec.Decode(&batch); err != nil {
			return
		}
		for _, it := range batch {
			obj := objs[it.Obj]
			if obj == nil {
				obj = objs["min"]
			}
			res := callSite(obj, it.Script, it.Full)
			if err := enc.Encode(&res); err != nil {
				return
			}
			if err := w.Flush(); err != nil {
				return
			}
		}
	}
}

// ---------------------------------------------------------------------------------------------
// parent side
// ---------------------------------------------------------------------------------------------

// tailBuf keeps the head and the tail of a worker's stderr (a Go fatal error starts with the reason
// and continues with a long goroutine dump).
type tailBuf struct {
	mu   sync.Mutex
	head []byte
	tail []byte
}

const headKeep, tailKeep = 128 << 10, 16 << 10

func (t *tailBuf) Write(p []byte) (int, error) {
	t.mu.Lock()
	n := len(p)
	if room := headKeep - len(t.head); room > 0 {
		k := room
		if k > len(p) {
			k = len(p)
		}
		t.head = append(t.head, p[:k]...)
		p = p[k:]
	}
	t.tail = append(t.tail, p...)
	if len(t.tail) > tailKeep {
		t.tail = t.tail[len(t.tail)-tailKeep:]
	}
	t.mu.Unlock()
	return n, nil
}

// String drops klog lines (the repository logs its Lua configuration at start-up).
func (t *tailBuf) String() string {
	t.mu.Lock()
	defer t.mu.Unlock()
	s := string(t.head)
	if len(t.tail) > 0 {
		s += "\n[…]\n" + string(t.tail)
	}
	var keep []string
	for _, l := range strings.Split(s, "\n") {
		if len(l) > 5 && (l[0] == 'I' || l[0] == 'W' || l[0] == 'E') && l[1] >= '0' && l[1] <= '9' && l[5] == ' ' {
			continue
		}
		keep = append(keep, l)
	}
	return strings.Join(keep, "\n")
}

type workerProc struct {
	cmd    *exec.Cmd
	jobs   *os.File
	res    chan itemResult
	stderr *tailBuf
}

var canaryToken = "C16-CANARY-7f3a91"

func startWorker() (*workerProc, error) {
	jr, jw, err := os.Pipe()
	if err != nil {
		return nil, err
	}
	rr, rw, err := os.Pipe()
	if err != nil {
		return nil, err
	}
	exe, err := os.Executable()
	if err != nil {
		exe = os.Args[0]
	}
	cmd := exec.Command(exe, workerFlag)
	cmd.ExtraFiles = []*os.File{jr, rw}
	cmd.Stdin, cmd.Stdout = nil, nil // /dev/null: `print` and `loadfile()` (stdin) must not touch the protocol
	tb := &tailBuf{}
	cmd.Stderr = tb
	cmd.Env = append(os.Environ(), canaryEnvName+"="+canaryToken, "GOTRACEBACK=single")
	if err := cmd.Start(); err != nil {
		return nil, err
	}
	jr.Close()
	rw.Close()
	w := &workerProc{cmd: cmd, jobs: jw, res: make(chan itemResult, 256), stderr: tb}
	go func() {
		dec := json.NewDecoder(bufio.NewReaderSize(rr, 1<<16))
		for {
			var r itemResult
			if err := dec.Decode(&r); err != nil {
				close(w.res)
				rr.Close()
				return
			}
			w.res <- r
		}
	}()
	return w, nil
}

func (w *workerProc) stop() (exitCode int) {
	w.jobs.Close()
	_ = w.cmd.Process.Kill()
	err := w.cmd.Wait()
	if ee, ok := err.(*exec.ExitError); ok {
		return ee.ExitCode()
	}
	return 0
}

// outcome of one item as seen by the parent.
type outcome struct {
	itemResult
	// Killed: no result within the watchdog time, worker killed.
	Killed bool
	// Crashed: the worker process died while executing this item (exit code / stderr kept).
	Crashed  bool
	ExitCode int
	Stderr   string
	// MemBomb: worker ended itself (or the kernel refused memory) because of the memory budget.
	MemBomb bool
	// Skipped: not executed (class cut after repeated watchdog kills)
	Skipped bool
}

// runItems executes the items in order in worker processes owned by the caller's goroutine.
// wp is the current worker (may be nil) and is returned for reuse.
func runItems(wp *workerProc, items []item, skip func(i int) bool, onKill func(i int)) (*workerProc, []outcome, error) {
	outs := make([]outcome, len(items))
	i := 0
	for i < len(items) {
		if skip != nil && skip(i) {
			outs[i].Skipped = true
			i++
			continue
		}
		if wp == nil {
			var err error
			wp, err = startWorker()
			if err != nil {
				return nil, outs, err
			}
		}
		// send the rest of the batch (contiguous non-skipped run)
		j := i
		for j < len(items) && !(skip != nil && skip(j)) {
			j++
		}
		b, _ := json.Marshal(items[i:j])
		b = append(b, '\n')
		if _, err := wp.jobs.Write(b); err != nil {
			// worker gone before we could talk to it: restart once
			wp.stop()
			wp = nil
			var err2 error
			wp, err2 = startWorker()
			if err2 != nil {
				return nil, outs, err2
			}
			if _, err3 := wp.jobs.Write(b); err3 != nil {
				return wp, outs, fmt.Errorf("cannot write to worker: %v", err3)
			}
		}
		timer := time.NewTimer(watchdog)
		for i < j {
			if !timer.Stop() {
				select {
				case <-timer.C:
				default:
				}
			}
			timer.Reset(watchdog)
			select {
			case r, ok := <-wp.res:
				if ok {
					outs[i].itemResult = r
					i++
					continue
				}
				// worker died on item i
				code := wp.stop()
				st := wp.stderr.String()
				outs[i].Crashed, outs[i].ExitCode, outs[i].Stderr = true, code, st
				if code == memBombExit || strings.Contains(st, "out of memory") || strings.Contains(st, "cannot allocate memory") {
					outs[i].Crashed, outs[i].MemBomb = false, true
				} else if onKill != nil {
					onKill(-(i + 1)) // negative: crash
				}
				wp = nil
				i++
			case <-timer.C:
				wp.stop()
				wp = nil
				outs[i].Killed = true
				outs[i].ElapsedMs = float64(watchdog.Milliseconds())
				if onKill != nil {
					onKill(i)
				}
				i++
			}
			if wp == nil {
				break // remainder of the batch goes to a fresh worker
			}
		}
		timer.Stop()
	}
	return wp, outs, nil
}

// task is a batch dispatched to one worker-owning goroutine.
type task struct {
	first int // global index of items[0]
	items []item
	metas []meta
}

// meta describes where an item comes from (family / structural class), for signatures.
type meta struct {
	Family string `json:"family"` // grammar | corpus | lexical | surface | probe | isolation
	Class  string `json:"class"`
	Name   string `json:"name,omitempty"`
}

// runPool executes the tasks produced by gen on `par` workers; sink is called (concurrently) with
// every finished task.
func runPool(par int, gen func(emit func(task)), cut *classCut, sink func(t task, outs []outcome)) error {
	ch := make(chan task, 4*par)
	var wg sync.WaitGroup
	var firstErr atomic.Value
	for w := 0; w < par; w++ {
		wg.Add(1)
		go func() {
			defer wg.Done()
			var wp *workerProc
			defer func() {
				if wp != nil {
					wp.stop()
				}
			}()
			for t := range ch {
				if firstErr.Load() != nil {
					continue
				}
				var skip func(i int) bool
				var onKill func(i int)
				if cut != nil {
					tt := t
					skip = func(i int) bool { return cut.cutOff(tt.metas[i]) }
					onKill = func(i int) {
						if i < 0 {
							cut.crash(tt.metas[-i-1])
						} else {
							cut.kill(tt.metas[i])
						}
					}
				}
				var outs []outcome
				var err error
				wp, outs, err = runItems(wp, t.items, skip, onKill)
				if err != nil {
					firstErr.Store(err)
					continue
				}
				sink(t, outs)
			}
		}()
	}
	gen(func(t task) { ch <- t })
	close(ch)
	wg.Wait()
	if e := firstErr.Load(); e != nil {
		return e.(error)
	}
	return nil
}

// classCut stops executing further scripts of a (family, class) after `limit` watchdog kills (every
// kill costs 10 s) or 25 worker crashes (every crash costs a process start); the class already has
// its witness (tasks are dispatched smallest-first). A cut makes the run non-exhaustive.
type classCut struct {
	mu      sync.Mutex
	kills   map[string]int
	crashes map[string]int
	limit   int
	cut     map[string]int
}

func newClassCut(limit int) *classCut {
	return &classCut{kills: map[string]int{}, crashes: map[string]int{}, cut: map[string]int{}, limit: limit}
}

func (c *classCut) crash(m meta) {
	c.mu.Lock()
	c.crashes[m.Family+"/"+m.Class]++
	c.mu.Unlock()
}

func (c *classCut) kill(m meta) {
	c.mu.Lock()
	c.kills[m.Family+"/"+m.Class]++
	c.mu.Unlock()
}

func (c *classCut) cutOff(m meta) bool {
	if m.Family == "probe" || m.Family == "surface" || m.Family == "isolation" {
		return false
	}
	c.mu.Lock()
	defer c.mu.Unlock()
	k := m.Family + "/" + m.Class
	if c.kills[k] >= c.limit || c.crashes[k] >= 25 {
		c.cut[k]++
		return true
	}
	return false
}

// ---------------------------------------------------------------------------------------------
// outcome classes (evidence only)
// ---------------------------------------------------------------------------------------------

var (
	rePos    = regexp.MustCompile(`^<string>:\d+: `)
	reSyntax = regexp.MustCompile(`^<string> line:\d+\(column:\d+\) near .*`)
	reHex    = regexp.MustCompile(`0x[0-9a-f]+`)
	reQuoted = regexp.MustCompile(`'[^']*'`)
	reNum    = regexp.MustCompile(`\d+`)
)

func errClass(e string) string {
	if i := strings.IndexByte(e, '\n'); i >= 0 {
		e = e[:i]
	}
	e = rePos.ReplaceAllString(e, "")
	if reSyntax.MatchString(e) {
		return "syntax error"
	}
	if strings.HasPrefix(e, "compile error") {
		if i := strings.LastIndex(e, ": "); i >= 0 {
			return "compile error: " + e[i+2:]
		}
	}
	if i := strings.Index(e, "error calling MarshalJSON for type luamanager.jsonValue: "); i >= 0 {
		e = e[strings.LastIndex(e, "luamanager.jsonValue: ")+len("luamanager.jsonValue: "):]
	}
	e = reHex.ReplaceAllString(e, "0x_")
	e = reQuoted.ReplaceAllString(e, "'_'")
	e = reNum.ReplaceAllString(e, "N")
	return clip(e, 70)
}

func outcomeClass(o outcome) string {
	switch {
	case o.Skipped:
		return "skipped (class cut)"
	case o.Killed:
		return "KILLED: no return within 10 s"
	case o.MemBomb:
		return "excluded: memory budget exceeded"
	case o.Crashed:
		return "WORKER CRASHED"
	}
	switch o.Kind {
	case "table":
		return "table result"
	case "nontable":
		return "error: non-table return value"
	case "encode-error":
		e := errClass(o.Err)
		switch {
		case strings.Contains(e, "unsupported value"):
			e = "NaN / Inf"
		case strings.HasPrefix(e, "cannot encode ") && strings.HasSuffix(e, " to JSON") && !strings.Contains(e, "nested"):
			e = "cannot encode function / userdata"
		}
		return "error(Encode): " + e
	case "error":
		e := errClass(o.Err)
		switch {
		case strings.Contains(o.Err, "context deadline exceeded"):
			return "error: VM deadline (context deadline exceeded)"
		case e == "syntax error" || strings.HasPrefix(e, "compile error") || strings.Contains(e, " at EOF"):
			return "error: syntax / compile"
		case strings.Contains(e, "stack overflow"):
			return "error: stack overflow"
		}
		return "error: raised at run time"
	case "panic":
		return "PANIC"
	}
	return "?" + o.Kind
}
