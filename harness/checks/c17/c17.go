// Package c17: E4 "deploymc" - explicit-state search (BFS, visited set over canonical states) over the REAL advanced
// Deployment controller (pkg/controller/deployment: syncDeployment -> rolloutRolling / sync / scale) composed with a
// one-pod-per-step model of the ReplicaSet controller and the user (raise partition, scale).
package c17

import (
	"encoding/json"
	"fmt"
	"os"
	"runtime"
	"runtime/debug"
	"sort"
	"strconv"
	"strings"
	"sync"
	"sync/atomic"
	"time"

	"verifharness/lib"
)

// ---------------------------------------------------------------------------------------------------------------
// tier parameters
// ---------------------------------------------------------------------------------------------------------------

type tier struct {
	maxR      int // Deployment sizes 1..maxR
	fullR     int // up to this size every (maxSurge, maxUnavailable) pair of the alphabets; above it the percent forms only as the pair (25%,25%)
	twoOldR   int // up to this size initial states with two old ReplicaSets; above it one old ReplicaSet
	scaleR    int // scale +-1 transitions between sizes 1..scaleR (0 = no scale events)
	scaleB    int // at most this many scale events per history
	lagR      int // initial states with status.replicas = spec.replicas +-1 for Deployment sizes up to lagR
	budget    time.Duration
	maxStates int
}

func tierOf(thorough bool) tier {
	// (quick: one scale event per history between the sizes 1..3 since round 6 of the seeding - a scale event that
	// leaves one of several active ReplicaSets at its size is what seed C17-a5 needs)
	t := tier{maxR: 5, fullR: 3, twoOldR: 3, scaleR: 3, scaleB: 1, lagR: 0, budget: 300 * time.Second, maxStates: 12_000_000}
	if thorough {
		t = tier{maxR: 6, fullR: 4, twoOldR: 5, scaleR: 3, scaleB: 1, lagR: 3, budget: 13 * time.Minute, maxStates: 40_000_000}
	}
	// development knobs only (smaller / different searches while working on the check)
	if f := strings.Split(os.Getenv("C17_DEV_TIER"), ","); len(f) == 6 {
		v := make([]int, 6)
		for i := range f {
			v[i], _ = strconv.Atoi(f[i])
		}
		t.maxR, t.fullR, t.twoOldR, t.scaleR, t.scaleB, t.lagR = v[0], v[1], v[2], v[3], v[4], v[5]
	}
	if v, err := strconv.Atoi(os.Getenv("C17_DEV_BUDGET_S")); err == nil && v > 0 {
		t.budget = time.Duration(v) * time.Second
	}
	return t
}

// ---------------------------------------------------------------------------------------------------------------
// initial states: ALL consistent combinations inside the bounds (inductive flavour)
// ---------------------------------------------------------------------------------------------------------------

func genInitial(t tier) []key {
	seen := map[key]struct{}{}
	var out []key
	add := func(s *state) {
		st := *s
		for i := range st.RS {
			if st.RS[i].Present && st.RS[i].N != st.RS[i].S {
				st.SB = 0 // scale events only in histories that start from a settled status (keeps the product small)
			}
		}
		k := st.key()
		if _, ok := seen[k]; !ok {
			seen[k] = struct{}{}
			out = append(out, k)
		}
	}
	for R := 1; R <= t.maxR; R++ {
		var parts []int
		for p := 0; p <= R; p++ {
			parts = append(parts, p)
		}
		for p := firstPercentIdx; p < len(partAlpha); p++ {
			parts = append(parts, p)
		}
		for _, P := range parts {
			for MS := range surgeAlpha {
				for MU := range unavailAlpha {
					if surgeAlpha[MS] == "0" && unavailAlpha[MU] == "0" {
						continue // rejected by validation
					}
					if R > t.fullR && (isPercent(surgeAlpha[MS]) != isPercent(unavailAlpha[MU])) {
						continue // thinned tier: percent forms only together
					}
					base := state{R: R, P: P, MS: MS, MU: MU}
					if R <= t.scaleR {
						base.SB = t.scaleB
					}
					M := R + base.surge() // total spec.replicas bound
					lag := R <= t.lagR
					for nOld := 1; nOld <= 2 && (nOld == 1 || R <= t.twoOldR); nOld++ {
						for hasNew := 0; hasNew <= 1; hasNew++ {
							present := [3]bool{true, nOld == 2, hasNew == 1}
							genRS(base, present, 0, M, lag, add)
						}
					}
				}
			}
		}
	}
	return out
}

func genRS(s state, present [3]bool, i, left int, lag bool, add func(*state)) {
	if i == 3 {
		add(&s)
		return
	}
	if !present[i] {
		genRS(s, present, i+1, left, lag, add)
		return
	}
	for spec := 0; spec <= left; spec++ {
		ns := []int{spec}
		if lag {
			if spec > 0 {
				ns = append(ns, spec-1)
			}
			ns = append(ns, spec+1)
		}
		for _, n := range ns {
			for a := 0; a <= n; a++ {
				s.RS[i] = rsState{Present: true, S: spec, N: n, A: a, Ann: s.R}
				genRS(s, present, i+1, left-spec, lag, add)
			}
		}
	}
}

// ---------------------------------------------------------------------------------------------------------------
// search
// ---------------------------------------------------------------------------------------------------------------

type pinfo struct {
	parent key
	l      label
	depth  uint8
}

const nShards = 256

type visitedSet struct{ m [nShards]map[key]pinfo }

func shardOf(k key) int {
	x := uint64(k) * 0x9E3779B97F4A7C15
	return int(x >> 56)
}
func (v *visitedSet) get(k key) (pinfo, bool) { p, ok := v.m[shardOf(k)][k]; return p, ok }
func (v *visitedSet) put(k key, p pinfo)      { v.m[shardOf(k)][k] = p }
func (v *visitedSet) size() int {
	n := 0
	for i := range v.m {
		n += len(v.m[i])
	}
	return n
}

type cand struct {
	child, parent key
	l             label
}

type vio struct {
	sig    string
	detail string
	at     key // state whose sync produced it
	depth  uint8
	writes []write
	count  int64
	stale  int // -1, or the stale status.availableReplicas the Deployment carried at this sync
}

type workerOut struct {
	cands      [nShards][]cand
	fair       []edge
	syncs      int64
	staleSyncs int64
	trans      int64
	wrote      int64
	outcomes   map[string]int64
	vios       map[string]*vio
	expanded   int64
	writesMax  int
}

// better: is witness (depth,k) simpler than the recorded one?
func simpler(d1 uint8, k1 key, d2 uint8, k2 key) bool {
	if d1 != d2 {
		return d1 < d2
	}
	s1, s2 := fromKey(k1), fromKey(k2)
	if s1.R != s2.R {
		return s1.R < s2.R
	}
	p1, p2 := 0, 0
	for i := 0; i < 3; i++ {
		p1 += s1.RS[i].S + s1.RS[i].N
		p2 += s2.RS[i].S + s2.RS[i].N
	}
	if p1 != p2 {
		return p1 < p2
	}
	return k1 < k2
}

func (o *workerOut) violate(sig, detail string, at key, depth uint8, writes []write) {
	o.violateStale(sig, detail, at, depth, writes, -1)
}

func (o *workerOut) violateStale(sig, detail string, at key, depth uint8, writes []write, stale int) {
	v, ok := o.vios[sig]
	if !ok {
		o.vios[sig] = &vio{sig: sig, detail: detail, at: at, depth: depth, writes: writes, count: 1, stale: stale}
		return
	}
	v.count++
	if simpler(depth, at, v.depth, v.at) {
		v.detail, v.at, v.depth, v.writes, v.stale = detail, at, depth, writes, stale
	}
}

// staleValues: the values of the Deployment's status.availableReplicas a sync may meet when pods changed their
// availability since the previous sync wrote the status (the status is only refreshed at the end of a sync): one
// below / one above the truth, none, and every pod that exists.
func staleValues(s *state) []int {
	avail, total := 0, 0
	for i := range s.RS {
		if s.RS[i].Present {
			avail += s.RS[i].A
			total += s.RS[i].N
		}
	}
	var out []int
	for _, v := range []int{avail - 1, avail + 1, 0, total} {
		dup := v == avail || v < 0 || v > total
		for _, x := range out {
			dup = dup || x == v
		}
		if !dup {
			out = append(out, v)
		}
	}
	return out
}

// outcomeClass: what the sync did, as a set of (rs-kind, direction, call site).
func outcomeClass(s *state, res *syncResult) string {
	if res.panic != nil {
		return "sync:panic@" + res.panic.Site
	}
	var parts []string
	if s.scalingPending() {
		parts = append(parts, "scaling-event")
	}
	if res.errStr != "" {
		parts = append(parts, "error")
	}
	seen := map[string]bool{}
	for _, w := range res.writes {
		kind := "old"
		if w.RS == idxNew {
			kind = "new"
		}
		dir := "up"
		if w.To < w.From {
			dir = "down"
		}
		if w.RS == idxNew && !s.RS[idxNew].Present && w.Site == "getNewReplicaSet" {
			dir = "create"
		}
		p := kind + "-" + dir + "@" + w.Site
		if !seen[p] {
			seen[p] = true
			parts = append(parts, p)
		}
	}
	if len(res.writes) == 0 {
		parts = append(parts, "no-write")
	}
	return "sync:" + strings.Join(parts, "+")
}

// evalSync applies the oracles to one executed sync and returns the findings.
func evalSync(s *state, res *syncResult) []finding {
	var out []finding
	if res.panic != nil {
		out = append(out, finding{"panic", res.panic.Site, fmt.Sprintf("syncDeployment panicked: %s in state {%s}\n%s", res.panic.Value, s, res.panic.Stack), false})
		return out
	}
	if res.harness != "" {
		out = append(out, finding{"HARNESS", "state-abstraction", res.harness + " in state {" + s.String() + "}", false})
	}
	if s.scalingPending() {
		return out // the property scopes itself to "size is not being changed"
	}
	return append(out, checkWrites(s, res.writes)...)
}

type explorer struct {
	t       tier
	vis     visitedSet
	stop    int32
	started time.Time
}

func (e *explorer) expandChunk(w *world, chunk []key, depth uint8, o *workerOut, buf []succ) []succ {
	for _, k := range chunk {
		s := fromKey(k)
		res := w.sync(&s)
		o.syncs++
		o.expanded++
		if len(res.writes) > 0 {
			o.wrote++
		}
		if len(res.writes) > o.writesMax {
			o.writesMax = len(res.writes)
		}
		o.outcomes[outcomeClass(&s, &res)]++
		baseSigs := map[string]bool{}
		for _, f := range evalSync(&s, &res) {
			baseSigs[f.sig()] = true
			if f.Exempt {
				o.outcomes["exempt:"+f.Monitor+"@"+f.Site+":no-active-old-rs"]++
				continue
			}
			o.violate(f.sig(), f.Detail, k, depth, res.writes)
		}
		// the same sync with a Deployment status that is out of date (the safety clauses must hold all the same;
		// the successors of the graph are those of the up-to-date status)
		for _, sv := range staleValues(&s) {
			w.staleAvail = sv
			res2 := w.sync(&s)
			w.staleAvail = -1
			o.syncs++
			o.staleSyncs++
			for _, f := range evalSync(&s, &res2) {
				// only what the out-of-date status adds: a finding this state shows with the recomputed status as well
				// is reported (or exempted) there
				if f.Exempt || f.Monitor == "HARNESS" || baseSigs[f.sig()] {
					continue
				}
				o.violateStale(f.sig()+"/stale-deployment-status", fmt.Sprintf("%s\n(the Deployment's status.availableReplicas said %d at this sync: written by an earlier sync, pods changed since)", f.Detail, sv), k, depth, res2.writes, sv)
			}
		}
		buf = buf[:0]
		if res.panic == nil {
			buf = append(buf, succ{mkLabel(lSync, 0), res.after})
		}
		buf = modelSuccessors(&s, e.t.scaleR, buf)
		cov := s.covers()
		for i := range buf {
			ck := buf[i].s.key()
			o.trans++
			if cov && buf[i].l.fair() {
				o.fair = append(o.fair, edge{k, ck})
			}
			if _, ok := e.vis.get(ck); !ok {
				sh := shardOf(ck)
				o.cands[sh] = append(o.cands[sh], cand{ck, k, buf[i].l})
			}
		}
	}
	return buf
}

func pathTo(vis *visitedSet, k key) (key, []label) {
	var labels []label
	for {
		p, ok := vis.get(k)
		if !ok || p.depth == 0 {
			break
		}
		labels = append(labels, p.l)
		k = p.parent
	}
	for i, j := 0, len(labels)-1; i < j; i, j = i+1, j-1 {
		labels[i], labels[j] = labels[j], labels[i]
	}
	return k, labels
}

type replayCase struct {
	Mode  string    `json:"mode"` // "trace" | "convergence"
	Init  stateJSON `json:"init"`
	Steps []string  `json:"steps,omitempty"`
	// informational
	StaleAvail *int        `json:"stale_deployment_status_available_at_last_sync,omitempty"`
	Writes     []write     `json:"writes_of_last_sync,omitempty"`
	Final      *stateJSON  `json:"state_at_violation,omitempty"`
	SCC        []stateJSON `json:"bottom_scc,omitempty"`
}

func mkTraceReplay(vis *visitedSet, at key, writes []write) replayCase {
	root, labels := pathTo(vis, at)
	rs := fromKey(root)
	fs := fromKey(at)
	fj := fs.toJSON()
	c := replayCase{Mode: "trace", Init: rs.toJSON(), Writes: writes, Final: &fj}
	for _, l := range labels {
		c.Steps = append(c.Steps, l.String())
	}
	c.Steps = append(c.Steps, "sync")
	return c
}

func Run(r *lib.Report) {
	t := tierOf(r.Thorough())
	// The live heap is small while 16 workers allocate GBs of short-lived API objects per second: with the default
	// GOGC the collector runs continuously and serialises the workers. Collect only when 4 GiB are in use.
	oldGC := debug.SetGCPercent(-1)
	oldLimit := debug.SetMemoryLimit(gcLimit())
	defer func() { debug.SetGCPercent(oldGC); debug.SetMemoryLimit(oldLimit) }()
	e := &explorer{t: t, started: time.VerifRealNow()}
	for i := range e.vis.m {
		e.vis.m[i] = map[key]pinfo{}
	}
	r.Rule = "explicit-state BFS with a visited set over canonical states (Deployment replicas, partition, maxSurge, maxUnavailable as written; per ReplicaSet spec.replicas, status.replicas, status.availableReplicas, desired-replicas annotation). " +
		"Every state of the bounded domain is an initial state (inductive flavour; bounds and thinning under coverage.bounds, per-size groups under coverage.groups). Each state gets exactly one REAL syncDeployment (evaluations = real syncs) plus the model transitions (ReplicaSet controller: create / delete / pod available / pod unavailable, one pod per step; user: raisePartition; thorough: scale +-1); non-trivial = syncs that wrote at least one ReplicaSet spec.replicas. Safety oracles run on every sync, the convergence oracle on the finished graph."
	r.Assumptions = []string{
		"Partition reading: integer partitions count pods; percentages are scaled against Deployment replicas and rounded UP (as NewRSReplicasLimit / CalculateBatchReplicas do and as the API comment 'how many Pods should be updated' suggests), clamped to [0,replicas]. The repository additionally keeps one old pod for every percentage other than \"100%\" when replicas>1; the oracle does not demand that extra strictness.",
		"maxSurge percent rounds up, maxUnavailable percent rounds down, both resolving to zero means maxUnavailable=1 (Kubernetes fence-post rule).",
		"Availability oracle: a ReplicaSet with a available pods told to keep c pods keeps min(a,c) available ones (ReplicaSet controller deletes unavailable pods first). A violation needs a write that lowers min(a,c) of an old ReplicaSet AND leaves sum(min(a,c)) < replicas-maxUnavailable.",
		"Growing the new ReplicaSet beyond the partition while every old ReplicaSet has spec.replicas 0 is NOT reported (counted as outcome class 'exempt:...'): with no old pods nothing is reserved and the controller's 'only one active ReplicaSet -> follow Deployment replicas' rule applies.",
		"Old-reserve oracle only fires on writes that SHRINK an old ReplicaSet; over-partition and surge oracles only on writes that GROW the new ReplicaSet (creation counts as growth from 0).",
		"The sync that handles a scaling event (an active ReplicaSet still annotated with the previous Deployment size) is not checked: the property scopes itself to unchanged size.",
		"Before every sync the Deployment, ReplicaSets, clientset and listers are rebuilt from the canonical state (no informer lag); Deployment.status is recomputed, never carried over: the controller's ReplicaSet decisions do not read it when the max-replicas annotation is present (it always is).",
		"Out-of-date Deployment status: besides the sync with the recomputed status every state gets up to four more REAL syncs in which the Deployment carries a status.availableReplicas / readyReplicas that an earlier sync could have written before pods changed (truth-1, truth+1, 0, every existing pod); the safety oracles must hold on them too (signature suffix /stale-deployment-status); their successors are not added to the graph (on a controller that never reads the status they equal the ones already there).",
		"Scale events: at most scaleB per history (quick: 1, between the sizes 1..3; thorough: 1, sizes 1..3 of a larger domain) and only from initial states with settled status; initial states with status.replicas = spec.replicas +-1 only for small sizes (see coverage.bounds).",
		"Degradation (available pod becomes unavailable) is explored without a budget, which is a superset of the budgeted histories; degrade, raisePartition and scale edges are not fair edges.",
		"Convergence: in the graph restricted to syncs and healthy environment steps, every bottom SCC reachable in a slice whose partition is \"100%\" or an integer >= replicas must be the single state {new.spec=replicas, every old.spec=0}.",
	}
	r.TrustedBase = []string{
		"ReplicaSet controller/kubelet model: one pod per step; status.replicas moves towards spec.replicas; scale-down deletes unavailable pods first; a pod may become available/unavailable at any time",
		"client-go fake typed clientset + cache.Indexer-backed listers",
	}

	init0 := genInitial(t)
	if os.Getenv("C17_DEV_TRACE") != "" {
		fmt.Fprintf(os.Stderr, "initial states %d t=%.1fs\n", len(init0), time.VerifRealNow().Sub(e.started).Seconds())
	}
	sort.Slice(init0, func(i, j int) bool { return init0[i] < init0[j] })
	for _, k := range init0 {
		e.vis.put(k, pinfo{parent: k, depth: 0})
	}
	r.Extra["initial_states"] = len(init0)
	r.Extra["bounds"] = map[string]interface{}{
		"replicas": fmt.Sprintf("1..%d", t.maxR), "partition": "ints 0..replicas + {0%,1%,20%,50%,99%,100%}", "maxSurge": surgeAlpha, "maxUnavailable": unavailAlpha,
		"old_replicasets": "1..2", "new_replicaset": "0..1", "sum_spec_replicas_initial": "<= replicas+maxSurge",
		"initial_status_lag": fmt.Sprintf("status.replicas = spec.replicas (and +-1 for replicas <= %d)", t.lagR),
		"scale_events":       fmt.Sprintf("scale +-1 between sizes 1..%d, at most %d per history", t.scaleR, t.scaleB),
		"thinning":           fmt.Sprintf("replicas > %d: maxSurge/maxUnavailable percent forms only as the pair (25%%,25%%); replicas > %d: one old ReplicaSet only", t.fullR, t.twoOldR),
	}

	nw := runtime.NumCPU()
	worlds := make([]*world, nw)
	for i := range worlds {
		worlds[i] = newWorld()
	}
	total := workerOut{outcomes: map[string]int64{}, vios: map[string]*vio{}}
	var fairEdges []edge
	// The slices of different Deployment sizes are only connected by scale events (sizes 1..scaleR <= 3), so the
	// search runs group by group, small sizes first: if the wall budget cuts the run, only the largest sizes are lost.
	groups := map[int][]key{}
	for _, k := range init0 {
		g := 0
		if R := fromKey(k).R; R > 3 {
			g = R - 3
		}
		groups[g] = append(groups[g], k)
	}
	var groupStats []map[string]interface{}
	maxDepth := 0
	cut := ""
	var frontier []key
	depth := 0
groupLoop:
	for g := 0; g <= t.maxR; g++ {
		if len(groups[g]) == 0 {
			continue
		}
		if cut != "" {
			groupStats = append(groupStats, map[string]interface{}{"group": g, "skipped": true, "initial_states": len(groups[g])})
			continue
		}
		frontier = groups[g]
		depth = 0
		before := e.vis.size()
		for len(frontier) > 0 {
			if depth >= 250 {
				cut = "depth 250 reached"
				break
			}
			const chunkSize = 128
			nChunks := (len(frontier) + chunkSize - 1) / chunkSize
			outs := make([]*workerOut, nw)
			var next int64 = -1
			var wg sync.WaitGroup
			for wi := 0; wi < nw; wi++ {
				wg.Add(1)
				o := &workerOut{outcomes: map[string]int64{}, vios: map[string]*vio{}}
				outs[wi] = o
				go func(w *world, o *workerOut) {
					defer wg.Done()
					var buf []succ
					for {
						if atomic.LoadInt32(&e.stop) != 0 {
							return
						}
						c := int(atomic.AddInt64(&next, 1))
						if c >= nChunks {
							return
						}
						if c%64 == 0 && time.VerifRealNow().Sub(e.started) > t.budget {
							atomic.StoreInt32(&e.stop, 1)
							return
						}
						hi := (c + 1) * chunkSize
						if hi > len(frontier) {
							hi = len(frontier)
						}
						buf = e.expandChunk(w, frontier[c*chunkSize:hi], uint8(depth), o, buf)
					}
				}(worlds[wi], o)
			}
			wg.Wait()
			if os.Getenv("C17_DEV_TRACE") != "" {
				fmt.Fprintf(os.Stderr, "level %d frontier %d t=%.1fs\n", depth, len(frontier), time.VerifRealNow().Sub(e.started).Seconds())
			}
			// merge (deterministic: candidates sorted per shard, the smallest (parent,label) wins)
			for _, o := range outs {
				fairEdges = append(fairEdges, o.fair...)
				total.syncs += o.syncs
				total.staleSyncs += o.staleSyncs
				total.trans += o.trans
				total.wrote += o.wrote
				total.expanded += o.expanded
				if o.writesMax > total.writesMax {
					total.writesMax = o.writesMax
				}
				for k, v := range o.outcomes {
					total.outcomes[k] += v
				}
				for sig, v := range o.vios {
					tv, ok := total.vios[sig]
					if !ok {
						total.vios[sig] = v
						continue
					}
					tv.count += v.count
					if simpler(v.depth, v.at, tv.depth, tv.at) {
						tv.detail, tv.at, tv.depth, tv.writes = v.detail, v.at, v.depth, v.writes
					}
				}
			}
			if atomic.LoadInt32(&e.stop) != 0 {
				cut = fmt.Sprintf("wall budget %s exhausted at depth %d", t.budget, depth)
				break
			}
			var fresh [nShards][]key
			lib.ParallelFor(nShards, func(sh int) {
				var cands []cand
				for _, o := range outs {
					cands = append(cands, o.cands[sh]...)
				}
				sort.Slice(cands, func(i, j int) bool {
					a, b := cands[i], cands[j]
					if a.child != b.child {
						return a.child < b.child
					}
					if a.parent != b.parent {
						return a.parent < b.parent
					}
					return a.l < b.l
				})
				for i, c := range cands {
					if i > 0 && cands[i-1].child == c.child {
						continue
					}
					e.vis.m[sh][c.child] = pinfo{parent: c.parent, l: c.l, depth: uint8(depth + 1)}
					fresh[sh] = append(fresh[sh], c.child)
				}
			})
			frontier = frontier[:0:0]
			for sh := range fresh {
				frontier = append(frontier, fresh[sh]...)
			}
			// keep ~1 GiB of head-room for garbage above the (pointer-free) search structures
			debug.SetMemoryLimit(gcLimit() + int64(e.vis.size())*48 + int64(len(fairEdges))*16)
			depth++
			if e.vis.size() > t.maxStates {
				cut = fmt.Sprintf("state cap %d reached at depth %d", t.maxStates, depth)
				break
			}
		}
		if depth > maxDepth {
			maxDepth = depth
		}
		sizes := "1..3"
		if g > 0 {
			sizes = strconv.Itoa(g + 3)
		}
		groupStats = append(groupStats, map[string]interface{}{"group": g, "replicas": sizes, "initial_states": len(groups[g]),
			"states": e.vis.size() - before + len(groups[g]), "bfs_depth": depth, "cut": cut, "t_s": int(time.VerifRealNow().Sub(e.started).Seconds())})
		if cut != "" {
			cut = fmt.Sprintf("group %d (replicas %s): %s", g, sizes, cut)
			continue groupLoop
		}
	}
	depth = maxDepth
	r.Extra["groups"] = groupStats
	exhaustive := cut == ""
	if !exhaustive {
		r.NotExhaustive(cut)
	}
	nStates := e.vis.size()
	r.AddEval(total.syncs)
	r.AddGraph(int64(nStates), total.trans, total.syncs)
	r.NontrivialN("sync-with-replicas-write", int(total.wrote))
	r.Extra["bfs_depth"] = depth
	r.Extra["syncs_with_write"] = total.wrote
	r.Extra["syncs_with_an_out_of_date_deployment_status"] = total.staleSyncs
	r.Extra["max_writes_in_one_sync"] = total.writesMax
	for k, v := range total.outcomes {
		for i := int64(0); i < v; i++ {
			r.Outcome(k)
		}
	}

	// safety violations, deterministic order
	sigs := make([]string, 0, len(total.vios))
	for s := range total.vios {
		sigs = append(sigs, s)
	}
	sort.Strings(sigs)
	for _, sig := range sigs {
		v := total.vios[sig]
		rc := mkTraceReplay(&e.vis, v.at, v.writes)
		if v.stale >= 0 {
			sv := v.stale
			rc.StaleAvail = &sv
		}
		detail := fmt.Sprintf("%s\n(%d states of the graph show this signature; trace: init {%s} steps %v)", v.detail, v.count, stateStr(rc.Init), rc.Steps)
		for i := int64(0); i < v.count; i++ {
			r.Violate(sig, detail, rc)
		}
	}

	// convergence on the finished graph
	var nodes []key
	for i := range e.vis.m {
		for k := range e.vis.m[i] {
			s := fromKey(k)
			if s.covers() {
				nodes = append(nodes, k)
			}
		}
	}
	expandedSet := func(k key) bool { return true }
	if !exhaustive {
		// states of the last (unfinished) frontier and beyond were not expanded
		has := map[key]struct{}{}
		for _, ed := range fairEdges {
			has[ed.from] = struct{}{}
		}
		expandedSet = func(k key) bool { _, ok := has[k]; return ok }
	}
	bott := bottomSCCs(nodes, fairEdges, expandedSet)
	okBottom := 0
	convCount := map[string]int64{}
	convFirst := map[string]*convFinding{}
	for _, scc := range bott {
		cf := classifyBottom(scc)
		if cf == nil {
			okBottom++
			continue
		}
		sig := "C17/convergence/" + cf.Class
		convCount[sig]++
		if cur, ok := convFirst[sig]; !ok || simpler(0, cf.States[0], 0, cur.States[0]) {
			convFirst[sig] = cf
		}
	}
	r.Extra["convergence"] = map[string]interface{}{"covering_states": len(nodes), "fair_edges": len(fairEdges), "bottom_sccs": len(bott), "bottom_sccs_converged": okBottom}
	csigs := make([]string, 0, len(convFirst))
	for s := range convFirst {
		csigs = append(csigs, s)
	}
	sort.Strings(csigs)
	for _, sig := range csigs {
		cf := convFirst[sig]
		st := fromKey(cf.States[0])
		root, labels := pathTo(&e.vis, cf.States[0])
		rootS := fromKey(root)
		rc := replayCase{Mode: "convergence", Init: st.toJSON()}
		for i, k := range cf.States {
			if i >= 8 {
				break
			}
			s := fromKey(k)
			rc.SCC = append(rc.SCC, s.toJSON())
		}
		var steps []string
		for _, l := range labels {
			steps = append(steps, l.String())
		}
		detail := fmt.Sprintf("partition covers all replicas but the fair-edge graph (syncs + healthy ReplicaSet-controller steps) has a bottom SCC of %d state(s) that is not {new=replicas, old=0}: {%s}\n(%d such bottom SCCs; reachable from initial state {%s} by %v)",
			len(cf.States), &st, convCount[sig], &rootS, steps)
		for i := int64(0); i < convCount[sig]; i++ {
			r.Violate(sig, detail, rc)
		}
	}
	if len(nodes) == 0 || okBottom == 0 {
		r.Warn("no converged bottom SCC was seen: convergence oracle is vacuous")
	}
	if total.wrote == 0 {
		r.Warn("no sync ever wrote a ReplicaSet size")
	}

	// samples: real traces
	e.samples(r, worlds[0])
}

func stateStr(j stateJSON) string {
	s, err := j.toState()
	if err != nil {
		return err.Error()
	}
	return s.String()
}

// samples re-executes a few traces on the real controller and stores them.
func (e *explorer) samples(r *lib.Report, w *world) {
	// 1. a full roll-out driven greedily (sync first, then the first healthy environment step)
	starts := []stateJSON{
		{Replicas: 4, Partition: "100%", MaxSurge: "1", MaxUnavailable: "0", Old1: &rsJSON{4, 4, 4, 4}},
		{Replicas: 5, Partition: "50%", MaxSurge: "25%", MaxUnavailable: "25%", Old1: &rsJSON{2, 2, 2, 5}, Old2: &rsJSON{3, 3, 1, 5}},
		{Replicas: 3, Partition: "2", MaxSurge: "0", MaxUnavailable: "1", Old1: &rsJSON{3, 3, 3, 3}, New: &rsJSON{0, 0, 0, 3}},
	}
	for _, sj := range starts {
		s, err := sj.toState()
		if err != nil || s.R > e.t.maxR {
			continue
		}
		var steps []string
		for n := 0; n < 60; n++ {
			res := w.sync(&s)
			if res.after != s {
				steps = append(steps, fmt.Sprintf("sync %s -> {%s}", lib.J(res.writes), &res.after))
				s = res.after
				continue
			}
			moved := false
			for _, sc := range modelSuccessors(&s, 0, nil) {
				if sc.l.fair() {
					steps = append(steps, fmt.Sprintf("%s -> {%s}", sc.l, &sc.s))
					s = sc.s
					moved = true
					break
				}
			}
			if !moved {
				steps = append(steps, "quiescent")
				break
			}
		}
		r.Sample(map[string]interface{}{"kind": "greedy fair run on the real controller", "init": sj, "steps": steps})
	}
	// 2. the deepest state of the search with its BFS path
	var deepest key
	var dd uint8
	for i := range e.vis.m {
		for k, p := range e.vis.m[i] {
			if p.depth > dd || (p.depth == dd && k < deepest) {
				deepest, dd = k, p.depth
			}
		}
	}
	if dd > 0 {
		root, labels := pathTo(&e.vis, deepest)
		rs, ds := fromKey(root), fromKey(deepest)
		var steps []string
		for _, l := range labels {
			steps = append(steps, l.String())
		}
		r.Sample(map[string]interface{}{"kind": "deepest BFS state", "init": rs.toJSON(), "steps": steps, "reaches": ds.toJSON()})
	}
}

// ---------------------------------------------------------------------------------------------------------------
// Replay: re-executes ONE recorded case without the explorer.
// ---------------------------------------------------------------------------------------------------------------

func Replay(r *lib.Report, raw json.RawMessage) {
	var rc replayCase
	if err := json.Unmarshal(raw, &rc); err != nil {
		fmt.Println("HARNESS-ERROR cannot parse replay:", err)
		return
	}
	s, err := rc.Init.toState()
	if err != nil {
		fmt.Println("HARNESS-ERROR bad initial state:", err)
		return
	}
	w := newWorld()
	fmt.Printf("init   {%s}\n", &s)
	if rc.Mode == "convergence" {
		replayConvergence(r, w, s)
		return
	}
	for i, st := range rc.Steps {
		l, err := parseLabel(st)
		if err != nil {
			fmt.Println("HARNESS-ERROR", err)
			return
		}
		if l.kind() != lSync {
			n, err := applyModel(&s, l, maxIntPartition)
			if err != nil {
				fmt.Println("HARNESS-ERROR", err)
				return
			}
			s = n
			fmt.Printf("step %d %-28s -> {%s}\n", i+1, st, &s)
			continue
		}
		if rc.StaleAvail != nil && i == len(rc.Steps)-1 {
			w.staleAvail = *rc.StaleAvail
			fmt.Printf("       (the Deployment carries status.availableReplicas=%d at this sync)\n", w.staleAvail)
		}
		res := w.sync(&s)
		w.staleAvail = -1
		sfx := ""
		if rc.StaleAvail != nil && i == len(rc.Steps)-1 {
			sfx = "/stale-deployment-status"
		}
		fmt.Printf("step %d REAL syncDeployment        writes=%s err=%q%s\n", i+1, lib.J(res.writes), res.errStr, map[bool]string{true: " (scaling event: not checked)", false: ""}[s.scalingPending()])
		for _, f := range evalSync(&s, &res) {
			if f.Exempt {
				fmt.Printf("       (not demanded: %s - no old ReplicaSet is active)\n", f.Detail)
				continue
			}
			fmt.Printf("       VIOLATION %s: %s\n", f.sig()+sfx, f.Detail)
			r.Violate(f.sig()+sfx, f.Detail, rc)
		}
		s = res.after
		fmt.Printf("       -> {%s}\n", &s)
	}
}

func replayConvergence(r *lib.Report, w *world, s0 state) {
	if !s0.covers() {
		fmt.Println("partition does not cover all replicas: nothing to check")
		return
	}
	seen := map[key]bool{s0.key(): true}
	queue := []key{s0.key()}
	var edges []edge
	var nodes []key
	for len(queue) > 0 && len(nodes) < 200000 {
		k := queue[0]
		queue = queue[1:]
		nodes = append(nodes, k)
		s := fromKey(k)
		res := w.sync(&s)
		succs := []succ{{mkLabel(lSync, 0), res.after}}
		succs = modelSuccessors(&s, 0, succs)
		for _, sc := range succs {
			if !sc.l.fair() {
				continue
			}
			ck := sc.s.key()
			edges = append(edges, edge{k, ck})
			if len(nodes) <= 12 {
				fmt.Printf("  {%s} --%s--> {%s}\n", &s, sc.l, &sc.s)
			}
			if !seen[ck] {
				seen[ck] = true
				queue = append(queue, ck)
			}
		}
	}
	fmt.Printf("fair-reachable states: %d, fair edges: %d\n", len(nodes), len(edges))
	for _, scc := range bottomSCCs(nodes, edges, func(key) bool { return true }) {
		st := fromKey(scc[0])
		cf := classifyBottom(scc)
		if cf == nil {
			fmt.Printf("bottom SCC {%s}: converged\n", &st)
			continue
		}
		sig := "C17/convergence/" + cf.Class
		fmt.Printf("bottom SCC of %d state(s), first {%s}: VIOLATION %s\n", len(scc), &st, sig)
		r.Violate(sig, fmt.Sprintf("bottom SCC {%s} is not the converged state", &st), nil)
	}
}

func gcLimit() int64 {
	if v, err := strconv.Atoi(os.Getenv("C17_DEV_GCLIMIT_MB")); err == nil && v > 0 {
		return int64(v) << 20
	}
	return 1 << 30
}
