package c17

import (
	"fmt"
	"strconv"
	"strings"
)

// ---------------------------------------------------------------------------------------------------------------
// Canonical state of the explicit-state search.
//
// Everything the advanced Deployment controller reads when it decides about ReplicaSet sizes is in here:
// Deployment size, the strategy (partition / maxSurge / maxUnavailable as the user wrote them, NOT resolved),
// and for every ReplicaSet spec.replicas, status.replicas, status.availableReplicas and the value of the
// deployment.kubernetes.io/desired-replicas annotation (which is how the controller detects a scaling event).
// ---------------------------------------------------------------------------------------------------------------

const (
	idxOld1 = 0 // oldest ReplicaSet (revision 1, oldest creation timestamp) - always present
	idxOld2 = 1 // second old ReplicaSet (revision 2) - optional
	idxNew  = 2 // ReplicaSet whose template equals the Deployment template - optional (the controller creates it)
)

var rsNames = [3]string{"old1", "old2", "new"}

type rsState struct {
	Present bool
	S       int // spec.replicas
	N       int // status.replicas (pods that exist)
	A       int // status.availableReplicas (0 <= A <= N)
	Ann     int // deployment.kubernetes.io/desired-replicas annotation (== Deployment replicas unless a scale event is pending)
}

type state struct {
	R  int // Deployment spec.replicas
	P  int // index into partAlpha
	MS int // index into surgeAlpha
	MU int // index into unavailAlpha
	SB int // scale events the user may still issue in this history (thorough tier; 0..3)
	RS [3]rsState
}

// alphabets --------------------------------------------------------------------------------------------------

const maxIntPartition = 6

// partAlpha: ints 0..6 then the percents. raisePartition moves forward inside the int chain or inside the
// percent chain.
var partAlpha = []string{"0", "1", "2", "3", "4", "5", "6", "0%", "1%", "20%", "50%", "99%", "100%"}

const firstPercentIdx = maxIntPartition + 1

var surgeAlpha = []string{"0", "1", "2", "25%"}
var unavailAlpha = []string{"0", "1", "25%"}

func isPercent(s string) bool { return strings.HasSuffix(s, "%") }

func num(s string) int {
	v, err := strconv.Atoi(strings.TrimSuffix(s, "%"))
	if err != nil {
		panic("c17: bad alphabet entry " + s)
	}
	return v
}

// ---------------------------------------------------------------------------------------------------------------
// Reference arithmetic of the ORACLE (independent of the repository functions; a few lines each).
// ---------------------------------------------------------------------------------------------------------------

func ceilDiv(a, b int) int { return (a + b - 1) / b }

// refLimit: number of pods the partition allows to be of the new revision. Integer partitions are taken as they
// are, percentages are scaled against Deployment replicas and rounded UP (the convention of every percentage
// "number of updated pods" in this repository: NewRSReplicasLimit, CalculateBatchReplicas), the result is clamped
// to [0, replicas].  The repository additionally keeps one old pod for every percentage other than "100%" when
// replicas > 1; that is stricter than what the documented API promises and therefore NOT demanded here.
func refLimit(p string, R int) int {
	v := num(p)
	if isPercent(p) {
		v = ceilDiv(v*R, 100)
	}
	if v > R {
		v = R
	}
	if v < 0 {
		v = 0
	}
	return v
}

// refSurge / refUnavailable: Kubernetes rolling-update semantics (maxSurge percent rounds up, maxUnavailable percent
// rounds down; when both resolve to zero maxUnavailable counts as 1 - the documented fence-post rule).
func refSurge(ms string, R int) int {
	v := num(ms)
	if isPercent(ms) {
		v = ceilDiv(v*R, 100)
	}
	return v
}

func refUnavailable(ms, mu string, R int) int {
	v := num(mu)
	if isPercent(mu) {
		v = v * R / 100
	}
	if v == 0 && refSurge(ms, R) == 0 {
		v = 1
	}
	if v > R {
		v = R
	}
	return v
}

func (s *state) partition() string      { return partAlpha[s.P] }
func (s *state) maxSurge() string       { return surgeAlpha[s.MS] }
func (s *state) maxUnavailable() string { return unavailAlpha[s.MU] }
func (s *state) limit() int             { return refLimit(s.partition(), s.R) }
func (s *state) surge() int             { return refSurge(s.maxSurge(), s.R) }
func (s *state) unavail() int           { return refUnavailable(s.maxSurge(), s.maxUnavailable(), s.R) }

// covers: the partition covers all replicas ("100%" or an integer >= replicas).
func (s *state) covers() bool {
	p := s.partition()
	if isPercent(p) {
		return p == "100%"
	}
	return num(p) >= s.R
}

// scalingPending mirrors what the property calls "size is being changed": an active ReplicaSet still carries the
// desired-replicas annotation of the previous Deployment size, so the next sync handles the scale event.
func (s *state) scalingPending() bool {
	for i := range s.RS {
		r := &s.RS[i]
		if r.Present && r.S > 0 && r.Ann != s.R {
			return true
		}
	}
	return false
}

func (s *state) converged() bool {
	n := &s.RS[idxNew]
	if !n.Present || n.S != s.R {
		return false
	}
	for i := idxOld1; i <= idxOld2; i++ {
		if s.RS[i].Present && s.RS[i].S != 0 {
			return false
		}
	}
	return true
}

// key packing -------------------------------------------------------------------------------------------------

type key uint64

func (s *state) key() key {
	k := uint64(s.R) | uint64(s.P)<<3 | uint64(s.MS)<<7 | uint64(s.MU)<<9 | uint64(s.SB&3)<<59
	sh := uint(11)
	for i := range s.RS {
		r := &s.RS[i]
		var v uint64
		if r.Present {
			if r.S < 0 || r.S > 15 || r.N < 0 || r.N > 15 || r.A < 0 || r.A > 15 || r.Ann < 0 || r.Ann > 7 {
				panic(fmt.Sprintf("c17: state out of encodable range: %+v", *s))
			}
			v = 1 | uint64(r.S)<<1 | uint64(r.N)<<5 | uint64(r.A)<<9 | uint64(r.Ann)<<13
		}
		k |= v << sh
		sh += 16
	}
	return key(k)
}

func fromKey(k key) state {
	u := uint64(k)
	var s state
	s.R = int(u & 7)
	s.P = int(u >> 3 & 15)
	s.MS = int(u >> 7 & 3)
	s.MU = int(u >> 9 & 3)
	s.SB = int(u >> 59 & 3)
	sh := uint(11)
	for i := range s.RS {
		v := u >> sh & 0xffff
		if v&1 == 1 {
			s.RS[i] = rsState{Present: true, S: int(v >> 1 & 15), N: int(v >> 5 & 15), A: int(v >> 9 & 15), Ann: int(v >> 13 & 7)}
		}
		sh += 16
	}
	return s
}

// JSON form (violation files, samples) -------------------------------------------------------------------------

type rsJSON struct {
	Spec      int `json:"spec"`
	Status    int `json:"status"`
	Available int `json:"available"`
	Desired   int `json:"desiredReplicasAnnotation"`
}

type stateJSON struct {
	Replicas       int     `json:"replicas"`
	Partition      string  `json:"partition"`
	MaxSurge       string  `json:"maxSurge"`
	MaxUnavailable string  `json:"maxUnavailable"`
	ScaleBudget    int     `json:"scaleEventsLeft,omitempty"`
	Old1           *rsJSON `json:"old1"`
	Old2           *rsJSON `json:"old2,omitempty"`
	New            *rsJSON `json:"new,omitempty"`
}

func (s *state) toJSON() stateJSON {
	j := stateJSON{Replicas: s.R, Partition: s.partition(), MaxSurge: s.maxSurge(), MaxUnavailable: s.maxUnavailable(), ScaleBudget: s.SB}
	ptr := [3]**rsJSON{&j.Old1, &j.Old2, &j.New}
	for i := range s.RS {
		if s.RS[i].Present {
			r := s.RS[i]
			*ptr[i] = &rsJSON{Spec: r.S, Status: r.N, Available: r.A, Desired: r.Ann}
		}
	}
	return j
}

func indexOf(alpha []string, v string) (int, error) {
	for i, a := range alpha {
		if a == v {
			return i, nil
		}
	}
	return 0, fmt.Errorf("value %q not in alphabet %v", v, alpha)
}

func (j *stateJSON) toState() (state, error) {
	var s state
	var err error
	s.R = j.Replicas
	s.SB = j.ScaleBudget
	if s.P, err = indexOf(partAlpha, j.Partition); err != nil {
		return s, err
	}
	if s.MS, err = indexOf(surgeAlpha, j.MaxSurge); err != nil {
		return s, err
	}
	if s.MU, err = indexOf(unavailAlpha, j.MaxUnavailable); err != nil {
		return s, err
	}
	src := [3]*rsJSON{j.Old1, j.Old2, j.New}
	for i, r := range src {
		if r != nil {
			s.RS[i] = rsState{Present: true, S: r.Spec, N: r.Status, A: r.Available, Ann: r.Desired}
		}
	}
	if !s.RS[idxOld1].Present {
		return s, fmt.Errorf("old1 must be present")
	}
	return s, nil
}

// short one-line rendering
func (s *state) String() string {
	var b strings.Builder
	fmt.Fprintf(&b, "R=%d part=%s surge=%s unavail=%s", s.R, s.partition(), s.maxSurge(), s.maxUnavailable())
	if s.SB > 0 {
		fmt.Fprintf(&b, " scaleEventsLeft=%d", s.SB)
	}
	for i := range s.RS {
		r := s.RS[i]
		if !r.Present {
			continue
		}
		fmt.Fprintf(&b, " %s[spec=%d pods=%d avail=%d", rsNames[i], r.S, r.N, r.A)
		if r.Ann != s.R {
			fmt.Fprintf(&b, " desiredAnn=%d", r.Ann)
		}
		b.WriteString("]")
	}
	return b.String()
}

// ---------------------------------------------------------------------------------------------------------------
// Transitions that are NOT repository code: ReplicaSet controller / kubelet model and the user.
// ---------------------------------------------------------------------------------------------------------------

type labelKind uint8

const (
	lSync      labelKind = iota // one real syncDeployment
	lCreate                     // RS controller creates one pod (status.replicas+1, not yet available)
	lDelete                     // RS controller deletes one pod (unavailable pods first)
	lAvail                      // one pod becomes available
	lDegrade                    // one available pod becomes unavailable (NOT a fair edge)
	lRaise                      // user raises the partition to the next value of its chain
	lScaleUp                    // user scales the Deployment +1 (thorough)
	lScaleDown                  // user scales the Deployment -1 (thorough)
)

type label uint8 // kind<<2 | rs index

func mkLabel(k labelKind, rs int) label { return label(uint8(k)<<2 | uint8(rs)) }
func (l label) kind() labelKind         { return labelKind(l >> 2) }
func (l label) rs() int                 { return int(l & 3) }
func (l label) fair() bool {
	switch l.kind() {
	case lSync, lCreate, lDelete, lAvail:
		return true
	}
	return false
}

func (l label) String() string {
	switch l.kind() {
	case lSync:
		return "sync"
	case lCreate:
		return "env:create-pod:" + rsNames[l.rs()]
	case lDelete:
		return "env:delete-pod:" + rsNames[l.rs()]
	case lAvail:
		return "env:pod-available:" + rsNames[l.rs()]
	case lDegrade:
		return "env:pod-unavailable:" + rsNames[l.rs()]
	case lRaise:
		return "raisePartition"
	case lScaleUp:
		return "scale+1"
	case lScaleDown:
		return "scale-1"
	}
	return "?"
}

func parseLabel(s string) (label, error) {
	for k := lSync; k <= lScaleDown; k++ {
		for rs := 0; rs < 3; rs++ {
			if l := mkLabel(k, rs); l.String() == s {
				return l, nil
			}
		}
	}
	return 0, fmt.Errorf("unknown step %q", s)
}

type succ struct {
	l label
	s state
}

// modelSuccessors appends every non-sync successor of s.
func modelSuccessors(s *state, scaleR int, out []succ) []succ {
	for i := range s.RS {
		r := s.RS[i]
		if !r.Present {
			continue
		}
		if r.N < r.S {
			t := *s
			t.RS[i].N++
			out = append(out, succ{mkLabel(lCreate, i), t})
		}
		if r.N > r.S {
			t := *s
			t.RS[i].N--
			if r.N-r.A == 0 { // no unavailable pod left: an available one goes
				t.RS[i].A--
			}
			out = append(out, succ{mkLabel(lDelete, i), t})
		}
		if r.A < r.N {
			t := *s
			t.RS[i].A++
			out = append(out, succ{mkLabel(lAvail, i), t})
		}
		if r.A > 0 {
			t := *s
			t.RS[i].A--
			out = append(out, succ{mkLabel(lDegrade, i), t})
		}
	}
	// raisePartition
	if s.P < firstPercentIdx {
		if s.P < s.R && s.P < maxIntPartition {
			t := *s
			t.P++
			out = append(out, succ{mkLabel(lRaise, 0), t})
		}
	} else if s.P < len(partAlpha)-1 {
		t := *s
		t.P++
		out = append(out, succ{mkLabel(lRaise, 0), t})
	}
	if scaleR > 0 && s.R <= scaleR && s.SB > 0 {
		if s.R < scaleR {
			t := *s
			t.R++
			t.SB--
			out = append(out, succ{mkLabel(lScaleUp, 0), t})
		}
		if s.R > 1 {
			t := *s
			t.R--
			t.SB--
			out = append(out, succ{mkLabel(lScaleDown, 0), t})
		}
	}
	return out
}

func applyModel(s *state, l label, scaleR int) (state, error) {
	if k := l.kind(); k == lScaleUp || k == lScaleDown { // replay: a recorded scale step is always enabled
		t := *s
		if k == lScaleUp {
			t.R++
		} else {
			t.R--
		}
		if t.SB > 0 {
			t.SB--
		}
		if t.R < 1 || t.R > 7 {
			return *s, fmt.Errorf("step %s leaves the size range in state %s", l, s)
		}
		return t, nil
	}
	for _, sc := range modelSuccessors(s, scaleR, nil) {
		if sc.l == l {
			return sc.s, nil
		}
	}
	return *s, fmt.Errorf("step %s is not enabled in state %s", l, s)
}
