package c17

import (
	"fmt"
	"sort"
)

// ---------------------------------------------------------------------------------------------------------------
// Safety oracles, evaluated at every ReplicaSet spec.replicas write of one sync, in write order, on the running
// "specs after this write" picture.  Each of them demands exactly one clause of the property sentence.
// ---------------------------------------------------------------------------------------------------------------

type finding struct {
	Monitor string
	Site    string // call site, plus a structural class where one monitor can have unrelated causes
	Detail  string
	Exempt  bool // observed but not demanded by the property (counted as an outcome class, not a violation)
}

func (f finding) sig() string { return "C17/" + f.Monitor + "/" + f.Site }

func imin(a, b int) int {
	if a < b {
		return a
	}
	return b
}
func imax(a, b int) int {
	if a > b {
		return a
	}
	return b
}

func checkWrites(s *state, writes []write) []finding {
	var out []finding
	var cur [3]int
	for i := range s.RS {
		if s.RS[i].Present {
			cur[i] = s.RS[i].S
		}
	}
	R, L, S, MU := s.R, s.limit(), s.surge(), s.unavail()
	for wi, w := range writes {
		cur[w.RS] = w.To
		total := cur[0] + cur[1] + cur[2]
		sumOld := cur[idxOld1] + cur[idxOld2]
		where := fmt.Sprintf("write #%d %s %d->%d by %s in state {%s} (partition allows %d new pods, maxSurge=%d, maxUnavailable=%d)",
			wi+1, w.Name, w.From, w.To, w.Site, s, L, S, MU)
		site := w.Site
		if w.RS == idxNew && !s.RS[idxNew].Present && w.From == 0 && w.To == 1 && S == 0 && w.Site == "getNewReplicaSet" {
			// structural class: the new ReplicaSet is CREATED with one replica although maxSurge resolves to 0
			// (NewRSReplicasLowerBound: "greater than 0 ... otherwise the native deployment controller will fight with ours")
			site += "/created-with-lower-bound-1"
		}
		switch {
		case w.RS == idxNew && w.To > w.From:
			// "never grows the new ReplicaSet beyond the number of pods the current partition allows"
			if w.To > L {
				// No old ReplicaSet has pods to run (all old spec.replicas are 0): nothing is being released in
				// partition style any more, the new ReplicaSet is the only active one and the controller brings it
				// in line with the Deployment size (NewRSNewReplicas default arm). The property talks about what
				// the partition keeps for the OLD ReplicaSets; with no old pods it does not forbid this.
				out = append(out, finding{"new-rs-over-partition", site,
					fmt.Sprintf("new ReplicaSet grown to %d, the partition allows %d: %s", w.To, L, where), sumOld == 0})
			}
			// "never scales the new ReplicaSet up so that the total exceeds replicas plus maxSurge"
			if total > R+S {
				out = append(out, finding{"surge-exceeded", site,
					fmt.Sprintf("total spec.replicas %d after scaling the new ReplicaSet up exceeds replicas+maxSurge=%d: %s", total, R+S, where), false})
			}
		case w.RS != idxNew && w.To < w.From:
			// "never shrinks the old ReplicaSets below what the partition reserves for them"
			reserve := R - imax(L, cur[idxNew])
			if sumOld < reserve {
				out = append(out, finding{"old-rs-below-reserve", w.Site,
					fmt.Sprintf("old ReplicaSets shrunk to %d in total, the partition reserves %d (replicas %d - max(limit %d, new %d)): %s", sumOld, reserve, R, L, cur[idxNew], where), false})
			}
			// "never scales down available old pods so that fewer than replicas minus maxUnavailable stay available".
			// A ReplicaSet with `a` available pods that is told to keep `c` pods keeps min(a, c) available ones
			// (the ReplicaSet controller deletes unavailable pods first), so the write removes available pods iff
			// min(a, to) < min(a, from); pods already doomed by earlier writes are counted the same way.
			a := s.RS[w.RS].A
			removed := imin(a, w.From) - imin(a, w.To)
			if removed > 0 {
				stay := 0
				for j := range s.RS {
					if s.RS[j].Present {
						stay += imin(s.RS[j].A, cur[j])
					}
				}
				if stay < R-MU {
					// structural class: did the controller see a status that still counts available pods which
					// earlier scale-downs have already doomed (available > spec.replicas somewhere)?
					class := "settled-status"
					for j := range s.RS {
						if s.RS[j].Present && s.RS[j].A > s.RS[j].S {
							class = "stale-available-count"
						}
					}
					out = append(out, finding{"availability", w.Site + "/" + class,
						fmt.Sprintf("the write removes %d available old pod(s); %d pods stay available, fewer than replicas-maxUnavailable=%d: %s", removed, stay, R-MU, where), false})
				}
			}
		}
	}
	return out
}

// ---------------------------------------------------------------------------------------------------------------
// Convergence: bottom strongly connected components of the fair-edge graph.
// ---------------------------------------------------------------------------------------------------------------

type edge struct{ from, to key }

type convFinding struct {
	Class  string // signature component
	States []key  // the bottom SCC (sorted)
}

// bottomSCCs runs Tarjan (iterative) over nodes/edges and returns the bottom SCCs. Nodes for which expanded()
// is false (search was cut) poison their SCC: nothing is concluded about it.
func bottomSCCs(nodes []key, edges []edge, expanded func(key) bool) [][]key {
	sort.Slice(nodes, func(i, j int) bool { return nodes[i] < nodes[j] })
	idx := func(k key) int {
		i := sort.Search(len(nodes), func(i int) bool { return nodes[i] >= k })
		if i < len(nodes) && nodes[i] == k {
			return i
		}
		return -1
	}
	n := len(nodes)
	// CSR adjacency
	deg := make([]int32, n+1)
	type e2 struct{ f, t int32 }
	es := make([]e2, 0, len(edges))
	unknown := make([]bool, n) // has an edge to a state the (cut) search never stored
	for _, e := range edges {
		f, t := idx(e.from), idx(e.to)
		if f < 0 {
			continue
		}
		if t < 0 {
			unknown[f] = true
			continue
		}
		es = append(es, e2{int32(f), int32(t)})
		deg[f+1]++
	}
	for i := 0; i < n; i++ {
		deg[i+1] += deg[i]
	}
	adj := make([]int32, len(es))
	fill := make([]int32, n)
	for _, e := range es {
		adj[deg[e.f]+fill[e.f]] = e.t
		fill[e.f]++
	}
	const unvisited = -1
	index := make([]int32, n)
	low := make([]int32, n)
	comp := make([]int32, n)
	onStack := make([]bool, n)
	for i := range index {
		index[i], comp[i] = unvisited, -1
	}
	var stack []int32
	type frame struct {
		v  int32
		ei int32
	}
	var call []frame
	var counter, ncomp int32
	for root := 0; root < n; root++ {
		if index[root] != unvisited {
			continue
		}
		call = append(call, frame{int32(root), deg[root]})
		index[root], low[root] = counter, counter
		counter++
		stack = append(stack, int32(root))
		onStack[root] = true
		for len(call) > 0 {
			f := &call[len(call)-1]
			v := f.v
			if f.ei < deg[v+1] {
				wv := adj[f.ei]
				f.ei++
				if index[wv] == unvisited {
					index[wv], low[wv] = counter, counter
					counter++
					stack = append(stack, wv)
					onStack[wv] = true
					call = append(call, frame{wv, deg[wv]})
				} else if onStack[wv] && index[wv] < low[v] {
					low[v] = index[wv]
				}
				continue
			}
			if low[v] == index[v] {
				for {
					x := stack[len(stack)-1]
					stack = stack[:len(stack)-1]
					onStack[x] = false
					comp[x] = ncomp
					if x == v {
						break
					}
				}
				ncomp++
			}
			call = call[:len(call)-1]
			if len(call) > 0 {
				p := call[len(call)-1].v
				if low[v] < low[p] {
					low[p] = low[v]
				}
			}
		}
	}
	bottom := make([]bool, ncomp)
	for i := range bottom {
		bottom[i] = true
	}
	for v := 0; v < n; v++ {
		if unknown[v] || !expanded(nodes[v]) {
			bottom[comp[v]] = false
		}
		for ei := deg[v]; ei < deg[v+1]; ei++ {
			if comp[adj[ei]] != comp[v] {
				bottom[comp[v]] = false
			}
		}
	}
	members := map[int32][]key{}
	for v := 0; v < n; v++ {
		if bottom[comp[v]] {
			members[comp[v]] = append(members[comp[v]], nodes[v])
		}
	}
	out := make([][]key, 0, len(members))
	for _, m := range members {
		out = append(out, m) // already ascending: nodes is sorted
	}
	sort.Slice(out, func(i, j int) bool { return out[i][0] < out[j][0] })
	return out
}

// classifyBottom: nil if the bottom SCC is the single converged state.
func classifyBottom(scc []key) *convFinding {
	s := fromKey(scc[0])
	if len(scc) == 1 && s.converged() {
		return nil
	}
	class := "livelock"
	if len(scc) == 1 {
		switch {
		case s.scalingPending():
			// every sync still sees "desired-replicas annotation != Deployment replicas" on an active ReplicaSet
			// and takes the scaling path, which changes nothing: the scale event is never consumed
			class = "stuck/scale-event-never-consumed"
			// which input class: the (known) early return of scale() needs a SINGLE active ReplicaSet that already has
			// the new size; a stale annotation among several active ReplicaSets is something else
			active := 0
			for i := range s.RS {
				if s.RS[i].Present && s.RS[i].S > 0 {
					active++
				}
			}
			if active == 1 {
				class += "/single-active-replicaset"
			} else {
				class += "/several-active-replicasets"
			}
		case !s.RS[idxNew].Present:
			class = "stuck/new-absent"
		case s.RS[idxNew].S < s.R:
			class = "stuck/new-below-replicas"
		case s.RS[idxNew].S > s.R:
			class = "stuck/new-above-replicas"
		default:
			class = "stuck/old-not-zero"
		}
	}
	return &convFinding{Class: class, States: scc}
}
