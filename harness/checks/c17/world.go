package c17

import (
	"fmt"
	"runtime"
	"strconv"
	"strings"

	appsv1 "k8s.io/api/apps/v1"
	corev1 "k8s.io/api/core/v1"
	metav1 "k8s.io/apimachinery/pkg/apis/meta/v1"
	k8sruntime "k8s.io/apimachinery/pkg/runtime"
	"k8s.io/apimachinery/pkg/runtime/schema"
	"k8s.io/apimachinery/pkg/types"
	"k8s.io/apimachinery/pkg/util/intstr"
	"k8s.io/client-go/kubernetes/fake"
	appslisters "k8s.io/client-go/listers/apps/v1"
	clienttesting "k8s.io/client-go/testing"
	"k8s.io/client-go/tools/cache"
	"k8s.io/client-go/tools/record"

	rolloutsv1alpha1 "github.com/openkruise/rollouts/api/v1alpha1"
	"github.com/openkruise/rollouts/pkg/controller/deployment"

	"verifharness/lib"
)

// ---------------------------------------------------------------------------------------------------------------
// The part that runs REAL repository code: one syncDeployment of pkg/controller/deployment against the client-go
// fake typed clientset; listers are rebuilt from exactly the objects in the clientset before the call (no lag).
// ---------------------------------------------------------------------------------------------------------------

const (
	ns          = "default"
	dName       = "c17"
	dUID        = "c17-deployment-uid"
	annRevision = "deployment.kubernetes.io/revision"
	annDesired  = "deployment.kubernetes.io/desired-replicas"
	annMax      = "deployment.kubernetes.io/max-replicas"
)

var (
	rsGVR  = schema.GroupVersionResource{Group: "apps", Version: "v1", Resource: "replicasets"}
	rsGVK  = schema.GroupVersionKind{Group: "apps", Version: "v1", Kind: "ReplicaSet"}
	baseTS = metav1.Unix(1700000000, 0)
)

// write is one ReplicaSet spec.replicas write (create or update) observed at the clientset.
type write struct {
	RS   int    `json:"-"`
	Name string `json:"rs"`
	From int    `json:"from"`
	To   int    `json:"to"`
	Site string `json:"site"` // innermost function of the deployment controller that issued it
}

type syncResult struct {
	after  state
	writes []write
	errStr string     // error returned by syncDeployment
	panic  *lib.Panic // panic inside the repository code
	// harness-integrity problem (state abstraction broken); reported as its own signature, never silently ignored
	harness string
}

type world struct {
	cur    [3]int // current spec.replicas per RS during a sync
	have   [3]bool
	writes []write
	labels map[string]string // Deployment selector and pod labels
	// pod-template labels per ReplicaSet: the old ones carry their own "version" label (as real templates of
	// different revisions usually differ in more than the image)
	tmplLabels [3]map[string]string
	// staleAvail >= 0: the Deployment's status (availableReplicas / readyReplicas) carries this out-of-date value
	staleAvail int
}

func newWorld() *world {
	w := &world{labels: map[string]string{"app": dName}, staleAvail: -1}
	w.tmplLabels = [3]map[string]string{
		{"app": dName, "version": "old1"},
		{"app": dName, "version": "old2"},
		{"app": dName},
	}
	return w
}

func cp(m map[string]string) map[string]string {
	o := make(map[string]string, len(m))
	for k, v := range m {
		o[k] = v
	}
	return o
}

func podTemplate(image string, labels map[string]string) corev1.PodTemplateSpec {
	// deliberately small: the controller compares and copies whole templates several times per sync
	return corev1.PodTemplateSpec{
		ObjectMeta: metav1.ObjectMeta{Labels: labels},
		Spec:       corev1.PodSpec{Containers: []corev1.Container{{Name: "main", Image: image}}},
	}
}

func strategyOf(s *state) rolloutsv1alpha1.DeploymentStrategy {
	ms := intstr.Parse(s.maxSurge())
	mu := intstr.Parse(s.maxUnavailable())
	return rolloutsv1alpha1.DeploymentStrategy{
		RollingStyle:  rolloutsv1alpha1.PartitionRollingStyle,
		RollingUpdate: &appsv1.RollingUpdateDeployment{MaxSurge: &ms, MaxUnavailable: &mu},
		Paused:        false,
		Partition:     intstr.Parse(s.partition()),
	}
}

func (w *world) buildObjects(s *state) (*appsv1.Deployment, []*appsv1.ReplicaSet) {
	R := int32(s.R)
	newRev := 2
	if s.RS[idxOld2].Present {
		newRev = 3
	}
	d := &appsv1.Deployment{
		TypeMeta: metav1.TypeMeta{APIVersion: "apps/v1", Kind: "Deployment"},
		ObjectMeta: metav1.ObjectMeta{Name: dName, Namespace: ns, UID: dUID, Generation: 1, CreationTimestamp: baseTS,
			Labels: map[string]string{"app": dName}, Annotations: map[string]string{}},
		Spec: appsv1.DeploymentSpec{
			Replicas: &R,
			Selector: &metav1.LabelSelector{MatchLabels: cp(w.labels)},
			Template: podTemplate("v-new", cp(w.labels)),
			// what the rollout controller leaves on a Deployment it handed to the advanced controller
			Paused:   true,
			Strategy: appsv1.DeploymentStrategy{Type: appsv1.RecreateDeploymentStrategyType},
		},
	}
	if s.RS[idxNew].Present {
		d.Annotations[annRevision] = strconv.Itoa(newRev)
	} else {
		d.Annotations[annRevision] = strconv.Itoa(newRev - 1)
	}
	isCtrl, block := true, true
	var rss []*appsv1.ReplicaSet
	var total, avail, updated int32
	for i := range s.RS {
		r := s.RS[i]
		if !r.Present {
			continue
		}
		image, rev := "v-new", newRev
		if i != idxNew {
			image, rev = "v-"+rsNames[i], i+1
		}
		spec := int32(r.S)
		// desired/max annotations exactly as the controller's SetReplicasAnnotations leaves them for Deployment size r.Ann
		rs := &appsv1.ReplicaSet{
			TypeMeta: metav1.TypeMeta{APIVersion: "apps/v1", Kind: "ReplicaSet"},
			ObjectMeta: metav1.ObjectMeta{
				Name: dName + "-" + rsNames[i], Namespace: ns, UID: types.UID("uid-" + rsNames[i]),
				Generation: 1, Labels: cp(w.tmplLabels[i]),
				CreationTimestamp: metav1.Unix(baseTS.Unix()+int64(i+1), 0),
				Annotations: map[string]string{
					annRevision: strconv.Itoa(rev),
					annDesired:  strconv.Itoa(r.Ann),
					annMax:      strconv.Itoa(r.Ann + refSurge(s.maxSurge(), r.Ann)),
				},
				OwnerReferences: []metav1.OwnerReference{{APIVersion: "apps/v1", Kind: "Deployment", Name: dName, UID: dUID, Controller: &isCtrl, BlockOwnerDeletion: &block}},
			},
			Spec: appsv1.ReplicaSetSpec{Replicas: &spec, Selector: &metav1.LabelSelector{MatchLabels: cp(w.labels)}, Template: podTemplate(image, cp(w.tmplLabels[i]))},
			Status: appsv1.ReplicaSetStatus{Replicas: int32(r.N), FullyLabeledReplicas: int32(r.N), ReadyReplicas: int32(r.A),
				AvailableReplicas: int32(r.A), ObservedGeneration: 1},
		}
		rss = append(rss, rs)
		total += int32(r.N)
		avail += int32(r.A)
		if i == idxNew {
			updated = int32(r.N)
		}
	}
	d.Status = appsv1.DeploymentStatus{ObservedGeneration: 1, Replicas: total, UpdatedReplicas: updated, ReadyReplicas: avail, AvailableReplicas: avail}
	if w.staleAvail >= 0 {
		d.Status.ReadyReplicas, d.Status.AvailableReplicas = int32(w.staleAvail), int32(w.staleAvail)
	}
	return d, rss
}

func rsIndexByName(name string) int {
	for i, n := range rsNames {
		if name == dName+"-"+n {
			return i
		}
	}
	return -1
}

// callSite returns the innermost DeploymentController method on the stack that is not one of the two generic
// scale helpers (signature component).
func callSite() string {
	var pcs [48]uintptr
	n := runtime.Callers(3, pcs[:])
	frames := runtime.CallersFrames(pcs[:n])
	const prefix = "github.com/openkruise/rollouts/pkg/controller/deployment.(*DeploymentController)."
	for {
		f, more := frames.Next()
		if strings.HasPrefix(f.Function, prefix) {
			fn := strings.TrimPrefix(f.Function, prefix)
			if fn != "scaleReplicaSet" && fn != "scaleReplicaSetAndRecordEvent" {
				return fn
			}
		}
		if !more {
			break
		}
	}
	return "unknown"
}

func (w *world) observe(obj k8sruntime.Object) {
	rs, ok := obj.(*appsv1.ReplicaSet)
	if !ok || rs.Spec.Replicas == nil {
		return
	}
	i := rsIndexByName(rs.Name)
	if i < 0 {
		i = idxNew // the ReplicaSet the controller creates itself (name = <deployment>-<template hash>)
	}
	to := int(*rs.Spec.Replicas)
	from := 0
	if w.have[i] {
		from = w.cur[i]
	}
	if w.have[i] && from == to {
		return // annotation-only update
	}
	w.writes = append(w.writes, write{RS: i, Name: rsNames[i], From: from, To: to, Site: callSite()})
	w.cur[i], w.have[i] = to, true
}

// sync runs ONE real syncDeployment on the objects that represent s and abstracts the resulting store back.
func (w *world) sync(s *state) syncResult {
	d, rss := w.buildObjects(s)
	objs := make([]k8sruntime.Object, 0, 4)
	objs = append(objs, d)
	for _, rs := range rss {
		objs = append(objs, rs)
	}
	cs := fake.NewSimpleClientset(objs...)
	w.writes = w.writes[:0]
	for i := range s.RS {
		w.have[i], w.cur[i] = s.RS[i].Present, s.RS[i].S
	}
	cs.PrependReactor("*", "replicasets", func(a clienttesting.Action) (bool, k8sruntime.Object, error) {
		switch act := a.(type) {
		case clienttesting.CreateAction: // UpdateAction has the same method set, so this arm sees both
			if a.GetSubresource() == "" && (a.GetVerb() == "create" || a.GetVerb() == "update") {
				w.observe(act.GetObject())
			}
		}
		return false, nil, nil
	})
	// listers straight from the objects that are in the clientset (the tracker stored deep copies of them)
	dIdx := cache.NewIndexer(cache.MetaNamespaceKeyFunc, cache.Indexers{cache.NamespaceIndex: cache.MetaNamespaceIndexFunc})
	rsIdx := cache.NewIndexer(cache.MetaNamespaceKeyFunc, cache.Indexers{cache.NamespaceIndex: cache.MetaNamespaceIndexFunc})
	_ = dIdx.Add(d)
	for _, rs := range rss {
		_ = rsIdx.Add(rs)
	}
	rec := deployment.VerifNewReconciler(nil, cs, appslisters.NewDeploymentLister(dIdx), appslisters.NewReplicaSetLister(rsIdx), &record.FakeRecorder{})

	var res syncResult
	var err error
	res.panic = lib.Catch(func() { err = deployment.VerifSync(rec, d.DeepCopy(), strategyOf(s)) })
	if err != nil {
		res.errStr = err.Error()
	}
	res.writes = append([]write(nil), w.writes...)

	// abstract the store back into a canonical state
	after := *s
	list, lerr := cs.Tracker().List(rsGVR, rsGVK, ns)
	if lerr != nil {
		res.harness = "cannot list ReplicaSets from tracker: " + lerr.Error()
		res.after = after
		return res
	}
	seen := [3]bool{}
	for i := range list.(*appsv1.ReplicaSetList).Items {
		rs := &list.(*appsv1.ReplicaSetList).Items[i]
		idx := rsIndexByName(rs.Name)
		if idx < 0 {
			if s.RS[idxNew].Present || seen[idxNew] {
				res.harness = fmt.Sprintf("unexpected extra ReplicaSet %s", rs.Name)
				continue
			}
			idx = idxNew
		}
		seen[idx] = true
		r := &after.RS[idx]
		if !r.Present {
			r.Present = true
		} else if int(rs.Status.Replicas) != r.N || int(rs.Status.AvailableReplicas) != r.A {
			res.harness = fmt.Sprintf("controller changed the status of ReplicaSet %s", rs.Name)
		}
		r.S = int(*rs.Spec.Replicas)
		r.N, r.A = int(rs.Status.Replicas), int(rs.Status.AvailableReplicas)
		des, derr := strconv.Atoi(rs.Annotations[annDesired])
		mx, merr := strconv.Atoi(rs.Annotations[annMax])
		if derr != nil || merr != nil {
			res.harness = fmt.Sprintf("ReplicaSet %s lost its desired/max-replicas annotations", rs.Name)
			des = s.R
		} else if des < 0 || des > 7 || mx != des+refSurge(s.maxSurge(), des) {
			// the canonical state stores only `desired`; max must be derivable from it or the abstraction is unsound
			res.harness = fmt.Sprintf("ReplicaSet %s: annotations desired=%d max=%d are not representable (expected max=%d)", rs.Name, des, mx, des+refSurge(s.maxSurge(), des))
		}
		r.Ann = des
	}
	for i := range s.RS {
		if s.RS[i].Present && !seen[i] {
			res.harness = fmt.Sprintf("ReplicaSet %s disappeared", rsNames[i])
		}
	}
	res.after = after
	return res
}
