// Package c19 decides C19 "rollouts are isolated from each other" with engine E2 (harness/sched): two Rollouts
// finalising their traffic routing concurrently in ONE process, every schedule up to a preemption bound executed
// on the real pkg/trafficrouting manager + the real process-global pkg/util/grace registry, each compared
// differentially with the same Rollout run alone.
package c19

import (
	"context"
	"encoding/json"
	"fmt"
	"hash/fnv"
	"os"
	"os/exec"
	"runtime"
	"runtime/pprof"
	"sort"
	"strconv"
	"strings"
	"sync"
	"sync/atomic"
	"time"

	corev1 "k8s.io/api/core/v1"
	netv1 "k8s.io/api/networking/v1"
	metav1 "k8s.io/apimachinery/pkg/apis/meta/v1"
	k8sruntime "k8s.io/apimachinery/pkg/runtime"
	"k8s.io/apimachinery/pkg/types"
	"k8s.io/apimachinery/pkg/util/intstr"
	clientgoscheme "k8s.io/client-go/kubernetes/scheme"
	"sigs.k8s.io/controller-runtime/pkg/client"
	"sigs.k8s.io/controller-runtime/pkg/client/fake"

	"github.com/openkruise/rollouts/api/v1beta1"
	"github.com/openkruise/rollouts/pkg/trafficrouting"
	"github.com/openkruise/rollouts/pkg/util/grace"
	"github.com/openkruise/rollouts/pkg/verifshim/vsync"

	"verifharness/lib"
	"verifharness/sched"
)

// ---------------------------------------------------------------- configuration

// Config is one closed system: scenario x grace variant x start offsets.
type Config struct {
	ID       string `json:"id"`
	Scenario string `json:"scenario"` // two-ns | same-ns
	GraceA   int32  `json:"graceA"`
	GraceB   int32  `json:"graceB"`
	OffA     int    `json:"offA"` // virtual second at which the Rollout's finalising starts
	OffB     int    `json:"offB"`
	Eager    bool   `json:"eager"` // retry at every clock tick instead of after RecheckDuration
	// Mode "" = both Rollouts finalise their traffic routing; "route" = both apply a traffic step (DoTrafficRouting:
	// the Lua runtime computes the canary Ingress annotations, A for 10 %, B for 90 %)
	// Mode "clean" = both Rollouts finalise while the registry's background cleaner runs (CleanOutdatedItems,
	// twice, at any point the scheduler chooses) and a THIRD, abandoned Rollout's outdated timers lie in the
	// registry; MapSeed fixes the iteration order of every Go map of the process (rotation of the in-bucket start)
	Mode    string `json:"mode,omitempty"`
	MapSeed int    `json:"map_seed,omitempty"`
	Solo    string `json:"solo"` // "", "A" or "B": run only that Rollout (reference system)
}

type rolloutSpec struct {
	Thread, NS, Name, UID, Svc, Ing string
	Grace                           int32
	Off                             int
	Weight                          string // traffic step applied in mode "route"
	route                           bool
}

func (c Config) rollouts() []rolloutSpec {
	a := rolloutSpec{Thread: "A", NS: "ns-a", Name: "demo", UID: "uid-rollout-a", Svc: "echo", Ing: "echo", Grace: c.GraceA, Off: c.OffA, Weight: "10%"}
	b := rolloutSpec{Thread: "B", NS: "ns-b", Name: "demo", UID: "uid-rollout-b", Svc: "echo", Ing: "echo", Grace: c.GraceB, Off: c.OffB, Weight: "90%"}
	if c.Scenario == "same-ns" {
		// one namespace, similar names. The network objects must be DISTINCT objects (two Rollouts on the very same
		// Service are not "different workloads"), so the similar-name alphabet is used for them as well.
		b.NS, b.Name, b.Svc, b.Ing = "ns-a", "demo-x", "echo-x", "echo-x"
	}
	a.route, b.route = c.Mode == "route", c.Mode == "route"
	switch c.Solo {
	case "A":
		return []rolloutSpec{a}
	case "B":
		return []rolloutSpec{b}
	}
	return []rolloutSpec{a, b}
}

func (c Config) maxTicks() int {
	g, o := c.GraceA, c.OffA
	if c.GraceB > g {
		g = c.GraceB
	}
	if c.OffB > o {
		o = c.OffB
	}
	return o + 3*int(g) + 4
}

// Configs enumerates the closed systems of a tier. Start offsets are exhaustive over "the other Rollout is
// anywhere inside its own finalising": offA in 0..3*graceB with offB=0, and offB in 1..3*graceA with offA=0.
func Configs(thorough bool) []Config {
	var out []Config
	add := func(sc string, ga, gb int32, eager bool) {
		for off := 0; off <= 3*int(gb); off++ {
			out = append(out, Config{Scenario: sc, GraceA: ga, GraceB: gb, OffA: off, Eager: eager})
		}
		for off := 1; off <= 3*int(ga); off++ {
			out = append(out, Config{Scenario: sc, GraceA: ga, GraceB: gb, OffB: off, Eager: eager})
		}
	}
	for _, sc := range []string{"two-ns", "same-ns"} {
		add(sc, 1, 3, false)
		add(sc, 0, 2, false)
	}
	// both Rollouts apply a traffic step: the shared Lua runtime computes each one's Ingress annotations
	for _, sc := range []string{"two-ns", "same-ns"} {
		out = append(out, Config{Scenario: sc, Mode: "route", GraceA: 1, GraceB: 1})
		out = append(out, Config{Scenario: sc, Mode: "route", GraceA: 1, GraceB: 1, OffB: 1})
	}
	// the background cleaner of the grace registry at work next to both finalisings, for three rotations of the map
	// iteration order (abandoned Rollout's key first / after A / after A and B)
	for seed := 0; seed < 3; seed++ {
		out = append(out, Config{Scenario: "two-ns", Mode: "clean", GraceA: 1, GraceB: 2, MapSeed: seed})
	}
	if thorough {
		// the variant in which every clock tick wakes every waiting worker for free (a strictly larger bound-k set)
		for _, sc := range []string{"two-ns", "same-ns"} {
			add(sc, 0, 2, true)
		}
	}
	for i := range out {
		c := &out[i]
		c.ID = fmt.Sprintf("%s/g%d-%d/off%d-%d", c.Scenario, c.GraceA, c.GraceB, c.OffA, c.OffB)
		if c.Eager {
			c.ID += "/eager"
		}
		if c.Mode != "" {
			c.ID = c.Mode + "/" + c.ID
		}
		if c.Mode == "clean" {
			c.ID += fmt.Sprintf("/mapseed%d", c.MapSeed)
		}
	}
	return out
}

// MaxBound is the preemption bound of a tier for a config.
//
//	quick:    1 everywhere; 2 for the small variant (A=0s,B=2s) in the two-namespace scenario at offsets 0 and 4
//	thorough: A=1s,B=3s: 2 at the start offsets {A: 0,3,4,6; B: 1} (two namespaces) / {A: 0,3; B: 1} (one namespace)
//	          — A starts with B / at B's Ingress delete / inside B's last wait / at B's canary-Service delete —
//	          and 1 at the remaining offsets;
//	          A=0s,B=2s (the small variant): 2 at every offset, 3 in the two-namespace scenario at offsets 0 and 4;
//	          retry-at-every-tick variant of the small variant: 1
func MaxBound(thorough bool, c Config) int {
	in := func(v int, set ...int) bool {
		for _, s := range set {
			if v == s {
				return true
			}
		}
		return false
	}
	switch {
	case c.Mode == "clean":
		if thorough {
			return 2
		}
		return 1
	case c.Mode == "route":
		if thorough {
			return 3
		}
		return 2
	case !thorough && c.GraceA == 0 && c.Scenario == "two-ns" && in(c.OffA, 0, 4):
		return 2
	case !thorough || c.Eager:
		return 1
	case c.GraceA == 0:
		if c.Scenario == "two-ns" && in(c.OffA, 0, 4) {
			return 3
		}
		return 2
	case c.OffB == 1, c.OffB == 0 && c.Scenario == "two-ns" && in(c.OffA, 0, 3, 4, 6), c.OffB == 0 && c.Scenario == "same-ns" && in(c.OffA, 0, 3):
		return 2
	}
	return 1
}

// Job is one worker process: one config, or one shard of its schedule tree.
type Job struct {
	Cfg, Bound, Shard, Shards int
}

// Jobs lists the worker processes of a tier, most expensive first.
func Jobs(thorough bool) []Job {
	var jobs []Job
	for i, c := range Configs(thorough) {
		b := MaxBound(thorough, c)
		if v := os.Getenv("VERIF_C19_BOUND"); v != "" {
			fmt.Sscanf(v, "%d", &b)
		}
		n := 1
		switch {
		case b >= 3:
			n = 8
		case b == 2:
			n = 3
		}
		if v := os.Getenv("VERIF_C19_SHARDS"); v != "" {
			fmt.Sscanf(v, "%d", &n)
		}
		for sh := 0; sh < n; sh++ {
			jobs = append(jobs, Job{Cfg: i, Bound: b, Shard: sh, Shards: n})
		}
	}
	sort.SliceStable(jobs, func(a, b int) bool { return jobs[a].Bound > jobs[b].Bound })
	return jobs
}

// ---------------------------------------------------------------- virtual clock

var (
	vnow     int64 // virtual nanoseconds since base; advanced ONLY by the clock thread
	baseTime = time.Date(2026, 1, 1, 0, 0, 0, 0, time.UTC)
)

func installClock() {
	time.VerifNowHook = func() time.Time { return baseTime.Add(time.Duration(atomic.LoadInt64(&vnow))) }
	// the Lua runtime's one-second deadline is a REAL-time timer: a worker process starved of CPU for a second in
	// the middle of a script run would see the script fail (found by the thorough tier under load: a "context
	// deadline exceeded" in one of three million executions). Real time is not part of the closed system.
	time.VerifTimerStretch = 100000
}
func nowS() int64 { return atomic.LoadInt64(&vnow) / int64(time.Second) }

// ---------------------------------------------------------------- the shared API client (every call a point)

// Write is one successful mutating API call.
type Write struct {
	Thread string `json:"thread"`
	Verb   string `json:"verb"`
	Key    string `json:"key"` // Kind/namespace/name
	T      int64  `json:"t"`   // virtual second
}

type world struct {
	cfg       Config
	ros       []rolloutSpec
	inner     client.Client
	mu        sync.Mutex // log + digests (only contended in the free-running race stage)
	log       []Write
	events    map[string][]string // per thread: projected event sequence (own writes, errors, done)
	doneAt    map[string]int64
	digests   map[string]uint64
	storeHash uint64
	calls     int64
	ticks     int
	finished  int32
	clockOut  bool // the clock used all its steps while a worker was unfinished
	names     []string
}

type pointClient struct {
	client.Client
	w *world
}

func kindOf(o interface{}) string {
	switch o.(type) {
	case *corev1.Service:
		return "Service"
	case *netv1.Ingress:
		return "Ingress"
	case *corev1.ConfigMap:
		return "ConfigMap"
	}
	return strings.TrimPrefix(fmt.Sprintf("%T", o), "*")
}

func objKey(o client.Object) string { return kindOf(o) + "/" + o.GetNamespace() + "/" + o.GetName() }

func (w *world) threadName() string {
	if id := sched.Current(); id >= 0 && id < len(w.names) {
		return w.names[id]
	}
	return "?"
}

func (w *world) wrote(thread, verb string, o client.Object) {
	key := objKey(o)
	cur, _ := o.DeepCopyObject().(client.Object)
	var d uint64
	if err := w.inner.Get(context.TODO(), client.ObjectKeyFromObject(o), cur); err == nil {
		b, _ := json.Marshal(cur)
		h := fnv.New64a()
		_, _ = h.Write([]byte(key))
		_, _ = h.Write(b)
		d = h.Sum64()
	}
	w.mu.Lock()
	w.log = append(w.log, Write{Thread: thread, Verb: verb, Key: key, T: nowS()})
	w.storeHash ^= w.digests[key] ^ d
	w.digests[key] = d
	w.mu.Unlock()
}

func (c *pointClient) Get(ctx context.Context, key client.ObjectKey, obj client.Object, opts ...client.GetOption) error {
	sched.Point("api:Get " + kindOf(obj) + "/" + key.Namespace + "/" + key.Name)
	return c.Client.Get(ctx, key, obj, opts...)
}
func (c *pointClient) List(ctx context.Context, l client.ObjectList, opts ...client.ListOption) error {
	sched.Point("api:List " + kindOf(l))
	return c.Client.List(ctx, l, opts...)
}
func (c *pointClient) Create(ctx context.Context, obj client.Object, opts ...client.CreateOption) error {
	sched.Point("api:Create " + objKey(obj))
	th := c.w.threadName()
	err := c.Client.Create(ctx, obj, opts...)
	if err == nil {
		c.w.wrote(th, "create", obj)
	}
	return err
}
func (c *pointClient) Delete(ctx context.Context, obj client.Object, opts ...client.DeleteOption) error {
	sched.Point("api:Delete " + objKey(obj))
	th := c.w.threadName()
	err := c.Client.Delete(ctx, obj, opts...)
	if err == nil {
		c.w.wrote(th, "delete", obj)
	}
	return err
}
func (c *pointClient) Update(ctx context.Context, obj client.Object, opts ...client.UpdateOption) error {
	sched.Point("api:Update " + objKey(obj))
	th := c.w.threadName()
	err := c.Client.Update(ctx, obj, opts...)
	if err == nil {
		c.w.wrote(th, "update", obj)
	}
	return err
}
func (c *pointClient) Patch(ctx context.Context, obj client.Object, p client.Patch, opts ...client.PatchOption) error {
	sched.Point("api:Patch " + objKey(obj))
	th := c.w.threadName()
	err := c.Client.Patch(ctx, obj, p, opts...)
	if err == nil {
		c.w.wrote(th, "patch", obj)
	}
	return err
}
func (c *pointClient) DeleteAllOf(ctx context.Context, obj client.Object, opts ...client.DeleteAllOfOption) error {
	sched.Point("api:DeleteAllOf " + kindOf(obj))
	th := c.w.threadName()
	err := c.Client.DeleteAllOf(ctx, obj, opts...)
	if err == nil {
		c.w.wrote(th, "deleteallof", obj)
	}
	return err
}
func (c *pointClient) Status() client.SubResourceWriter {
	sched.Point("api:Status")
	return c.Client.Status()
}

// ---------------------------------------------------------------- world construction

var scheme = func() *k8sruntime.Scheme {
	s := k8sruntime.NewScheme()
	_ = clientgoscheme.AddToScheme(s)
	_ = v1beta1.AddToScheme(s)
	return s
}()

const (
	stableRev = "stable-6f8cc56547"
	canaryRev = "canary-5d9c7b8f66"
)

func ownerRef(ro rolloutSpec) metav1.OwnerReference {
	rollout := &v1beta1.Rollout{ObjectMeta: metav1.ObjectMeta{Namespace: ro.NS, Name: ro.Name, UID: types.UID(ro.UID)}}
	return *metav1.NewControllerRef(rollout, v1beta1.SchemeGroupVersion.WithKind("Rollout"))
}

func ownKeys(ro rolloutSpec) []string {
	return []string{"Service/" + ro.NS + "/" + ro.Svc, "Service/" + ro.NS + "/" + ro.Svc + "-canary",
		"Ingress/" + ro.NS + "/" + ro.Ing, "Ingress/" + ro.NS + "/" + ro.Ing + "-canary"}
}

// objects of one Rollout that is mid-release: stable Service pinned, canary Service + canary Ingress (weight 20).
func midReleaseObjects(ro rolloutSpec) []client.Object {
	or := ownerRef(ro)
	pt := netv1.PathTypePrefix
	class := "nginx"
	ports := []corev1.ServicePort{{Name: "http", Port: 80, TargetPort: intstr.FromInt(8080)}}
	rule := func(svc string) []netv1.IngressRule {
		return []netv1.IngressRule{{Host: ro.Svc + ".example.com", IngressRuleValue: netv1.IngressRuleValue{HTTP: &netv1.HTTPIngressRuleValue{
			Paths: []netv1.HTTPIngressPath{{Path: "/", PathType: &pt, Backend: netv1.IngressBackend{Service: &netv1.IngressServiceBackend{Name: svc, Port: netv1.ServiceBackendPort{Number: 80}}}}}}}}}
	}
	return []client.Object{
		&corev1.Service{ObjectMeta: metav1.ObjectMeta{Namespace: ro.NS, Name: ro.Svc, UID: types.UID("uid-svc-" + ro.Thread)},
			Spec: corev1.ServiceSpec{Ports: ports, Selector: map[string]string{"app": ro.Svc, "pod-template-hash": stableRev}}},
		&corev1.Service{ObjectMeta: metav1.ObjectMeta{Namespace: ro.NS, Name: ro.Svc + "-canary", UID: types.UID("uid-csvc-" + ro.Thread), OwnerReferences: []metav1.OwnerReference{or}},
			Spec: corev1.ServiceSpec{Ports: ports, Selector: map[string]string{"app": ro.Svc, "pod-template-hash": canaryRev}}},
		&netv1.Ingress{ObjectMeta: metav1.ObjectMeta{Namespace: ro.NS, Name: ro.Ing, UID: types.UID("uid-ing-" + ro.Thread)},
			Spec: netv1.IngressSpec{IngressClassName: &class, Rules: rule(ro.Svc)}},
		&netv1.Ingress{ObjectMeta: metav1.ObjectMeta{Namespace: ro.NS, Name: ro.Ing + "-canary", UID: types.UID("uid-cing-" + ro.Thread), OwnerReferences: []metav1.OwnerReference{or},
			Annotations: map[string]string{"nginx.ingress.kubernetes.io/canary": "true", "nginx.ingress.kubernetes.io/canary-weight": "20"}},
			Spec: netv1.IngressSpec{IngressClassName: &class, Rules: rule(ro.Svc + "-canary")}},
	}
}

func newWorld(cfg Config, ros []rolloutSpec) *world {
	var objs []client.Object
	for _, ro := range ros {
		objs = append(objs, midReleaseObjects(ro)...)
	}
	w := &world{cfg: cfg, ros: ros, events: map[string][]string{}, doneAt: map[string]int64{}, digests: map[string]uint64{}}
	w.inner = fake.NewClientBuilder().WithScheme(scheme).WithObjects(objs...).Build()
	return w
}

// the context exactly as pkg/controller/rollout/rollout_progressing.go:newTrafficRoutingContext builds it while
// finalising (a fresh one per reconcile; LastUpdateTime is what the status would carry over)
func newTRContext(ro rolloutSpec, lut *metav1.Time) *trafficrouting.TrafficRoutingContext {
	w20 := "20%"
	if ro.route {
		w20 = ro.Weight
	}
	return &trafficrouting.TrafficRoutingContext{
		Key:       fmt.Sprintf("Rollout(%s/%s)", ro.NS, ro.Name),
		Namespace: ro.NS,
		ObjectRef: []v1beta1.TrafficRoutingRef{{Service: ro.Svc, GracePeriodSeconds: ro.Grace,
			Ingress: &v1beta1.IngressTrafficRouting{ClassType: "nginx", Name: ro.Ing}}},
		Strategy:         v1beta1.TrafficRoutingStrategy{Traffic: &w20},
		OwnerRef:         ownerRef(ro),
		RevisionLabelKey: "pod-template-hash",
		StableRevision:   stableRev,
		CanaryRevision:   canaryRev,
		LastUpdateTime:   lut,
	}
}

func waitUntil(label string, ready, early func() bool) {
	if sched.BlockSoft(label, ready, early) {
		return
	}
	for !ready() { // free-running (race stage): really wait for the clock goroutine
		runtime.Gosched()
	}
}

const maxCallsPerRollout = 40

var implCalls int64

// workerBody is one controller worker reconciling one Rollout: call the REAL FinalisingTrafficRouting until done,
// requeueing the way rollout_canary.go does (RecheckTime = now + RecheckDuration).
func (w *world) workerBody(ro rolloutSpec, cl client.Client) func() {
	return func() {
		defer atomic.AddInt32(&w.finished, 1)
		if ro.Off > 0 {
			waitUntil("wait-clock:start", func() bool { return nowS() >= int64(ro.Off) }, nil)
		}
		m := trafficrouting.NewTrafficRoutingManager(cl)
		var lut *metav1.Time
		ev := func(s string) { w.mu.Lock(); w.events[ro.Thread] = append(w.events[ro.Thread], s); w.mu.Unlock() }
		for i := 0; i < maxCallsPerRollout; i++ {
			c := newTRContext(ro, lut)
			atomic.AddInt64(&implCalls, 1)
			var done bool
			var err error
			if ro.route {
				done, err = m.DoTrafficRouting(c)
			} else {
				done, err = m.FinalisingTrafficRouting(c)
			}
			lut = c.LastUpdateTime
			if err != nil {
				ev("error: " + err.Error())
			}
			if done && err == nil {
				w.mu.Lock()
				w.doneAt[ro.Thread] = nowS()
				w.mu.Unlock()
				return
			}
			wake := nowS() + 1
			if d := int64((c.RecheckDuration + time.Second - 1) / time.Second); !w.cfg.Eager && err == nil && nowS()+d > wake {
				wake = nowS() + d
			}
			// requeue at `wake`; any other trigger may reconcile the Rollout earlier (as soon as the clock moved):
			// that early wake-up is explored too, at the cost of one preemption
			parked := nowS()
			waitUntil("wait-clock:requeue", func() bool { return nowS() >= wake }, func() bool { return nowS() > parked })
		}
		ev("gave-up")
	}
}

func (w *world) clockBody(workers int32) func() {
	return func() {
		for w.ticks < w.cfg.maxTicks() {
			sched.Point("tick")
			if atomic.LoadInt32(&w.finished) >= workers {
				return
			}
			atomic.AddInt64(&vnow, int64(time.Second))
			w.ticks++
		}
		w.clockOut = atomic.LoadInt32(&w.finished) < workers
	}
}

// ---------------------------------------------------------------- per-execution observation

// Obs is what the oracles look at for ONE Rollout in one execution.
type Obs struct {
	State  string           `json:"state"`  // canonical projection of the final store on the Rollout's own objects
	Writes string           `json:"writes"` // projected write/event sequence, no times
	Gaps   map[string]int64 `json:"gaps"`   // grace-bounded virtual-time gaps (seconds) that were completed
	Done   bool             `json:"done"`
}

var gapNames = []string{"unpin->ingdel", "ingdel->svcdel", "svcdel->done"}

func (w *world) observe(ro rolloutSpec) Obs {
	own := map[string]bool{}
	var st []string
	for _, k := range ownKeys(ro) {
		own[k] = true
		parts := strings.SplitN(k, "/", 3)
		var o client.Object = &corev1.Service{}
		if parts[0] == "Ingress" {
			o = &netv1.Ingress{}
		}
		if err := w.inner.Get(context.TODO(), client.ObjectKey{Namespace: parts[1], Name: parts[2]}, o); err != nil {
			st = append(st, k+"=<absent>")
		} else {
			b, _ := json.Marshal(o)
			st = append(st, k+"="+string(b))
		}
	}
	t := map[string]int64{}
	var seq []string
	for _, wr := range w.log {
		if wr.Thread != ro.Thread && !own[wr.Key] {
			continue
		}
		by := ""
		if wr.Thread != ro.Thread {
			by = " by-foreign-thread-" + wr.Thread
		} else if !own[wr.Key] {
			by = " (not an own object)"
		}
		seq = append(seq, wr.Verb+" "+wr.Key+by)
		if wr.Thread == ro.Thread {
			switch {
			case wr.Verb == "patch" && wr.Key == ownKeys(ro)[0]:
				t["unpin"] = wr.T
			case wr.Verb == "delete" && wr.Key == ownKeys(ro)[3]:
				t["ingdel"] = wr.T
			case wr.Verb == "delete" && wr.Key == ownKeys(ro)[1]:
				t["svcdel"] = wr.T
			}
		}
	}
	seq = append(seq, w.events[ro.Thread]...)
	d, done := w.doneAt[ro.Thread]
	if done {
		t["done"] = d
		seq = append(seq, "done")
	}
	gaps := map[string]int64{}
	for _, g := range gapNames {
		ab := strings.Split(g, "->")
		a, okA := t[ab[0]]
		b, okB := t[ab[1]]
		if okA && okB {
			gaps[g] = b - a
		}
	}
	return Obs{State: strings.Join(st, "\n"), Writes: strings.Join(seq, "; "), Gaps: gaps, Done: done}
}

func (w *world) interleaving() string {
	var s []string
	for _, wr := range w.log {
		s = append(s, wr.Thread+":"+wr.Verb+" "+wr.Key)
	}
	return strings.Join(s, " | ")
}

// ---------------------------------------------------------------- one closed system under the explorer

type system struct {
	cfg    Config
	w      *world
	ex     *sched.Explorer
	states map[uint64]struct{}
}

var hooksOnce sync.Once

func newSystem(cfg Config, check func(s *system, x *sched.Execution)) *system {
	hooksOnce.Do(func() {
		installClock()
		vsync.PointHook, vsync.AcquireHook, vsync.ReleaseHook = sched.PointHook, sched.AcquireHook, sched.ReleaseHook
	})
	s := &system{cfg: cfg, states: map[uint64]struct{}{}}
	s.ex = &sched.Explorer{MaxPoints: 600, WarmUp: 2, TolerateDivergence: true}
	s.ex.Setup = func() []sched.ThreadSpec {
		atomic.StoreInt64(&vnow, 0)
		grace.ResetExpectations()
		if cfg.Mode == "clean" {
			runtime.VerifMapIterFixed, runtime.VerifMapIterSeed = true, uintptr(cfg.MapSeed)
			if cfg.Solo == "" {
				// the outdated timers of an abandoned third Rollout (ten virtual minutes old), inserted first
				old := baseTime.Add(-10 * time.Minute)
				stale := map[grace.Action]time.Time{}
				for _, a := range []string{"updateRoute", "restoreGateway", "removeCanaryService", "patchService", "restoreService"} {
					stale[grace.Action(a)] = old // the action names the traffic-routing manager records its waits under
				}
				grace.VerifRestore(map[string]map[grace.Action]time.Time{"uid-rollout-abandoned": stale})
			}
		}
		ros := cfg.rollouts()
		s.w = newWorld(cfg, ros)
		cl := &pointClient{Client: s.w.inner, w: s.w}
		var th []sched.ThreadSpec
		for _, ro := range ros {
			s.w.names = append(s.w.names, ro.Thread)
			th = append(th, sched.ThreadSpec{Name: ro.Thread, Body: s.w.workerBody(ro, cl)})
		}
		if cfg.Mode == "clean" {
			s.w.names = append(s.w.names, "cleaner")
			th = append(th, sched.ThreadSpec{Name: "cleaner", Body: func() {
				for i := 0; i < 2; i++ {
					sched.Point("cleaner")
					grace.DefaultGraceExpectations.CleanOutdatedItems(5 * time.Minute)
				}
			}})
		}
		s.w.names = append(s.w.names, "clock")
		return append(th, sched.ThreadSpec{Name: "clock", Env: true, Body: s.w.clockBody(int32(len(ros)))})
	}
	var kb []byte
	var keys []string
	s.ex.AfterStep = func(x *sched.Execution) {
		// state key = (store hash, virtual time, grace registry content, per-thread label+pc)
		kb = strconv.AppendUint(kb[:0], s.w.storeHash, 16)
		kb = strconv.AppendInt(append(kb, '@'), nowS(), 10)
		labels, pcs := sched.ThreadInfo()
		for i := range labels {
			kb = strconv.AppendInt(append(append(kb, '|'), labels[i]...), int64(pcs[i]), 10)
		}
		keys = keys[:0]
		for k, m := range grace.VerifSnapshotUnlocked() {
			for a, t := range m {
				keys = append(keys, k+"/"+string(a)+"@"+strconv.FormatInt(int64(t.Sub(baseTime)/time.Second), 10))
			}
		}
		sort.Strings(keys)
		for _, k := range keys {
			kb = append(append(kb, '#'), k...)
		}
		h := fnv.New64a()
		_, _ = h.Write(kb)
		s.states[h.Sum64()] = struct{}{}
	}
	s.ex.Check = func(x *sched.Execution) { check(s, x) }
	return s
}

func (s *system) threadOf(x *sched.Execution, i int) string {
	return s.w.names[x.Points[i].Enabled[x.Points[i].Chosen]]
}

// trace renders a schedule compactly: thread segments with the number of points each.
func (s *system) trace(x *sched.Execution, full bool) []string {
	var out []string
	for i := range x.Points {
		th := s.threadOf(x, i)
		if full {
			out = append(out, fmt.Sprintf("%3d %-5s %s", i, th, x.Points[i].Label))
			continue
		}
		if n := len(out); n > 0 && strings.HasPrefix(out[n-1], th+"×") {
			var k int
			fmt.Sscanf(out[n-1][len(th)+len("×"):], "%d", &k)
			out[n-1] = fmt.Sprintf("%s×%d", th, k+1)
		} else {
			out = append(out, th+"×1")
		}
	}
	return out
}

// ---------------------------------------------------------------- solo reference

// Ref is the behaviour of one Rollout run ALONE (same offset, same clock), over every solo schedule up to the
// reference bound: the set of final projections, the set of write sequences and the minimum of every gap, each with
// the first solo schedule that produced it (so a replay needs no enumeration).
type Ref struct {
	States  map[string][]int `json:"-"`
	Writes  map[string][]int `json:"-"`
	MinGap  map[string]int64 `json:"min_gap"`
	GapWit  map[string][]int `json:"-"`
	Scheds  int64            `json:"schedules"`
	Bound   int              `json:"bound"`
	Problem string           `json:"problem,omitempty"`
}

func newRef() *Ref {
	return &Ref{States: map[string][]int{}, Writes: map[string][]int{}, MinGap: map[string]int64{}, GapWit: map[string][]int{}}
}

func (r *Ref) add(o Obs, choices []int) {
	if _, ok := r.States[o.State]; !ok {
		r.States[o.State] = choices
	}
	if _, ok := r.Writes[o.Writes]; !ok {
		r.Writes[o.Writes] = choices
	}
	for g, v := range o.Gaps {
		if old, ok := r.MinGap[g]; !ok || v < old {
			r.MinGap[g], r.GapWit[g] = v, choices
		}
	}
}

// soloRun executes the given solo schedules only (replay) or, when scheds is nil, explores all up to bound.
func soloRef(cfg Config, which string, bound int, scheds [][]int, rep *lib.Report) *Ref {
	c := cfg
	c.Solo = which
	ref := newRef()
	ref.Bound = bound
	s := newSystem(c, func(s *system, x *sched.Execution) {
		ref.Scheds++
		ro := s.w.ros[0]
		if bad := s.abnormal(x, rep, "solo "+which); bad != "" {
			ref.Problem = bad
			return
		}
		ref.add(s.w.observe(ro), x.Choices())
	})
	s.ex.Bound = bound
	if scheds == nil {
		s.ex.Explore()
	} else {
		for _, p := range scheds {
			s.ex.Check(s.ex.Run(p, nil))
		}
	}
	return ref
}

// ---------------------------------------------------------------- oracles

func panicSite(stack string) string {
	lines := strings.Split(stack, "\n")
	seen := false
	for _, l := range lines {
		if strings.HasPrefix(l, "panic(") {
			seen = true
			continue
		}
		if seen && strings.HasPrefix(l, "github.com/openkruise/rollouts/") && !strings.Contains(l, "/verifshim/") {
			if j := strings.LastIndex(l, "("); j > 0 {
				l = l[:j]
			}
			return strings.TrimPrefix(l, "github.com/openkruise/rollouts/")
		}
	}
	return "unknown"
}

type replayData struct {
	Cfg     Config  `json:"cfg"`
	Choices []int   `json:"choices"`
	Rollout string  `json:"rollout,omitempty"`
	Solo    [][]int `json:"solo_schedules,omitempty"` // the solo reference schedules the verdict rests on
	// Kind "leak": re-run the job (cfg, Job) until the recorded prefix fails to replay, then re-execute that prefix in
	// fresh processes
	Kind string `json:"kind,omitempty"`
	Job  *Job   `json:"job,omitempty"`
}

// abnormal handles oracle (d) and the caps; returns a non-empty reason when the execution must not be compared.
func (s *system) abnormal(x *sched.Execution, rep *lib.Report, what string) string {
	rd := replayData{Cfg: s.cfg, Choices: x.Choices()}
	for _, p := range x.Panics {
		site := panicSite(p.Stack)
		rep.Violate("C19/panic/"+site, fmt.Sprintf("%s config %s: thread %s panicked: %s\nschedule %v\n%s", what, s.cfg.ID, s.w.names[p.Thread], p.Value, s.trace(x, false), p.Stack), rd)
	}
	switch {
	case len(x.Panics) > 0:
		return "panic"
	case x.Horizon:
		rep.NotExhaustive(fmt.Sprintf("%s config %s: an execution reached the horizon of %d points", what, s.cfg.ID, s.ex.MaxPoints))
		return "horizon"
	case x.Deadlock:
		onlyClock := true
		for _, b := range x.Blocked {
			if !strings.Contains(b, "@wait-clock:") {
				onlyClock = false
			}
		}
		if onlyClock && s.w.clockOut {
			rep.NotExhaustive(fmt.Sprintf("%s config %s: the clock's %d steps were used up while %v still waited (execution truncated, final-state oracles skipped)", what, s.cfg.ID, s.cfg.maxTicks(), x.Blocked))
			return "clock-exhausted"
		}
		rep.Violate("C19/deadlock", fmt.Sprintf("%s config %s: no enabled thread while %v unfinished\nschedule %v\nwrites %s", what, s.cfg.ID, x.Blocked, s.trace(x, false), lib.J(s.w.log)), rd)
		return "deadlock"
	}
	return ""
}

// judge compares one concurrent execution with the solo references.
func (s *system) judge(x *sched.Execution, refs map[string]*Ref, rep *lib.Report) {
	truncated := s.abnormal(x, rep, "concurrent")
	if truncated == "panic" || truncated == "deadlock" {
		return
	}
	for _, ro := range s.w.ros {
		ref, o := refs[ro.Thread], s.w.observe(ro)
		rd := replayData{Cfg: s.cfg, Choices: x.Choices(), Rollout: ro.Thread}
		head := fmt.Sprintf("config %s, Rollout %s (%s/%s, grace %ds) with the other Rollout running concurrently\nschedule (thread×points) %v, %d preemption(s)\nall writes: %s\n",
			s.cfg.ID, ro.Thread, ro.NS, ro.Name, ro.Grace, s.trace(x, false), x.Preemptions, lib.J(s.w.log))
		// (c) a grace wait must never be SHORTER than alone (judged on truncated executions as well)
		for _, g := range gapNames {
			got, ok := o.Gaps[g]
			min, okR := ref.MinGap[g]
			if ok && okR && got < min {
				rd.Solo = [][]int{ref.GapWit[g]}
				rep.Violate("C19/diff/gap/"+g, head+fmt.Sprintf("virtual-time gap %s = %ds, but never less than %ds in any of the %d solo schedules (bound %d): another Rollout shortened a configured grace wait",
					g, got, min, ref.Scheds, ref.Bound), rd)
			}
		}
		if truncated != "" {
			continue
		}
		if _, ok := ref.Writes[o.Writes]; !ok {
			rd.Solo = witnesses(ref.Writes)
			rep.Violate("C19/diff/writes", head+"projected write sequence: "+o.Writes+"\nsolo: "+strings.Join(keysOf(ref.Writes), "\n   or "), rd)
		}
		if _, ok := ref.States[o.State]; !ok {
			rd.Solo = witnesses(ref.States)
			d := ""
			for k := range ref.States {
				d = strings.Join(diffLines(k, o.State), "\n")
				break
			}
			rep.Violate("C19/diff/state", head+"final projection on its own objects differs from every solo run: "+d, rd)
		}
	}
}

// diffLines lists the own objects whose final JSON differs (solo vs concurrent).
func diffLines(solo, got string) []string {
	a, b := strings.Split(solo, "\n"), strings.Split(got, "\n")
	var out []string
	for i := range a {
		if i < len(b) && a[i] != b[i] {
			out = append(out, "solo:       "+a[i], "concurrent: "+b[i])
		}
	}
	return out
}

func keysOf(m map[string][]int) []string {
	var k []string
	for s := range m {
		k = append(k, s)
	}
	sort.Strings(k)
	return k
}
func witnesses(m map[string][]int) [][]int {
	var out [][]int
	for _, k := range keysOf(m) {
		out = append(out, m[k])
	}
	return out
}

// ---------------------------------------------------------------- worker (one job per process)

// WorkerResult is what a worker process hands to the parent.
type WorkerResult struct {
	Cfg            Config                   `json:"cfg"`
	Job            Job                      `json:"job"`
	BoundCompleted int                      `json:"bound_completed"`
	ByBound        map[string]int64         `json:"schedules_by_bound"` // schedules of exactly this cost
	Schedules      int64                    `json:"schedules"`          // distinct schedules at the last completed bound
	Executions     int64                    `json:"executions"`         // incl. re-execution of lower bounds and solo references
	Points         int64                    `json:"points"`
	StateKeys      []string                 `json:"state_keys"`
	ImplCalls      int64                    `json:"impl_calls"`
	BothWrote      int64                    `json:"both_wrote"`
	Interleavings  map[string]int64         `json:"interleavings"`
	TimedOutcomes  int                      `json:"timed_outcomes"`
	SoloRefs       map[string]*Ref          `json:"solo_refs"`
	Samples        []interface{}            `json:"samples"`
	Violations     []map[string]interface{} `json:"violations"`
	Caps           []string                 `json:"caps"`
	WallS          float64                  `json:"wall_s"`
	Error          string                   `json:"error,omitempty"`
	// Divergence: a schedule prefix recorded earlier in this process did not replay (see judgeDivergence)
	Divergence *sched.Divergence `json:"divergence,omitempty"`
	DivBound   int               `json:"divergence_bound,omitempty"`
}

// soloBoundFor is the preemption bound of the solo reference systems (2 threads: cheap). The reference is
// additionally checked for tightness (solo minimum of every gap == configured grace seconds; a vacuity warning
// otherwise), so a larger bound could not lower it.
func soloBoundFor(maxBound int) int {
	if maxBound >= 2 {
		return 2
	}
	return 1
}

// RunJob explores one config (or one shard of it) for bounds 0..job.Bound. Own process: the grace registry, the
// virtual clock and the shim hooks are process-global.
func RunJob(cfg Config, job Job, deadline time.Time) *WorkerResult {
	t0 := time.VerifRealNow()
	rep := lib.NewReport("C19")
	res := &WorkerResult{Cfg: cfg, Job: job, BoundCompleted: -1, ByBound: map[string]int64{}, Interleavings: map[string]int64{}, SoloRefs: map[string]*Ref{}}
	refs := map[string]*Ref{}
	var soloExec int64
	var soloViolations []map[string]interface{}
	for _, ro := range cfg.rollouts() {
		// "when it runs alone": alone in its process as well - the reference comes from a fresh process in which
		// no other Rollout has ever been reconciled (a result cached process-wide under too coarse a key, say, would
		// otherwise poison the reference in the same way as the run that is compared with it)
		ref, vs, err := soloRefFresh(cfg, ro.Thread, soloBoundFor(job.Bound))
		if err != nil {
			res.Error = "solo reference process: " + err.Error()
			return res
		}
		soloViolations = append(soloViolations, vs...)
		refs[ro.Thread], res.SoloRefs[ro.Thread] = ref, ref
		soloExec += ref.Scheds
		if want := int64(ro.Grace); ref.Problem == "" && job.Shard == 0 && cfg.Mode == "" { // the gaps belong to the finalising
			for _, g := range gapNames {
				if ref.MinGap[g] != want {
					rep.Warn(fmt.Sprintf("config %s: solo minimum of gap %s for Rollout %s is %ds, configured grace is %ds (reference not tight)", cfg.ID, g, ro.Thread, ref.MinGap[g], want))
				}
			}
		}
	}
	timed := map[string]struct{}{}
	var states map[uint64]struct{}
	for b := 0; b <= job.Bound; b++ {
		var both int64
		inter := map[string]int64{}
		var samples []interface{}
		s := newSystem(cfg, nil)
		s.ex.Check = func(x *sched.Execution) {
			s.judge(x, refs, rep)
			wrote := map[string]bool{}
			for _, wr := range s.w.log {
				wrote[wr.Thread] = true
			}
			if wrote["A"] && wrote["B"] {
				both++
			}
			inter[s.w.interleaving()]++
			timed[lib.J(s.w.log)] = struct{}{}
			if x.Preemptions == b && len(samples) < 1 && job.Shard == 0 {
				samples = append(samples, map[string]interface{}{"config": cfg.ID, "preemptions": x.Preemptions, "points": len(x.Points), "schedule": s.trace(x, false), "writes": s.w.log})
			}
		}
		s.ex.Bound, s.ex.Shard, s.ex.Shards = b, job.Shard, job.Shards
		s.ex.Stop = func() bool { return time.VerifRealNow().After(deadline) }
		s.ex.Explore()
		res.Executions += s.ex.Executions
		res.Points += s.ex.PointsExecuted
		if s.ex.Diverged != nil {
			res.Divergence, res.DivBound = s.ex.Diverged, b
			rep.NotExhaustive(fmt.Sprintf("config %s shard %d/%d: a recorded schedule prefix did not replay inside preemption bound %d after %d schedules (bound %d is complete)", cfg.ID, job.Shard, job.Shards, b, s.ex.Executions, b-1))
			break
		}
		if s.ex.Stopped {
			rep.NotExhaustive(fmt.Sprintf("config %s shard %d/%d: time budget ended inside preemption bound %d after %d schedules (bound %d is complete)", cfg.ID, job.Shard, job.Shards, b, s.ex.Executions, b-1))
			break
		}
		res.BoundCompleted, res.Schedules, res.BothWrote, res.Interleavings = b, s.ex.Executions, both, inter
		res.ByBound[fmt.Sprint(b)] = s.ex.ByCost[b]
		res.Samples = append(res.Samples, samples...)
		states = s.states
	}
	for k := range states {
		res.StateKeys = append(res.StateKeys, strconv.FormatUint(k, 36))
	}
	res.TimedOutcomes = len(timed)
	res.Executions += soloExec
	res.ImplCalls = atomic.LoadInt64(&implCalls)
	res.Violations, res.Caps = append(soloViolations, rep.RawViolations()...), rep.Caps()
	for _, wmsg := range rep.VacuityWarnings {
		res.Caps = append(res.Caps, "WARN "+wmsg)
	}
	res.WallS = time.VerifRealNow().Sub(t0).Seconds()
	return res
}

// Worker is the entry point of `schedmc --worker C19 <job index> <out.json>`.
func Worker(idx int, out string) {
	// one thread runs at a time anyway; a single P makes every hand-off a cheap same-P goroutine switch, and the
	// parent runs one worker process per core instead
	runtime.GOMAXPROCS(1)
	thorough := os.Getenv("VERIF_TIER") == "thorough"
	cfgs, jobs := Configs(thorough), Jobs(thorough)
	if idx < 0 || idx >= len(jobs) {
		fmt.Println("HARNESS-ERROR bad job index")
		os.Exit(2)
	}
	budget := 45 * time.Second
	if thorough {
		budget = 12 * time.Minute
	}
	if v := os.Getenv("VERIF_C19_BUDGET_S"); v != "" {
		var f float64
		fmt.Sscanf(v, "%g", &f)
		budget = time.Duration(f * float64(time.Second))
	}
	if pf := os.Getenv("VERIF_C19_PROF"); pf != "" {
		f, _ := os.Create(pf)
		_ = pprof.StartCPUProfile(f)
		defer pprof.StopCPUProfile()
	}
	res := RunJob(cfgs[jobs[idx].Cfg], jobs[idx], time.VerifRealNow().Add(budget))
	b, _ := json.Marshal(res)
	if err := os.WriteFile(out, b, 0o644); err != nil {
		fmt.Println("HARNESS-ERROR", err)
		os.Exit(2)
	}
}

// ---------------------------------------------------------------- parent

func Run(r *lib.Report) {
	thorough := r.Thorough()
	cfgs, jobs := Configs(thorough), Jobs(thorough)
	r.Rule = "E2 (CHESS-style): for every closed system = scenario {two namespaces sharing the names echo/echo-canary; one namespace with names demo/demo-x, echo/echo-x} x {both Rollouts finalising their traffic routing: grace variant {A=1s,B=3s; A=0s,B=2s} x every start offset of one Rollout inside the other's finalising | mode 'route': both Rollouts applying a traffic step through DoTrafficRouting, A to 10 %, B to 90 %, the shared Lua runtime computing each one's Ingress annotations; start offsets 0 and 1 | mode 'clean': both Rollouts finalising while the grace registry's background cleaner (CleanOutdatedItems, two invocations at scheduler-chosen points) runs and an abandoned third Rollout's ten-minute-old timers lie in the registry, for three rotations of the Go map iteration order (runtime overlay: VerifMapIterFixed / VerifMapIterSeed)}, EVERY schedule of the threads {worker A, worker B, clock} with at most k preemptions (k = 0,1,.. up to the bound listed per config) is executed on the real trafficrouting.Manager.FinalisingTrafficRouting + the real process-global grace registry (sync shim: every Mutex/RWMutex operation and every API call is a scheduling point); depth-first over choice prefixes, no sampling, no state pruning. A preemption = switching away from a still-enabled running thread, an early clock tick (while a worker could run), or an early reconcile (before the requeue time). Non-trivial = schedules in which both Rollouts wrote to the store."
	r.Assumptions = []string{
		"Lengthening of a grace wait by another Rollout is NOT flagged: with a shared grace key `Expect` only overwrites the record time, which changes neither the final state nor any stated safety property (DESIGN.md §4 C19); only a gap SHORTER than the minimum over all solo schedules is a violation (the configured gracePeriodSeconds is observable behaviour).",
		"Gap oracle events per Rollout: stable Service un-pin -> canary Ingress delete, canary Ingress delete -> canary Service delete, canary Service delete -> FinalisingTrafficRouting returning done (the last one stands for the writes the controller issues after finalising).",
		"Solo reference = the same Rollout alone with the same start offset and clock, every solo schedule up to preemption bound min(k,2) (its gap minima are checked to equal the configured grace seconds — vacuity warning otherwise — so a larger bound could not lower them); concurrent state / write sequence must be a member of the solo sets (they are singletons on the current code).",
		"Time advances only by explicit 1 s steps of the clock thread. The clock is an environment thread: it steps for free only when no worker can run (maximal progress); a step while a worker is enabled costs one preemption.",
		"A worker whose call returned `retry` blocks on the clock until now+RecheckDuration (what rollout_canary.go requeues with, at least one tick). Because any other event may trigger a reconcile earlier, an early wake-up (any time after the clock moved) is explored as well, at the cost of one preemption; thorough adds the variant in which every tick wakes every waiting worker for free.",
		"Start offsets (the virtual second at which a Rollout's finalising begins) are part of the closed system and enumerated exhaustively over the other Rollout's solo duration; they are not schedule choices.",
		"In the same-namespace scenario the two Rollouts use distinct network objects with similar names (echo / echo-x): two Rollouts on one and the same Service legitimately share state and are outside the property.",
		"Store = controller-runtime fake client (one instance shared by both workers); objects carry explicit distinct UIDs. pkg/util/grace, pkg/util/expectation and pkg/util/luamanager (lock-free on the unchanged tree) have their mutexes turned into scheduling points; every exploration is preceded by two discarded executions of the default schedule (lazily built process-wide state reaches its steady state); a schedule prefix that does not replay is re-executed in three fresh processes: identical there = the code carries state from one execution into the next (C19/leak), different there = harness error; data races are invisible to a cooperative scheduler (auxiliary -race stage, sampled, see coverage.aux_race_stage).",
	}
	r.TrustedBase = []string{"harness/sched (scheduler)", "harness/shim/vsync.go.txt (sync shim)", "controller-runtime fake client", "std time overlay (virtual clock)"}
	outDir := "/verif/.cache/e2/C19"
	_ = os.MkdirAll(outDir, 0o755)
	results := make([]*WorkerResult, len(jobs))
	sem := make(chan struct{}, runtime.NumCPU()) // workers are single-threaded (GOMAXPROCS=1)
	var wg sync.WaitGroup
	var mu sync.Mutex
	harnessErr := false
	for i := range jobs {
		wg.Add(1)
		sem <- struct{}{} // acquired here, so the launch order is the cost order of Jobs
		go func(i int) {
			defer wg.Done()
			defer func() { <-sem }()
			out := fmt.Sprintf("%s/%03d.json", outDir, i)
			_ = os.Remove(out)
			cmd := exec.Command(os.Args[0], "--worker", "C19", fmt.Sprint(i), out)
			cmd.Dir, _ = os.Getwd()
			logf, _ := os.Create(fmt.Sprintf("%s/%03d.log", outDir, i))
			cmd.Stdout, cmd.Stderr = logf, logf
			err := cmd.Run()
			logf.Close()
			var res WorkerResult
			b, rerr := os.ReadFile(out)
			if rerr == nil {
				rerr = json.Unmarshal(b, &res)
			}
			mu.Lock()
			defer mu.Unlock()
			if err != nil || rerr != nil || res.Error != "" {
				harnessErr = true
				fmt.Printf("HARNESS-ERROR C19 worker %d (%s): %v %v %s (log %s/%03d.log)\n", i, cfgs[jobs[i].Cfg].ID, err, rerr, res.Error, outDir, i)
				return
			}
			results[i] = &res
		}(i)
	}
	wg.Wait()
	if harnessErr {
		os.Exit(2)
	}
	for i, res := range results {
		if res.Divergence == nil {
			continue
		}
		// first make sure the divergence is not a one-off (an effect of real time or of the machine's load on the
		// long-lived worker process): the whole job is run again in a new worker process. The enumeration is
		// deterministic, so state carried from one execution into the next diverges again at the same prefix.
		out := fmt.Sprintf("%s/%03d.rerun.json", outDir, i)
		_ = os.Remove(out)
		cmd := exec.Command(os.Args[0], "--worker", "C19", fmt.Sprint(i), out)
		cmd.Dir, _ = os.Getwd()
		logf, _ := os.Create(fmt.Sprintf("%s/%03d.rerun.log", outDir, i))
		cmd.Stdout, cmd.Stderr = logf, logf
		err := cmd.Run()
		logf.Close()
		var again WorkerResult
		b, rerr := os.ReadFile(out)
		if rerr == nil {
			rerr = json.Unmarshal(b, &again)
		}
		if err != nil || rerr != nil || again.Error != "" {
			fmt.Printf("HARNESS-ERROR C19 worker %d re-run (%s): %v %v %s\n", i, res.Cfg.ID, err, rerr, again.Error)
			os.Exit(2)
		}
		if again.Divergence == nil {
			r.Warn(fmt.Sprintf("config %s shard %d: a schedule prefix did not replay once (point %d of prefix %v) and every prefix replayed in a complete second run of the job: a one-off effect on the worker process, not state carried between executions; the second run is the one reported", res.Cfg.ID, res.Job.Shard, res.Divergence.At, res.Divergence.Prefix))
			results[i] = &again
			continue
		}
		if fmt.Sprint(again.Divergence.Prefix) != fmt.Sprint(res.Divergence.Prefix) || again.Divergence.At != res.Divergence.At {
			fmt.Printf("HARNESS-ERROR C19 config %s: two runs of the same job failed to replay different prefixes (%v at %d, %v at %d): nondeterminism the harness does not own\n", res.Cfg.ID, res.Divergence.Prefix, res.Divergence.At, again.Divergence.Prefix, again.Divergence.At)
			os.Exit(2)
		}
		judgeDivergence(r, res.Cfg, res.Job, res.Divergence, res.Job.Cfg)
	}
	// merge the shards of every config
	type agg struct {
		byBound       map[string]int64
		inter         map[string]int64
		states        map[string]struct{}
		schedules     int64
		completed     int
		bound, shards int
		wall, cpu     float64
		solo          map[string]*Ref
	}
	aggs := make([]*agg, len(cfgs))
	byBound := map[string]int64{}
	completedAt := map[string]int{}
	inter := map[string]struct{}{}
	var execs, timed int64
	for _, res := range results {
		a := aggs[res.Job.Cfg]
		if a == nil {
			a = &agg{byBound: map[string]int64{}, inter: map[string]int64{}, states: map[string]struct{}{}, completed: 99, bound: res.Job.Bound, shards: res.Job.Shards}
			aggs[res.Job.Cfg] = a
		}
		if res.BoundCompleted < a.completed {
			a.completed = res.BoundCompleted
		}
		if res.Job.Shard == 0 {
			a.solo = res.SoloRefs
			for _, s := range res.Samples {
				if res.Job.Cfg%5 == 0 {
					r.Sample(s)
				}
			}
		}
		a.schedules += res.Schedules
		a.cpu += res.WallS
		if res.WallS > a.wall {
			a.wall = res.WallS
		}
		for k, v := range res.ByBound {
			a.byBound[k] += v
			byBound[k] += v
		}
		for k, n := range res.Interleavings {
			a.inter[k] += n
		}
		for _, k := range res.StateKeys {
			a.states[k] = struct{}{}
		}
		r.AddGraph(0, res.Points, res.ImplCalls)
		r.AddEval(res.Schedules)
		execs += res.Executions
		timed += int64(res.TimedOutcomes)
		r.NontrivialN(fmt.Sprintf("%s#%d", res.Cfg.ID, res.Job.Shard), int(res.BothWrote))
		for _, c := range res.Caps {
			if strings.HasPrefix(c, "WARN ") {
				r.Warn(strings.TrimPrefix(c, "WARN "))
			} else {
				r.NotExhaustive(c)
			}
		}
		for _, v := range res.Violations {
			sig, _ := v["signature"].(string)
			det, _ := v["detail"].(string)
			n := 1
			if f, ok := v["occurrences"].(float64); ok {
				n = int(f)
			}
			for j := 0; j < n; j++ {
				r.Violate(sig, det, v["replay"])
			}
		}
	}
	var table []map[string]interface{}
	for i, a := range aggs {
		r.AddGraph(int64(len(a.states)), 0, 0)
		for k := range a.inter {
			inter[k] = struct{}{}
			r.Outcome(cfgs[i].Scenario + ": " + k)
		}
		completedAt[fmt.Sprint(a.completed)]++
		solo := map[string]interface{}{}
		for k, ref := range a.solo {
			solo[k] = map[string]interface{}{"schedules": ref.Scheds, "bound": ref.Bound, "min_gap_s": ref.MinGap}
		}
		table = append(table, map[string]interface{}{"config": cfgs[i].ID, "bound": a.bound, "bound_completed": a.completed, "schedules_by_bound": a.byBound, "schedules": a.schedules,
			"distinct_write_interleavings": len(a.inter), "states": len(a.states), "shards": a.shards, "wall_s": a.wall, "cpu_s": a.cpu, "solo": solo})
	}
	r.Extra["configs"] = len(cfgs)
	r.Extra["worker_processes"] = len(jobs)
	r.Extra["schedules_per_preemption_bound"] = byBound
	r.Extra["configs_by_bound_completed"] = completedAt
	r.Extra["executions_incl_reexecution_and_solo_references"] = execs
	r.Extra["distinct_write_interleavings"] = len(inter)
	r.Extra["distinct_timed_write_logs_summed_over_jobs"] = timed
	r.Extra["per_config"] = table
	r.Extra["horizon_points_per_execution"] = 600
	r.Extra["aux_race_stage"] = raceStageSummary()
}

// ---------------------------------------------------------------- state carried from one execution into the next

// Probe is `schedmc C19 --probe <config index> <choices json>`: ONE execution of the given schedule prefix
// (default choices afterwards) in a fresh process, printed as a digest of everything the scheduler and the
// oracles see.
func Probe(cfgIdx int, choices []int) {
	runtime.GOMAXPROCS(1)
	cfgs := Configs(os.Getenv("VERIF_TIER") == "thorough")
	if cfgIdx < 0 || cfgIdx >= len(cfgs) {
		fmt.Println("HARNESS-ERROR bad config index")
		os.Exit(2)
	}
	s := newSystem(cfgs[cfgIdx], nil)
	s.ex.Check = func(x *sched.Execution) {}
	x := s.ex.Run(choices, nil)
	if x.Diverged {
		fmt.Println("PROBE diverged")
		return
	}
	h := fnv.New64a()
	for _, p := range x.Points {
		fmt.Fprintf(h, "%v/%d/%s;", p.Enabled, p.Chosen, p.Label)
	}
	for _, ro := range s.w.ros {
		o := s.w.observe(ro)
		fmt.Fprintf(h, "%s|%s|%v;", o.State, o.Writes, o.Done)
	}
	fmt.Printf("PROBE %016x points=%d\n", h.Sum64(), len(x.Points))
}

// freshProbes re-executes a schedule prefix n times, each in a fresh process, and returns the digests.
func freshProbes(cfgIdx int, choices []int, n int) ([]string, error) {
	b, _ := json.Marshal(choices)
	var out []string
	for i := 0; i < n; i++ {
		cmd := exec.Command(os.Args[0], "C19", "--probe", fmt.Sprint(cfgIdx), string(b))
		cmd.Dir, _ = os.Getwd()
		o, err := cmd.Output()
		if err != nil {
			return out, fmt.Errorf("probe process: %v", err)
		}
		line := ""
		for _, l := range strings.Split(string(o), "\n") {
			if strings.HasPrefix(l, "PROBE ") {
				line = l
			}
		}
		if line == "" {
			return out, fmt.Errorf("probe process printed no digest")
		}
		out = append(out, line)
	}
	return out, nil
}

// judgeDivergence decides what a replay divergence means. The harness owns every source of nondeterminism (on the
// unchanged tree hundreds of thousands of prefixes replay identically), so there are two possibilities: the
// harness lost control of something (then the same prefix also behaves differently from one FRESH process to the
// next: HARNESS-ERROR, exit 2), or the code under test carries state from one execution - one pair of Rollouts,
// one world - into the next through process-wide state that no reconcile resets (then fresh processes agree with
// each other, and only the long-lived process disagrees with itself). The second is a violation of C19: what one
// Rollout's reconciles left behind in the process changes what a later reconcile of another Rollout does.
func judgeDivergence(r *lib.Report, cfg Config, job Job, d *sched.Divergence, cfgIdx int) {
	digests, err := freshProbes(cfgIdx, d.Prefix, 3)
	same := err == nil && len(digests) == 3 && digests[0] == digests[1] && digests[1] == digests[2] && digests[0] != "PROBE diverged"
	if !same {
		fmt.Printf("HARNESS-ERROR C19 config %s: schedule prefix %v did not replay (point %d, enabled now %v) and is not deterministic in fresh processes either: %v %v\n", cfg.ID, d.Prefix, d.At, d.EnabledNow, digests, err)
		os.Exit(2)
	}
	j := job
	r.Violate("C19/leak/behaviour-depends-on-earlier-executions",
		fmt.Sprintf("config %s, preemption bound %d: the schedule prefix %v, recorded from an earlier execution in the same process, did not replay: at point %d the enabled threads are %v, recorded were %v. Executed in three fresh processes the same prefix behaves identically every time (%s), so the code is deterministic from a fresh start and the difference comes from state that an earlier execution (other Rollouts, another world) left behind in the process: process-wide state shared between Rollouts that is not reset between reconciles.",
			cfg.ID, job.Bound, d.Prefix, d.At, d.EnabledNow, recordedEnabled(d), digests[0]),
		replayData{Cfg: cfg, Kind: "leak", Job: &j})
}

func recordedEnabled(d *sched.Divergence) []int {
	if d.At < len(d.Recorded) {
		return d.Recorded[d.At].Enabled
	}
	return nil
}

// replayLeak re-runs the job until the prefix fails to replay, then the fresh-process probes.
func replayLeak(r *lib.Report, rd replayData) {
	cfgs := Configs(os.Getenv("VERIF_TIER") == "thorough")
	idx := -1
	for i := range cfgs {
		if cfgs[i].ID == rd.Cfg.ID {
			idx = i
		}
	}
	if idx < 0 || rd.Job == nil {
		fmt.Println("HARNESS-ERROR replay: config", rd.Cfg.ID, "is not part of this tier (set VERIF_TIER as in the recorded run)")
		os.Exit(2)
	}
	fmt.Printf("re-running config %s (bound %d, shard %d/%d) until a recorded prefix fails to replay ...\n", rd.Cfg.ID, rd.Job.Bound, rd.Job.Shard, rd.Job.Shards)
	res := RunJob(rd.Cfg, *rd.Job, time.VerifRealNow().Add(10*time.Minute))
	if res.Divergence == nil {
		fmt.Printf("every prefix replayed (%d executions): no state carried between executions\n", res.Executions)
		return
	}
	fmt.Printf("prefix %v did not replay at point %d (enabled now %v); executing it in three fresh processes\n", res.Divergence.Prefix, res.Divergence.At, res.Divergence.EnabledNow)
	judgeDivergence(r, rd.Cfg, *rd.Job, res.Divergence, idx)
	for _, v := range r.RawViolations() {
		fmt.Printf("verdict: %s\n", v["signature"])
	}
}

// ---------------------------------------------------------------- solo references from fresh processes

type soloOut struct {
	Ref *Ref `json:"ref"`
	// the parts of Ref that the evidence does not carry (json:"-")
	States     map[string][]int         `json:"states"`
	Writes     map[string][]int         `json:"writes"`
	GapWit     map[string][]int         `json:"gap_witnesses"`
	Violations []map[string]interface{} `json:"violations"`
}

// Solo is `schedmc C19 --solo <config json> <thread> <bound>`: the solo reference of one Rollout, computed in a
// process of its own.
func Solo(cfgJSON, which string, bound int) {
	runtime.GOMAXPROCS(1)
	var cfg Config
	if err := json.Unmarshal([]byte(cfgJSON), &cfg); err != nil {
		fmt.Println("HARNESS-ERROR bad config:", err)
		os.Exit(2)
	}
	rep := lib.NewReport("C19")
	ref := soloRef(cfg, which, bound, nil, rep)
	b, _ := json.Marshal(soloOut{Ref: ref, States: ref.States, Writes: ref.Writes, GapWit: ref.GapWit, Violations: rep.RawViolations()})
	fmt.Println("SOLOREF " + string(b))
}

func soloRefFresh(cfg Config, which string, bound int) (*Ref, []map[string]interface{}, error) {
	cj, _ := json.Marshal(cfg)
	cmd := exec.Command(os.Args[0], "C19", "--solo", string(cj), which, fmt.Sprint(bound))
	cmd.Dir, _ = os.Getwd()
	o, err := cmd.Output()
	if err != nil {
		return nil, nil, fmt.Errorf("%v: %s", err, firstN(string(o), 300))
	}
	for _, l := range strings.Split(string(o), "\n") {
		if strings.HasPrefix(l, "SOLOREF ") {
			var so soloOut
			if err := json.Unmarshal([]byte(strings.TrimPrefix(l, "SOLOREF ")), &so); err != nil || so.Ref == nil {
				return nil, nil, fmt.Errorf("cannot parse the solo reference: %v", err)
			}
			so.Ref.States, so.Ref.Writes, so.Ref.GapWit = so.States, so.Writes, so.GapWit
			if so.Ref.States == nil {
				so.Ref.States = map[string][]int{}
			}
			if so.Ref.Writes == nil {
				so.Ref.Writes = map[string][]int{}
			}
			if so.Ref.GapWit == nil {
				so.Ref.GapWit = map[string][]int{}
			}
			if so.Ref.MinGap == nil {
				so.Ref.MinGap = map[string]int64{}
			}
			return so.Ref, so.Violations, nil
		}
	}
	return nil, nil, fmt.Errorf("the solo process printed no reference")
}
