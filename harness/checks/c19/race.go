package c19

import (
	"bytes"
	"context"
	"encoding/json"
	"fmt"
	"os"
	"os/exec"
	"runtime"
	"strings"
	"sync"
	"sync/atomic"
	"time"
	"verifharness/lib"

	"sigs.k8s.io/controller-runtime/pkg/client"
	"sigs.k8s.io/controller-runtime/pkg/client/fake"
)

// AUXILIARY, NON-EXHAUSTIVE stage (DESIGN.md §4 C19): the same worker bodies free-running on 8 goroutines with the
// scheduler disabled, meant for a binary built with `go build -race`. Silence here is sampled evidence only.

const raceSummaryFile = "/verif/.cache/e2/C19/race-stage.json"

// RaceWorker is `schedmc C19 --race-worker`: fixed iteration count, no scheduler, shim hooks nil.
func RaceWorker() {
	const goroutines = 8
	iters := 150
	if v := os.Getenv("VERIF_C19_RACE_ITERS"); v != "" {
		fmt.Sscanf(v, "%d", &iters)
	}
	installClock()
	w := &world{events: map[string][]string{}, doneAt: map[string]int64{}, digests: map[string]uint64{}}
	w.inner = fake.NewClientBuilder().WithScheme(scheme).Build()
	cl := &pointClient{Client: w.inner, w: w}
	var stop int32
	go func() { // the clock: one virtual second every few microseconds
		for atomic.LoadInt32(&stop) == 0 {
			atomic.AddInt64(&vnow, int64(time.Second))
			for i := 0; i < 50; i++ {
				runtime.Gosched()
			}
		}
	}()
	var wg sync.WaitGroup
	var finalised int64
	for g := 0; g < goroutines; g++ {
		wg.Add(1)
		go func(g int) {
			defer wg.Done()
			// even goroutines: own namespace, shared names; odd: one shared namespace, similar names
			ro := rolloutSpec{Thread: fmt.Sprintf("W%d", g), NS: fmt.Sprintf("ns-%d", g), Name: "demo", UID: fmt.Sprintf("uid-rollout-%d", g), Svc: "echo", Ing: "echo", Grace: int32(g % 4)}
			if g%2 == 1 {
				ro.NS, ro.Name, ro.Svc, ro.Ing = "ns-shared", "demo"+strings.Repeat("-x", g/2), "echo"+strings.Repeat("-x", g/2), "echo"+strings.Repeat("-x", g/2)
			}
			for it := 0; it < iters; it++ {
				for _, o := range midReleaseObjects(ro) {
					if err := w.inner.Create(context.TODO(), o); err != nil {
						fmt.Println("HARNESS-ERROR race worker create:", err)
						os.Exit(2)
					}
				}
				// first a traffic step (the shared Lua runtime computes the Ingress annotations), then the finalising
				rr := ro
				rr.route, rr.Weight = true, fmt.Sprintf("%d%%", 10+10*g)
				w.workerBody(rr, cl)()
				w.mu.Lock()
				delete(w.doneAt, ro.Thread)
				w.mu.Unlock()
				atomic.AddInt32(&w.finished, -1)
				w.workerBody(ro, cl)()
				w.mu.Lock()
				_, done := w.doneAt[ro.Thread]
				delete(w.doneAt, ro.Thread)
				w.log = w.log[:0]
				w.mu.Unlock()
				if done {
					atomic.AddInt64(&finalised, 1)
				}
				for _, o := range midReleaseObjects(ro) {
					_ = client.IgnoreNotFound(w.inner.Delete(context.TODO(), o))
				}
			}
		}(g)
	}
	wg.Wait()
	atomic.StoreInt32(&stop, 1)
	fmt.Printf("RACE-WORKER done: goroutines=%d iterations=%d finalisations_completed=%d impl_calls=%d\n", goroutines, iters, finalised, atomic.LoadInt64(&implCalls))
}

// RaceStage runs a -race build of schedmc in --race-worker mode and turns any race report into C19/race.
// It does not touch evidence/C19.json; the summary is picked up (labelled sampled) by the next main run.
func RaceStage(bin string) int {
	cmd := exec.Command(bin, "C19", "--race-worker")
	cmd.Dir, _ = os.Getwd()
	cmd.Env = append(os.Environ(), "GORACE=halt_on_error=0")
	var out, errb bytes.Buffer
	cmd.Stdout, cmd.Stderr = &out, &errb
	t0 := time.VerifRealNow()
	err := cmd.Run()
	text := errb.String()
	races := strings.Count(text, "WARNING: DATA RACE")
	fatal := strings.Contains(text, "fatal error: concurrent map")
	// only reports with a frame in the repository count against the property (the fake client is not under test)
	inRepo := 0
	for _, rep := range strings.Split(text, "WARNING: DATA RACE")[1:] {
		if strings.Contains(rep, "github.com/openkruise/rollouts/pkg/") {
			inRepo++
		}
	}
	sum := map[string]interface{}{"kind": "AUXILIARY, SAMPLED, NON-EXHAUSTIVE (free-running goroutines under the Go race detector)", "binary": bin,
		"worker_output": strings.TrimSpace(out.String()), "race_reports": races, "race_reports_with_repo_frame": inRepo, "concurrent_map_fatal": fatal,
		"exit_error": fmt.Sprint(err), "wall_s": time.VerifRealNow().Sub(t0).Seconds()}
	if !strings.Contains(out.String(), "RACE-WORKER done") && races == 0 && !fatal {
		fmt.Println("HARNESS-ERROR race worker did not complete:", err, firstN(text, 2000))
		return 2
	}
	verdict := 0
	if inRepo > 0 || fatal {
		verdict = 1
		sum["first_report"] = firstN(text[strings.Index(text+"WARNING: DATA RACE", "WARNING: DATA RACE"):], 6000)
		_ = os.MkdirAll(lib.OutRoot()+"/out/C19", 0o755)
		b, _ := json.MarshalIndent(map[string]interface{}{"property": "C19", "signature": "C19/race", "detail": sum["first_report"],
			"replay": map[string]interface{}{"race_binary": bin, "args": []string{"C19", "--race-worker"}}}, "", " ")
		_ = os.WriteFile(lib.OutRoot()+"/out/C19/C19_race.json", b, 0o644)
		fmt.Printf("VIOLATION property=C19 replay=%s/out/C19/C19_race.json\n  signature: C19/race\n  detail: %s\n", lib.OutRoot(), firstN(fmt.Sprint(sum["first_report"]), 1500))
	} else if races > 0 {
		fmt.Printf("NOTE %d race report(s) without a repository frame (harness/fake client), not counted\n%s\n", races, firstN(text, 3000))
	}
	_ = os.MkdirAll("/verif/.cache/e2/C19", 0o755)
	b, _ := json.MarshalIndent(sum, "", " ")
	_ = os.WriteFile(raceSummaryFile, b, 0o644)
	fmt.Printf("C19 aux race stage (sampled): %s races=%d in_repo=%d concurrent_map_fatal=%v wall=%.1fs\n", strings.TrimSpace(out.String()), races, inRepo, fatal, sum["wall_s"])
	return verdict
}

func firstN(s string, n int) string {
	if len(s) > n {
		return s[:n] + "…"
	}
	return s
}

func raceStageSummary() interface{} {
	b, err := os.ReadFile(raceSummaryFile)
	if err != nil {
		return map[string]interface{}{"status": "not run (auxiliary, sampled, non-exhaustive; not part of ./check)",
			"how": "cd /verif/harness && . /verif/env.sh && CGO_ENABLED=1 go build -race -tags verif -overlay $VERIF_OVERLAY -o /verif/.cache/bin/schedmc-race ./cmd/schedmc && (cd /repo && /verif/.cache/bin/schedmc C19 --race-stage /verif/.cache/bin/schedmc-race)"}
	}
	var m map[string]interface{}
	_ = json.Unmarshal(b, &m)
	return m
}
