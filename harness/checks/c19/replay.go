package c19

import (
	"encoding/json"
	"fmt"
	"os"

	"verifharness/lib"
	"verifharness/sched"
)

// Replay re-executes ONE recorded schedule (and the recorded solo reference schedules the verdict rests on)
// without the enumerator, printing every step.
func Replay(r *lib.Report, raw json.RawMessage) {
	var rd replayData
	if err := json.Unmarshal(raw, &rd); err != nil {
		fmt.Println("HARNESS-ERROR bad replay data:", err)
		os.Exit(2)
	}
	if rd.Kind == "leak" {
		replayLeak(r, rd)
		return
	}
	fmt.Printf("config %s  (scenario %s, grace A=%ds B=%ds, start offsets A=%ds B=%ds, eager=%v)\n", rd.Cfg.ID, rd.Cfg.Scenario, rd.Cfg.GraceA, rd.Cfg.GraceB, rd.Cfg.OffA, rd.Cfg.OffB, rd.Cfg.Eager)
	refs := map[string]*Ref{}
	for _, ro := range rd.Cfg.rollouts() {
		scheds := [][]int{nil} // the canonical (non-preemptive) solo schedule
		if ro.Thread == rd.Rollout && len(rd.Solo) > 0 {
			scheds = rd.Solo
		}
		ref := soloRef(rd.Cfg, ro.Thread, 0, scheds, r)
		refs[ro.Thread] = ref
		fmt.Printf("solo reference Rollout %s: %d recorded schedule(s) re-executed: gaps(min) %v, %d distinct final projection(s), write sequence(s):\n", ro.Thread, len(scheds), ref.MinGap, len(ref.States))
		for _, k := range keysOf(ref.Writes) {
			fmt.Println("    ", k)
		}
	}
	s := newSystem(rd.Cfg, nil)
	s.ex.Check = func(x *sched.Execution) {}
	x := s.ex.Run(rd.Choices, nil)
	fmt.Printf("concurrent schedule: %d points, %d preemption(s)\n", len(x.Points), x.Preemptions)
	for _, l := range s.trace(x, true) {
		fmt.Println("  ", l)
	}
	fmt.Println("writes (thread verb key @virtual second):")
	for _, w := range s.w.log {
		fmt.Printf("   %-2s %-6s %-34s @%ds\n", w.Thread, w.Verb, w.Key, w.T)
	}
	for _, ro := range s.w.ros {
		o := s.w.observe(ro)
		fmt.Printf("Rollout %s: done=%v gaps=%v (solo min %v)\n", ro.Thread, o.Done, o.Gaps, refs[ro.Thread].MinGap)
	}
	if x.Deadlock || x.Horizon {
		fmt.Printf("deadlock=%v horizon=%v blocked=%v\n", x.Deadlock, x.Horizon, x.Blocked)
	}
	s.judge(x, refs, r)
	for _, v := range r.RawViolations() {
		fmt.Printf("verdict: %s\n", v["signature"])
	}
}
