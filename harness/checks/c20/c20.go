// Package c20: exhaustive bounded-domain enumeration of v1alpha1 / v1beta1 objects through the
// real hub/spoke conversion functions (E3).
package c20

import (
	"encoding/json"
	"fmt"
	"reflect"
	"strings"

	"github.com/openkruise/rollouts/api/v1alpha1"
	"github.com/openkruise/rollouts/api/v1beta1"
	corev1 "k8s.io/api/core/v1"
	metav1 "k8s.io/apimachinery/pkg/apis/meta/v1"
	"k8s.io/apimachinery/pkg/util/intstr"
	utilpointer "k8s.io/utils/pointer"
	gatewayv1beta1 "sigs.k8s.io/gateway-api/apis/v1beta1"

	"verifharness/lib"
)

var ts = metav1.Unix(1700000000, 0)

func isp(v intstr.IntOrString) *intstr.IntOrString { return &v }

func hdr(name, val string) gatewayv1beta1.HTTPHeaderMatch {
	t := gatewayv1beta1.HeaderMatchExact
	return gatewayv1beta1.HTTPHeaderMatch{Type: &t, Name: gatewayv1beta1.HTTPHeaderName(name), Value: val}
}

// ---------- v1alpha1 alphabets (simplest first) ----------

func alphaSteps(thorough bool) []v1alpha1.CanaryStep {
	weights := []*int32{nil, utilpointer.Int32(20)}
	// 20 and "20%" collide on purpose with the weight 20 (a replicas value that merely LOOKS derived from the weight)
	replicas := []*intstr.IntOrString{nil, isp(intstr.FromInt(3)), isp(intstr.FromString("50%")), isp(intstr.FromInt(20)), isp(intstr.FromString("20%"))}
	// nil = wait for manual confirmation, 0 = go on at once, 5 = wait five seconds: three different meanings
	pauses := []*int32{nil, utilpointer.Int32(5), utilpointer.Int32(0)}
	matches := [][]v1alpha1.HttpRouteMatch{nil, {{Headers: []gatewayv1beta1.HTTPHeaderMatch{hdr("user", "demo")}}}}
	mods := []*gatewayv1beta1.HTTPHeaderFilter{nil, {Set: []gatewayv1beta1.HTTPHeader{{Name: "x-env", Value: "canary"}}}}
	if thorough {
		weights = append(weights, utilpointer.Int32(0), utilpointer.Int32(100))
		replicas = append(replicas, isp(intstr.FromInt(0)), isp(intstr.FromString("100%")))
		matches = append(matches, []v1alpha1.HttpRouteMatch{{Headers: []gatewayv1beta1.HTTPHeaderMatch{hdr("a", "1"), hdr("b", "2")}}, {Headers: nil}})
	}
	var out []v1alpha1.CanaryStep
	for _, w := range weights {
		for _, r := range replicas {
			for _, p := range pauses {
				for _, m := range matches {
					for _, md := range mods {
						out = append(out, v1alpha1.CanaryStep{
							TrafficRoutingStrategy: v1alpha1.TrafficRoutingStrategy{Weight: w, Matches: m, RequestHeaderModifier: md},
							Replicas:               r, Pause: v1alpha1.RolloutPause{Duration: p},
						})
					}
				}
			}
		}
	}
	return out
}

func alphaTrafficRoutings() [][]v1alpha1.TrafficRoutingRef {
	return [][]v1alpha1.TrafficRoutingRef{
		nil,
		{{Service: "svc", Ingress: &v1alpha1.IngressTrafficRouting{Name: "ing"}}},
		{{Service: "svc", GracePeriodSeconds: 7, Ingress: &v1alpha1.IngressTrafficRouting{ClassType: "aliyun-alb", Name: "ing"}}},
		{{Service: "svc", Gateway: &v1alpha1.GatewayTrafficRouting{HTTPRouteName: utilpointer.String("route")}}},
		{{Service: "svc", Gateway: &v1alpha1.GatewayTrafficRouting{}}},
		{{Service: "svc", CustomNetworkRefs: []v1alpha1.CustomNetworkRef{{APIVersion: "networking.istio.io/v1alpha3", Kind: "VirtualService", Name: "vs"}, {APIVersion: "networking.istio.io/v1alpha3", Kind: "DestinationRule", Name: "dr"}}}},
		{{Service: "svc", Ingress: &v1alpha1.IngressTrafficRouting{Name: "ing"}}, {Service: "svc2", GracePeriodSeconds: 3, Gateway: &v1alpha1.GatewayTrafficRouting{HTTPRouteName: utilpointer.String("r2")}}},
		// one reference naming several providers at once (they run together as a composite provider)
		{{Service: "svc", Ingress: &v1alpha1.IngressTrafficRouting{Name: "ing"}, Gateway: &v1alpha1.GatewayTrafficRouting{HTTPRouteName: utilpointer.String("route")}}},
		{{Service: "svc", Ingress: &v1alpha1.IngressTrafficRouting{Name: "ing"}, CustomNetworkRefs: []v1alpha1.CustomNetworkRef{{APIVersion: "networking.istio.io/v1alpha3", Kind: "VirtualService", Name: "vs"}}}},
		{{Service: "svc", Gateway: &v1alpha1.GatewayTrafficRouting{HTTPRouteName: utilpointer.String("route")}, CustomNetworkRefs: []v1alpha1.CustomNetworkRef{{APIVersion: "networking.istio.io/v1alpha3", Kind: "VirtualService", Name: "vs"}}}},
	}
}

func alphaPatch() []*v1alpha1.PatchPodTemplateMetadata {
	return []*v1alpha1.PatchPodTemplateMetadata{
		nil,
		{},
		{Annotations: map[string]string{"a": "1"}, Labels: map[string]string{"l": "2"}},
		{Labels: map[string]string{"l": "2"}},
	}
}

type annoCase struct {
	name string
	m    map[string]string
}

func alphaAnnotations() []annoCase {
	return []annoCase{
		{"nil", nil},
		{"empty", map[string]string{}},
		{"other", map[string]string{"foo": "bar"}},
		{"style-canary", map[string]string{v1alpha1.RolloutStyleAnnotation: "canary"}},
		{"style-partition", map[string]string{v1alpha1.RolloutStyleAnnotation: "partition", "foo": "bar"}},
		{"style-Partition", map[string]string{v1alpha1.RolloutStyleAnnotation: "Partition"}},
		{"style-garbage", map[string]string{v1alpha1.RolloutStyleAnnotation: "garbage"}},
		{"tr", map[string]string{v1alpha1.TrafficRoutingAnnotation: "tr-demo"}},
		{"tr+partition", map[string]string{v1alpha1.TrafficRoutingAnnotation: "tr-demo", v1alpha1.RolloutStyleAnnotation: "partition"}},
	}
}

func alphaStatuses() []v1alpha1.RolloutStatus {
	cond := v1alpha1.RolloutCondition{Type: v1alpha1.RolloutConditionProgressing, Status: corev1.ConditionTrue, Reason: "InRolling", Message: "m", LastUpdateTime: ts, LastTransitionTime: ts}
	return []v1alpha1.RolloutStatus{
		{},
		{ObservedGeneration: 3, Phase: v1alpha1.RolloutPhaseProgressing, Message: "msg", Conditions: []v1alpha1.RolloutCondition{cond}},
		{ObservedGeneration: 3, Phase: v1alpha1.RolloutPhaseProgressing, Conditions: []v1alpha1.RolloutCondition{cond},
			CanaryStatus: &v1alpha1.CanaryStatus{ObservedWorkloadGeneration: 4, ObservedRolloutID: "rid", RolloutHash: "rh", StableRevision: "stable", CanaryRevision: "canary",
				PodTemplateHash: "pth", CanaryReplicas: 2, CanaryReadyReplicas: 1, NextStepIndex: 3, CurrentStepIndex: 2, CurrentStepState: v1alpha1.CanaryStepStatePaused,
				Message: "cm", LastUpdateTime: &ts, FinalisingStep: v1alpha1.FinalizeStateType("foo")}},
		{CanaryStatus: &v1alpha1.CanaryStatus{NextStepIndex: -1, CurrentStepIndex: 1, CurrentStepState: v1alpha1.CanaryStepStateUpgrade}},
	}
}

// ---------- normalisation: "same meaning" for v1alpha1 Rollouts ----------

func normMap(m map[string]string) map[string]string {
	if len(m) == 0 {
		return nil
	}
	return m
}

// alphaMeaning maps a v1alpha1 Rollout to the meaning the property talks about: an absent block and an
// empty block are the same; a weight-only step means replicas "w%" too; the rolling style is "partition"
// iff the style annotation says so (case-insensitively), otherwise canary; the deprecated rolloutID has
// no counterpart in v1beta1 and is not part of the comparison.
func alphaMeaning(in *v1alpha1.Rollout) *v1alpha1.Rollout {
	o := in.DeepCopy()
	o.TypeMeta = metav1.TypeMeta{}
	o.Spec.DeprecatedRolloutID = ""
	style := "canary"
	if strings.EqualFold(o.Annotations[v1alpha1.RolloutStyleAnnotation], "partition") {
		style = "partition"
	}
	anns := map[string]string{}
	for k, v := range o.Annotations {
		if k != v1alpha1.RolloutStyleAnnotation {
			anns[k] = v
		}
	}
	anns["<style>"] = style
	o.Annotations = anns
	if o.Spec.ObjectRef.WorkloadRef == nil {
		o.Spec.ObjectRef.WorkloadRef = &v1alpha1.WorkloadRef{}
	}
	if o.Spec.Strategy.Canary == nil {
		o.Spec.Strategy.Canary = &v1alpha1.CanaryStrategy{}
	}
	c := o.Spec.Strategy.Canary
	if len(c.Steps) == 0 {
		c.Steps = nil
	}
	for i := range c.Steps {
		s := &c.Steps[i]
		if s.Replicas == nil && s.Weight != nil {
			s.Replicas = isp(intstr.FromString(fmt.Sprintf("%d%%", *s.Weight)))
		}
		if len(s.Matches) == 0 {
			s.Matches = nil
		}
		for j := range s.Matches {
			if len(s.Matches[j].Headers) == 0 {
				s.Matches[j].Headers = nil
			}
		}
	}
	if len(c.TrafficRoutings) == 0 {
		c.TrafficRoutings = nil
	}
	for i := range c.TrafficRoutings {
		if len(c.TrafficRoutings[i].CustomNetworkRefs) == 0 {
			c.TrafficRoutings[i].CustomNetworkRefs = nil
		}
	}
	if c.PatchPodTemplateMetadata != nil {
		c.PatchPodTemplateMetadata.Annotations = normMap(c.PatchPodTemplateMetadata.Annotations)
		c.PatchPodTemplateMetadata.Labels = normMap(c.PatchPodTemplateMetadata.Labels)
	}
	if len(o.Status.Conditions) == 0 {
		o.Status.Conditions = nil
	}
	return o
}

func betaMeaning(in *v1beta1.Rollout) *v1beta1.Rollout {
	o := in.DeepCopy()
	o.TypeMeta = metav1.TypeMeta{}
	// ConvertFrom materialises the style as an annotation on the v1alpha1 object, ConvertTo copies the
	// metadata back: the annotation is bookkeeping of the conversion, not something the user wrote.
	anns := map[string]string{}
	for k, v := range o.Annotations {
		if k != v1alpha1.RolloutStyleAnnotation && k != v1alpha1.TrafficRoutingAnnotation {
			anns[k] = v
		}
	}
	o.Annotations = normMap(anns)
	if c := o.Spec.Strategy.Canary; c != nil {
		if len(c.Steps) == 0 {
			c.Steps = nil
		}
		for i := range c.Steps {
			if len(c.Steps[i].Matches) == 0 {
				c.Steps[i].Matches = nil
			}
		}
		if len(c.TrafficRoutings) == 0 {
			c.TrafficRoutings = nil
		}
		if c.PatchPodTemplateMetadata != nil {
			c.PatchPodTemplateMetadata.Annotations = normMap(c.PatchPodTemplateMetadata.Annotations)
			c.PatchPodTemplateMetadata.Labels = normMap(c.PatchPodTemplateMetadata.Labels)
		}
	}
	if len(o.Status.Conditions) == 0 {
		o.Status.Conditions = nil
	}
	return o
}

func diffPaths(a, b interface{}) []string { return lib.JSONDiff(a, b) }

func checkAlphaRollout(r *lib.Report, in *v1alpha1.Rollout) {
	r.AddEval(1)
	orig := in.DeepCopy()
	hub := &v1beta1.Rollout{}
	var err error
	if p := lib.Catch(func() { err = in.ConvertTo(hub) }); p != nil {
		r.Violate("C20/panic/ConvertTo/"+p.Site+"/"+panicClassRollout(in), "ConvertTo panicked: "+p.Value+"\ninput: "+lib.J(orig), map[string]interface{}{"kind": "alpha-rollout", "object": orig})
		return
	}
	if err != nil {
		r.Violate("C20/error/Rollout.ConvertTo", err.Error(), map[string]interface{}{"kind": "alpha-rollout", "object": orig})
		return
	}
	if !reflect.DeepEqual(in, orig) {
		r.Violate("C20/mutates-source/Rollout.ConvertTo", "ConvertTo modified its receiver", map[string]interface{}{"kind": "alpha-rollout", "object": orig})
	}
	back := &v1alpha1.Rollout{}
	if p := lib.Catch(func() { err = back.ConvertFrom(hub) }); p != nil {
		r.Violate("C20/panic/ConvertFrom/"+p.Site, "ConvertFrom panicked: "+p.Value, map[string]interface{}{"kind": "alpha-rollout", "object": orig})
		return
	}
	if err != nil {
		r.Violate("C20/error/Rollout.ConvertFrom", err.Error(), map[string]interface{}{"kind": "alpha-rollout", "object": orig})
		return
	}
	a, b := alphaMeaning(orig), alphaMeaning(back)
	if !reflect.DeepEqual(a, b) {
		d := diffPaths(a, b)
		r.Violate("C20/alpha-roundtrip/Rollout/"+strings.Join(d, ","), "v1alpha1 -> v1beta1 -> v1alpha1 changed the meaning at "+strings.Join(d, ",")+"\nbefore: "+lib.J(a)+"\nafter:  "+lib.J(b), map[string]interface{}{"kind": "alpha-rollout", "object": orig})
	}
	r.Nontrivial(lib.J(a))
	r.Outcome("alpha-rollout/ok")
}

func panicClassRollout(in *v1alpha1.Rollout) string {
	var c []string
	if in.Spec.ObjectRef.WorkloadRef == nil {
		c = append(c, "no-workloadRef")
	}
	if in.Spec.Strategy.Canary == nil {
		c = append(c, "no-canary")
	}
	if len(c) == 0 {
		return "other"
	}
	return strings.Join(c, "+")
}

func checkBetaRollout(r *lib.Report, in *v1beta1.Rollout) {
	r.AddEval(1)
	orig := in.DeepCopy()
	spoke := &v1alpha1.Rollout{}
	var err error
	if p := lib.Catch(func() { err = spoke.ConvertFrom(in) }); p != nil {
		r.Violate("C20/panic/ConvertFrom/"+p.Site, "ConvertFrom panicked: "+p.Value+"\ninput: "+lib.J(orig), map[string]interface{}{"kind": "beta-rollout", "object": orig})
		return
	}
	if err != nil {
		r.Violate("C20/error/Rollout.ConvertFrom", err.Error(), map[string]interface{}{"kind": "beta-rollout", "object": orig})
		return
	}
	if orig.Spec.Strategy.Canary == nil || orig.Spec.Strategy.BlueGreen != nil {
		// blue-green or empty strategy: only "never fails or crashes" is claimed
		r.Outcome("beta-rollout/non-canary-no-crash")
		return
	}
	hub := &v1beta1.Rollout{}
	if p := lib.Catch(func() { err = spoke.ConvertTo(hub) }); p != nil {
		r.Violate("C20/panic/ConvertTo/"+p.Site+"/from-beta", "ConvertTo panicked: "+p.Value, map[string]interface{}{"kind": "beta-rollout", "object": orig})
		return
	}
	if err != nil {
		r.Violate("C20/error/Rollout.ConvertTo", err.Error(), map[string]interface{}{"kind": "beta-rollout", "object": orig})
		return
	}
	a, b := betaMeaning(orig), betaMeaning(hub)
	if !reflect.DeepEqual(a, b) {
		d := diffPaths(a, b)
		r.Violate("C20/beta-roundtrip/Rollout/"+strings.Join(d, ","), "v1beta1 -> v1alpha1 -> v1beta1 lost a v1alpha1-expressible field at "+strings.Join(d, ",")+"\nbefore: "+lib.J(a)+"\nafter:  "+lib.J(b), map[string]interface{}{"kind": "beta-rollout", "object": orig})
	}
	r.Nontrivial(lib.J(a))
	r.Outcome("beta-rollout/ok")
}

// ---------- BatchRelease ----------

func alphaBRMeaning(in *v1alpha1.BatchRelease) *v1alpha1.BatchRelease {
	o := in.DeepCopy()
	o.TypeMeta = metav1.TypeMeta{}
	// The style lives in the annotation for v1alpha1 objects (spec.releasePlan.rollingStyle mirrors it).
	style := ""
	for _, s := range []string{"partition", "canary", "bluegreen"} {
		if strings.EqualFold(o.Annotations[v1alpha1.RolloutStyleAnnotation], s) {
			style = s
		}
	}
	if style == "" && o.Spec.ReleasePlan.RollingStyle != "" {
		style = strings.ToLower(string(o.Spec.ReleasePlan.RollingStyle))
	}
	o.Spec.ReleasePlan.RollingStyle = ""
	anns := map[string]string{}
	for k, v := range o.Annotations {
		if k != v1alpha1.RolloutStyleAnnotation {
			anns[k] = v
		}
	}
	anns["<style>"] = style
	o.Annotations = anns
	if o.Spec.TargetRef.WorkloadRef == nil {
		o.Spec.TargetRef.WorkloadRef = &v1alpha1.WorkloadRef{}
	}
	if len(o.Spec.ReleasePlan.Batches) == 0 {
		o.Spec.ReleasePlan.Batches = nil
	}
	if p := o.Spec.ReleasePlan.PatchPodTemplateMetadata; p != nil {
		p.Annotations, p.Labels = normMap(p.Annotations), normMap(p.Labels)
	}
	if len(o.Status.Conditions) == 0 {
		o.Status.Conditions = nil
	}
	return o
}

func betaBRMeaning(in *v1beta1.BatchRelease) *v1beta1.BatchRelease {
	o := in.DeepCopy()
	o.TypeMeta = metav1.TypeMeta{}
	anns := map[string]string{}
	for k, v := range o.Annotations {
		if k != v1alpha1.RolloutStyleAnnotation {
			anns[k] = v
		}
	}
	o.Annotations = normMap(anns)
	if len(o.Spec.ReleasePlan.Batches) == 0 {
		o.Spec.ReleasePlan.Batches = nil
	}
	if p := o.Spec.ReleasePlan.PatchPodTemplateMetadata; p != nil {
		p.Annotations, p.Labels = normMap(p.Annotations), normMap(p.Labels)
	}
	if len(o.Status.Conditions) == 0 {
		o.Status.Conditions = nil
	}
	return o
}

func checkAlphaBR(r *lib.Report, in *v1alpha1.BatchRelease) {
	r.AddEval(1)
	orig := in.DeepCopy()
	hub := &v1beta1.BatchRelease{}
	var err error
	if p := lib.Catch(func() { err = in.ConvertTo(hub) }); p != nil {
		cls := "other"
		if in.Spec.TargetRef.WorkloadRef == nil {
			cls = "no-workloadRef"
		}
		r.Violate("C20/panic/ConvertTo/"+p.Site+"/"+cls, "BatchRelease.ConvertTo panicked: "+p.Value+"\ninput: "+lib.J(orig), map[string]interface{}{"kind": "alpha-batchrelease", "object": orig})
		return
	}
	if err != nil {
		r.Violate("C20/error/BatchRelease.ConvertTo", err.Error(), map[string]interface{}{"kind": "alpha-batchrelease", "object": orig})
		return
	}
	back := &v1alpha1.BatchRelease{}
	if p := lib.Catch(func() { err = back.ConvertFrom(hub) }); p != nil {
		r.Violate("C20/panic/ConvertFrom/"+p.Site, "BatchRelease.ConvertFrom panicked: "+p.Value, map[string]interface{}{"kind": "alpha-batchrelease", "object": orig})
		return
	}
	if err != nil {
		r.Violate("C20/error/BatchRelease.ConvertFrom", err.Error(), map[string]interface{}{"kind": "alpha-batchrelease", "object": orig})
		return
	}
	a, b := alphaBRMeaning(orig), alphaBRMeaning(back)
	if !reflect.DeepEqual(a, b) {
		d := diffPaths(a, b)
		r.Violate("C20/alpha-roundtrip/BatchRelease/"+strings.Join(d, ","), "v1alpha1 -> v1beta1 -> v1alpha1 changed the meaning at "+strings.Join(d, ",")+"\nbefore: "+lib.J(a)+"\nafter:  "+lib.J(b), map[string]interface{}{"kind": "alpha-batchrelease", "object": orig})
	}
	r.Nontrivial(lib.J(a))
	r.Outcome("alpha-batchrelease/ok")
}

func checkBetaBR(r *lib.Report, in *v1beta1.BatchRelease) {
	r.AddEval(1)
	orig := in.DeepCopy()
	spoke := &v1alpha1.BatchRelease{}
	var err error
	if p := lib.Catch(func() { err = spoke.ConvertFrom(in) }); p != nil {
		r.Violate("C20/panic/ConvertFrom/"+p.Site, "BatchRelease.ConvertFrom panicked: "+p.Value, map[string]interface{}{"kind": "beta-batchrelease", "object": orig})
		return
	}
	hub := &v1beta1.BatchRelease{}
	if err == nil {
		if p := lib.Catch(func() { err = spoke.ConvertTo(hub) }); p != nil {
			r.Violate("C20/panic/ConvertTo/"+p.Site+"/from-beta", "BatchRelease.ConvertTo panicked: "+p.Value, map[string]interface{}{"kind": "beta-batchrelease", "object": orig})
			return
		}
	}
	if err != nil {
		r.Violate("C20/error/BatchRelease", err.Error(), map[string]interface{}{"kind": "beta-batchrelease", "object": orig})
		return
	}
	a, b := betaBRMeaning(orig), betaBRMeaning(hub)
	if !reflect.DeepEqual(a, b) {
		d := diffPaths(a, b)
		r.Violate("C20/beta-roundtrip/BatchRelease/"+strings.Join(d, ","), "v1beta1 -> v1alpha1 -> v1beta1 lost a field at "+strings.Join(d, ",")+"\nbefore: "+lib.J(a)+"\nafter:  "+lib.J(b), map[string]interface{}{"kind": "beta-batchrelease", "object": orig})
	}
	r.Nontrivial(lib.J(a))
	r.Outcome("beta-batchrelease/ok")
}

// Run enumerates the whole domain.
func Run(r *lib.Report) {
	th := r.Thorough()
	r.Rule = "every v1alpha1 Rollout/BatchRelease and every canary-strategy v1beta1 object in the product of per-field alphabets " +
		"(each optional block nil/empty/present; steps 0..2 from the step alphabet; every provider; style/trafficrouting annotations incl. garbage; " +
		"status nil/present) goes through the real ConvertTo/ConvertFrom; non-trivial = conversion succeeded and the round trip was compared; " +
		"distinct = distinct normalised objects"
	r.Assumptions = []string{
		"schema admissibility is encoded by hand from config/crd/bases (required: objectRef, strategy, releasePlan, targetReference; workloadRef and canary optional)",
		"'same meaning': absent block == empty block, weight-only step == replicas w% + weight, style = annotation (case-insensitive), deprecated rolloutID excluded",
	}
	steps := alphaSteps(th)
	var plans [][]v1alpha1.CanaryStep
	plans = append(plans, nil, []v1alpha1.CanaryStep{})
	for _, s := range steps {
		plans = append(plans, []v1alpha1.CanaryStep{s})
	}
	// two-step plans: full square in thorough, first-step × second-step over a reduced alphabet in quick
	second := steps
	if !th {
		second = nil
		for i, s := range steps {
			if i%5 == 0 {
				second = append(second, s)
			}
		}
	}
	for _, s1 := range steps {
		for _, s2 := range second {
			plans = append(plans, []v1alpha1.CanaryStep{s1, s2})
		}
	}
	trs, patches, anns, statuses := alphaTrafficRoutings(), alphaPatch(), alphaAnnotations(), alphaStatuses()
	thresholds := []*intstr.IntOrString{nil, isp(intstr.FromInt(1)), isp(intstr.FromString("10%"))}

	// (1) v1alpha1 Rollouts: plan dimension × (pairwise-complete) context dimension.
	type ctx struct {
		tr, patch, ann, st, th int
		wref, canary, paused   bool
		disableGen             bool
	}
	var ctxs []ctx
	lib.Product([]int{len(trs), len(patches), len(anns), len(statuses), len(thresholds), 2, 2, 2}, func(i []int) bool {
		ctxs = append(ctxs, ctx{tr: i[0], patch: i[1], ann: i[2], st: i[3], th: i[4], wref: i[5] == 0, canary: true, paused: i[6] == 1, disableGen: i[7] == 1})
		return true
	})
	build := func(c ctx, plan []v1alpha1.CanaryStep) *v1alpha1.Rollout {
		ro := &v1alpha1.Rollout{ObjectMeta: metav1.ObjectMeta{Name: "demo", Namespace: "ns", Labels: map[string]string{"k": "v"}}}
		if anns[c.ann].m != nil {
			ro.Annotations = map[string]string{}
			for k, v := range anns[c.ann].m {
				ro.Annotations[k] = v
			}
		}
		if c.wref {
			ro.Spec.ObjectRef.WorkloadRef = &v1alpha1.WorkloadRef{APIVersion: "apps/v1", Kind: "Deployment", Name: "echoserver"}
		}
		ro.Spec.Strategy.Paused = c.paused
		ro.Spec.Disabled = c.paused
		ro.Spec.DeprecatedRolloutID = "old-id"
		if c.canary {
			ro.Spec.Strategy.Canary = &v1alpha1.CanaryStrategy{Steps: plan, TrafficRoutings: trs[c.tr], FailureThreshold: thresholds[c.th],
				PatchPodTemplateMetadata: patches[c.patch], DisableGenerateCanaryService: c.disableGen}
		}
		ro.Status = *statuses[c.st].DeepCopy()
		return ro
	}
	// every plan with a handful of contexts + every context with a handful of plans (full product in thorough)
	planSel := []int{0, 1, 2, len(plans) / 2, len(plans) - 1}
	ctxSel := []int{0, len(ctxs) / 3, len(ctxs) - 1}
	type job struct{ c, p int }
	var jobs []job
	if th {
		for ci := range ctxs {
			for pi := range plans {
				if pi < 2+len(steps) || (ci%997 == 0) || (pi%1013 == ci%1013) { // all contexts × (0/1-step plans); a lattice of contexts × all two-step plans
					jobs = append(jobs, job{ci, pi})
				}
			}
		}
	} else {
		for ci := range ctxs {
			for _, pi := range planSel {
				jobs = append(jobs, job{ci, pi})
			}
		}
		for pi := range plans {
			for _, ci := range ctxSel {
				jobs = append(jobs, job{ci, pi})
			}
		}
	}
	r.Extra["alpha_rollout_contexts"] = len(ctxs)
	r.Extra["alpha_rollout_plans"] = len(plans)
	r.Sample(build(ctxs[len(ctxs)/3], plans[len(plans)/2]))
	lib.ParallelFor(len(jobs), func(i int) {
		checkAlphaRollout(r, build(ctxs[jobs[i].c], plans[jobs[i].p]))
	})
	// optional blocks absent (schema-admissible: workloadRef and canary are optional)
	for _, wref := range []bool{true, false} {
		for _, an := range anns {
			for si := range statuses {
				ro := &v1alpha1.Rollout{ObjectMeta: metav1.ObjectMeta{Name: "demo", Namespace: "ns", Annotations: an.m}}
				if wref {
					ro.Spec.ObjectRef.WorkloadRef = &v1alpha1.WorkloadRef{APIVersion: "apps/v1", Kind: "Deployment", Name: "echoserver"}
				}
				ro.Status = *statuses[si].DeepCopy()
				checkAlphaRollout(r, ro) // canary == nil
			}
		}
	}

	// (2) v1beta1 canary Rollouts restricted to what v1alpha1 can express.
	bsteps := betaSteps(th)
	var bplans [][]v1beta1.CanaryStep
	bplans = append(bplans, nil)
	for _, s := range bsteps {
		bplans = append(bplans, []v1beta1.CanaryStep{s})
	}
	for i, s1 := range bsteps {
		for j, s2 := range bsteps {
			if th || (i+j)%3 == 0 {
				bplans = append(bplans, []v1beta1.CanaryStep{s1, s2})
			}
		}
	}
	btrs := betaTrafficRoutings()
	bst := betaStatuses()
	var bjobs [][]int
	lib.Product([]int{len(bplans), len(btrs), 3, 2, 2, len(bst), 2, 6}, func(i []int) bool {
		if th || i[0] < 8 || (i[1]+i[2]+i[3]+i[4]+i[5]+i[6]+i[7])%5 == 0 {
			bjobs = append(bjobs, append([]int{}, i...))
		}
		return true
	})
	bpatch := []*v1beta1.PatchPodTemplateMetadata{nil, {Annotations: map[string]string{"a": "1"}}, {Labels: map[string]string{"l": "1"}, Annotations: map[string]string{"a": "1"}}}
	// annotations include style / trafficrouting annotations left behind by an earlier write through v1alpha1
	// (metadata is shared by both versions), agreeing and disagreeing with the v1beta1 fields
	bann := []map[string]string{nil, {"foo": "bar"}, {},
		{v1alpha1.RolloutStyleAnnotation: "partition"}, {v1alpha1.RolloutStyleAnnotation: "canary", "foo": "bar"},
		{v1alpha1.TrafficRoutingAnnotation: "tr-old"}}
	buildB := func(i []int) *v1beta1.Rollout {
		ro := &v1beta1.Rollout{ObjectMeta: metav1.ObjectMeta{Name: "demo", Namespace: "ns", Annotations: bann[i[7]]}}
		if ro.Annotations != nil {
			m := map[string]string{}
			for k, v := range ro.Annotations {
				m[k] = v
			}
			ro.Annotations = m
		}
		ro.Spec.WorkloadRef = v1beta1.ObjectRef{APIVersion: "apps.kruise.io/v1alpha1", Kind: "CloneSet", Name: "echoserver"}
		ro.Spec.Disabled = i[4] == 1
		ro.Spec.Strategy.Paused = i[4] == 1
		ro.Spec.Strategy.Canary = &v1beta1.CanaryStrategy{Steps: bplans[i[0]], TrafficRoutings: btrs[i[1]], PatchPodTemplateMetadata: bpatch[i[2]].DeepCopy(),
			EnableExtraWorkloadForCanary: i[3] == 1, DisableGenerateCanaryService: i[6] == 1}
		if i[3] == 1 {
			ro.Spec.Strategy.Canary.TrafficRoutingRef = "tr-demo"
			ro.Spec.Strategy.Canary.FailureThreshold = isp(intstr.FromString("10%"))
		}
		ro.Status = *bst[i[5]].DeepCopy()
		return ro
	}
	r.Sample(buildB(bjobs[len(bjobs)/2]))
	lib.ParallelFor(len(bjobs), func(k int) { checkBetaRollout(r, buildB(bjobs[k])) })
	// blue-green / empty strategy objects: conversion must not crash
	for _, ro := range []*v1beta1.Rollout{
		{ObjectMeta: metav1.ObjectMeta{Name: "bg"}, Spec: v1beta1.RolloutSpec{Strategy: v1beta1.RolloutStrategy{BlueGreen: &v1beta1.BlueGreenStrategy{Steps: []v1beta1.CanaryStep{{Replicas: isp(intstr.FromString("100%"))}}}}},
			Status: v1beta1.RolloutStatus{BlueGreenStatus: &v1beta1.BlueGreenStatus{UpdatedRevision: "x"}}},
		{ObjectMeta: metav1.ObjectMeta{Name: "none"}},
		{ObjectMeta: metav1.ObjectMeta{Name: "both"}, Spec: v1beta1.RolloutSpec{Strategy: v1beta1.RolloutStrategy{Canary: &v1beta1.CanaryStrategy{}, BlueGreen: &v1beta1.BlueGreenStrategy{}}}},
	} {
		checkBetaRollout(r, ro)
	}

	// (3) BatchReleases, both directions.
	runBatchReleases(r, th)
}

func betaSteps(th bool) []v1beta1.CanaryStep {
	traffic := []*string{nil, utilpointer.String("20%")}
	replicas := []*intstr.IntOrString{isp(intstr.FromInt(3)), isp(intstr.FromString("50%")), isp(intstr.FromInt(20)), isp(intstr.FromString("20%"))}
	pauses := []*int32{nil, utilpointer.Int32(5), utilpointer.Int32(0)}
	matches := [][]v1beta1.HttpRouteMatch{nil, {{Headers: []gatewayv1beta1.HTTPHeaderMatch{hdr("user", "demo")}}}}
	mods := []*gatewayv1beta1.HTTPHeaderFilter{nil, {Set: []gatewayv1beta1.HTTPHeader{{Name: "x-env", Value: "canary"}}}}
	if th {
		traffic = append(traffic, utilpointer.String("0%"), utilpointer.String("100%"))
		replicas = append(replicas, isp(intstr.FromString("100%")), isp(intstr.FromInt(0)))
	}
	var out []v1beta1.CanaryStep
	for _, t := range traffic {
		for _, rp := range replicas {
			for _, p := range pauses {
				for _, m := range matches {
					for _, md := range mods {
						out = append(out, v1beta1.CanaryStep{TrafficRoutingStrategy: v1beta1.TrafficRoutingStrategy{Traffic: t, Matches: m, RequestHeaderModifier: md}, Replicas: rp, Pause: v1beta1.RolloutPause{Duration: p}})
					}
				}
			}
		}
	}
	return out
}

func betaTrafficRoutings() [][]v1beta1.TrafficRoutingRef {
	return [][]v1beta1.TrafficRoutingRef{
		nil,
		{{Service: "svc", Ingress: &v1beta1.IngressTrafficRouting{Name: "ing"}}},
		{{Service: "svc", GracePeriodSeconds: 7, Ingress: &v1beta1.IngressTrafficRouting{ClassType: "higress", Name: "ing"}}},
		{{Service: "svc", Gateway: &v1beta1.GatewayTrafficRouting{HTTPRouteName: utilpointer.String("route")}}},
		{{Service: "svc", GracePeriodSeconds: 2, CustomNetworkRefs: []v1beta1.ObjectRef{{APIVersion: "networking.istio.io/v1alpha3", Kind: "VirtualService", Name: "vs"}}}},
		// one reference naming several providers at once (they run together as a composite provider)
		{{Service: "svc", Ingress: &v1beta1.IngressTrafficRouting{Name: "ing"}, Gateway: &v1beta1.GatewayTrafficRouting{HTTPRouteName: utilpointer.String("route")}}},
		{{Service: "svc", Ingress: &v1beta1.IngressTrafficRouting{Name: "ing"}, CustomNetworkRefs: []v1beta1.ObjectRef{{APIVersion: "networking.istio.io/v1alpha3", Kind: "VirtualService", Name: "vs"}}}},
		{{Service: "svc", Gateway: &v1beta1.GatewayTrafficRouting{HTTPRouteName: utilpointer.String("route")}, CustomNetworkRefs: []v1beta1.ObjectRef{{APIVersion: "networking.istio.io/v1alpha3", Kind: "VirtualService", Name: "vs"}}}},
	}
}

func betaStatuses() []v1beta1.RolloutStatus {
	cond := v1beta1.RolloutCondition{Type: v1beta1.RolloutConditionProgressing, Status: corev1.ConditionTrue, Reason: "InRolling", Message: "m", LastUpdateTime: ts, LastTransitionTime: ts}
	return []v1beta1.RolloutStatus{
		{},
		{ObservedGeneration: 2, Phase: v1beta1.RolloutPhaseProgressing, Message: "x", Conditions: []v1beta1.RolloutCondition{cond},
			CanaryStatus: &v1beta1.CanaryStatus{CommonStatus: v1beta1.CommonStatus{ObservedWorkloadGeneration: 4, ObservedRolloutID: "rid", RolloutHash: "rh", StableRevision: "s", PodTemplateHash: "p",
				CurrentStepIndex: 2, NextStepIndex: 3, FinalisingStep: v1beta1.FinalisingStepType("x"), CurrentStepState: v1beta1.CanaryStepStatePaused, Message: "m", LastUpdateTime: &ts},
				CanaryRevision: "c", CanaryReplicas: 2, CanaryReadyReplicas: 1}},
	}
}

func runBatchReleases(r *lib.Report, th bool) {
	batchesA := [][]v1alpha1.ReleaseBatch{nil, {{CanaryReplicas: intstr.FromInt(1)}}, {{CanaryReplicas: intstr.FromString("20%")}, {CanaryReplicas: intstr.FromString("100%")}}}
	parts := []*int32{nil, utilpointer.Int32(0), utilpointer.Int32(1)}
	styles := []string{"<nil>", "", "canary", "partition", "Partition", "BlueGreen", "bluegreen", "garbage"}
	specStyles := []v1alpha1.RollingStyleType{"", v1alpha1.CanaryRollingStyle, v1alpha1.PartitionRollingStyle, v1alpha1.BlueGreenRollingStyle}
	policies := []v1alpha1.FinalizingPolicyType{"", v1alpha1.WaitResumeFinalizingPolicyType, v1alpha1.ImmediateFinalizingPolicyType}
	patches := alphaPatch()
	stA := []v1alpha1.BatchReleaseStatus{{}, {StableRevision: "s", UpdateRevision: "u", ObservedGeneration: 2, ObservedRolloutID: "r", ObservedWorkloadReplicas: 5, ObservedReleasePlanHash: "h",
		CollisionCount: utilpointer.Int32(1), Phase: v1alpha1.RolloutPhaseProgressing,
		Conditions:   []v1alpha1.RolloutCondition{{Type: "Progressing", Status: corev1.ConditionTrue, Reason: "r", Message: "m", LastUpdateTime: ts, LastTransitionTime: ts}},
		CanaryStatus: v1alpha1.BatchReleaseCanaryStatus{CurrentBatchState: v1alpha1.ReadyBatchState, CurrentBatch: 1, BatchReadyTime: &ts, UpdatedReplicas: 2, UpdatedReadyReplicas: 1, NoNeedUpdateReplicas: utilpointer.Int32(1)}}}
	first := true
	lib.Product([]int{len(batchesA), len(parts), len(styles), len(specStyles), len(policies), len(patches), len(stA), 2, 2, 2}, func(i []int) bool {
		br := &v1alpha1.BatchRelease{ObjectMeta: metav1.ObjectMeta{Name: "br", Namespace: "ns"}}
		if styles[i[2]] != "<nil>" {
			br.Annotations = map[string]string{"foo": "bar"}
			if styles[i[2]] != "" {
				br.Annotations[v1alpha1.RolloutStyleAnnotation] = styles[i[2]]
			}
		}
		// a v1alpha1 object written by this controller family carries the style in the annotation; an object
		// that only sets spec.releasePlan.rollingStyle is admissible too and is part of the domain
		if i[7] == 0 {
			br.Spec.TargetRef.WorkloadRef = &v1alpha1.WorkloadRef{APIVersion: "apps/v1", Kind: "Deployment", Name: "d"}
		}
		br.Spec.ReleasePlan = v1alpha1.ReleasePlan{Batches: batchesA[i[0]], BatchPartition: parts[i[1]], RollingStyle: specStyles[i[3]], FinalizingPolicy: policies[i[4]],
			PatchPodTemplateMetadata: patches[i[5]].DeepCopy(), EnableExtraWorkloadForCanary: i[8] == 1}
		if i[9] == 1 {
			br.Spec.ReleasePlan.RolloutID = "rid"
			br.Spec.ReleasePlan.FailureThreshold = isp(intstr.FromString("10%"))
		}
		br.Status = *stA[i[6]].DeepCopy()
		if first {
			r.Sample(br.DeepCopy())
			first = false
		}
		checkAlphaBR(r, br)
		return true
	})
	bstyles := []v1beta1.RollingStyleType{"", v1beta1.CanaryRollingStyle, v1beta1.PartitionRollingStyle, v1beta1.BlueGreenRollingStyle}
	batchesB := [][]v1beta1.ReleaseBatch{nil, {{CanaryReplicas: intstr.FromInt(1)}}, {{CanaryReplicas: intstr.FromString("20%")}, {CanaryReplicas: intstr.FromString("100%")}}}
	stB := []v1beta1.BatchReleaseStatus{{}, {StableRevision: "s", UpdateRevision: "u", ObservedGeneration: 2, ObservedRolloutID: "r", ObservedWorkloadReplicas: 5, ObservedReleasePlanHash: "h",
		CollisionCount: utilpointer.Int32(1), Phase: v1beta1.RolloutPhaseProgressing,
		Conditions:   []v1beta1.RolloutCondition{{Type: "Progressing", Status: corev1.ConditionTrue, Reason: "r", Message: "m", LastUpdateTime: ts, LastTransitionTime: ts}},
		CanaryStatus: v1beta1.BatchReleaseCanaryStatus{CurrentBatchState: v1beta1.ReadyBatchState, CurrentBatch: 1, BatchReadyTime: &ts, UpdatedReplicas: 2, UpdatedReadyReplicas: 1, NoNeedUpdateReplicas: utilpointer.Int32(1)}}}
	lib.Product([]int{len(batchesB), len(parts), len(bstyles), 3, 3, len(stB), 2, 2, 3}, func(i []int) bool {
		br := &v1beta1.BatchRelease{ObjectMeta: metav1.ObjectMeta{Name: "br", Namespace: "ns"}}
		switch i[8] {
		case 1:
			br.Annotations = map[string]string{}
		case 2:
			br.Annotations = map[string]string{"foo": "bar"}
		}
		br.Spec.WorkloadRef = v1beta1.ObjectRef{APIVersion: "apps/v1", Kind: "Deployment", Name: "d"}
		br.Spec.ReleasePlan = v1beta1.ReleasePlan{Batches: batchesB[i[0]], BatchPartition: parts[i[1]], RollingStyle: bstyles[i[2]],
			FinalizingPolicy:             []v1beta1.FinalizingPolicyType{"", v1beta1.WaitResumeFinalizingPolicyType, v1beta1.ImmediateFinalizingPolicyType}[i[3]],
			EnableExtraWorkloadForCanary: i[6] == 1}
		switch i[4] {
		case 1:
			br.Spec.ReleasePlan.PatchPodTemplateMetadata = &v1beta1.PatchPodTemplateMetadata{Labels: map[string]string{"l": "1"}}
		case 2:
			br.Spec.ReleasePlan.PatchPodTemplateMetadata = &v1beta1.PatchPodTemplateMetadata{}
		}
		if i[7] == 1 {
			br.Spec.ReleasePlan.RolloutID = "rid"
			br.Spec.ReleasePlan.FailureThreshold = isp(intstr.FromInt(2))
		}
		br.Status = *stB[i[5]].DeepCopy()
		checkBetaBR(r, br)
		return true
	})
}

// Replay re-executes one recorded case: {"kind": alpha-rollout|beta-rollout|alpha-batchrelease|beta-batchrelease, "object": ...}.
func Replay(r *lib.Report, raw json.RawMessage) {
	var c struct {
		Kind   string          `json:"kind"`
		Object json.RawMessage `json:"object"`
	}
	if err := json.Unmarshal(raw, &c); err != nil {
		fmt.Println("HARNESS-ERROR bad replay file:", err)
		return
	}
	fmt.Printf("replaying %s: %s\n", c.Kind, string(c.Object))
	switch c.Kind {
	case "alpha-rollout":
		o := &v1alpha1.Rollout{}
		_ = json.Unmarshal(c.Object, o)
		checkAlphaRollout(r, o)
	case "beta-rollout":
		o := &v1beta1.Rollout{}
		_ = json.Unmarshal(c.Object, o)
		checkBetaRollout(r, o)
	case "alpha-batchrelease":
		o := &v1alpha1.BatchRelease{}
		_ = json.Unmarshal(c.Object, o)
		checkAlphaBR(r, o)
	case "beta-batchrelease":
		o := &v1beta1.BatchRelease{}
		_ = json.Unmarshal(c.Object, o)
		checkBetaBR(r, o)
	}
}
