// Command clustermc: explicit-state model checker over the real reconcilers (E1).
package main

import (
	"fmt"
	"os"
	"time"

	rolloutsv1beta1 "github.com/openkruise/rollouts/api/v1beta1"

	"verifharness/lib"
	"verifharness/sim"
)

func linear() {
	w, err := sim.NewWorld()
	if err != nil {
		fmt.Println("HARNESS-ERROR", err)
		os.Exit(2)
	}
	for _, c := range w.Ctls {
		fmt.Println(c.Short, c.Name, c.Watches())
	}
	sc := &sim.Scenario{ID: "Q01", Kind: "CloneSet", Style: "partition", Replicas: 5,
		Steps: []sim.StepSpec{{Replicas: "20%"}, {Replicas: "60%"}, {Replicas: "100%"}}}
	if err := sc.Build(w); err != nil {
		fmt.Println("HARNESS-ERROR build", err)
		os.Exit(2)
	}
	w.Resync()
	released := false
	for step := 0; step < 400; step++ {
		progressed := false
		for _, c := range w.Ctls {
			for _, k := range c.Queue.Ready() {
				if c.Short == "D" {
					w.SyncListers()
				}
				rr, log := w.Reconcile(c, k, sim.Fault{})
				fmt.Printf("%3d %s(%s) calls=%d writes=%d err=%v requeue=%v panic=%v\n", step, c.Short, k.Name, rr.Calls, len(log), rr.Err, rr.Result.RequeueAfter, rr.Panic != nil)
				for _, wr := range log {
					fmt.Printf("      %s %s status=%v\n", wr.Verb, wr.Key, wr.Status)
				}
				progressed = true
			}
		}
		for _, e := range w.Env {
			if st := e.Steps(w); len(st) > 0 {
				log, err := w.As("env", func() error { return e.Do(w, st[0]) })
				fmt.Printf("%3d %s.%s writes=%d err=%v\n", step, e.Name(), st[0], len(log), err)
				progressed = true
			}
		}
		if progressed {
			continue
		}
		ro := &rolloutsv1beta1.Rollout{}
		w.Get(ro, sc.NS, "demo")
		w.Get(ro, "ns1", "demo")
		st := ""
		if ro.Status.CanaryStatus != nil {
			st = fmt.Sprintf("step=%d state=%s", ro.Status.CanaryStatus.CurrentStepIndex, ro.Status.CanaryStatus.CurrentStepState)
		}
		fmt.Printf("%3d QUIESCENT phase=%s %s now=%d\n", step, ro.Status.Phase, st, w.Now()-sim.T0)
		if !released {
			_, err := w.As("user", func() error { return w.UserSetImage(sc, "app:v2") })
			fmt.Println("    user release v2:", err)
			released = true
			continue
		}
		if ro.Status.CanaryStatus != nil && ro.Status.CanaryStatus.CurrentStepState == rolloutsv1beta1.CanaryStepStatePaused {
			_, err := w.As("user", func() error { return w.UserApprove(sc) })
			fmt.Println("    user approve:", err)
			continue
		}
		due := false
		for _, c := range w.Ctls {
			if c.Queue.NextDue() > 0 {
				due = true
			}
		}
		if due {
			w.Tick()
			fmt.Println("    tick")
			continue
		}
		break
	}
}

func probe() {
	w, err := sim.NewWorld()
	if err != nil {
		fmt.Println("HARNESS-ERROR", err)
		os.Exit(2)
	}
	sc := &sim.Scenario{ID: "Q01", Kind: "CloneSet", Style: "partition", Replicas: 4,
		Steps: []sim.StepSpec{{Replicas: "25%"}, {Replicas: "50%"}, {Replicas: "100%"}}}
	if err := sc.Build(w); err != nil {
		fmt.Println("HARNESS-ERROR build", err)
		os.Exit(2)
	}
	w.Store.Log = nil
	w.Resync()
	w.FreeQueues = os.Getenv("FREEQ") != ""
	r := lib.NewReport("PROBE")
	cfg := sim.Config{Sc: sc, Actions: []string{"release", "approve"}, StateCap: 200000, Verbose: true, Monitors: []sim.Monitor{sim.PanicMonitor{}}}
	if len(os.Args) > 2 {
		cfg.Actions = append(cfg.Actions, os.Args[2:]...)
		cfg.MaxUser = 1
	}
	ex := sim.NewExplorer(w, cfg, r)
	t0 := time.Now()
	if os.Getenv("PROJ") != "" {
		ex.Proj = map[string]map[string]bool{}
	}
	ex.Run(sim.Budget{User: cfg.MaxUser})
	for k, v := range ex.Proj {
		fmt.Printf("  proj %-70s %d\n", k, len(v))
	}
	fmt.Printf("nodes=%d keys=%d transitions=%d capped=%v wall=%v\n", ex.NodesCount(), ex.DistinctKeys(), ex.Transitions, ex.Capped, time.Since(t0))
}

func main() {
	if len(os.Args) > 1 && os.Args[1] == "linear" {
		linear()
		return
	}
	if len(os.Args) > 1 && os.Args[1] == "probe" {
		probe()
		return
	}
	fmt.Println("usage: clustermc linear")
}
