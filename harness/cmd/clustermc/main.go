// Command clustermc: explicit-state model checker over the real reconcilers (engine E1).
//
//	clustermc <PROP>                         run every scenario of the property's plan (one worker process each)
//	clustermc <PROP> --replay <file>         re-execute one recorded trace without the explorer
//	clustermc --worker <PROP> <SCENARIO> <out.json>
package main

import (
	"encoding/json"
	"fmt"
	"os"
	"os/exec"
	"runtime/pprof"
	"sort"
	"strings"
	"sync"
	"time"

	"verifharness/lib"
	"verifharness/sim"
)

type workerResult struct {
	Scenario    string                   `json:"scenario"`
	Nodes       int                      `json:"nodes"`
	Keys        int                      `json:"keys"`
	Transitions int64                    `json:"transitions"`
	ImplCalls   int64                    `json:"impl_calls"`
	Capped      bool                     `json:"capped"`
	Caps        []string                 `json:"caps"`
	Counters    map[string]int64         `json:"counters"`
	Violations  []map[string]interface{} `json:"violations"`
	Samples     []interface{}            `json:"samples"`
	Terminals   map[string]int           `json:"terminals"`
	WallS       float64                  `json:"wall_s"`
	Watches     map[string][]string      `json:"watches"`
	Error       string                   `json:"error,omitempty"`
}

func buildWorld(sc *sim.Scenario, free bool) (*sim.World, error) {
	w, err := sim.NewWorld()
	if err != nil {
		return nil, err
	}
	if err := sc.Build(w); err != nil {
		return nil, err
	}
	w.Store.Log = nil
	w.Resync()
	if err := sim.Settle(w); err != nil {
		return nil, err
	}
	w.FreeQueues = free
	return w, nil
}

func worker(prop, scID, out string) {
	thorough := os.Getenv("VERIF_TIER") == "thorough"
	plan, ok := sim.Plans(thorough)[prop]
	res := workerResult{Scenario: scID}
	write := func() {
		b, _ := json.MarshalIndent(res, "", " ")
		_ = os.WriteFile(out, b, 0o644)
	}
	live := strings.HasSuffix(scID, "@live")
	sc := sim.Scenarios(thorough)[strings.TrimSuffix(scID, "@live")]
	if live && sc != nil {
		c := *sc
		c.ID += "@live"
		sc = &c
	}
	if live {
		plan.FreeQueues, plan.Liveness = false, true
		var ds []string
		for _, d := range plan.Disturbances {
			if d == "crash" || d == "midcrash" {
				ds = append(ds, d)
			}
		}
		plan.Disturbances = ds
	}
	if !ok || sc == nil {
		res.Error = "unknown property or scenario"
		write()
		os.Exit(2)
	}
	t0 := time.VerifRealNow()
	w, err := buildWorld(sc, plan.FreeQueues)
	if err != nil {
		res.Error = "build: " + err.Error()
		write()
		os.Exit(2)
	}
	res.Watches = map[string][]string{}
	for _, c := range w.Ctls {
		res.Watches[c.Short] = c.Watches()
	}
	r := lib.NewReport(prop)
	cfg := sim.Config{Sc: sc, Actions: append([]string{"release", "approve"}, plan.Actions...), MaxUser: plan.MaxUser, Disturbances: plan.Disturbances,
		MaxDisturb: plan.MaxDisturb, StateCap: plan.StateCap, Monitors: append([]sim.Monitor{sim.ContextTracker{}}, plan.Monitors(w, sc)...), InjectOncePerControlState: true, DisturbOncePerControlState: plan.FaultPointsPerControlState, Verbose: os.Getenv("VERIF_VERBOSE") != ""}
	budgetS := 150.0
	if thorough {
		budgetS = 3000
	}
	if v := os.Getenv("VERIF_E1_BUDGET_S"); v != "" {
		fmt.Sscanf(v, "%f", &budgetS)
	}
	cfg.NoCost = map[string]bool{}
	for _, a := range plan.NoCostActions {
		cfg.NoCost[a] = true
	}
	cfg.Deadline = t0.Add(time.Duration(budgetS * float64(time.Second)))
	// one complete default-schedule continuation per deviation point before the breadth-first exploration of the
	// continuations (safety plans with user deviations; at most a third of the time budget)
	if plan.FreeQueues && plan.MaxUser > 0 && !live {
		cfg.DefaultContinuations = true
		cfg.ContinuationBudget = time.Duration(budgetS * float64(time.Second) / 3)
	}
	// memory budget per worker (the scenarios of one check run in parallel): stop with exhaustive:false rather than
	// exhaust the machine
	cfg.MemLimitMB = 3500
	if v := os.Getenv("VERIF_E1_MEM_MB"); v != "" {
		fmt.Sscanf(v, "%d", &cfg.MemLimitMB)
	}
	if plan.Liveness {
		// convergence: 100 store-changing controller transitions in a row without any change of the control state
		// (a complete release of these scenarios takes fewer writes in total) is a divergence
		cfg.DivergeLimit = 100
	}
	ex := sim.NewExplorer(w, cfg, r)
	if pf := os.Getenv("VERIF_CPUPROFILE"); pf != "" {
		f, _ := os.Create(pf)
		_ = pprof.StartCPUProfile(f)
		defer pprof.StopCPUProfile()
	}
	ex.Run(sim.Budget{User: plan.MaxUser, Disturb: plan.MaxDisturb})
	if plan.Liveness {
		ex.Liveness()
	}
	res.Nodes, res.Keys, res.Transitions, res.ImplCalls, res.Capped = ex.NodesCount(), ex.DistinctKeys(), ex.Transitions, ex.ImplCalls, ex.Capped
	res.Counters, res.Terminals = ex.Counters, ex.Terminals
	res.Violations = r.RawViolations()
	if plan.Relabel {
		for _, v := range res.Violations {
			if sig, _ := v["signature"].(string); !strings.HasPrefix(sig, prop+"/") {
				v["signature"] = prop + "/via/" + sig
			}
		}
	}
	res.Caps = r.Caps()
	res.Samples = ex.SampleTraces(3)
	res.WallS = time.VerifRealNow().Sub(t0).Seconds()
	write()
}

func parent(prop string) {
	thorough := os.Getenv("VERIF_TIER") == "thorough"
	plan, ok := sim.Plans(thorough)[prop]
	if !ok {
		fmt.Println("HARNESS-ERROR no E1 plan for", prop)
		os.Exit(2)
	}
	r := lib.NewReport(prop)
	outDir := "/verif/.cache/e1/" + prop
	if d := os.Getenv("VERIF_OUT_ROOT"); d != "" {
		outDir = d + "/e1/" + prop
	}
	_ = os.MkdirAll(outDir, 0o755)
	var mu sync.Mutex
	var wg sync.WaitGroup
	results := map[string]*workerResult{}
	harnessErr := false
	all := append([]string{}, plan.Scenarios...)
	for _, l := range plan.LiveScenarios {
		all = append(all, l+"@live")
	}
	for _, scID := range all {
		wg.Add(1)
		go func(scID string) {
			defer wg.Done()
			out := fmt.Sprintf("%s/%s.json", outDir, scID)
			_ = os.Remove(out)
			cmd := exec.Command(os.Args[0], "--worker", prop, scID, out)
			cmd.Dir, _ = os.Getwd()
			logf, _ := os.Create(fmt.Sprintf("%s/%s.log", outDir, scID))
			cmd.Stdout, cmd.Stderr = logf, logf
			err := cmd.Run()
			logf.Close()
			var res workerResult
			b, rerr := os.ReadFile(out)
			if rerr == nil {
				_ = json.Unmarshal(b, &res)
			}
			mu.Lock()
			defer mu.Unlock()
			if rerr != nil || res.Error != "" {
				harnessErr = true
				fmt.Printf("HARNESS-ERROR worker %s/%s: %v %s (log %s/%s.log)\n", prop, scID, err, res.Error, outDir, scID)
				return
			}
			results[scID] = &res
		}(scID)
	}
	wg.Wait()
	if harnessErr {
		os.Exit(2)
	}
	var table []map[string]interface{}
	counters := map[string]int64{}
	ids := make([]string, 0, len(results))
	for id := range results {
		ids = append(ids, id)
	}
	sort.Strings(ids)
	for _, id := range ids {
		res := results[id]
		r.AddGraph(int64(res.Keys), res.Transitions, res.ImplCalls)
		r.AddEval(res.Transitions)
		for _, c := range res.Caps {
			r.NotExhaustive(c)
		}
		for k, v := range res.Counters {
			counters[k] += v
		}
		for _, v := range res.Violations {
			sig, _ := v["signature"].(string)
			det, _ := v["detail"].(string)
			n := 1
			if f, ok := v["occurrences"].(float64); ok {
				n = int(f)
			}
			for i := 0; i < n; i++ {
				r.Violate(sig, det, v["replay"])
			}
		}
		for _, s := range res.Samples {
			r.Sample(map[string]interface{}{"scenario": id, "trace": s})
		}
		for k := range res.Terminals {
			r.Outcome(id + "/terminal/" + k)
		}
		table = append(table, map[string]interface{}{"scenario": id, "states": res.Keys, "nodes_with_budget": res.Nodes, "transitions": res.Transitions,
			"real_reconciles": res.ImplCalls, "capped": res.Capped, "wall_s": res.WallS, "terminal_classes": len(res.Terminals)})
		for i := 0; i < res.Keys; i++ {
			// distinct states are the distinct non-trivial cases of an explicit-state search
		}
		r.NontrivialN(id, res.Keys)
	}
	if label, ok := map[string]string{"C09": "stage1_validation_enumeration", "C01": "stage1_arithmetic_enumeration", "C11": "stage1_status_enumeration"}[prop]; ok {
		// stage 1 (engine E3) ran just before; embed what it covered
		root := "/verif"
		if d := os.Getenv("VERIF_OUT_ROOT"); d != "" {
			root = d
		}
		if b, err := os.ReadFile(root + "/evidence/" + prop + ".stage1.json"); err == nil {
			var ev map[string]interface{}
			if json.Unmarshal(b, &ev) == nil {
				r.Extra[label] = ev["coverage"]
			}
		}
	}
	r.Extra["scenarios"] = table
	r.Extra["monitor_antecedents"] = counters
	r.Extra["deviation_alphabet"] = plan.Actions
	r.Extra["disturbances"] = plan.Disturbances
	faultPoints := "every state, every reconcile transition, every call / write index"
	if plan.FaultPointsPerControlState {
		faultPoints = "one representative state per abstract control state, transition, fault kind and call / write index"
	}
	r.Extra["fault_points"] = faultPoints
	r.Extra["bounds"] = map[string]interface{}{"user_deviations": plan.MaxUser, "disturbances": plan.MaxDisturb, "state_cap_per_scenario": plan.StateCap,
		"interleavings_of_R_B_T_D_env_gc_tick": "unbounded (BFS with state matching)", "deviation_points": "one per abstract control state and action"}
	if len(ids) > 0 {
		r.Extra["controllers_wired_by_real_setup_code"] = results[ids[0]].Watches
	}
	for k, v := range counters {
		if v == 0 && strings.HasPrefix(k, prop) {
			r.Warn("monitor antecedent never fired: " + k)
		}
	}
	r.Rule = "explicit-state BFS over a simulated cluster; every transition is one call of a real Reconcile (Rollout, BatchRelease, TrafficRouting, advanced Deployment controllers wired by the repository's own setup code), " +
		"one unit step of a native-controller reference model, a garbage-collection step, a virtual-clock tick or a budgeted user action / crash / API fault; monitors run after every single API write and on every state; " +
		"distinct = distinct canonical states"
	r.Assumptions = []string{
		"reads are linearizable (no informer lag); reconciles are atomic except for injected crashes / faults at any API call",
		"native workload controllers are reference models (trusted base), permissive about partial progress",
		"safety mode: any controller may be woken at any time (spurious wake-ups are legal for level-triggered controllers), queue contents are not part of the state",
	}
	r.TrustedBase = []string{"API-server shim (generation, status subresource, finalizers, GC)", "workload reference models (CloneSet incl. blue-green surge, Deployment + ReplicaSet, StatefulSet, Advanced DaemonSet)", "garbage-collector actor (owner references, finalizer-free deletion)", "traffic oracle"}
	r.Finish()
}

func replay(prop, file string) {
	b, err := os.ReadFile(file)
	if err != nil {
		fmt.Println("HARNESS-ERROR", err)
		os.Exit(2)
	}
	var f struct {
		Signature string `json:"signature"`
		Replay    struct {
			Scenario string   `json:"scenario"`
			Trace    []string `json:"trace"`
		} `json:"replay"`
	}
	if err := json.Unmarshal(b, &f); err != nil {
		fmt.Println("HARNESS-ERROR", err)
		os.Exit(2)
	}
	thorough := os.Getenv("VERIF_TIER") == "thorough"
	plan := sim.Plans(thorough)[prop]
	live := strings.HasSuffix(f.Replay.Scenario, "@live")
	scName := strings.TrimSuffix(f.Replay.Scenario, "@live")
	sc := sim.Scenarios(thorough)[scName]
	if sc == nil {
		sc = sim.Scenarios(!thorough)[scName]
	}
	w, err := buildWorld(sc, plan.FreeQueues && !live)
	if err != nil {
		fmt.Println("HARNESS-ERROR build:", err)
		os.Exit(2)
	}
	r := lib.NewReport(prop)
	cfg := sim.Config{Sc: sc, Monitors: append([]sim.Monitor{sim.ContextTracker{}}, plan.Monitors(w, sc)...)}
	ex := sim.NewExplorer(w, cfg, r)
	fmt.Printf("replaying %d transitions of scenario %s on the real controllers\n", len(f.Replay.Trace), sc.ID)
	ex.Replay(f.Replay.Trace, true)
	if plan.Relabel {
		f.Signature = strings.TrimPrefix(f.Signature, prop+"/via/")
	}
	if r.HasViolation(f.Signature) {
		fmt.Printf("REPLAY verdict: VIOLATION reproduced (%s)\n", f.Signature)
		os.Exit(1)
	}
	fmt.Printf("REPLAY verdict: recorded signature %s NOT reproduced\n", f.Signature)
}

// script: --script PROP SCENARIO "user:release;drain;user:approve;drain;..." runs a hand-written history on the
// real controllers (real queues) with the property's monitors attached: a debugging aid and the way directed
// regression histories are replayed.
func script(prop, scID string, items []string) {
	plan := sim.Plans(false)[prop]
	sc := sim.Scenarios(false)[scID]
	w, err := buildWorld(sc, false)
	if err != nil {
		fmt.Println("HARNESS-ERROR build:", err)
		os.Exit(2)
	}
	r := lib.NewReport(prop)
	cfg := sim.Config{Sc: sc, Actions: plan.Actions, Monitors: append([]sim.Monitor{sim.ContextTracker{}}, plan.Monitors(w, sc)...)}
	ex := sim.NewExplorer(w, cfg, r)
	ex.Script(items, true)
	fmt.Println("counters:", ex.Counters)
	for _, v := range r.RawViolations() {
		fmt.Printf("VIOLATION %v\n   %v\n", v["signature"], v["detail"])
	}
}

// linear runs one scenario under the default schedule (controllers first, then env, approvals granted),
// printing every transition: a debugging aid, not a check.
func linear(scID string) {
	sc := sim.Scenarios(false)[scID]
	w, err := buildWorld(sc, false)
	if err != nil {
		fmt.Println("HARNESS-ERROR build:", err)
		os.Exit(2)
	}
	released := false
	for step := 0; step < 600; step++ {
		progressed := false
		for _, c := range w.Ctls {
			for _, k := range c.Queue.Ready() {
				if c.Short == "D" {
					w.SyncListers()
				}
				rr, log := w.Reconcile(c, k, sim.Fault{})
				fmt.Printf("%3d %s(%s) calls=%d err=%v requeue=%v panic=%v\n", step, c.Short, k.Name, rr.Calls, rr.Err, rr.Result.RequeueAfter, rr.Panic != nil)
				for _, wr := range log {
					fmt.Printf("      %s %s status=%v\n", wr.Verb, wr.Key, wr.Status)
				}
				progressed = true
			}
		}
		if !progressed {
			for _, e := range w.Env {
				if st := e.Steps(w); len(st) > 0 {
					log, err := w.As("env", func() error { return e.Do(w, st[0]) })
					fmt.Printf("%3d %s:%s writes=%d err=%v\n", step, e.Name(), st[0], len(log), err)
					progressed = true
					break
				}
			}
		}
		if !progressed {
			for _, g := range sim.GCSteps(w) {
				_, err := w.As("gc", func() error { return sim.GCDo(w, g) })
				fmt.Printf("%3d gc:%s err=%v\n", step, g, err)
				progressed = true
				break
			}
		}
		if progressed {
			continue
		}
		fmt.Printf("%3d QUIESCENT %s now=%d traffic=[%s]\n", step, sim.ControlState(w, sc), w.Now()-sim.T0, sim.ReadTraffic(w, sc))
		if !released {
			_, err := w.As("user", func() error { return w.UserSetImage(sc, "app:v2") })
			fmt.Println("    user release v2:", err)
			released = true
			continue
		}
		if strings.Contains(sim.ControlState(w, sc), "/StepPaused/") {
			_, err := w.As("user", func() error { return w.UserApprove(sc) })
			fmt.Println("    user approve:", err)
			continue
		}
		due := false
		for _, c := range w.Ctls {
			if c.Queue.NextDue() > 0 {
				due = true
			}
		}
		if !due {
			break
		}
		w.Tick()
	}
}

func main() {
	switch {
	case len(os.Args) == 5 && os.Args[1] == "--script":
		script(os.Args[2], os.Args[3], strings.Split(os.Args[4], ";"))
	case len(os.Args) == 3 && os.Args[1] == "--linear":
		linear(os.Args[2])
	case len(os.Args) == 5 && os.Args[1] == "--worker":
		worker(os.Args[2], os.Args[3], os.Args[4])
	case len(os.Args) == 4 && os.Args[2] == "--replay":
		replay(os.Args[1], os.Args[3])
	case len(os.Args) == 2:
		parent(os.Args[1])
	default:
		fmt.Println("usage: clustermc <PROP> [--replay file]")
		os.Exit(2)
	}
}
