// Command deploymc runs the E4 explicit-state search over the real advanced Deployment controller.
//
//	deploymc C17                    run the check (VERIF_TIER=quick|thorough)
//	deploymc C17 --replay <file>    re-execute the one case recorded in a violation file, without the explorer
package main

import (
	"encoding/json"
	"fmt"
	"os"
	"runtime/pprof"

	"verifharness/checks/c17"
	"verifharness/lib"
)

type check struct {
	run    func(*lib.Report)
	replay func(*lib.Report, json.RawMessage)
}

var checks = map[string]check{"C17": {c17.Run, c17.Replay}}

func main() {
	if len(os.Args) < 2 {
		fmt.Fprintln(os.Stderr, "usage: deploymc <property> [--replay <file>]")
		os.Exit(2)
	}
	c, ok := checks[os.Args[1]]
	if !ok {
		fmt.Fprintln(os.Stderr, "HARNESS-ERROR unknown property", os.Args[1])
		os.Exit(2)
	}
	r := lib.NewReport(os.Args[1])
	if len(os.Args) >= 4 && os.Args[2] == "--replay" {
		b, err := os.ReadFile(os.Args[3])
		if err != nil {
			fmt.Fprintln(os.Stderr, "HARNESS-ERROR", err)
			os.Exit(2)
		}
		var f struct {
			Signature string          `json:"signature"`
			Replay    json.RawMessage `json:"replay"`
		}
		if err := json.Unmarshal(b, &f); err != nil {
			fmt.Fprintln(os.Stderr, "HARNESS-ERROR", err)
			os.Exit(2)
		}
		c.replay(r, f.Replay)
		if r.HasViolation(f.Signature) {
			fmt.Printf("REPLAY verdict: VIOLATION reproduced (%s)\n", f.Signature)
			os.Exit(1)
		}
		fmt.Printf("REPLAY verdict: recorded signature %s NOT reproduced\n", f.Signature)
		os.Exit(0)
	}
	if pf := os.Getenv("C17_DEV_CPUPROFILE"); pf != "" { // development only
		f, err := os.Create(pf)
		if err == nil {
			_ = pprof.StartCPUProfile(f)
			c.run(r)
			pprof.StopCPUProfile()
			f.Close()
			r.Finish()
		}
	}
	c.run(r)
	r.Finish()
}
