// Command e3 runs the small-scope (exhaustive bounded-domain) checks.
//
//	e3 <ID>                    run the check (VERIF_TIER=quick|thorough)
//	e3 <ID> --replay <file>    re-execute the one case recorded in a violation file, without the enumerator
package main

import (
	"encoding/json"
	"fmt"
	"os"
	"time"

	"verifharness/lib"
)

type check struct {
	run    func(*lib.Report)
	replay func(*lib.Report, json.RawMessage)
}

var checks = map[string]check{}

func main() {
	if len(os.Args) < 2 {
		fmt.Fprintln(os.Stderr, "usage: e3 <property> [--replay <file>]")
		os.Exit(2)
	}
	c, ok := checks[os.Args[1]]
	if !ok {
		fmt.Fprintln(os.Stderr, "HARNESS-ERROR unknown property", os.Args[1])
		os.Exit(2)
	}
	if os.Args[1] != "C16" {
		// only C16 studies the Lua runtime's real-time deadline; everywhere else a timer must not fire because the
		// process was starved of CPU in the middle of a script run
		time.VerifTimerStretch = 100000
	}
	r := lib.NewReport(os.Args[1])
	if len(os.Args) >= 4 && os.Args[2] == "--replay" {
		b, err := os.ReadFile(os.Args[3])
		if err != nil {
			fmt.Fprintln(os.Stderr, "HARNESS-ERROR", err)
			os.Exit(2)
		}
		var f struct {
			Signature string          `json:"signature"`
			Replay    json.RawMessage `json:"replay"`
		}
		if err := json.Unmarshal(b, &f); err != nil {
			fmt.Fprintln(os.Stderr, "HARNESS-ERROR", err)
			os.Exit(2)
		}
		c.replay(r, f.Replay)
		if r.HasViolation(f.Signature) {
			fmt.Printf("REPLAY verdict: VIOLATION reproduced (%s)\n", f.Signature)
			os.Exit(1)
		}
		fmt.Printf("REPLAY verdict: recorded signature %s NOT reproduced\n", f.Signature)
		os.Exit(0)
	}
	c.run(r)
	r.Finish()
}
