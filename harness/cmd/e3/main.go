// Command e3 runs the small-scope (exhaustive bounded-domain) checks.
package main

import (
	"fmt"
	"os"

	"verifharness/checks/c20"
	"verifharness/lib"
)

var checks = map[string]func(*lib.Report){
	"C20": c20.Run,
}

func main() {
	if len(os.Args) < 2 {
		fmt.Fprintln(os.Stderr, "usage: e3 <property>")
		os.Exit(2)
	}
	f, ok := checks[os.Args[1]]
	if !ok {
		fmt.Fprintln(os.Stderr, "HARNESS-ERROR unknown property", os.Args[1])
		os.Exit(2)
	}
	r := lib.NewReport(os.Args[1])
	f(r)
	r.Finish()
}
