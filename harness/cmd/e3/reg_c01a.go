package main

import "verifharness/checks/c01a"

// stage 1 of C01 (exposure arithmetic for every workload size); ./check runs it with VERIF_EVIDENCE_SUFFIX=.stage1
// before stage 2 (clustermc)
func init() { checks["C01"] = check{c01a.Run, c01a.Replay} }
