package main

import "verifharness/checks/c08"

func init() { checks["C08"] = check{c08.Run, c08.Replay} }
