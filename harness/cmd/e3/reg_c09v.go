package main

import "verifharness/checks/c09v"

// stage 1 of C09 (validation enumeration); ./check runs it with VERIF_EVIDENCE_SUFFIX=.stage1 before stage 2 (clustermc)
func init() { checks["C09"] = check{c09v.Run, c09v.Replay} }
