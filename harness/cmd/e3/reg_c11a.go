package main

import "verifharness/checks/c11a"

// stage 1 of C11 (readiness predicate and finalisers of every control implementation over generated statuses);
// ./check runs it with VERIF_EVIDENCE_SUFFIX=.stage1 before stage 2 (clustermc)
func init() { checks["C11"] = check{c11a.Run, c11a.Replay} }
