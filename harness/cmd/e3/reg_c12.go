package main

import "verifharness/checks/c12"

func init() { checks["C12"] = check{c12.Run, c12.Replay} }
