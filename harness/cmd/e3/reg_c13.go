package main

import "verifharness/checks/c13"

func init() { checks["C13"] = check{c13.Run, c13.Replay} }
