package main

import "verifharness/checks/c14"

func init() { checks["C14"] = check{c14.Run, c14.Replay} }
