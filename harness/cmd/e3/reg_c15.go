package main

import "verifharness/checks/c15"

func init() { checks["C15"] = check{c15.Run, c15.Replay} }
