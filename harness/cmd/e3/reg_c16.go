package main

import "verifharness/checks/c16"

func init() { checks["C16"] = check{c16.Run, c16.Replay} }
