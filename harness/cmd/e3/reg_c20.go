package main

import "verifharness/checks/c20"

func init() { checks["C20"] = check{c20.Run, c20.Replay} }
