// Command e3c08 is the private driver of the C08 small-scope check (same contract as cmd/e3).
//
//	e3c08 C08                      run the check
//	e3c08 C08 --replay <file>      re-execute one recorded violation without the enumerator
package main

import (
	"encoding/json"
	"fmt"
	"os"

	"verifharness/checks/c08"
	"verifharness/lib"
)

var checks = map[string]func(*lib.Report){
	"C08": c08.Run,
}

var replays = map[string]func(*lib.Report, json.RawMessage){
	"C08": c08.Replay,
}

func main() {
	if len(os.Args) < 2 {
		fmt.Fprintln(os.Stderr, "usage: e3c08 <property> [--replay <file>]")
		os.Exit(2)
	}
	id := os.Args[1]
	f, ok := checks[id]
	if !ok {
		fmt.Fprintln(os.Stderr, "HARNESS-ERROR unknown property", id)
		os.Exit(2)
	}
	if len(os.Args) >= 4 && os.Args[2] == "--replay" {
		b, err := os.ReadFile(os.Args[3])
		if err != nil {
			fmt.Fprintln(os.Stderr, "HARNESS-ERROR", err)
			os.Exit(2)
		}
		var rec struct {
			Signature string          `json:"signature"`
			Replay    json.RawMessage `json:"replay"`
		}
		if err := json.Unmarshal(b, &rec); err != nil || len(rec.Replay) == 0 {
			fmt.Fprintln(os.Stderr, "HARNESS-ERROR not a replay file:", os.Args[3])
			os.Exit(2)
		}
		r := lib.NewReport(id)
		replays[id](r, rec.Replay)
		if r.HasViolation(rec.Signature) {
			fmt.Println("replay: reproduced", rec.Signature)
			os.Exit(1)
		}
		fmt.Println("replay: recorded signature NOT reproduced:", rec.Signature)
		os.Exit(0)
	}
	r := lib.NewReport(id)
	f(r)
	r.Finish()
}
