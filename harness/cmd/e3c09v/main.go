// Command e3c09v is the private driver of the C09 stage-1 (validating webhook) small-scope check.
//
//	e3 <ID>                    run the check (VERIF_TIER=quick|thorough)
//	e3 <ID> --replay <file>    re-execute the one case recorded in a violation file, without the enumerator
package main

import (
	"encoding/json"
	"fmt"
	"os"
	"runtime/pprof"

	"verifharness/lib"
)

type check struct {
	run    func(*lib.Report)
	replay func(*lib.Report, json.RawMessage)
}

var checks = map[string]check{}

func main() {
	if len(os.Args) < 2 {
		fmt.Fprintln(os.Stderr, "usage: e3c09v <property> [--replay <file>]")
		os.Exit(2)
	}
	c, ok := checks[os.Args[1]]
	if !ok {
		fmt.Fprintln(os.Stderr, "HARNESS-ERROR unknown property", os.Args[1])
		os.Exit(2)
	}
	r := lib.NewReport(os.Args[1])
	if len(os.Args) >= 4 && os.Args[2] == "--replay" {
		b, err := os.ReadFile(os.Args[3])
		if err != nil {
			fmt.Fprintln(os.Stderr, "HARNESS-ERROR", err)
			os.Exit(2)
		}
		var f struct {
			Signature string          `json:"signature"`
			Replay    json.RawMessage `json:"replay"`
		}
		if err := json.Unmarshal(b, &f); err != nil {
			fmt.Fprintln(os.Stderr, "HARNESS-ERROR", err)
			os.Exit(2)
		}
		c.replay(r, f.Replay)
		if r.HasViolation(f.Signature) {
			fmt.Printf("REPLAY verdict: VIOLATION reproduced (%s)\n", f.Signature)
			os.Exit(1)
		}
		fmt.Printf("REPLAY verdict: recorded signature %s NOT reproduced\n", f.Signature)
		os.Exit(0)
	}
	if f := os.Getenv("VERIF_PPROF"); f != "" {
		out, err := os.Create(f)
		if err == nil {
			_ = pprof.StartCPUProfile(out)
			c.run(r)
			pprof.StopCPUProfile()
			_ = out.Close()
			r.Finish()
		}
	}
	c.run(r)
	r.Finish()
}
