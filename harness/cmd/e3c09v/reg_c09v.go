package main

import "verifharness/checks/c09v"

func init() { checks["C09"] = check{c09v.Run, c09v.Replay} }
