// Command e3c11a is the private driver of check c11a (stage 1 of property C11, engine E3): same protocol as cmd/e3.
//
//	e3c11a C11                    run the check (VERIF_TIER=quick|thorough)
//	e3c11a C11 --replay <file>    re-execute the one case recorded in a violation file, without the enumerator
package main

import (
	"encoding/json"
	"fmt"
	"os"

	"verifharness/checks/c11a"
	"verifharness/lib"
)

type check struct {
	run    func(*lib.Report)
	replay func(*lib.Report, json.RawMessage)
}

var checks = map[string]check{"C11": {c11a.Run, c11a.Replay}}

func main() {
	if len(os.Args) < 2 {
		fmt.Fprintln(os.Stderr, "usage: e3c11a <property> [--replay <file>]")
		os.Exit(2)
	}
	c, ok := checks[os.Args[1]]
	if !ok {
		fmt.Fprintln(os.Stderr, "HARNESS-ERROR unknown property", os.Args[1])
		os.Exit(2)
	}
	r := lib.NewReport(os.Args[1])
	if len(os.Args) >= 4 && os.Args[2] == "--replay" {
		b, err := os.ReadFile(os.Args[3])
		if err != nil {
			fmt.Fprintln(os.Stderr, "HARNESS-ERROR", err)
			os.Exit(2)
		}
		var f struct {
			Signature string          `json:"signature"`
			Replay    json.RawMessage `json:"replay"`
		}
		if err := json.Unmarshal(b, &f); err != nil {
			fmt.Fprintln(os.Stderr, "HARNESS-ERROR", err)
			os.Exit(2)
		}
		c.replay(r, f.Replay)
		if r.HasViolation(f.Signature) {
			fmt.Printf("REPLAY verdict: VIOLATION reproduced (%s)\n", f.Signature)
			os.Exit(1)
		}
		fmt.Printf("REPLAY verdict: recorded signature %s NOT reproduced\n", f.Signature)
		os.Exit(0)
	}
	c.run(r)
	r.Finish()
}
