// Command e3c12 is the private driver of the C12 small-scope check.
//
//	e3c12 C12                    run the enumeration
//	e3c12 C12 --replay <file>    re-execute the case recorded in a violation file (out/C12/<signature>.json)
package main

import (
	"encoding/json"
	"fmt"
	"os"
	"runtime/pprof"

	"verifharness/checks/c12"
	"verifharness/lib"
)

func main() {
	if len(os.Args) < 2 || os.Args[1] != "C12" {
		fmt.Fprintln(os.Stderr, "usage: e3c12 C12 [--replay <file>]")
		os.Exit(2)
	}
	r := lib.NewReport("C12")
	if len(os.Args) >= 4 && os.Args[2] == "--replay" {
		b, err := os.ReadFile(os.Args[3])
		if err != nil {
			fmt.Fprintln(os.Stderr, "HARNESS-ERROR", err)
			os.Exit(2)
		}
		var f struct {
			Signature string          `json:"signature"`
			Replay    json.RawMessage `json:"replay"`
		}
		if err := json.Unmarshal(b, &f); err != nil || len(f.Replay) == 0 {
			fmt.Fprintln(os.Stderr, "HARNESS-ERROR not a violation file:", err)
			os.Exit(2)
		}
		c12.Replay(r, f.Replay)
		if r.HasViolation(f.Signature) {
			fmt.Printf("REPLAY reproduced property=C12 signature=%s\n", f.Signature)
			os.Exit(1)
		}
		fmt.Printf("REPLAY did not reproduce signature=%s\n", f.Signature)
		os.Exit(0)
	}
	if pf := os.Getenv("VERIF_C12_PROF"); pf != "" {
		f, err := os.Create(pf)
		if err == nil {
			_ = pprof.StartCPUProfile(f)
			defer pprof.StopCPUProfile()
		}
	}
	c12.Run(r)
	pprof.StopCPUProfile()
	r.Finish()
}
