// Command e3c13: private driver of the C13 small-scope check (same interface as cmd/e3).
//
//	e3c13 C13                      run the check (VERIF_TIER=quick|thorough)
//	e3c13 C13 --replay <file>      re-execute the case recorded in a violation file
package main

import (
	"encoding/json"
	"fmt"
	"os"
	"runtime/pprof"

	"verifharness/checks/c13"
	"verifharness/lib"
)

func main() {
	if len(os.Args) < 2 || os.Args[1] != "C13" {
		fmt.Fprintln(os.Stderr, "usage: e3c13 C13 [--replay <file>]")
		os.Exit(2)
	}
	r := lib.NewReport("C13")
	if len(os.Args) >= 4 && os.Args[2] == "--replay" {
		b, err := os.ReadFile(os.Args[3])
		if err != nil {
			fmt.Fprintln(os.Stderr, "HARNESS-ERROR", err)
			os.Exit(2)
		}
		var f struct {
			Replay json.RawMessage `json:"replay"`
		}
		if err := json.Unmarshal(b, &f); err != nil || len(f.Replay) == 0 {
			fmt.Fprintln(os.Stderr, "HARNESS-ERROR not a violation file:", os.Args[3])
			os.Exit(2)
		}
		c13.Replay(r, f.Replay)
		// a replay must not overwrite the evidence of the real run: the verdict was printed, stop here
		if c13.ReplayViolated {
			os.Exit(1)
		}
		return
	}
	if pf := os.Getenv("C13_CPUPROFILE"); pf != "" {
		f, _ := os.Create(pf)
		_ = pprof.StartCPUProfile(f)
		c13.Run(r)
		pprof.StopCPUProfile()
		f.Close()
	} else {
		c13.Run(r)
	}
	r.Finish()
}
