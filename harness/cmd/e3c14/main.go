// Command e3c14 is the private driver of the C14 small-scope check (same contract as cmd/e3):
//
//	e3c14 C14                    run the check (VERIF_TIER=quick|thorough)
//	e3c14 C14 --replay <file>    re-execute the case recorded in a violation file
package main

import (
	"encoding/json"
	"fmt"
	"os"
	"runtime/pprof"

	"verifharness/checks/c14"
	"verifharness/lib"
)

func main() {
	if len(os.Args) < 2 || os.Args[1] != "C14" {
		fmt.Fprintln(os.Stderr, "usage: e3c14 C14 [--replay <file>]")
		os.Exit(2)
	}
	r := lib.NewReport("C14")
	if len(os.Args) >= 4 && os.Args[2] == "--replay" {
		b, err := os.ReadFile(os.Args[3])
		if err != nil {
			fmt.Fprintln(os.Stderr, "HARNESS-ERROR", err)
			os.Exit(2)
		}
		var f struct {
			Signature string          `json:"signature"`
			Replay    json.RawMessage `json:"replay"`
		}
		if err := json.Unmarshal(b, &f); err != nil {
			fmt.Fprintln(os.Stderr, "HARNESS-ERROR", err)
			os.Exit(2)
		}
		c14.Replay(r, f.Replay)
		if r.HasViolation(f.Signature) {
			fmt.Printf("REPLAY verdict: VIOLATION reproduced (%s)\n", f.Signature)
			os.Exit(1)
		}
		fmt.Printf("REPLAY verdict: recorded signature %s NOT reproduced\n", f.Signature)
		os.Exit(0)
	}
	if pf := os.Getenv("C14_CPUPROFILE"); pf != "" {
		f, _ := os.Create(pf)
		_ = pprof.StartCPUProfile(f)
		c14.Run(r)
		pprof.StopCPUProfile()
		f.Close()
		r.Finish()
	}
	c14.Run(r)
	r.Finish()
}
