// Command e3c15 is the private driver of the C15 check (custom Lua network provider, small-scope).
//
//	e3c15 C15                 run the check (VERIF_TIER=thorough for the deep tier)
//	e3c15 replay <file.json>  re-execute one recorded case (a file written to /verif/out/C15/)
package main

import (
	"encoding/json"
	"fmt"
	"os"
	"runtime"
	"runtime/pprof"

	"verifharness/checks/c15"
	"verifharness/lib"
)

var checks = map[string]func(*lib.Report){
	"C15": c15.Run,
}

func main() {
	if len(os.Args) < 2 {
		fmt.Fprintln(os.Stderr, "usage: e3c15 C15 | e3c15 replay <file>")
		os.Exit(2)
	}
	if os.Args[1] == "replay" {
		if len(os.Args) < 3 {
			fmt.Fprintln(os.Stderr, "usage: e3c15 replay <file>")
			os.Exit(2)
		}
		b, err := os.ReadFile(os.Args[2])
		if err != nil {
			fmt.Fprintln(os.Stderr, "HARNESS-ERROR", err)
			os.Exit(2)
		}
		var f struct {
			Signature string          `json:"signature"`
			Replay    json.RawMessage `json:"replay"`
		}
		if err := json.Unmarshal(b, &f); err != nil || len(f.Replay) == 0 {
			f.Replay = b
		}
		r := lib.NewReport("C15")
		c15.Replay(r, f.Replay)
		if f.Signature != "" {
			if r.HasViolation(f.Signature) {
				fmt.Println("REPLAY reproduced", f.Signature)
				os.Exit(1)
			}
			fmt.Println("REPLAY did not reproduce", f.Signature)
		}
		os.Exit(0)
	}
	f, ok := checks[os.Args[1]]
	if !ok {
		fmt.Fprintln(os.Stderr, "HARNESS-ERROR unknown property", os.Args[1])
		os.Exit(2)
	}
	r := lib.NewReport(os.Args[1])
	if p := os.Getenv("VERIF_PPROF"); p != "" {
		if pf, err := os.Create(p); err == nil {
			_ = pprof.StartCPUProfile(pf)
		}
	}
	if p := os.Getenv("VERIF_MUTEXPROF"); p != "" {
		runtime.SetMutexProfileFraction(5)
		runtime.SetBlockProfileRate(10000)
		defer func() {}()
	}
	f(r)
	pprof.StopCPUProfile()
	if p := os.Getenv("VERIF_MUTEXPROF"); p != "" {
		if pf, err := os.Create(p); err == nil {
			_ = pprof.Lookup("mutex").WriteTo(pf, 0)
			pf.Close()
		}
		if pf, err := os.Create(p + ".block"); err == nil {
			_ = pprof.Lookup("block").WriteTo(pf, 0)
			pf.Close()
		}
	}
	r.Finish()
}
