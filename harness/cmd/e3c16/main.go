// Command e3c16 is the private driver of the C16 check (same contract as cmd/e3).
//
//	e3c16 C16                      run the check (VERIF_TIER=quick|thorough)
//	e3c16 C16 --replay <file>      re-execute one recorded violation (file written by a previous run)
//
// The worker mode of the check (os.Args[1] == "--c16-worker") is entered from the init() of
// package c16, before main() runs.
package main

import (
	"encoding/json"
	"fmt"
	"os"

	"verifharness/checks/c16"
	"verifharness/lib"
)

var checks = map[string]func(*lib.Report){
	"C16": c16.Run,
}

var replays = map[string]func(*lib.Report, json.RawMessage){
	"C16": c16.Replay,
}

func main() {
	if len(os.Args) < 2 {
		fmt.Fprintln(os.Stderr, "usage: e3c16 <property> [--replay file]")
		os.Exit(2)
	}
	id := os.Args[1]
	if len(os.Args) >= 4 && os.Args[2] == "--replay" {
		rp, ok := replays[id]
		if !ok {
			fmt.Fprintln(os.Stderr, "HARNESS-ERROR no replay for", id)
			os.Exit(2)
		}
		b, err := os.ReadFile(os.Args[3])
		if err != nil {
			fmt.Fprintln(os.Stderr, "HARNESS-ERROR", err)
			os.Exit(2)
		}
		var f struct {
			Signature string          `json:"signature"`
			Replay    json.RawMessage `json:"replay"`
		}
		if err := json.Unmarshal(b, &f); err != nil || len(f.Replay) == 0 {
			fmt.Fprintln(os.Stderr, "HARNESS-ERROR replay file has no replay value", err)
			os.Exit(2)
		}
		// no r.Finish() here: a replay must not overwrite the evidence file of the last full run
		r := lib.NewReport(id)
		rp(r, f.Replay)
		if r.HasViolation(f.Signature) {
			fmt.Printf("REPLAY property=%s signature=%s: reproduced\n", id, f.Signature)
			os.Exit(1)
		}
		fmt.Printf("REPLAY property=%s signature=%s: NOT reproduced\n", id, f.Signature)
		os.Exit(0)
	}
	f, ok := checks[id]
	if !ok {
		fmt.Fprintln(os.Stderr, "HARNESS-ERROR unknown property", id)
		os.Exit(2)
	}
	r := lib.NewReport(id)
	f(r)
	r.Finish()
}
