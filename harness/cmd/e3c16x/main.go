package main

import "verifharness/checks/c16"

func main() { c16.DebugCounts() }
