// Command schedmc runs the E2 checks: bounded-preemption enumeration of ALL schedules on the real code.
//
//	schedmc <ID>                          run the check (VERIF_TIER=quick|thorough); one worker process per closed system
//	schedmc <ID> --replay <file>          re-execute the one schedule recorded in a violation file, without the enumerator
//	schedmc --worker <ID> <index> <out>   (internal) explore one closed system
//	schedmc C19 --solo <cfg json> <thread> <bound>  (internal) solo reference of one Rollout, in its own process
//	schedmc C19 --probe <cfg> <choices>   (internal) one execution of a schedule prefix in a fresh process (digest)
//	schedmc C19 --race-worker             auxiliary: free-running worker bodies, for a `go build -race` binary
//	schedmc C19 --race-stage <race-bin>   auxiliary: run <race-bin> C19 --race-worker, report C19/race (sampled)
package main

import (
	"encoding/json"
	"fmt"
	"os"
	"strconv"

	"verifharness/checks/c19"
	"verifharness/lib"
)

type check struct {
	run    func(*lib.Report)
	replay func(*lib.Report, json.RawMessage)
	worker func(idx int, out string)
}

var checks = map[string]check{"C19": {c19.Run, c19.Replay, c19.Worker}}

func main() {
	if len(os.Args) == 5 && os.Args[1] == "--worker" {
		c, ok := checks[os.Args[2]]
		idx, err := strconv.Atoi(os.Args[3])
		if !ok || err != nil {
			fmt.Fprintln(os.Stderr, "HARNESS-ERROR bad worker arguments")
			os.Exit(2)
		}
		c.worker(idx, os.Args[4])
		return
	}
	if len(os.Args) < 2 {
		fmt.Fprintln(os.Stderr, "usage: schedmc <property> [--replay <file>]")
		os.Exit(2)
	}
	c, ok := checks[os.Args[1]]
	if !ok {
		fmt.Fprintln(os.Stderr, "HARNESS-ERROR unknown property", os.Args[1])
		os.Exit(2)
	}
	if len(os.Args) >= 3 && os.Args[1] == "C19" && os.Args[2] == "--race-worker" {
		c19.RaceWorker()
		return
	}
	if len(os.Args) >= 6 && os.Args[1] == "C19" && os.Args[2] == "--solo" {
		b, err := strconv.Atoi(os.Args[5])
		if err != nil {
			fmt.Fprintln(os.Stderr, "HARNESS-ERROR bad solo arguments")
			os.Exit(2)
		}
		c19.Solo(os.Args[3], os.Args[4], b)
		return
	}
	if len(os.Args) >= 5 && os.Args[1] == "C19" && os.Args[2] == "--probe" {
		idx, err := strconv.Atoi(os.Args[3])
		var choices []int
		if err != nil || json.Unmarshal([]byte(os.Args[4]), &choices) != nil {
			fmt.Fprintln(os.Stderr, "HARNESS-ERROR bad probe arguments")
			os.Exit(2)
		}
		c19.Probe(idx, choices)
		return
	}
	if len(os.Args) >= 4 && os.Args[1] == "C19" && os.Args[2] == "--race-stage" {
		os.Exit(c19.RaceStage(os.Args[3]))
	}
	r := lib.NewReport(os.Args[1])
	if len(os.Args) >= 4 && os.Args[2] == "--replay" {
		b, err := os.ReadFile(os.Args[3])
		if err != nil {
			fmt.Fprintln(os.Stderr, "HARNESS-ERROR", err)
			os.Exit(2)
		}
		var f struct {
			Signature string          `json:"signature"`
			Replay    json.RawMessage `json:"replay"`
		}
		if err := json.Unmarshal(b, &f); err != nil {
			fmt.Fprintln(os.Stderr, "HARNESS-ERROR", err)
			os.Exit(2)
		}
		c.replay(r, f.Replay)
		if r.HasViolation(f.Signature) {
			fmt.Printf("REPLAY verdict: VIOLATION reproduced (%s)\n", f.Signature)
			os.Exit(1)
		}
		fmt.Printf("REPLAY verdict: recorded signature %s NOT reproduced\n", f.Signature)
		os.Exit(0)
	}
	c.run(r)
	r.Finish()
}
