package lib

import (
	"encoding/json"
	"fmt"
	"reflect"
	"sort"
)

// JSONDiff lists the field paths (list indices abstracted to []) where the JSON forms of a and b differ.
func JSONDiff(a, b interface{}) []string {
	var x, y interface{}
	ab, _ := json.Marshal(a)
	bb, _ := json.Marshal(b)
	_ = json.Unmarshal(ab, &x)
	_ = json.Unmarshal(bb, &y)
	set := map[string]bool{}
	var walk func(p string, x, y interface{})
	walk = func(p string, x, y interface{}) {
		if len(set) > 8 {
			return
		}
		xm, xok := x.(map[string]interface{})
		ym, yok := y.(map[string]interface{})
		if xok && yok {
			keys := map[string]bool{}
			for k := range xm {
				keys[k] = true
			}
			for k := range ym {
				keys[k] = true
			}
			ks := make([]string, 0, len(keys))
			for k := range keys {
				ks = append(ks, k)
			}
			sort.Strings(ks)
			for _, k := range ks {
				walk(p+"."+k, xm[k], ym[k])
			}
			return
		}
		xl, xok := x.([]interface{})
		yl, yok := y.([]interface{})
		if xok && yok {
			if len(xl) != len(yl) {
				set[p+"[len]"] = true
				return
			}
			for i := range xl {
				walk(p+"[]", xl[i], yl[i])
			}
			return
		}
		if !reflect.DeepEqual(x, y) {
			set[p] = true
		}
	}
	walk("", x, y)
	out := make([]string, 0, len(set))
	for k := range set {
		out = append(out, k)
	}
	sort.Strings(out)
	if len(out) == 0 && !reflect.DeepEqual(a, b) {
		out = append(out, fmt.Sprintf("(non-JSON-visible difference in %T)", a))
	}
	return out
}

// JSONDiffValues lists "path: before -> after" for the differing leaves of two objects (debugging aid).
func JSONDiffValues(a, b interface{}) []string {
	var x, y interface{}
	ab, _ := json.Marshal(a)
	bb, _ := json.Marshal(b)
	_ = json.Unmarshal(ab, &x)
	_ = json.Unmarshal(bb, &y)
	var out []string
	var walk func(p string, x, y interface{})
	walk = func(p string, x, y interface{}) {
		xm, xok := x.(map[string]interface{})
		ym, yok := y.(map[string]interface{})
		if xok || yok {
			keys := map[string]bool{}
			for k := range xm {
				keys[k] = true
			}
			for k := range ym {
				keys[k] = true
			}
			ks := make([]string, 0, len(keys))
			for k := range keys {
				ks = append(ks, k)
			}
			sort.Strings(ks)
			for _, k := range ks {
				walk(p+"."+k, xm[k], ym[k])
			}
			return
		}
		if !reflect.DeepEqual(x, y) {
			xs, _ := json.Marshal(x)
			ys, _ := json.Marshal(y)
			if len(xs) > 80 {
				xs = append(xs[:80], '.', '.')
			}
			if len(ys) > 80 {
				ys = append(ys[:80], '.', '.')
			}
			if p != ".metadata.resourceVersion" {
				out = append(out, fmt.Sprintf("%s: %s -> %s", p, xs, ys))
			}
		}
	}
	walk("", x, y)
	return out
}
