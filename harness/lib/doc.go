package lib

import _ "github.com/openkruise/rollouts/api/v1beta1"
