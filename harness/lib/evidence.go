// Package lib holds the pieces every check shares: evidence files, violation
// reporting with known-findings handling, and small enumeration helpers.
package lib

import (
	"encoding/json"
	"fmt"
	"hash/fnv"
	"os"
	"path/filepath"
	"sort"
	"strconv"
	"strings"
	"sync"
	"time"
)

const VerifRoot = "/verif"

// outRoot is where evidence/ and out/ are written: /verif, or $VERIF_OUT_ROOT during mutation testing.
// OutRoot is exported for engines that write auxiliary files next to the evidence.
func OutRoot() string { return outRoot() }

func outRoot() string {
	if d := os.Getenv("VERIF_OUT_ROOT"); d != "" {
		return d
	}
	return VerifRoot
}

// Violation is one distinct failure of a property.
type Violation struct {
	// Signature identifies the failure class (monitor id + call site / structural input class).
	Signature string `json:"signature"`
	// Detail is a human-readable description.
	Detail string `json:"detail"`
	// Replay is whatever is needed to re-execute the failing case without the explorer.
	Replay interface{} `json:"replay"`
}

// Finding is one entry of /verif/known-findings.json.
type Finding struct {
	Property    string `json:"property"`
	Signature   string `json:"signature"`
	Status      string `json:"status"` // known | fixed
	Commit      string `json:"commit,omitempty"`
	Description string `json:"description"`
}

type Report struct {
	mu         sync.Mutex
	Property   string
	Tier       string
	Seed       int64
	start      time.Time
	violations map[string]*Violation
	vioCount   map[string]int
	order      []string

	Evaluations        int64
	States             int64
	Transitions        int64
	ImplCalls          int64
	nontrivial         map[uint64]struct{}
	outcomes           map[string]int64
	Rule               string
	Samples            []interface{}
	Exhaustive         bool
	Extra              map[string]interface{}
	Assumptions        []string
	TrustedBase        []string
	VacuityWarnings    []string
	maxSamples         int
	NontrivialOverflow int64
}

func NewReport(property string) *Report {
	tier := os.Getenv("VERIF_TIER")
	if tier != "thorough" {
		tier = "quick"
	}
	seed, _ := strconv.ParseInt(os.Getenv("VERIF_SEED"), 10, 64)
	return &Report{
		Property: property, Tier: tier, Seed: seed, start: time.VerifRealNow(),
		violations: map[string]*Violation{}, vioCount: map[string]int{},
		nontrivial: map[uint64]struct{}{}, outcomes: map[string]int64{},
		Exhaustive: true, Extra: map[string]interface{}{}, maxSamples: 6,
	}
}

func (r *Report) Thorough() bool { return r.Tier == "thorough" }

// Violate records a violation (first witness per signature is kept: enumeration is
// simplest-first, so the first one is the smallest).
func (r *Report) Violate(sig, detail string, replay interface{}) {
	r.mu.Lock()
	defer r.mu.Unlock()
	r.vioCount[sig]++
	if _, ok := r.violations[sig]; ok {
		return
	}
	r.violations[sig] = &Violation{Signature: sig, Detail: detail, Replay: replay}
	r.order = append(r.order, sig)
}

func (r *Report) HasViolation(sig string) bool {
	r.mu.Lock()
	defer r.mu.Unlock()
	_, ok := r.violations[sig]
	return ok
}

// Nontrivial notes a distinct non-trivial case by its key.
func (r *Report) Nontrivial(key string) {
	h := fnv.New64a()
	_, _ = h.Write([]byte(key))
	k := h.Sum64()
	r.mu.Lock()
	if len(r.nontrivial) < 20_000_000 {
		r.nontrivial[k] = struct{}{}
	} else if _, ok := r.nontrivial[k]; !ok {
		r.NontrivialOverflow++
	}
	r.mu.Unlock()
}

func (r *Report) Outcome(key string) {
	r.mu.Lock()
	r.outcomes[key]++
	r.mu.Unlock()
}

func (r *Report) Sample(s interface{}) {
	r.mu.Lock()
	if len(r.Samples) < r.maxSamples {
		r.Samples = append(r.Samples, s)
	}
	r.mu.Unlock()
}

func (r *Report) AddEval(n int64) {
	r.mu.Lock()
	r.Evaluations += n
	r.mu.Unlock()
}

func (r *Report) AddGraph(states, transitions, implCalls int64) {
	r.mu.Lock()
	r.States += states
	r.Transitions += transitions
	r.ImplCalls += implCalls
	r.mu.Unlock()
}

func (r *Report) Warn(w string) {
	r.mu.Lock()
	r.VacuityWarnings = append(r.VacuityWarnings, w)
	r.mu.Unlock()
}

func (r *Report) NotExhaustive(why string) {
	r.mu.Lock()
	r.Exhaustive = false
	caps, _ := r.Extra["caps_hit"].([]string)
	r.Extra["caps_hit"] = append(caps, why)
	r.mu.Unlock()
}

func loadFindings() []Finding {
	b, err := os.ReadFile(filepath.Join(VerifRoot, "known-findings.json"))
	if err != nil {
		return nil
	}
	var f struct {
		Findings []Finding `json:"findings"`
	}
	if err := json.Unmarshal(b, &f); err != nil {
		fmt.Fprintf(os.Stderr, "HARNESS-ERROR cannot parse known-findings.json: %v\n", err)
		os.Exit(2)
	}
	return f.Findings
}

func sanitize(s string) string {
	var b strings.Builder
	for _, c := range s {
		switch {
		case c >= 'a' && c <= 'z', c >= 'A' && c <= 'Z', c >= '0' && c <= '9', c == '-', c == '.', c == '_':
			b.WriteRune(c)
		default:
			b.WriteByte('_')
		}
	}
	out := b.String()
	if len(out) > 120 {
		out = out[:120]
	}
	return out
}

// Finish writes the evidence file, prints VIOLATION / KNOWN-FINDING lines and exits.
func (r *Report) Finish() {
	r.mu.Lock()
	defer r.mu.Unlock()
	known := map[string]Finding{}
	for _, f := range loadFindings() {
		if f.Property == r.Property && f.Status == "known" {
			known[f.Signature] = f
		}
	}
	outDir := filepath.Join(outRoot(), "out", r.Property)
	_ = os.MkdirAll(outDir, 0o755)
	unlisted := 0
	var vioSummaries []map[string]interface{}
	for _, sig := range r.order {
		v := r.violations[sig]
		path := filepath.Join(outDir, sanitize(sig)+".json")
		b, _ := json.MarshalIndent(map[string]interface{}{
			"property": r.Property, "signature": v.Signature, "detail": v.Detail, "replay": v.Replay,
			"occurrences": r.vioCount[sig],
		}, "", " ")
		_ = os.WriteFile(path, b, 0o644)
		if f, ok := known[sig]; ok {
			fmt.Printf("KNOWN-FINDING: property=%s %s — %s (replay=%s)\n", r.Property, sig, f.Description, path)
			vioSummaries = append(vioSummaries, map[string]interface{}{"signature": sig, "known": true, "occurrences": r.vioCount[sig]})
			continue
		}
		unlisted++
		fmt.Printf("VIOLATION property=%s replay=%s\n", r.Property, path)
		fmt.Printf("  signature: %s\n  detail: %s\n", sig, firstLines(v.Detail, 12))
		vioSummaries = append(vioSummaries, map[string]interface{}{"signature": sig, "known": false, "occurrences": r.vioCount[sig], "detail": firstLines(v.Detail, 6)})
	}
	cov := map[string]interface{}{}
	for k, v := range r.Extra {
		cov[k] = v
	}
	cov["evaluations"] = r.Evaluations
	cov["distinct_nontrivial"] = len(r.nontrivial)
	cov["rule"] = r.Rule
	if len(r.Samples) == 0 {
		r.Samples = []interface{}{"(no case was generated)"}
	}
	cov["samples"] = r.Samples
	cov["exhaustive"] = r.Exhaustive
	if r.States > 0 {
		cov["states"] = r.States
		cov["transitions"] = r.Transitions
		cov["traces_validated_against_impl"] = r.ImplCalls
	}
	if len(r.outcomes) > 0 {
		keys := make([]string, 0, len(r.outcomes))
		for k := range r.outcomes {
			keys = append(keys, k)
		}
		sort.Strings(keys)
		oc := map[string]int64{}
		for i, k := range keys {
			if i >= 60 {
				break
			}
			oc[k] = r.outcomes[k]
		}
		cov["distinct_outcomes"] = len(r.outcomes)
		cov["outcomes"] = oc
	}
	if len(r.TrustedBase) > 0 {
		cov["trusted_base"] = r.TrustedBase
	}
	if len(r.VacuityWarnings) > 0 {
		cov["vacuity_warnings"] = r.VacuityWarnings
		for _, w := range r.VacuityWarnings {
			fmt.Printf("WARNING vacuity: %s\n", w)
		}
	}
	if len(vioSummaries) > 0 {
		cov["violation_signatures"] = vioSummaries
	}
	ev := map[string]interface{}{
		"property_id": r.Property, "tier": r.Tier, "seed": r.Seed, "level": "model_checking",
		"coverage": cov, "assumptions": r.Assumptions, "wall_s": time.VerifRealNow().Sub(r.start).Seconds(),
		"violations": unlisted,
	}
	if r.Assumptions == nil {
		ev["assumptions"] = []string{}
	}
	b, _ := json.MarshalIndent(ev, "", " ")
	_ = os.MkdirAll(filepath.Join(outRoot(), "evidence"), 0o755)
	if err := os.WriteFile(filepath.Join(outRoot(), "evidence", r.Property+os.Getenv("VERIF_EVIDENCE_SUFFIX")+".json"), b, 0o644); err != nil {
		fmt.Fprintf(os.Stderr, "HARNESS-ERROR cannot write evidence: %v\n", err)
		os.Exit(2)
	}
	fmt.Printf("%s %s: evaluations=%d states=%d transitions=%d distinct_nontrivial=%d outcomes=%d exhaustive=%v violations=%d known=%d wall=%.1fs\n",
		r.Property, r.Tier, r.Evaluations, r.States, r.Transitions, len(r.nontrivial), len(r.outcomes), r.Exhaustive, unlisted, len(r.order)-unlisted, time.VerifRealNow().Sub(r.start).Seconds())
	if unlisted > 0 {
		os.Exit(1)
	}
	os.Exit(0)
}

func firstLines(s string, n int) string {
	lines := strings.Split(s, "\n")
	if len(lines) > n {
		lines = append(lines[:n], "…")
	}
	return strings.Join(lines, "\n  ")
}

// J renders any value as compact JSON (for keys and details).
func J(v interface{}) string {
	b, err := json.Marshal(v)
	if err != nil {
		return fmt.Sprintf("%+v", v)
	}
	return string(b)
}

// RawViolations exports the recorded violations (worker -> parent hand-over).
func (r *Report) RawViolations() []map[string]interface{} {
	r.mu.Lock()
	defer r.mu.Unlock()
	var out []map[string]interface{}
	for _, sig := range r.order {
		v := r.violations[sig]
		out = append(out, map[string]interface{}{"signature": v.Signature, "detail": v.Detail, "replay": v.Replay, "occurrences": r.vioCount[sig]})
	}
	return out
}

// Caps returns the reasons the run was not exhaustive.
func (r *Report) Caps() []string {
	r.mu.Lock()
	defer r.mu.Unlock()
	caps, _ := r.Extra["caps_hit"].([]string)
	return caps
}

// NontrivialN registers n distinct cases under a namespace (used when the distinct cases are the states of a
// search that were already deduplicated by the search itself).
func (r *Report) NontrivialN(ns string, n int) {
	for i := 0; i < n; i++ {
		r.Nontrivial(ns + "#" + strconv.Itoa(i))
	}
}
