package lib

import (
	"fmt"

	"github.com/go-logr/logr"
	"io"
	"runtime"
	"runtime/debug"
	"strings"
	"sync"
	"sync/atomic"

	"k8s.io/klog/v2"
)

func init() {
	// klog is noise here; never write it to a pipe nobody reads.
	klog.LogToStderr(false)
	klog.SetOutput(io.Discard)
	// a discarding logr sink makes klog skip message formatting altogether (structured klog calls marshal
	// whole objects otherwise, which dominated the run time of the explorer)
	klog.SetLogger(logr.Discard())
}

// Panic describes a recovered panic.
type Panic struct {
	Value string
	// Site is the innermost stack frame inside the repository (file:func), the signature component.
	Site  string
	Stack string
}

// Catch runs f and reports a panic, if any.
func Catch(f func()) (p *Panic) {
	defer func() {
		if r := recover(); r != nil {
			st := string(debug.Stack())
			p = &Panic{Value: fmt.Sprint(r), Site: repoFrame(st), Stack: st}
		}
	}()
	f()
	return nil
}

// repoFrame finds the first frame of github.com/openkruise/rollouts below the panic.
func repoFrame(stack string) string {
	lines := strings.Split(stack, "\n")
	seenPanic := false
	for i := 0; i < len(lines); i++ {
		l := lines[i]
		if strings.HasPrefix(l, "panic(") {
			seenPanic = true
			continue
		}
		if !seenPanic {
			continue
		}
		if strings.HasPrefix(l, "github.com/openkruise/rollouts/") {
			fn := l
			if j := strings.LastIndex(fn, "("); j > 0 {
				fn = fn[:j]
			}
			fn = strings.TrimPrefix(fn, "github.com/openkruise/rollouts/")
			return fn
		}
	}
	return "unknown"
}

// ParallelFor runs f(i) for i in [0,n) on all cores; f must be goroutine-safe.
func ParallelFor(n int, f func(i int)) {
	workers := runtime.NumCPU()
	if workers > n {
		workers = n
	}
	if workers < 1 {
		workers = 1
	}
	var next int64 = -1
	var wg sync.WaitGroup
	for w := 0; w < workers; w++ {
		wg.Add(1)
		go func() {
			defer wg.Done()
			for {
				i := int(atomic.AddInt64(&next, 1))
				if i >= n {
					return
				}
				f(i)
			}
		}()
	}
	wg.Wait()
}

// Product enumerates the cartesian product of dims (sizes) in lexicographic order, simplest first.
func Product(dims []int, f func(idx []int) bool) {
	idx := make([]int, len(dims))
	for _, d := range dims {
		if d == 0 {
			return
		}
	}
	for {
		if !f(idx) {
			return
		}
		k := len(dims) - 1
		for k >= 0 {
			idx[k]++
			if idx[k] < dims[k] {
				break
			}
			idx[k] = 0
			k--
		}
		if k < 0 {
			return
		}
	}
}
