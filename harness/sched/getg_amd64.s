//go:build amd64 && gc

#include "textflag.h"

// func getg() uintptr — the current goroutine's g pointer (stable for the goroutine's lifetime); used only as an
// identity to tell scheduler-owned goroutines from foreign ones without a stack traceback.
TEXT ·getg(SB),NOSPLIT,$0-8
	MOVQ (TLS), BX
	MOVQ BX, ret+0(FP)
	RET
