//go:build amd64 && gc

package sched

func getg() uintptr

// goid returns an identity of the calling goroutine (its g pointer).
func goid() uint64 { return uint64(getg()) }
