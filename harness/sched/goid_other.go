//go:build !(amd64 && gc)

package sched

import "runtime"

// goid parses the goroutine id out of a one-frame traceback (slow, portable fallback).
func goid() uint64 {
	var buf [40]byte
	n := runtime.Stack(buf[:], false)
	var id uint64
	for _, c := range buf[len("goroutine "):n] {
		if c < '0' || c > '9' {
			break
		}
		id = id*10 + uint64(c-'0')
	}
	return id
}
