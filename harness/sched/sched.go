// Package sched is engine E2: a CHESS-style cooperative scheduler with depth-first enumeration of ALL
// schedules up to a preemption bound, run on the real code.
//
// Every thread is a goroutine with its own `resume` channel; there is one `yield` channel. Exactly one thread
// runs at a time; it hands control back at scheduling points (Point, Block). At each point the scheduler
// computes the enabled set in CANONICAL ORDER: the running thread first if it is still enabled, then the other
// enabled threads by ascending id, then environment threads (Env, e.g. the clock), then threads that are blocked
// but allow an early wake-up (BlockSoft). Choice 0 is free. Another choice costs one preemption if the running
// (non-Env) thread is still enabled, or if it picks an Env thread while a non-Env thread could run (an "early"
// environment step), or if it is an early wake-up; otherwise (running thread blocked/finished) it is free.
// Explore() executes every schedule whose total cost is <= Bound: run a choice prefix, extend it with choice 0 to
// the end, then branch on every later point. Replaying a prefix must reproduce the recorded enabled sets; a
// divergence is a hard HARNESS-ERROR (exit 2). Deadlock = no enabled thread while some thread is unfinished.
// MaxPoints is the explicit horizon. Nothing is sampled.
package sched

import (
	"fmt"
	"os"
	"runtime/debug"
	"sync/atomic"
)

// ThreadSpec describes one thread of an execution.
type ThreadSpec struct {
	Name string
	Env  bool // environment thread: lowest priority, running it while a non-Env thread is enabled costs 1
	Body func()
}

// PointRec is one scheduling decision.
type PointRec struct {
	Enabled []int  // thread ids, canonical order
	Costs   []int  // cost of each alternative
	Chosen  int    // index into Enabled
	Label   string // the point the chosen thread was parked at, i.e. the operation it performs next
}

type ThreadPanic struct {
	Thread       int
	Value, Stack string
}

// Execution is the record of one complete schedule.
type Execution struct {
	Points      []PointRec
	Preemptions int
	Deadlock    bool     // no enabled thread while some thread is unfinished
	Blocked     []string // "<thread>@<label>" of the unfinished threads at a deadlock / horizon
	Horizon     bool     // cut at MaxPoints
	Panics      []ThreadPanic
	Diverged    bool // the recorded prefix could not be replayed (only with Explorer.TolerateDivergence)
}

// Divergence: the prefix of an earlier execution did not replay (other enabled set at point At).
type Divergence struct {
	Prefix     []int      `json:"prefix"`
	At         int        `json:"at"`
	EnabledNow []int      `json:"enabled_now"`
	Recorded   []PointRec `json:"recorded"`
}

func (x *Execution) Choices() []int {
	c := make([]int, len(x.Points))
	for i, p := range x.Points {
		c[i] = p.Chosen
	}
	return c
}

const (
	stParked  = iota // at a Point (or not yet started): enabled
	stBlocked        // in Block: enabled iff ready()
	stRunning
	stFinished
)

type thread struct {
	id     int
	spec   ThreadSpec
	goid   uint64
	resume chan struct{}
	state  int
	ready  func() bool
	early  func() bool // optional: while !ready(), the thread may still be chosen at the cost of one preemption
	label  string
	pc     int
}

type run struct {
	threads  []*thread
	byGoid   map[uint64]*thread
	yield    chan int
	aborting bool
	holders  map[interface{}]int
	relSeq   map[interface{}]int
	x        *Execution
}

var active atomic.Pointer[run]

type abortSignal struct{}

func current() (*run, *thread) {
	r := active.Load()
	if r == nil {
		return nil, nil
	}
	// only the one running thread can legitimately be here; a finished thread's goroutine identity may have been
	// reused by a foreign goroutine
	if t := r.byGoid[goid()]; t != nil && t.state == stRunning {
		return r, t
	}
	return r, nil
}

// Current returns the id of the calling scheduler thread, -1 on any other goroutine.
func Current() int {
	if _, t := current(); t != nil {
		return t.id
	}
	return -1
}

func (r *run) park(t *thread, label string, state int, ready, early func() bool) {
	t.label, t.state, t.ready, t.early = label, state, ready, early
	t.pc++
	r.yield <- t.id
	<-t.resume
	if r.aborting {
		panic(abortSignal{})
	}
}

// Point is a scheduling point. It is a no-op on goroutines the scheduler does not own, when no exploration is
// active, and while an aborted execution unwinds.
func Point(label string) {
	r, t := current()
	if t == nil || r.aborting {
		return
	}
	r.park(t, label, stParked, nil, nil)
}

// Block parks the calling thread until ready() holds; ready is evaluated by the scheduler while no thread runs.
// A blocked thread is not enabled. Returns false (without waiting) when the caller is not a scheduler thread.
func Block(label string, ready func() bool) bool { return BlockSoft(label, ready, nil) }

// BlockSoft is Block with an "early wake-up": while ready() is false but early() holds, the thread can still be
// chosen, always at the cost of one preemption (e.g. a reconcile triggered before its requeue time).
func BlockSoft(label string, ready, early func() bool) bool {
	r, t := current()
	if t == nil {
		return false
	}
	if r.aborting {
		panic(abortSignal{})
	}
	r.park(t, label, stBlocked, ready, early)
	return true
}

// PointHook / AcquireHook / ReleaseHook have the signatures of the vsync shim's hook variables.
func PointHook(op string, m interface{}) { Point(op) }

func AcquireHook(op string, m interface{}, try func() bool) bool {
	r, t := current()
	if t == nil || r.aborting {
		return false
	}
	for {
		if try() {
			r.holders[m]++
			return true
		}
		if r.holders[m] == 0 {
			return false // held by a goroutine outside the scheduler: really block, it will be released
		}
		seq := r.relSeq[m]
		Block("blocked:"+op, func() bool { return r.relSeq[m] != seq })
	}
}

func ReleaseHook(op string, m interface{}) {
	if r, t := current(); t != nil {
		if r.holders[m] > 0 { // acquisitions that fell back to the real blocking lock were not counted
			r.holders[m]--
		}
		r.relSeq[m]++
	}
}

// Explorer enumerates schedules.
type Explorer struct {
	Setup     func() []ThreadSpec // called at the start of every execution: reset the world, return the threads
	AfterStep func(x *Execution)  // optional, called by the scheduler after every executed step (state keys)
	Check     func(x *Execution)  // called once per complete execution
	MaxPoints int                 // horizon: points per execution
	// WarmUp: executions of the default schedule run (and discarded) before the exploration starts, so that lazily
	// built process-wide state of the code under test (caches, pools) is in its steady state when the recorded,
	// replayed executions begin. State that still leaks from one execution into the next is a replay divergence
	// (hard harness error).
	WarmUp int
	// TolerateDivergence: instead of ending the process with a HARNESS-ERROR, a replay divergence ends the
	// exploration (Stopped) and is handed to the caller in Diverged, which has to decide what it means (the
	// caller re-executes the prefix in fresh processes: code that is deterministic from a fresh start but not
	// when re-executed in one process carries state from one execution into the next).
	TolerateDivergence         bool
	Diverged                   *Divergence
	Stop                       func() bool // optional budget test, polled between executions
	Bound                      int
	Executions, PointsExecuted int64
	ByCost                     map[int]int64 // executions by total preemption cost
	Stopped                    bool
	// Sharding of ONE exploration over several processes (see explore). Shards <= 1 means no sharding.
	Shard, Shards int
	nodes         [3]int // nodes seen so far at depth 0, 1, 2 (identical in every shard: the tree is deterministic)
}

// ThreadInfo exposes (label, pc, finished) of every thread of the execution in progress, for state keys.
func ThreadInfo() (labels []string, pcs []int) {
	r := active.Load()
	if r == nil {
		return nil, nil
	}
	for _, t := range r.threads {
		l := t.label
		if t.state == stFinished {
			l = "<done>"
		}
		labels, pcs = append(labels, l), append(pcs, t.pc)
	}
	return
}

func equalInts(a, b []int) bool {
	if len(a) != len(b) {
		return false
	}
	for i := range a {
		if a[i] != b[i] {
			return false
		}
	}
	return true
}

func harnessError(format string, a ...interface{}) {
	fmt.Fprintf(os.Stderr, "HARNESS-ERROR sched: "+format+"\n", a...)
	fmt.Printf("HARNESS-ERROR sched: "+format+"\n", a...)
	os.Exit(2)
}

// Run executes ONE schedule: the choices of prefix, then choice 0 at every later point. expect (optional) holds
// the enabled sets recorded for the prefix points.
func (e *Explorer) Run(prefix []int, expect []PointRec) *Execution {
	specs := e.Setup()
	x := &Execution{}
	r := &run{byGoid: map[uint64]*thread{}, yield: make(chan int), holders: map[interface{}]int{}, relSeq: map[interface{}]int{}, x: x}
	started := make(chan *thread)
	for i, s := range specs {
		t := &thread{id: i, spec: s, resume: make(chan struct{}), state: stParked, label: "<start>"}
		r.threads = append(r.threads, t)
		go func() {
			t.goid = goid()
			started <- t
			<-t.resume
			defer func() {
				if v := recover(); v != nil {
					if _, ok := v.(abortSignal); !ok {
						x.Panics = append(x.Panics, ThreadPanic{t.id, fmt.Sprint(v), string(debug.Stack())})
					}
				}
				t.state = stFinished
				r.yield <- t.id
			}()
			if r.aborting {
				return
			}
			t.spec.Body()
		}()
	}
	for range specs {
		t := <-started
		r.byGoid[t.goid] = t
	}
	active.Store(r)
	defer active.Store(nil)
	running := -1
	for {
		var en []int
		unfinished := 0
		isEnabled := func(t *thread) bool { return t.state == stParked || t.state == stBlocked && t.ready() }
		runningEnabled := running >= 0 && !r.threads[running].spec.Env && isEnabled(r.threads[running])
		if runningEnabled {
			en = append(en, running)
		}
		for _, t := range r.threads {
			if !t.spec.Env && !(runningEnabled && t.id == running) && isEnabled(t) {
				en = append(en, t.id)
			}
		}
		nonEnv := len(en)
		for _, t := range r.threads {
			if t.spec.Env && isEnabled(t) {
				en = append(en, t.id)
			}
		}
		hard := len(en)
		for _, t := range r.threads {
			if t.state == stBlocked && t.early != nil && !t.ready() && t.early() {
				en = append(en, t.id)
			}
		}
		for _, t := range r.threads {
			if t.state != stFinished {
				unfinished++
			}
		}
		if unfinished == 0 {
			break
		}
		i := len(x.Points)
		if len(en) == 0 || i >= e.MaxPoints {
			x.Deadlock, x.Horizon = len(en) == 0, len(en) != 0
			r.aborting = true
			for _, t := range r.threads {
				if t.state != stFinished {
					x.Blocked = append(x.Blocked, t.spec.Name+"@"+t.label)
					t.state = stRunning
					t.resume <- struct{}{}
					<-r.yield // the thread unwinds (points are no-ops now) and reports itself finished
				}
			}
			break
		}
		p := PointRec{Enabled: en, Costs: make([]int, len(en))}
		for a := 1; a < len(en); a++ {
			if runningEnabled || r.threads[en[a]].spec.Env && nonEnv > 0 || a >= hard {
				p.Costs[a] = 1
			}
		}
		if i < len(prefix) {
			p.Chosen = prefix[i]
			if p.Chosen >= len(en) || i < len(expect) && !equalInts(expect[i].Enabled, en) {
				if !e.TolerateDivergence {
					harnessError("replay divergence at point %d: choice %d, enabled now %v, recorded %v (prefix %v)", i, p.Chosen, en, expect, prefix)
				}
				e.Diverged = &Divergence{Prefix: append([]int(nil), prefix...), At: i, EnabledNow: append([]int(nil), en...), Recorded: append([]PointRec(nil), expect...)}
				x.Diverged = true
				r.aborting = true
				for _, t := range r.threads {
					if t.state != stFinished {
						t.state = stRunning
						t.resume <- struct{}{}
						<-r.yield
					}
				}
				break
			}
		}
		t := r.threads[en[p.Chosen]]
		p.Label = t.label
		x.Preemptions += p.Costs[p.Chosen]
		x.Points = append(x.Points, p)
		running, t.state = t.id, stRunning
		t.resume <- struct{}{}
		<-r.yield
		e.PointsExecuted++
		if e.AfterStep != nil {
			e.AfterStep(x)
		}
	}
	return x
}

// Explore executes every schedule of cost <= e.Bound (depth first, canonical choice first).
func (e *Explorer) Explore() {
	e.nodes = [3]int{}
	for i := 0; i < e.WarmUp; i++ {
		e.Run(nil, nil)
	}
	e.explore(nil, nil, 0)
}

// Sharding: the root execution and the depth-1 nodes (one deviation) are EXECUTED by every shard (their points are
// needed to branch) but judged and counted by exactly one; the sub-trees at depth 2 are dealt out round-robin.
func (e *Explorer) explore(prefix []int, expect []PointRec, depth int) {
	if e.Stopped || e.Stop != nil && e.Stop() {
		e.Stopped = true
		return
	}
	mine := true
	if e.Shards > 1 && depth <= 2 {
		mine = e.nodes[depth]%e.Shards == e.Shard
		e.nodes[depth]++
		if depth == 2 && !mine {
			return
		}
	}
	x := e.Run(prefix, expect)
	if x.Diverged {
		e.Stopped = true
		return
	}
	if mine {
		e.Executions++
		if e.ByCost == nil {
			e.ByCost = map[int]int64{}
		}
		e.ByCost[x.Preemptions]++
		e.Check(x)
	}
	cost, choices := 0, x.Choices()
	for i, p := range x.Points {
		if i >= len(prefix) {
			for alt := 1; alt < len(p.Enabled); alt++ {
				if cost+p.Costs[alt] <= e.Bound {
					e.explore(append(append(make([]int, 0, i+1), choices[:i]...), alt), x.Points[:i+1], depth+1)
				}
			}
		}
		cost += p.Costs[p.Chosen]
	}
}
