package sim

import (
	"context"
	"fmt"
	"strings"

	kruiseappsv1alpha1 "github.com/openkruise/kruise-api/apps/v1alpha1"
	rolloutsv1alpha1 "github.com/openkruise/rollouts/api/v1alpha1"
	rolloutsv1beta1 "github.com/openkruise/rollouts/api/v1beta1"
	"github.com/openkruise/rollouts/pkg/util"
	apps "k8s.io/api/apps/v1"
	corev1 "k8s.io/api/core/v1"
	metav1 "k8s.io/apimachinery/pkg/apis/meta/v1"
	"k8s.io/apimachinery/pkg/runtime"
	utilpointer "k8s.io/utils/pointer"
	"sigs.k8s.io/controller-runtime/pkg/client"
)

func getRollout(w *World, sc *Scenario) *rolloutsv1beta1.Rollout {
	ro := &rolloutsv1beta1.Rollout{}
	if !w.Get(ro, sc.ns(), AppName) {
		return nil
	}
	return ro
}

// StepCursor returns (currentStepIndex, currentStepState, nextStepIndex) of a Rollout, style-independent.
func StepCursor(ro *rolloutsv1beta1.Rollout) (int32, string, int32, bool) {
	if ro == nil {
		return 0, "", 0, false
	}
	if ro.Status.CanaryStatus != nil {
		c := ro.Status.CanaryStatus
		return c.CurrentStepIndex, string(c.CurrentStepState), c.NextStepIndex, true
	}
	if ro.Status.BlueGreenStatus != nil {
		c := ro.Status.BlueGreenStatus
		return c.CurrentStepIndex, string(c.CurrentStepState), c.NextStepIndex, true
	}
	return 0, "", 0, false
}

func progressingReason(ro *rolloutsv1beta1.Rollout) string {
	if ro == nil {
		return ""
	}
	for _, c := range ro.Status.Conditions {
		if c.Type == rolloutsv1beta1.RolloutConditionProgressing {
			return c.Reason
		}
	}
	return ""
}

func workloadImage(w *World, sc *Scenario) string {
	switch sc.Kind {
	case "CloneSet":
		cs := &kruiseappsv1alpha1.CloneSet{}
		if w.Get(cs, sc.ns(), AppName) {
			return cs.Spec.Template.Spec.Containers[0].Image
		}
	case "Deployment":
		d := &apps.Deployment{}
		if w.Get(d, sc.ns(), AppName) {
			return d.Spec.Template.Spec.Containers[0].Image
		}
	case "StatefulSet":
		d := &apps.StatefulSet{}
		if w.Get(d, sc.ns(), AppName) {
			return d.Spec.Template.Spec.Containers[0].Image
		}
	case "DaemonSet":
		d := &kruiseappsv1alpha1.DaemonSet{}
		if w.Get(d, sc.ns(), AppName) {
			return d.Spec.Template.Spec.Containers[0].Image
		}
	}
	return ""
}

func inProgress(ro *rolloutsv1beta1.Rollout) bool {
	return ro != nil && ro.Status.Phase == rolloutsv1beta1.RolloutPhaseProgressing
}

func updateRolloutSpec(w *World, sc *Scenario, mutate func(ro *rolloutsv1beta1.Rollout)) error {
	old := getRollout(w, sc)
	if old == nil {
		return fmt.Errorf("rollout gone")
	}
	upd := old.DeepCopy()
	mutate(upd)
	if err := w.ValidateRollout(old, upd); err != nil {
		return err
	}
	return w.Raw.Update(context.TODO(), upd)
}

func scaleWorkload(w *World, sc *Scenario, delta int32) error {
	ctx := context.TODO()
	switch sc.Kind {
	case "CloneSet":
		old := &kruiseappsv1alpha1.CloneSet{}
		if !w.Get(old, sc.ns(), AppName) {
			return fmt.Errorf("workload gone")
		}
		upd := old.DeepCopy()
		upd.Spec.Replicas = utilpointer.Int32(*old.Spec.Replicas + delta)
		adm, err := w.AdmitWorkloadUpdate(old, upd)
		if err != nil {
			return err
		}
		return w.Raw.Update(ctx, adm)
	case "Deployment":
		old := &apps.Deployment{}
		if !w.Get(old, sc.ns(), AppName) {
			return fmt.Errorf("workload gone")
		}
		upd := old.DeepCopy()
		upd.Spec.Replicas = utilpointer.Int32(*old.Spec.Replicas + delta)
		adm, err := w.AdmitWorkloadUpdate(old, upd)
		if err != nil {
			return err
		}
		return w.Raw.Update(ctx, adm)
	}
	return fmt.Errorf("scale: kind %s not supported", sc.Kind)
}

func patchStatus(w *World, ro *rolloutsv1beta1.Rollout, field, value string) error {
	sub := "canaryStatus"
	if ro.Spec.Strategy.BlueGreen != nil {
		sub = "blueGreenStatus"
	}
	body := fmt.Sprintf(`{"status":{"%s":{"%s":%s}}}`, sub, field, value)
	return w.Raw.Status().Patch(context.TODO(), ro, client.RawPatch("application/merge-patch+json", []byte(body)))
}

// AllUserActions is the user alphabet. Order matters only for bit positions of one-shot actions.
func AllUserActions() []*UserAction {
	jump := func(n int32) *UserAction {
		return &UserAction{Name: fmt.Sprintf("jump(%d)", n), OneShot: true,
			Guard: func(w *World, sc *Scenario, mon MonState) bool {
				ro := getRollout(w, sc)
				_, st, _, ok := StepCursor(ro)
				return ok && inProgress(ro) && progressingReason(ro) == "InRolling" && st != ""
			},
			Do: func(w *World, sc *Scenario) error {
				return patchStatus(w, getRollout(w, sc), "nextStepIndex", fmt.Sprint(n))
			},
			After: func(mon MonState) { mon["req.jump"] = "1" }}
	}
	acts := []*UserAction{
		{Name: "release", OneShot: true, Free: true,
			Guard: func(w *World, sc *Scenario, mon MonState) bool {
				ro := getRollout(w, sc)
				return ro != nil && ro.Status.Phase == rolloutsv1beta1.RolloutPhaseHealthy && workloadImage(w, sc) == "app:v1"
			},
			Do:    func(w *World, sc *Scenario) error { return w.UserSetImage(sc, "app:v2") },
			After: func(mon MonState) { mon["req.release"] = "1" }},
		{Name: "approve", Free: true,
			Guard: func(w *World, sc *Scenario, mon MonState) bool {
				ro := getRollout(w, sc)
				_, st, _, ok := StepCursor(ro)
				return ok && inProgress(ro) && st == string(rolloutsv1beta1.CanaryStepStatePaused)
			},
			Do:    func(w *World, sc *Scenario) error { return w.UserApprove(sc) },
			After: func(mon MonState) { mon["req.approve"] = "1" }},
		{Name: "rollback", OneShot: true,
			Guard: func(w *World, sc *Scenario, mon MonState) bool {
				return inProgress(getRollout(w, sc)) && workloadImage(w, sc) == "app:v2"
			},
			Do:    func(w *World, sc *Scenario) error { return w.UserSetImage(sc, "app:v1") },
			After: func(mon MonState) { mon["req.rollback"] = "1" }},
		{Name: "release3", OneShot: true,
			Guard: func(w *World, sc *Scenario, mon MonState) bool {
				return inProgress(getRollout(w, sc)) && workloadImage(w, sc) == "app:v2"
			},
			Do:    func(w *World, sc *Scenario) error { return w.UserSetImage(sc, "app:v3") },
			After: func(mon MonState) { mon["req.release3"] = "1" }},
		{Name: "pause", OneShot: true,
			Guard: func(w *World, sc *Scenario, mon MonState) bool {
				ro := getRollout(w, sc)
				return inProgress(ro) && !ro.Spec.Strategy.Paused
			},
			Do: func(w *World, sc *Scenario) error {
				return updateRolloutSpec(w, sc, func(ro *rolloutsv1beta1.Rollout) { ro.Spec.Strategy.Paused = true })
			}},
		{Name: "resume", OneShot: true,
			Guard: func(w *World, sc *Scenario, mon MonState) bool {
				ro := getRollout(w, sc)
				return ro != nil && ro.Spec.Strategy.Paused
			},
			Do: func(w *World, sc *Scenario) error {
				return updateRolloutSpec(w, sc, func(ro *rolloutsv1beta1.Rollout) { ro.Spec.Strategy.Paused = false })
			}},
		{Name: "scaleUp", OneShot: true,
			Guard: func(w *World, sc *Scenario, mon MonState) bool { return inProgress(getRollout(w, sc)) },
			Do:    func(w *World, sc *Scenario) error { return scaleWorkload(w, sc, +2) },
			After: func(mon MonState) { mon["req.scale"] = "1" }},
		{Name: "scaleDown", OneShot: true,
			Guard: func(w *World, sc *Scenario, mon MonState) bool { return inProgress(getRollout(w, sc)) },
			Do:    func(w *World, sc *Scenario) error { return scaleWorkload(w, sc, -2) },
			After: func(mon MonState) { mon["req.scale"] = "1" }},
		{Name: "editPlanInts", OneShot: true, // percent plan -> int plan (same number of steps; the validator forbids changing the count)
			Guard: func(w *World, sc *Scenario, mon MonState) bool { return inProgress(getRollout(w, sc)) },
			Do: func(w *World, sc *Scenario) error {
				return updateRolloutSpec(w, sc, func(ro *rolloutsv1beta1.Rollout) {
					steps := ro.Spec.Strategy.GetSteps()
					for i := range steps {
						// 1,1,2,3,...: non-decreasing and BELOW what a percentage plan has usually reached by
						// then, so that the edit asks for less than what is already exposed
						n := i
						if n < 1 {
							n = 1
						}
						steps[i].Replicas = parseIS(fmt.Sprint(n))
					}
				})
			},
			After: func(mon MonState) { mon["req.editPlan"] = "1" }},
		{Name: "editPlanLow", OneShot: true, // every step becomes the absolute count 1: below whatever is exposed after step one
			Guard: func(w *World, sc *Scenario, mon MonState) bool { return inProgress(getRollout(w, sc)) },
			Do: func(w *World, sc *Scenario) error {
				return updateRolloutSpec(w, sc, func(ro *rolloutsv1beta1.Rollout) {
					steps := ro.Spec.Strategy.GetSteps()
					for i := range steps {
						steps[i].Replicas = parseIS("1")
					}
				})
			},
			After: func(mon MonState) { mon["req.editPlan"] = "1" }},
		{Name: "editPlanMid", OneShot: true, // every step becomes the absolute count 2: between what step one created and what a later step asked for
			Guard: func(w *World, sc *Scenario, mon MonState) bool { return inProgress(getRollout(w, sc)) },
			Do: func(w *World, sc *Scenario) error {
				return updateRolloutSpec(w, sc, func(ro *rolloutsv1beta1.Rollout) {
					steps := ro.Spec.Strategy.GetSteps()
					for i := range steps {
						steps[i].Replicas = parseIS("2")
					}
				})
			},
			After: func(mon MonState) { mon["req.editPlan"] = "1" }},
		{Name: "editPlanMore", OneShot: true, // raise every step's replicas (percent +20, capped at 100)
			Guard: func(w *World, sc *Scenario, mon MonState) bool { return inProgress(getRollout(w, sc)) },
			Do: func(w *World, sc *Scenario) error {
				return updateRolloutSpec(w, sc, func(ro *rolloutsv1beta1.Rollout) {
					steps := ro.Spec.Strategy.GetSteps()
					for i := range steps {
						r := steps[i].Replicas
						if r != nil && strings.HasSuffix(r.StrVal, "%") {
							var p int
							fmt.Sscanf(r.StrVal, "%d%%", &p)
							if p += 20; p > 100 {
								p = 100
							}
							steps[i].Replicas = parseIS(fmt.Sprintf("%d%%", p))
						} else if r != nil {
							steps[i].Replicas = parseIS(fmt.Sprint(r.IntVal + 1))
						}
					}
				})
			},
			After: func(mon MonState) { mon["req.editPlan"] = "1" }},
		{Name: "disable", OneShot: true,
			Guard: func(w *World, sc *Scenario, mon MonState) bool {
				ro := getRollout(w, sc)
				return ro != nil && !ro.Spec.Disabled && ro.DeletionTimestamp == nil
			},
			Do: func(w *World, sc *Scenario) error {
				return updateRolloutSpec(w, sc, func(ro *rolloutsv1beta1.Rollout) { ro.Spec.Disabled = true })
			},
			After: func(mon MonState) { mon["req.exit"] = "disable" }},
		{Name: "deleteRollout", OneShot: true,
			Guard: func(w *World, sc *Scenario, mon MonState) bool {
				ro := getRollout(w, sc)
				return ro != nil && ro.DeletionTimestamp == nil
			},
			Do: func(w *World, sc *Scenario) error {
				return w.Raw.Delete(context.TODO(), getRollout(w, sc))
			},
			After: func(mon MonState) { mon["req.exit"] = "delete" }},
		{Name: "degrade", OneShot: true, // an updated, ready pod turns unready (environment disturbance)
			Guard: func(w *World, sc *Scenario, mon MonState) bool {
				v := ViewWorkload(w, sc)
				return inProgress(getRollout(w, sc)) && v != nil && v.UpdatedReady > 0 && v.Image != "app:v1"
			},
			Do: func(w *World, sc *Scenario) error {
				v := ViewWorkload(w, sc)
				for _, o := range w.Store.PeekAll("pods") {
					p := o.(*corev1.Pod)
					if p.Namespace == sc.ns() && podRev(p) == v.UpdateRev && isPodReady(p) {
						c := p.DeepCopy()
						setPodReady(c, false)
						c.Annotations = map[string]string{"verif/degraded": "true"}
						return w.Raw.Update(context.TODO(), c)
					}
				}
				return fmt.Errorf("no pod to degrade")
			},
			After: func(mon MonState) { mon["req.degrade"] = "1" }},
		{Name: "dropLastStep", OneShot: true, // plan edit while no release is in progress (the validator only freezes the step count while Progressing / Terminating)
			Guard: func(w *World, sc *Scenario, mon MonState) bool {
				ro := getRollout(w, sc)
				return ro != nil && ro.Status.Phase == rolloutsv1beta1.RolloutPhaseHealthy && ro.DeletionTimestamp == nil && len(ro.Spec.Strategy.GetSteps()) > 1
			},
			Do: func(w *World, sc *Scenario) error {
				return updateRolloutSpec(w, sc, func(ro *rolloutsv1beta1.Rollout) {
					if ro.Spec.Strategy.BlueGreen != nil {
						ro.Spec.Strategy.BlueGreen.Steps = ro.Spec.Strategy.BlueGreen.Steps[:len(ro.Spec.Strategy.BlueGreen.Steps)-1]
					} else {
						ro.Spec.Strategy.Canary.Steps = ro.Spec.Strategy.Canary.Steps[:len(ro.Spec.Strategy.Canary.Steps)-1]
					}
				})
			},
			After: func(mon MonState) { mon["req.editPlan"] = "1" }},
		{Name: "switchStyle", OneShot: true, // canary <-> blueGreen while no release is in progress (the validator freezes the style only while Progressing / Terminating)
			Guard: func(w *World, sc *Scenario, mon MonState) bool {
				ro := getRollout(w, sc)
				return ro != nil && ro.Status.Phase == rolloutsv1beta1.RolloutPhaseHealthy && ro.DeletionTimestamp == nil
			},
			Do: func(w *World, sc *Scenario) error {
				return updateRolloutSpec(w, sc, func(ro *rolloutsv1beta1.Rollout) {
					st := &ro.Spec.Strategy
					if st.BlueGreen != nil {
						st.Canary = &rolloutsv1beta1.CanaryStrategy{Steps: st.BlueGreen.Steps, TrafficRoutings: st.BlueGreen.TrafficRoutings}
						st.BlueGreen = nil
					} else if st.Canary != nil {
						st.BlueGreen = &rolloutsv1beta1.BlueGreenStrategy{Steps: st.Canary.Steps, TrafficRoutings: st.Canary.TrafficRoutings}
						st.Canary = nil
					}
				})
			},
			After: func(mon MonState) { mon["req.editPlan"] = "1" }},
		{Name: "deleteWorkload", OneShot: true,
			Guard: func(w *World, sc *Scenario, mon MonState) bool {
				return inProgress(getRollout(w, sc)) && getWorkload(w, sc) != nil
			},
			Do: func(w *World, sc *Scenario) error {
				o := getWorkload(w, sc)
				return w.Raw.Delete(context.TODO(), o.(client.Object))
			},
			After: func(mon MonState) { mon["req.exit"] = "workload-deleted" }},
		{Name: "deleteTR", OneShot: true, // the user deletes the TrafficRouting custom resource
			Guard: func(w *World, sc *Scenario, mon MonState) bool {
				tr := &rolloutsv1alpha1.TrafficRouting{}
				return sc.TRCR && mon["req.release"] != "" && w.Get(tr, sc.ns(), TRName) && tr.DeletionTimestamp == nil
			},
			Do: func(w *World, sc *Scenario) error {
				tr := &rolloutsv1alpha1.TrafficRouting{}
				if !w.Get(tr, sc.ns(), TRName) {
					return fmt.Errorf("TrafficRouting gone")
				}
				return w.Raw.Delete(context.TODO(), tr)
			},
			After: func(mon MonState) { mon["req.exit"] = "trafficrouting-deleted" }},
		{Name: "deleteVS", OneShot: true, NoCost: true, // the user deletes the first of two custom network objects mid-release
			Guard: func(w *World, sc *Scenario, mon MonState) bool {
				return sc.CustomDR && inProgress(getRollout(w, sc)) && GetVirtualService(w, sc.ns()) != nil
			},
			Do: func(w *World, sc *Scenario) error {
				return w.Raw.Delete(context.TODO(), GetVirtualService(w, sc.ns()).DeepCopy())
			},
			After: func(mon MonState) { mon["req.deleteVS"] = "1" }},
		{Name: "deleteCanary", OneShot: true, NoCost: true, // someone deletes the canary Deployment of a canary-style release (it turns Terminating: it carries the BatchRelease finalizer)
			Guard: func(w *World, sc *Scenario, mon MonState) bool {
				return inProgress(getRollout(w, sc)) && liveCanaryDeployment(w, sc) != nil
			},
			Do: func(w *World, sc *Scenario) error {
				return w.Raw.Delete(context.TODO(), liveCanaryDeployment(w, sc))
			},
			After: func(mon MonState) { mon["req.deleteCanary"] = "1" }},
		jump(-1), jump(0), jump(1), jump(2), jump(3), jump(4), jump(2147483647),
	}
	return acts
}

// liveCanaryDeployment returns the (not yet deleted) canary Deployment of a canary-style Deployment release.
func liveCanaryDeployment(w *World, sc *Scenario) *apps.Deployment {
	if sc.Kind != "Deployment" || sc.Style != "canary" {
		return nil
	}
	for _, o := range w.Store.PeekAll("deployments") {
		d := o.(*apps.Deployment)
		if d.Namespace == sc.ns() && d.Labels[util.CanaryDeploymentLabel] != "" && d.DeletionTimestamp == nil {
			return d.DeepCopy()
		}
	}
	return nil
}

// ---------------------------------------------------------------------------------------------
// Garbage collector actor: owner-reference GC and removal of deleting objects without finalizers.
// ---------------------------------------------------------------------------------------------

// GCSteps lists objects the garbage collector may delete now.
func GCSteps(w *World) []string {
	uids := map[string]bool{}
	for _, k := range w.Store.Keys() {
		uids[string(accessor(w.Store.Peek(k)).GetUID())] = true
	}
	var out []string
	for _, k := range w.Store.Keys() {
		a := accessor(w.Store.Peek(k))
		if a.GetDeletionTimestamp() != nil && len(a.GetFinalizers()) == 0 {
			out = append(out, k.String())
			continue
		}
		refs := a.GetOwnerReferences()
		if len(refs) == 0 || a.GetDeletionTimestamp() != nil {
			continue
		}
		orphan := true
		for _, r := range refs {
			if uids[string(r.UID)] {
				orphan = false
			}
		}
		if orphan {
			out = append(out, k.String())
		}
	}
	return out
}

// GCDo deletes one object (respecting finalizers through the client's delete semantics).
func GCDo(w *World, key string) error {
	for _, k := range w.Store.Keys() {
		if k.String() == key {
			obj := w.Store.Peek(k).DeepCopyObject().(client.Object)
			return w.Raw.Delete(context.TODO(), obj)
		}
	}
	return fmt.Errorf("gc: %s gone", key)
}

// ---------------------------------------------------------------------------------------------
// Pre: facts about the state before a transition, for transition monitors.
// ---------------------------------------------------------------------------------------------

type Pre struct {
	Rollout      *rolloutsv1beta1.Rollout
	BatchRelease *rolloutsv1beta1.BatchRelease
	Workload     runtime.Object
	Now          int64
}

func CapturePre(w *World, sc *Scenario) *Pre {
	p := &Pre{Rollout: getRollout(w, sc), Now: w.Now()}
	br := &rolloutsv1beta1.BatchRelease{}
	if w.Get(br, sc.ns(), AppName) {
		p.BatchRelease = br
	}
	p.Workload = getWorkload(w, sc)
	return p
}

func getWorkload(w *World, sc *Scenario) runtime.Object {
	switch sc.Kind {
	case "CloneSet":
		cs := &kruiseappsv1alpha1.CloneSet{}
		if w.Get(cs, sc.ns(), AppName) {
			return cs
		}
	case "Deployment":
		d := &apps.Deployment{}
		if w.Get(d, sc.ns(), AppName) {
			return d
		}
	case "StatefulSet":
		d := &apps.StatefulSet{}
		if w.Get(d, sc.ns(), AppName) {
			return d
		}
	case "DaemonSet":
		d := &kruiseappsv1alpha1.DaemonSet{}
		if w.Get(d, sc.ns(), AppName) {
			return d
		}
	}
	return nil
}

var _ = metav1.Now

// ControlState abstracts a state to the cursors of the three state machines plus workload progress:
// (rollout phase, progressing reason, step cursor, finalising step, BatchRelease phase/batch/state,
// exposure knob, updated / updated-ready pods). User deviations are injected once per control state.
func ControlState(w *World, sc *Scenario) string {
	ro := getRollout(w, sc)
	var sb strings.Builder
	if ro != nil {
		idx, st, next, _ := StepCursor(ro)
		fin := ""
		if ro.Status.CanaryStatus != nil {
			fin = string(ro.Status.CanaryStatus.FinalisingStep)
		} else if ro.Status.BlueGreenStatus != nil {
			fin = string(ro.Status.BlueGreenStatus.FinalisingStep)
		}
		fmt.Fprintf(&sb, "ro:%s/%s/%d/%s/%d/%s/p%v/d%v/del%v", ro.Status.Phase, progressingReason(ro), idx, st, next, fin, ro.Spec.Strategy.Paused, ro.Spec.Disabled, ro.DeletionTimestamp != nil)
	}
	br := &rolloutsv1beta1.BatchRelease{}
	if w.Get(br, sc.ns(), AppName) {
		bp := int32(-1)
		if br.Spec.ReleasePlan.BatchPartition != nil {
			bp = *br.Spec.ReleasePlan.BatchPartition
		}
		fmt.Fprintf(&sb, "|br:%s/%d/%s/bp%d/del%v", br.Status.Phase, br.Status.CanaryStatus.CurrentBatch, br.Status.CanaryStatus.CurrentBatchState, bp, br.DeletionTimestamp != nil)
	}
	v := ViewWorkload(w, sc)
	if v != nil {
		fmt.Fprintf(&sb, "|wl:r%d/e%d/u%d/ur%d/%s/ctl%v", v.Replicas, v.Exposure, v.Updated, v.UpdatedReady, v.Image, v.Controlled)
	}
	return sb.String()
}
