package sim

import (
	"context"
	"encoding/json"
	"fmt"
	"os"
	"strings"

	jsonpatch "github.com/evanphx/json-patch"
	rolloutsv1beta1 "github.com/openkruise/rollouts/api/v1beta1"
	"github.com/openkruise/rollouts/pkg/util"
	rovalidating "github.com/openkruise/rollouts/pkg/webhook/rollout/validating"
	womutating "github.com/openkruise/rollouts/pkg/webhook/workload/mutating"
	admissionv1 "k8s.io/api/admission/v1"
	admissionregistrationv1 "k8s.io/api/admissionregistration/v1"
	"k8s.io/apimachinery/pkg/api/meta"
	metav1 "k8s.io/apimachinery/pkg/apis/meta/v1"
	"k8s.io/apimachinery/pkg/runtime"
	"sigs.k8s.io/controller-runtime/pkg/client"
	"sigs.k8s.io/controller-runtime/pkg/webhook/admission"
	"sigs.k8s.io/yaml"
)

// WebhookConfigName is the name the repository looks its own MutatingWebhookConfiguration up by.
const WebhookConfigName = "kruise-rollout-mutating-webhook-configuration"

// LoadWebhookConfiguration builds the MutatingWebhookConfiguration from the repository's own manifests
// (config/webhook/manifests.yaml + the objectSelector patch), relative to cwd=/repo.
func LoadWebhookConfiguration() (*admissionregistrationv1.MutatingWebhookConfiguration, error) {
	raw, err := os.ReadFile("config/webhook/manifests.yaml")
	if err != nil {
		return nil, err
	}
	docs := strings.Split(string(raw), "\n---")
	cfg := &admissionregistrationv1.MutatingWebhookConfiguration{}
	found := false
	for _, d := range docs {
		if strings.Contains(d, "kind: MutatingWebhookConfiguration") {
			if err := yaml.Unmarshal([]byte(d), cfg); err != nil {
				return nil, err
			}
			found = true
		}
	}
	if !found {
		return nil, fmt.Errorf("no MutatingWebhookConfiguration in config/webhook/manifests.yaml")
	}
	praw, err := os.ReadFile("config/webhook/patch_manifests.yaml")
	if err != nil {
		return nil, err
	}
	patch := &admissionregistrationv1.MutatingWebhookConfiguration{}
	if err := yaml.Unmarshal(praw, patch); err != nil {
		return nil, err
	}
	for i := range cfg.Webhooks {
		for _, p := range patch.Webhooks {
			if p.Name == cfg.Webhooks[i].Name {
				cfg.Webhooks[i].ObjectSelector = p.ObjectSelector
			}
		}
	}
	cfg.Name = WebhookConfigName
	cfg.TypeMeta = metav1.TypeMeta{}
	return cfg, nil
}

type admissionChain struct {
	workload *womutating.WorkloadHandler
	unified  *womutating.UnifiedWorkloadHandler
	rollout  *rovalidating.RolloutCreateUpdateHandler
}

func (w *World) admission() *admissionChain {
	dec, _ := admission.NewDecoder(w.Scheme)
	return &admissionChain{
		workload: &womutating.WorkloadHandler{Client: w.Raw, Decoder: dec, Finder: util.NewControllerFinder(w.Raw)},
		unified:  &womutating.UnifiedWorkloadHandler{Client: w.Raw, Decoder: dec, Finder: util.NewControllerFinder(w.Raw)},
		rollout:  &rovalidating.RolloutCreateUpdateHandler{Client: w.Raw, Decoder: dec},
	}
}

func rawOf(w *World, obj client.Object) (runtime.RawExtension, metav1.GroupVersionKind, metav1.GroupVersionResource) {
	gvk := w.gvkOf(obj)
	c := obj.DeepCopyObject().(client.Object)
	c.GetObjectKind().SetGroupVersionKind(gvk)
	b, _ := json.Marshal(c)
	gvr, _ := meta.UnsafeGuessKindToResource(gvk)
	return runtime.RawExtension{Raw: b}, metav1.GroupVersionKind{Group: gvk.Group, Version: gvk.Version, Kind: gvk.Kind},
		metav1.GroupVersionResource{Group: gvr.Group, Version: gvr.Version, Resource: gvr.Resource}
}

// AdmitWorkloadUpdate sends (old,new) through the repository's real mutating handler for that kind and
// returns the object as admitted (patched), or an error when the request is refused.
func (w *World) AdmitWorkloadUpdate(old, new client.Object) (client.Object, error) {
	ch := w.admission()
	newRaw, kind, res := rawOf(w, new)
	oldRaw, _, _ := rawOf(w, old)
	dry := false
	req := admission.Request{AdmissionRequest: admissionv1.AdmissionRequest{
		UID: "verif", Kind: kind, Resource: res, Name: new.GetName(), Namespace: new.GetNamespace(),
		Operation: admissionv1.Update, Object: newRaw, OldObject: oldRaw, DryRun: &dry,
	}}
	var resp admission.Response
	switch {
	case kind.Kind == "StatefulSet":
		resp = ch.unified.Handle(context.TODO(), req)
	default:
		resp = ch.workload.Handle(context.TODO(), req)
	}
	if !resp.Allowed {
		msg := ""
		if resp.Result != nil {
			msg = resp.Result.Message
		}
		return nil, fmt.Errorf("admission denied: %s", msg)
	}
	if len(resp.Patches) == 0 {
		return new, nil
	}
	pb, _ := json.Marshal(resp.Patches)
	p, err := jsonpatch.DecodePatch(pb)
	if err != nil {
		return nil, err
	}
	patched, err := p.Apply(newRaw.Raw)
	if err != nil {
		return nil, err
	}
	out := new.DeepCopyObject().(client.Object)
	// zero the object before decoding so that removed fields disappear
	fresh, err := w.Scheme.New(w.gvkOf(new))
	if err == nil {
		out = fresh.(client.Object)
	}
	if err := json.Unmarshal(patched, out); err != nil {
		return nil, err
	}
	return out, nil
}

// ValidateRollout sends a Rollout create/update through the real validating handler.
func (w *World) ValidateRollout(old, new *rolloutsv1beta1.Rollout) error {
	ch := w.admission()
	newRaw, kind, res := rawOf(w, new)
	req := admission.Request{AdmissionRequest: admissionv1.AdmissionRequest{
		UID: "verif", Kind: kind, Resource: res, Name: new.GetName(), Namespace: new.GetNamespace(),
		Operation: admissionv1.Create, Object: newRaw,
	}}
	if old != nil {
		oldRaw, _, _ := rawOf(w, old)
		req.Operation = admissionv1.Update
		req.OldObject = oldRaw
	}
	resp := ch.rollout.Handle(context.TODO(), req)
	if !resp.Allowed {
		msg := ""
		if resp.Result != nil {
			msg = resp.Result.Message
		}
		return fmt.Errorf("rollout validation denied: %s", msg)
	}
	return nil
}
