package sim

import (
	"crypto/sha256"
	"encoding/hex"
	"encoding/json"
	"fmt"
	"sort"
	"strconv"
	"strings"
	"time"

	expectations "github.com/openkruise/rollouts/pkg/util/expectation"
	"github.com/openkruise/rollouts/pkg/util/grace"
	"k8s.io/apimachinery/pkg/runtime"
)

// Canonical state (DESIGN.md §2 "Canonical state / abstraction"):
//   - every object as sorted JSON minus resourceVersion / managedFields / creationTimestamp;
//   - timestamps the code compares with the clock are kept as min(now - ts, CAP); timestamps that are only
//     copied or tested for presence (lastTransitionTime, batchReadyTime, deletionTimestamp) as set/unset;
//   - metadata.generation and the observedGeneration fields that mirror it are kept RELATIONALLY
//     (difference to the generation they mirror), since the code only tests them for equality;
//   - queues (immediate keys; delayed keys with clamped remaining delay), both expectation maps (clamped
//     ages), explorer-owned monitor state.
//
// The virtual clock itself is not part of the key.

// AgeCap is 1 + the largest duration any guard in the explored scenarios compares an age with.
var AgeCap int64 = 4

var canonCache = map[runtime.Object]string{}

func clampAge(now, ts int64) int64 {
	a := now - ts
	if a > AgeCap {
		a = AgeCap
	}
	if a < -AgeCap {
		a = -AgeCap
	}
	return a
}

func looksLikeTime(s string) bool {
	return len(s) == 20 && s[4] == '-' && s[7] == '-' && s[10] == 'T' && s[19] == 'Z'
}

// scrub replaces every timestamp: the ones the repository compares with the clock (status.canaryStatus /
// status.blueGreenStatus lastUpdateTime, the Progressing condition's lastUpdateTime) by their clamped age,
// all others (only copied / compared for equality / tested for presence) by "<set>".
func scrub(key string, v interface{}, now int64, aged bool) interface{} {
	switch x := v.(type) {
	case map[string]interface{}:
		childAged := key == "canaryStatus" || key == "blueGreenStatus"
		if key == "conditions" {
			if t, _ := x["type"].(string); t == "Progressing" {
				childAged = true
			}
		}
		for k, c := range x {
			x[k] = scrub(k, c, now, childAged)
		}
		return x
	case []interface{}:
		for i, c := range x {
			x[i] = scrub(key, c, now, aged)
		}
		return x
	case string:
		if looksLikeTime(x) {
			if aged && key == "lastUpdateTime" {
				if t, err := time.Parse(time.RFC3339, x); err == nil {
					return "T-" + strconv.FormatInt(clampAge(now, t.Unix()), 10)
				}
			}
			return "<set>"
		}
		return x
	}
	return v
}

func num(v interface{}) (int64, bool) {
	switch x := v.(type) {
	case float64:
		return int64(x), true
	case int64:
		return x, true
	}
	return 0, false
}

// CanonObjects renders the store in canonical form. gens maps "resource/ns/name" -> generation for the
// cross-object relation (observedWorkloadGeneration).
func (w *World) CanonObjects() []string {
	now := w.Now()
	keys := w.Store.Keys()
	gens := map[string]int64{}
	for _, k := range keys {
		gens[k.GVR.Resource+"/"+k.Namespace+"/"+k.Name] = accessor(w.Store.Peek(k)).GetGeneration()
	}
	out := make([]string, 0, len(keys))
	for _, k := range keys {
		obj := w.Store.Peek(k)
		// stored objects are immutable and shared between snapshots: the canonical form of every object
		// that has neither clock-compared timestamps nor cross-object relations (everything but Rollouts)
		// depends on the object alone and is cached by identity
		cacheable := k.GVR.Resource != "rollouts"
		if cacheable {
			if c, ok := canonCache[obj]; ok {
				out = append(out, c)
				continue
			}
		}
		b, _ := json.Marshal(obj)
		var m map[string]interface{}
		_ = json.Unmarshal(b, &m)
		md, _ := m["metadata"].(map[string]interface{})
		var gen int64
		if md != nil {
			delete(md, "resourceVersion")
			delete(md, "managedFields")
			delete(md, "creationTimestamp")
			gen, _ = num(md["generation"])
			delete(md, "generation")
		}
		if st, ok := m["status"].(map[string]interface{}); ok {
			if og, ok := num(st["observedGeneration"]); ok {
				st["observedGeneration"] = fmt.Sprintf("gen%+d", og-gen)
			}
			// Rollout: observedWorkloadGeneration mirrors the workload's generation
			for _, sub := range []string{"canaryStatus", "blueGreenStatus"} {
				if cs, ok := st[sub].(map[string]interface{}); ok {
					if owg, ok := num(cs["observedWorkloadGeneration"]); ok {
						if sp, ok := m["spec"].(map[string]interface{}); ok {
							if ref, ok := sp["workloadRef"].(map[string]interface{}); ok {
								kind, _ := ref["kind"].(string)
								name, _ := ref["name"].(string)
								if wg, ok := gens[ResourceOf(kind)+"/"+k.Namespace+"/"+name]; ok {
									cs["observedWorkloadGeneration"] = fmt.Sprintf("wgen%+d", owg-wg)
								}
							}
						}
					}
				}
			}
		}
		scrub("", m, now, false)
		cb, _ := json.Marshal(m) // encoding/json sorts map keys
		cs := k.String() + "=" + string(cb)
		if cacheable {
			if len(canonCache) > 400000 {
				canonCache = map[runtime.Object]string{}
			}
			canonCache[obj] = cs
		}
		out = append(out, cs)
	}
	return out
}

// CanonMemory renders queues and the two in-memory expectation maps.
func (w *World) CanonMemory() []string {
	now := w.Now()
	var out []string
	for _, c := range w.Ctls {
		if w.FreeQueues {
			break
		}
		var im []string
		for _, r := range c.Queue.Immediate {
			im = append(im, r.String())
		}
		sort.Strings(im)
		var dl []string
		for r, due := range c.Queue.Delayed {
			rem := due - now
			if rem < 0 {
				rem = 0
			}
			if rem > AgeCap {
				rem = AgeCap
			}
			dl = append(dl, fmt.Sprintf("%s+%d", r.String(), rem))
		}
		sort.Strings(dl)
		out = append(out, fmt.Sprintf("queue %s now=[%s] later=[%s]", c.Short, strings.Join(im, ","), strings.Join(dl, ",")))
	}
	gs := grace.VerifSnapshot()
	var gl []string
	for k, m := range gs {
		for a, t := range m {
			gl = append(gl, fmt.Sprintf("%s|%s|%d", k, a, clampAge(now, t.Unix())))
		}
	}
	sort.Strings(gl)
	out = append(out, "grace "+strings.Join(gl, ";"))
	es := expectations.VerifSnapshot()
	var el []string
	for k, rec := range es {
		var parts []string
		for a, names := range rec.Objs {
			sort.Strings(names)
			parts = append(parts, string(a)+":"+strings.Join(names, ","))
		}
		sort.Strings(parts)
		age := int64(-1)
		if !rec.FirstUnsatisfied.IsZero() {
			age = clampAge(now, rec.FirstUnsatisfied.Unix())
		}
		el = append(el, fmt.Sprintf("%s|%s|%d", k, strings.Join(parts, "/"), age))
	}
	sort.Strings(el)
	out = append(out, "expect "+strings.Join(el, ";"))
	return out
}

// Key hashes the canonical form (plus explorer-owned extra state).
func (w *World) Key(extra string) string {
	h := sha256.New()
	for _, s := range w.CanonObjects() {
		h.Write([]byte(s))
		h.Write([]byte{0})
	}
	for _, s := range w.CanonMemory() {
		h.Write([]byte(s))
		h.Write([]byte{0})
	}
	h.Write([]byte(extra))
	return hex.EncodeToString(h.Sum(nil)[:12])
}
