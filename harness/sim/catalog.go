package sim

import (
	utilpointer "k8s.io/utils/pointer"
)

// Scenarios is the catalogue (data, not code). Quick-tier sizes are small on purpose; thorough raises them.
func Scenarios(thorough bool) map[string]*Scenario {
	d2 := utilpointer.Int32(2)
	m := map[string]*Scenario{
		// CloneSet partition style, no traffic, manual pauses
		"Q01": {ID: "Q01", Kind: "CloneSet", Style: "partition", Replicas: 4,
			Steps: []StepSpec{{Replicas: "25%"}, {Replicas: "50%"}, {Replicas: "100%"}}},
		// same with a duration pause and an int plan
		"Q01b": {ID: "Q01b", Kind: "CloneSet", Style: "partition", Replicas: 3,
			Steps: []StepSpec{{Replicas: "1", Pause: d2}, {Replicas: "3"}}},
		// CloneSet partition + nginx Ingress
		"Q02": {ID: "Q02", Kind: "CloneSet", Style: "partition", Replicas: 3, Traffic: "ingress", Grace: 1,
			Steps: []StepSpec{{Replicas: "1", Traffic: "20%"}, {Replicas: "100%"}}},
	}
	// two traffic steps with different replicas (a step jump must not route step k's traffic before its pods)
	m["Q02b"] = &Scenario{ID: "Q02b", Kind: "CloneSet", Style: "partition", Replicas: 3, Traffic: "ingress", Grace: 1,
		Steps: []StepSpec{{Replicas: "1", Traffic: "20%"}, {Replicas: "2", Traffic: "50%"}, {Replicas: "100%"}}}
	// a header-match step (A/B) followed by a weight step and the promotion
	m["Q02h"] = &Scenario{ID: "Q02h", Kind: "CloneSet", Style: "partition", Replicas: 3, Traffic: "ingress", Grace: 1,
		Steps: []StepSpec{{Replicas: "1", Header: "canary"}, {Replicas: "2", Traffic: "50%"}, {Replicas: "100%"}}}
	// three traffic steps: a jump from step one to step three is a real jump onto a step with a weight
	m["Q02d"] = &Scenario{ID: "Q02d", Kind: "CloneSet", Style: "partition", Replicas: 3, Traffic: "ingress", Grace: 1,
		Steps: []StepSpec{{Replicas: "1", Traffic: "20%"}, {Replicas: "2", Traffic: "50%"}, {Replicas: "3", Traffic: "80%"}}}
	// traffic configured by a separate TrafficRouting custom resource referenced from the Rollout (Ingress / HTTPRoute)
	m["Q20"] = &Scenario{ID: "Q20", Kind: "CloneSet", Style: "partition", Replicas: 2, Traffic: "ingress", TRCR: true, Grace: 1,
		Steps: []StepSpec{{Replicas: "1"}, {Replicas: "2"}}}
	m["Q21"] = &Scenario{ID: "Q21", Kind: "CloneSet", Style: "partition", Replicas: 2, Traffic: "gateway", TRCR: true, Grace: 1,
		Steps: []StepSpec{{Replicas: "1"}, {Replicas: "2"}}}
	// Gateway API with three weight steps (a later weight step must really be written)
	m["Q03d"] = &Scenario{ID: "Q03d", Kind: "CloneSet", Style: "partition", Replicas: 3, Traffic: "gateway", Grace: 1,
		Steps: []StepSpec{{Replicas: "1", Traffic: "20%"}, {Replicas: "2", Traffic: "50%"}, {Replicas: "3", Traffic: "80%"}}}
	// custom (Lua) provider: Istio VirtualService, configured in the Rollout (Q30) or through a TrafficRouting CR (Q22)
	m["Q30"] = &Scenario{ID: "Q30", Kind: "CloneSet", Style: "partition", Replicas: 2, Traffic: "custom", Grace: 1,
		Steps: []StepSpec{{Replicas: "1", Traffic: "20%"}, {Replicas: "100%"}}}
	m["Q31"] = &Scenario{ID: "Q31", Kind: "CloneSet", Style: "partition", Replicas: 2, Traffic: "custom", CustomDR: true, Grace: 1,
		Steps: []StepSpec{{Replicas: "1", Traffic: "20%"}, {Replicas: "100%"}}}
	// the same with gracePeriodSeconds 0 (nothing makes a finalising step run twice: one lost error is final)
	m["Q31g"] = &Scenario{ID: "Q31g", Kind: "CloneSet", Style: "partition", Replicas: 2, Traffic: "custom", CustomDR: true, Grace: 0,
		Steps: []StepSpec{{Replicas: "1", Traffic: "20%"}, {Replicas: "100%"}}}
	m["Q22"] = &Scenario{ID: "Q22", Kind: "CloneSet", Style: "partition", Replicas: 2, Traffic: "custom", TRCR: true, Grace: 1,
		Steps: []StepSpec{{Replicas: "1"}, {Replicas: "2"}}}
	// CloneSet partition + Gateway API HTTPRoute
	// Gateway API with a header-match step (the HTTPRoute gets generated rules that must be re-derived, not
	// stacked, on every re-application)
	m["Q03h"] = &Scenario{ID: "Q03h", Kind: "CloneSet", Style: "partition", Replicas: 3, Traffic: "gateway", Grace: 1,
		Steps: []StepSpec{{Replicas: "1", Header: "canary"}, {Replicas: "2", Traffic: "50%"}, {Replicas: "100%"}}}
	// CloneSet blue-green + Ingress carrying the rollback-in-batch annotation (which must not apply: the policy is
	// only for rollouts without traffic routing)
	m["Q09b"] = &Scenario{ID: "Q09b", Kind: "CloneSet", Style: "bluegreen", Replicas: 2, Traffic: "ingress", Grace: 1, RollbackInBatch: true,
		Steps: []StepSpec{{Replicas: "100%", Traffic: "0%"}, {Replicas: "100%", Traffic: "100%"}}}
	// a workload that has just been created and owns no pod yet when the release starts: for a while
	// spec.replicas > 0 and status.replicas == 0
	m["Q01z"] = &Scenario{ID: "Q01z", Kind: "CloneSet", Style: "partition", Replicas: 2, ColdStart: true,
		Steps: []StepSpec{{Replicas: "50%"}, {Replicas: "100%"}}}
	// Deployment partition style with an absolute step followed by a percentage worth FEWER pods (the partition
	// already written satisfies the second step and must be kept)
	m["Q07n"] = &Scenario{ID: "Q07n", Kind: "Deployment", Style: "partition", Replicas: 4,
		Steps: []StepSpec{{Replicas: "3"}, {Replicas: "50%"}, {Replicas: "100%"}}}
	// one trafficRoutings entry naming two providers (Ingress + HTTPRoute run as a composite), gracePeriodSeconds 0
	m["Q02x"] = &Scenario{ID: "Q02x", Kind: "CloneSet", Style: "partition", Replicas: 3, Traffic: "ingress+gateway", Grace: 0,
		Steps: []StepSpec{{Replicas: "1", Traffic: "20%"}, {Replicas: "100%"}}}
	// Gateway API, a header-match step, and a user rule that splits between the stable Service and a sibling backend
	m["Q03s"] = &Scenario{ID: "Q03s", Kind: "CloneSet", Style: "partition", Replicas: 3, Traffic: "gateway", Grace: 1, SiblingBackend: true,
		Steps: []StepSpec{{Replicas: "1", Header: "canary"}, {Replicas: "2", Traffic: "50%"}, {Replicas: "100%"}}}
	// percentages that resolve to the same pod count rounded down and to different counts rounded up (25 % of 4 = 1,
	// 40 % of 4 = 1.6): a jump between them is NOT a jump between equal steps
	m["Q01j"] = &Scenario{ID: "Q01j", Kind: "CloneSet", Style: "partition", Replicas: 4,
		Steps: []StepSpec{{Replicas: "25%"}, {Replicas: "30%"}, {Replicas: "40%"}, {Replicas: "100%"}}}
	// a workload of more than 100 replicas whose last step is the absolute count 100 (not "100%": it needs approval)
	m["Q01L"] = &Scenario{ID: "Q01L", Kind: "CloneSet", Style: "partition", Replicas: 103,
		Steps: []StepSpec{{Replicas: "100"}}}
	m["Q03"] = &Scenario{ID: "Q03", Kind: "CloneSet", Style: "partition", Replicas: 3, Traffic: "gateway", Grace: 1,
		Steps: []StepSpec{{Replicas: "1", Traffic: "20%"}, {Replicas: "100%"}}}
	// a stale canary Service left behind by an earlier, interrupted rollout
	m["Q02s"] = &Scenario{ID: "Q02s", Kind: "CloneSet", Style: "partition", Replicas: 3, Traffic: "ingress", Grace: 1, StaleCanaryService: true,
		Steps: []StepSpec{{Replicas: "1", Traffic: "20%"}, {Replicas: "100%"}}}
	// a one-replica workload: a 50% step with traffic already covers every replica
	m["Q02c"] = &Scenario{ID: "Q02c", Kind: "CloneSet", Style: "partition", Replicas: 1, Traffic: "ingress", Grace: 1,
		Steps: []StepSpec{{Replicas: "50%", Traffic: "20%"}, {Replicas: "100%"}}}
	// rollback in batches (annotation on the Rollout; CloneSet, no traffic routing)
	m["Q04"] = &Scenario{ID: "Q04", Kind: "CloneSet", Style: "partition", Replicas: 3, RollbackInBatch: true,
		Steps: []StepSpec{{Replicas: "1"}, {Replicas: "2"}, {Replicas: "3"}}}
	// releases tagged with a rollout-id (pods are labelled per batch and readiness counts labels); 50% of 3 is fractional
	m["Q01r"] = &Scenario{ID: "Q01r", Kind: "CloneSet", Style: "partition", Replicas: 3, RolloutID: true,
		Steps: []StepSpec{{Replicas: "50%"}, {Replicas: "100%"}}}
	// mixed plan: an absolute step followed by percentage steps
	m["Q01c"] = &Scenario{ID: "Q01c", Kind: "CloneSet", Style: "partition", Replicas: 4,
		Steps: []StepSpec{{Replicas: "1"}, {Replicas: "50%"}, {Replicas: "100%"}}}
	// native StatefulSet, partition style (ordered update from the highest ordinal down)
	m["Q10"] = &Scenario{ID: "Q10", Kind: "StatefulSet", Style: "partition", Replicas: 3,
		Steps: []StepSpec{{Replicas: "1"}, {Replicas: "2"}, {Replicas: "3"}}}
	// Deployment canary style (extra canary Deployment) + nginx Ingress; last step covers all replicas with traffic
	m["Q05"] = &Scenario{ID: "Q05", Kind: "Deployment", Style: "canary", Replicas: 3, Traffic: "ingress", Grace: 1,
		Steps: []StepSpec{{Replicas: "1", Traffic: "20%"}, {Replicas: "3", Traffic: "50%"}}}
	// canary style on a Deployment whose own strategy is Recreate (at promotion the native controller first
	// removes every old pod, then creates the new ones)
	m["Q05r"] = &Scenario{ID: "Q05r", Kind: "Deployment", Style: "canary", Replicas: 2, Recreate: true,
		Steps: []StepSpec{{Replicas: "1"}, {Replicas: "2"}}}
	// CloneSet blue-green + nginx Ingress + HPA
	m["Q09"] = &Scenario{ID: "Q09", Kind: "CloneSet", Style: "bluegreen", Replicas: 2, Traffic: "ingress", Grace: 1, HPA: true,
		Steps: []StepSpec{{Replicas: "100%", Traffic: "0%"}, {Replicas: "100%", Traffic: "100%"}}}
	// native StatefulSet + nginx Ingress (Services are pinned through controller-revision-hash)
	m["Q10t"] = &Scenario{ID: "Q10t", Kind: "StatefulSet", Style: "partition", Replicas: 3, Traffic: "ingress", Grace: 1,
		Steps: []StepSpec{{Replicas: "1", Traffic: "20%"}, {Replicas: "2", Traffic: "50%"}, {Replicas: "3"}}}
	// Kruise Advanced DaemonSet (3 nodes), absolute steps
	m["Q11"] = &Scenario{ID: "Q11", Kind: "DaemonSet", Style: "partition", Replicas: 3,
		Steps: []StepSpec{{Replicas: "1"}, {Replicas: "2"}, {Replicas: "3"}}}
	// Advanced DaemonSet + nginx Ingress
	m["Q11t"] = &Scenario{ID: "Q11t", Kind: "DaemonSet", Style: "partition", Replicas: 3, Traffic: "ingress", Grace: 1,
		Steps: []StepSpec{{Replicas: "1", Traffic: "20%"}, {Replicas: "3"}}}
	// Deployment partition style (the repository's advanced Deployment controller drives the ReplicaSets)
	m["Q07"] = &Scenario{ID: "Q07", Kind: "Deployment", Style: "partition", Replicas: 3, MaxSurge: "20%", MaxUnavailable: "1",
		Steps: []StepSpec{{Replicas: "34%"}, {Replicas: "100%"}}}
	// canary-style Deployment whose canary pods get the label track=canary patched on (patchPodTemplateMetadata) while
	// the user's pods and the stable Service's selector say track=stable
	m["Q05p"] = &Scenario{ID: "Q05p", Kind: "Deployment", Style: "canary", Replicas: 2, Traffic: "ingress", Grace: 1, PatchPodMeta: true,
		Steps: []StepSpec{{Replicas: "1", Traffic: "20%"}, {Replicas: "2", Traffic: "50%"}}}
	// gracePeriodSeconds 0 (allowed: "no wait") on a canary-style Deployment with traffic on the first step
	m["Q05g"] = &Scenario{ID: "Q05g", Kind: "Deployment", Style: "canary", Replicas: 2, Traffic: "ingress", Grace: 0,
		Steps: []StepSpec{{Replicas: "1", Traffic: "20%"}, {Replicas: "2", Traffic: "50%"}}}
	// Deployment partition style, the user's strategy is Recreate
	m["Q07r"] = &Scenario{ID: "Q07r", Kind: "Deployment", Style: "partition", Replicas: 2, Recreate: true,
		Steps: []StepSpec{{Replicas: "1"}, {Replicas: "100%"}}}
	// Deployment partition style with a mixed plan (percentage, then absolute, then percentage)
	m["Q07m"] = &Scenario{ID: "Q07m", Kind: "Deployment", Style: "partition", Replicas: 4,
		Steps: []StepSpec{{Replicas: "25%"}, {Replicas: "3"}, {Replicas: "100%"}}}
	// Deployment blue-green + nginx Ingress
	m["Q08"] = &Scenario{ID: "Q08", Kind: "Deployment", Style: "bluegreen", Replicas: 2, Traffic: "ingress", Grace: 1, HPA: true,
		Steps: []StepSpec{{Replicas: "100%", Traffic: "0%"}, {Replicas: "100%", Traffic: "100%"}}}
	if thorough {
		m["Q01"].Replicas = 5
		m["Q01"].Steps = []StepSpec{{Replicas: "20%"}, {Replicas: "60%"}, {Replicas: "100%"}}
	}
	return m
}

// PropertyPlan says which scenarios, deviations and monitors decide a property.
type PropertyPlan struct {
	Scenarios    []string
	Actions      []string // user deviation alphabet (release and approve are always enabled)
	MaxUser      int
	Disturbances []string
	MaxDisturb   int
	FreeQueues   bool
	Monitors     func(w *World, sc *Scenario) []Monitor
	Liveness     bool
	// LiveScenarios are additionally explored with REAL queues (requeues, watch events) and judged by the
	// liveness analysis; only crash-type disturbances apply there.
	LiveScenarios []string
	// Relabel: violations of the shared monitors are reported under this property (C06 runs all of them).
	Relabel  bool
	StateCap int
	// FaultPointsPerControlState: fault points (crash after write i, error / conflict at call j) are injected at one
	// representative state per abstract control state instead of at every state (quick tier of the properties whose
	// deciding deviation is a user action; C06, the fault property itself, always injects at every state)
	FaultPointsPerControlState bool
	// NoCostActions: deviations of this plan that do not consume the user budget (combinable with one costed one)
	NoCostActions []string
}

func Plans(thorough bool) map[string]PropertyPlan {
	plans := plans0(thorough)
	if !thorough {
		for _, id := range []string{"C02", "C04", "C10", "C18"} {
			p := plans[id]
			p.FaultPointsPerControlState = true
			plans[id] = p
		}
	}
	return plans
}

func plans0(thorough bool) map[string]PropertyPlan {
	// every workload kind / style and every traffic provider built into E1; the partition-style Deployment (whose
	// advanced Deployment controller makes each transition expensive) only in the thorough tier
	c06Scenarios := []string{"Q02", "Q01b", "Q03", "Q05", "Q08", "Q09", "Q10", "Q11", "Q20", "Q22", "Q31"}
	if thorough {
		c06Scenarios = append(c06Scenarios, "Q07", "Q01r", "Q04")
	}
	capQ := 120000
	if thorough {
		capQ = 400000
	}
	u := 1
	if thorough {
		u = 2
	}
	return map[string]PropertyPlan{
		"C01": {Scenarios: []string{"Q01", "Q01b", "Q01c", "Q05", "Q07", "Q07n", "Q08", "Q09", "Q10", "Q11"}, Actions: []string{"scaleUp", "scaleDown", "editPlanInts", "editPlanLow", "editPlanMid", "editPlanMore", "jump(1)", "jump(3)", "pause", "resume"}, MaxUser: u,
			FreeQueues: true, StateCap: capQ, Monitors: func(w *World, sc *Scenario) []Monitor { return []Monitor{ExposureMonitor{}} }},
		"C02": {Scenarios: []string{"Q01", "Q01b", "Q01j", "Q01L", "Q04", "Q05", "Q08", "Q09"}, Actions: []string{"pause", "resume", "editPlanMore", "rollback", "jump(3)"}, MaxUser: u, Disturbances: []string{"crash", "midcrash"}, MaxDisturb: 1,
			FreeQueues: true, StateCap: capQ, Monitors: func(w *World, sc *Scenario) []Monitor { return []Monitor{StepMonitor{}} }},
		"C11": {Scenarios: []string{"Q01", "Q01b", "Q01r", "Q01z", "Q05", "Q05r", "Q07", "Q08", "Q09", "Q10", "Q11"}, Actions: []string{"scaleUp", "scaleDown", "editPlanMore", "degrade", "jump(1)"}, MaxUser: u,
			FreeQueues: true, StateCap: capQ, Monitors: func(w *World, sc *Scenario) []Monitor { return []Monitor{BatchStatusMonitor{}} }},
		"C03": {Scenarios: []string{"Q02", "Q02d", "Q02h", "Q03d", "Q05", "Q08", "Q09", "Q10t", "Q30"}, Actions: []string{"jump(2)", "jump(3)", "jump(1)", "editPlanMore", "scaleUp"}, MaxUser: u,
			FreeQueues: true, StateCap: capQ, Monitors: func(w *World, sc *Scenario) []Monitor { return []Monitor{TrafficOrderMonitor{}} }},
		"C04": {Scenarios: []string{"Q02", "Q02c", "Q02h", "Q02s", "Q02x", "Q03", "Q05", "Q05p", "Q08", "Q09", "Q10t", "Q30"}, Actions: []string{"rollback", "release3", "disable", "deleteRollout", "jump(2)"}, MaxUser: u, Disturbances: []string{"crash"}, MaxDisturb: 1,
			FreeQueues: true, StateCap: capQ, Monitors: func(w *World, sc *Scenario) []Monitor { return []Monitor{VoidMonitor{}} }},
		"C10": {Scenarios: []string{"Q02", "Q02h", "Q05", "Q08", "Q09", "Q09b", "Q10t"}, Actions: []string{"rollback", "release3", "jump(1)"}, NoCostActions: []string{"jump(1)"}, MaxUser: 1, Disturbances: []string{"crash", "midcrash"}, MaxDisturb: 1,
			FreeQueues: true, StateCap: capQ, Monitors: func(w *World, sc *Scenario) []Monitor { return []Monitor{RollbackOrderMonitor{}} }},
		"C05": {Scenarios: []string{"Q02", "Q01b", "Q03", "Q03s", "Q05", "Q07", "Q07r", "Q08", "Q09", "Q10", "Q10t", "Q11", "Q31"}, Actions: []string{"rollback", "release3", "disable", "deleteRollout", "editPlanMore", "deleteCanary", "deleteVS"}, MaxUser: u,
			FreeQueues: true, StateCap: capQ, Monitors: func(w *World, sc *Scenario) []Monitor { return []Monitor{&ExitMonitor{Base: CaptureBaseline(w, sc)}} }},
		"C18": {Scenarios: []string{"Q02", "Q01b", "Q05", "Q09", "Q20", "Q22", "Q30", "Q31", "Q31g"}, Actions: []string{"deleteRollout", "deleteWorkload", "deleteTR"}, MaxUser: 2, Disturbances: []string{"crash", "midcrash", "error"}, MaxDisturb: 1,
			FreeQueues: true, StateCap: capQ, Monitors: func(w *World, sc *Scenario) []Monitor {
				return []Monitor{FinalizerMonitor{Base: CaptureBaseline(w, sc)}}
			}},
		"C07": {Scenarios: []string{"Q01", "Q01b", "Q01c", "Q01r", "Q02", "Q03", "Q03h", "Q05", "Q05g", "Q05r", "Q07", "Q07m", "Q07n", "Q08", "Q09", "Q10", "Q10t", "Q11", "Q11t"}, Actions: nil, MaxUser: 0,
			FreeQueues: false, Liveness: true, StateCap: capQ, Monitors: func(w *World, sc *Scenario) []Monitor { return []Monitor{PanicMonitor{}} }},
		"C06": {Scenarios: c06Scenarios, Actions: nil, MaxUser: 0, Disturbances: []string{"crash", "midcrash", "error", "conflict"}, MaxDisturb: 1,
			FreeQueues: true, StateCap: capQ, Relabel: true, LiveScenarios: []string{"Q01b", "Q02", "Q05", "Q08", "Q09", "Q10", "Q11", "Q31"},
			Monitors: func(w *World, sc *Scenario) []Monitor {
				return []Monitor{ExposureMonitor{}, StepMonitor{}, BatchStatusMonitor{}, TrafficOrderMonitor{}, VoidMonitor{}, &ExitMonitor{Base: CaptureBaseline(w, sc)}, FinalizerMonitor{}, PanicMonitor{}, OnceMonitor{}, &DiffMonitor{S: NewDiffShared()}}
			}},
		"C09": {Scenarios: []string{"Q01", "Q01b", "Q05", "Q08"}, Actions: []string{"jump(-1)", "jump(0)", "jump(1)", "jump(2)", "jump(3)", "jump(4)", "jump(2147483647)", "dropLastStep", "switchStyle", "deleteRollout", "disable"}, MaxUser: 2,
			FreeQueues: true, StateCap: capQ, Monitors: func(w *World, sc *Scenario) []Monitor { return []Monitor{PanicMonitor{}} }},
	}
}
