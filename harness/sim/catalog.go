package sim

import (
	utilpointer "k8s.io/utils/pointer"
)

// Scenarios is the catalogue (data, not code). Quick-tier sizes are small on purpose; thorough raises them.
func Scenarios(thorough bool) map[string]*Scenario {
	d2 := utilpointer.Int32(2)
	m := map[string]*Scenario{
		// CloneSet partition style, no traffic, manual pauses
		"Q01": {ID: "Q01", Kind: "CloneSet", Style: "partition", Replicas: 4,
			Steps: []StepSpec{{Replicas: "25%"}, {Replicas: "50%"}, {Replicas: "100%"}}},
		// same with a duration pause and an int plan
		"Q01b": {ID: "Q01b", Kind: "CloneSet", Style: "partition", Replicas: 3,
			Steps: []StepSpec{{Replicas: "1", Pause: d2}, {Replicas: "3"}}},
		// CloneSet partition + nginx Ingress
		"Q02": {ID: "Q02", Kind: "CloneSet", Style: "partition", Replicas: 3, Traffic: "ingress", Grace: 1,
			Steps: []StepSpec{{Replicas: "1", Traffic: "20%"}, {Replicas: "100%"}}},
	}
	if thorough {
		m["Q01"].Replicas = 5
		m["Q01"].Steps = []StepSpec{{Replicas: "20%"}, {Replicas: "60%"}, {Replicas: "100%"}}
	}
	return m
}

// PropertyPlan says which scenarios, deviations and monitors decide a property.
type PropertyPlan struct {
	Scenarios    []string
	Actions      []string // user deviation alphabet (release and approve are always enabled)
	MaxUser      int
	Disturbances []string
	MaxDisturb   int
	FreeQueues   bool
	Monitors     func() []Monitor
	StateCap     int
}

func Plans(thorough bool) map[string]PropertyPlan {
	capQ := 60000
	if thorough {
		capQ = 1500000
	}
	u := 1
	if thorough {
		u = 2
	}
	return map[string]PropertyPlan{
		"C01": {Scenarios: []string{"Q01", "Q01b"}, Actions: []string{"scaleUp", "scaleDown", "editPlanInts", "editPlanMore", "jump(1)", "jump(3)", "pause", "resume"}, MaxUser: u,
			FreeQueues: true, StateCap: capQ, Monitors: func() []Monitor { return []Monitor{ExposureMonitor{}} }},
		"C02": {Scenarios: []string{"Q01", "Q01b"}, Actions: []string{"pause", "resume", "editPlanMore"}, MaxUser: u, Disturbances: []string{"crash", "midcrash"}, MaxDisturb: 1,
			FreeQueues: true, StateCap: capQ, Monitors: func() []Monitor { return []Monitor{StepMonitor{}} }},
		"C11": {Scenarios: []string{"Q01", "Q01b"}, Actions: []string{"scaleUp", "scaleDown", "editPlanMore", "degrade"}, MaxUser: u,
			FreeQueues: true, StateCap: capQ, Monitors: func() []Monitor { return []Monitor{BatchStatusMonitor{}} }},
		"C09": {Scenarios: []string{"Q01", "Q01b"}, Actions: []string{"jump(-1)", "jump(0)", "jump(1)", "jump(2)", "jump(3)", "jump(4)", "jump(2147483647)"}, MaxUser: 1,
			FreeQueues: true, StateCap: capQ, Monitors: func() []Monitor { return []Monitor{PanicMonitor{}} }},
	}
}
