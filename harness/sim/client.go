package sim

import (
	"bytes"
	"context"
	"encoding/json"
	"errors"
	"fmt"
	"reflect"

	apierrors "k8s.io/apimachinery/pkg/api/errors"
	"k8s.io/apimachinery/pkg/api/meta"
	"k8s.io/apimachinery/pkg/runtime"
	"k8s.io/apimachinery/pkg/runtime/schema"
	"k8s.io/apimachinery/pkg/types"
	"sigs.k8s.io/controller-runtime/pkg/client"
	"sigs.k8s.io/controller-runtime/pkg/client/apiutil"
)

// Fault describes one injected disturbance of the current transition.
type Fault struct {
	// Kind: "" none; "error" call #Index returns an InternalError; "conflict" call #Index (a write) returns
	// Conflict; "crash" the process dies right after write #Index completed (every later call fails).
	Kind  string
	Index int
}

var errCrashed = errors.New("verif: process crashed")

// Client is the client.Client handed to the real controllers. It wraps the controller-runtime fake client
// (which sits on Store) and adds: API-call counting, fault points, deterministic generateName, and the
// status-subresource flag.
type Client struct {
	inner client.WithWatch
	store *Store

	// per-transition bookkeeping
	Calls   int // API calls made (reads and writes)
	Writes  int // successful writes
	Fault   Fault
	Fired   bool // the fault was actually delivered
	crashed bool
	nameSeq *int
	// CallKinds records for each call whether it was a write (for enumerating applicable faults).
	CallKinds []bool
}

var _ client.Client = &Client{}

func (c *Client) BeginTransition(f Fault) {
	c.Calls, c.Writes, c.Fault, c.Fired, c.crashed = 0, 0, f, false, false
	c.CallKinds = c.CallKinds[:0]
}

func (c *Client) Crashed() bool { return c.crashed }

// pre is called before every API call. It returns an error to inject instead of performing the call.
func (c *Client) pre(isWrite bool, gr schema.GroupResource, name string) error {
	if c.crashed {
		return errCrashed
	}
	c.Calls++
	c.CallKinds = append(c.CallKinds, isWrite)
	switch c.Fault.Kind {
	case "error":
		if c.Calls == c.Fault.Index {
			c.Fired = true
			return apierrors.NewInternalError(fmt.Errorf("verif: injected API error at call %d", c.Calls))
		}
	case "conflict":
		if c.Calls == c.Fault.Index && isWrite {
			c.Fired = true
			return apierrors.NewConflict(gr, name, errors.New("verif: injected conflict"))
		}
	}
	return nil
}

func (c *Client) post(isWrite bool, err error) {
	if isWrite && err == nil {
		c.Writes++
		if c.Fault.Kind == "crash" && c.Writes == c.Fault.Index {
			c.Fired = true
			c.crashed = true
		}
	}
}

func (c *Client) gr(obj runtime.Object) schema.GroupResource {
	gvr, err := c.store.gvrOf(obj)
	if err != nil {
		return schema.GroupResource{}
	}
	return gvr.GroupResource()
}

func (c *Client) Get(ctx context.Context, key client.ObjectKey, obj client.Object, opts ...client.GetOption) error {
	if err := c.pre(false, c.gr(obj), key.Name); err != nil {
		return err
	}
	if handled, err := c.fastGet(key, obj); handled {
		return err
	}
	return c.inner.Get(ctx, key, obj, opts...)
}

func (c *Client) List(ctx context.Context, list client.ObjectList, opts ...client.ListOption) error {
	if err := c.pre(false, schema.GroupResource{}, ""); err != nil {
		return err
	}
	if handled, err := c.fastList(list, opts); handled {
		return err
	}
	return c.inner.List(ctx, list, opts...)
}

func (c *Client) Create(ctx context.Context, obj client.Object, opts ...client.CreateOption) error {
	if err := c.pre(true, c.gr(obj), obj.GetName()); err != nil {
		return err
	}
	if obj.GetName() == "" && obj.GetGenerateName() != "" {
		*c.nameSeq++
		obj.SetName(fmt.Sprintf("%s%05d", obj.GetGenerateName(), *c.nameSeq))
	}
	before := len(c.store.Log)
	err := c.inner.Create(ctx, obj, opts...)
	c.post(len(c.store.Log) > before || err == nil, err)
	return err
}

func (c *Client) Delete(ctx context.Context, obj client.Object, opts ...client.DeleteOption) error {
	if err := c.pre(true, c.gr(obj), obj.GetName()); err != nil {
		return err
	}
	err := c.inner.Delete(ctx, obj, opts...)
	c.post(true, err)
	return err
}

func (c *Client) Update(ctx context.Context, obj client.Object, opts ...client.UpdateOption) error {
	if err := c.pre(true, c.gr(obj), obj.GetName()); err != nil {
		return err
	}
	err := c.inner.Update(ctx, obj, opts...)
	c.post(true, err)
	return err
}

func (c *Client) Patch(ctx context.Context, obj client.Object, patch client.Patch, opts ...client.PatchOption) error {
	if err := c.pre(true, c.gr(obj), obj.GetName()); err != nil {
		return err
	}
	if c.noopLabelPatch(obj, patch) {
		// the API server would answer with the unchanged object and emit no event
		c.post(true, nil)
		return nil
	}
	err := c.inner.Patch(ctx, obj, patch, opts...)
	c.post(true, err)
	return err
}

// noopLabelPatch recognises a merge patch that only sets metadata labels which the stored (typed) object already
// carries with the same values (the Rollout controller sends one on every reconcile): the result is the stored
// object, unchanged, which is what the fake client would produce after a JSON round trip.
func (c *Client) noopLabelPatch(obj client.Object, patch client.Patch) bool {
	if patch.Type() != types.MergePatchType {
		return false
	}
	data, err := patch.Data(obj)
	if err != nil || len(data) > 256 {
		return false
	}
	var body struct {
		Metadata struct {
			Labels map[string]string `json:"labels"`
		} `json:"metadata"`
	}
	dec := json.NewDecoder(bytes.NewReader(data))
	dec.DisallowUnknownFields()
	if dec.Decode(&body) != nil || len(body.Metadata.Labels) == 0 {
		return false
	}
	// only {"metadata":{"labels":{...}}} survives DisallowUnknownFields on this shape
	var generic map[string]map[string]json.RawMessage
	if json.Unmarshal(data, &generic) != nil || len(generic) != 1 || len(generic["metadata"]) != 1 {
		return false
	}
	gvk, err := apiutil.GVKForObject(obj, c.store.scheme)
	if err != nil {
		return false
	}
	gvr, _ := meta.UnsafeGuessKindToResource(gvk)
	stored, ok := c.store.objs[ObjKey{gvr, obj.GetNamespace(), obj.GetName()}]
	if !ok || reflect.TypeOf(stored) != reflect.TypeOf(obj) {
		return false
	}
	have := accessor(stored).GetLabels()
	for k, v := range body.Metadata.Labels {
		if have[k] != v {
			return false
		}
	}
	cp := stored.DeepCopyObject()
	reflect.ValueOf(obj).Elem().Set(reflect.ValueOf(cp).Elem())
	obj.GetObjectKind().SetGroupVersionKind(gvk)
	return true
}

func (c *Client) DeleteAllOf(ctx context.Context, obj client.Object, opts ...client.DeleteAllOfOption) error {
	if err := c.pre(true, c.gr(obj), ""); err != nil {
		return err
	}
	err := c.inner.DeleteAllOf(ctx, obj, opts...)
	c.post(true, err)
	return err
}

func (c *Client) Status() client.SubResourceWriter { return &statusWriter{c} }

func (c *Client) SubResource(subResource string) client.SubResourceClient {
	if subResource == "status" {
		return &statusWriter{c}
	}
	return c.inner.SubResource(subResource)
}

func (c *Client) Scheme() *runtime.Scheme     { return c.inner.Scheme() }
func (c *Client) RESTMapper() meta.RESTMapper { return c.inner.RESTMapper() }

type statusWriter struct{ c *Client }

func (s *statusWriter) Get(ctx context.Context, obj, sub client.Object, opts ...client.SubResourceGetOption) error {
	return errors.New("verif: subresource get not supported")
}

func (s *statusWriter) Create(ctx context.Context, obj, sub client.Object, opts ...client.SubResourceCreateOption) error {
	return errors.New("verif: subresource create not supported")
}

func (s *statusWriter) Update(ctx context.Context, obj client.Object, opts ...client.SubResourceUpdateOption) error {
	c := s.c
	if err := c.pre(true, c.gr(obj), obj.GetName()); err != nil {
		return err
	}
	c.store.StatusWrite = true
	err := c.inner.Status().Update(ctx, obj, opts...)
	c.store.StatusWrite = false
	c.post(true, err)
	return err
}

func (s *statusWriter) Patch(ctx context.Context, obj client.Object, patch client.Patch, opts ...client.SubResourcePatchOption) error {
	c := s.c
	if err := c.pre(true, c.gr(obj), obj.GetName()); err != nil {
		return err
	}
	c.store.StatusWrite = true
	err := c.inner.Status().Patch(ctx, obj, patch, opts...)
	c.store.StatusWrite = false
	c.post(true, err)
	return err
}
