package sim

import (
	"errors"
	"strconv"

	deployctl "github.com/openkruise/rollouts/pkg/controller/deployment"
	appsv1 "k8s.io/api/apps/v1"
	apierrors "k8s.io/apimachinery/pkg/api/errors"
	"k8s.io/apimachinery/pkg/api/meta"
	"k8s.io/apimachinery/pkg/runtime"
	"k8s.io/apimachinery/pkg/runtime/schema"
	k8sfake "k8s.io/client-go/kubernetes/fake"
	appslisters "k8s.io/client-go/listers/apps/v1"
	clienttesting "k8s.io/client-go/testing"
	toolscache "k8s.io/client-go/tools/cache"
	"sigs.k8s.io/controller-runtime/pkg/manager"
)

// rvTracker gives the typed clientset the same optimistic-concurrency behaviour the controller-runtime
// fake client's versionedTracker gives: resourceVersion checked (when set) and bumped on update.
type rvTracker struct {
	*Store
	w *World
}

func (t rvTracker) Create(gvr schema.GroupVersionResource, obj runtime.Object, ns string) error {
	if err := t.w.Client.pre(true, gvr.GroupResource(), accessor(obj).GetName()); err != nil {
		return err
	}
	err := t.Store.Create(gvr, obj, ns)
	t.w.Client.post(true, err)
	return err
}

func (t rvTracker) Update(gvr schema.GroupVersionResource, obj runtime.Object, ns string) error {
	acc := accessor(obj)
	if err := t.w.Client.pre(true, gvr.GroupResource(), acc.GetName()); err != nil {
		return err
	}
	old, err := t.Store.Get(gvr, ns, acc.GetName())
	if err != nil {
		return err
	}
	oldRV := accessor(old).GetResourceVersion()
	if acc.GetResourceVersion() != "" && acc.GetResourceVersion() != oldRV {
		return apierrors.NewConflict(gvr.GroupResource(), acc.GetName(), errors.New("object was modified"))
	}
	n, _ := strconv.ParseUint(oldRV, 10, 64)
	acc.SetResourceVersion(strconv.FormatUint(n+1, 10))
	err = t.Store.Update(gvr, obj, ns)
	t.w.Client.post(true, err)
	return err
}

func (t rvTracker) Delete(gvr schema.GroupVersionResource, ns, name string) error {
	if err := t.w.Client.pre(true, gvr.GroupResource(), name); err != nil {
		return err
	}
	err := t.Store.Delete(gvr, ns, name)
	t.w.Client.post(true, err)
	return err
}

func (t rvTracker) Get(gvr schema.GroupVersionResource, ns, name string) (runtime.Object, error) {
	return t.Store.Get(gvr, ns, name)
}

// deployWiring holds the informer-indexers the advanced Deployment controller's listers read.
type deployWiring struct {
	dIndexer, rsIndexer toolscache.Indexer
	Reconciler          *deployctl.ReconcileDeployment
}

var Deploy *deployWiring

func setupDeploymentController(w *World, mgr manager.Manager) error {
	kube := &k8sfake.Clientset{}
	tracker := rvTracker{Store: w.Store, w: w}
	reaction := clienttesting.ObjectReaction(tracker)
	kube.AddReactor("*", "*", func(action clienttesting.Action) (bool, runtime.Object, error) {
		// UpdateStatus arrives as an update action with subresource "status"
		if action.GetSubresource() == "status" {
			w.Store.StatusWrite = true
			defer func() { w.Store.StatusWrite = false }()
		}
		return reaction(action)
	})
	dw := &deployWiring{
		dIndexer:  toolscache.NewIndexer(toolscache.MetaNamespaceKeyFunc, toolscache.Indexers{toolscache.NamespaceIndex: toolscache.MetaNamespaceIndexFunc}),
		rsIndexer: toolscache.NewIndexer(toolscache.MetaNamespaceKeyFunc, toolscache.Indexers{toolscache.NamespaceIndex: toolscache.MetaNamespaceIndexFunc}),
	}
	dw.Reconciler = deployctl.VerifNewReconciler(w.Client, kube, appslisters.NewDeploymentLister(dw.dIndexer), appslisters.NewReplicaSetLister(dw.rsIndexer), drainRecorder{})
	Deploy = dw
	return deployctl.VerifAdd(mgr, dw.Reconciler)
}

// SyncListers refreshes the lister indexers from the store (the informer cache without lag).
func (w *World) SyncListers() {
	if Deploy == nil {
		return
	}
	fill := func(ix toolscache.Indexer, resource string) {
		var objs []interface{}
		for _, o := range w.Store.PeekAll(resource) {
			c := o.DeepCopyObject()
			objs = append(objs, c)
		}
		_ = ix.Replace(objs, "")
	}
	fill(Deploy.dIndexer, "deployments")
	fill(Deploy.rsIndexer, "replicasets")
}

var _ = meta.Accessor
var _ = appsv1.SchemeGroupVersion
