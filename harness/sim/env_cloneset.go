package sim

import (
	"context"
	"fmt"
	"sort"
	"strings"

	kruiseappsv1alpha1 "github.com/openkruise/kruise-api/apps/v1alpha1"
	apps "k8s.io/api/apps/v1"
	corev1 "k8s.io/api/core/v1"
	metav1 "k8s.io/apimachinery/pkg/apis/meta/v1"
	"k8s.io/apimachinery/pkg/util/intstr"
	"sigs.k8s.io/controller-runtime/pkg/client"
)

// Reference model of the Kruise CloneSet controller (NOT repository code; trusted base). One unit of work
// per step so that controller reconciles interleave with partial progress:
//
//	observe     status := f(spec, pods)   (observedGeneration, revisions, counters, promotion)
//	update      one pod of an old revision is moved to the update revision (becomes not ready)
//	ready       one not-ready pod becomes ready
//	create      one missing pod is created (scale up / surge)
//	delete      one surplus pod is deleted (scale down)
//
// Semantics taken from the Kruise documentation: at most replicas - ceil(partition) pods are on the
// update revision (percent partitions round UP); `paused` freezes updates (not scaling); currentRevision is
// promoted to updateRevision once every pod is updated and ready. Pod choice is deterministic (lowest
// index first) which is a symmetry reduction: pods of one revision and readiness are interchangeable.
type CloneSetEnv struct {
	NS, CSName string
}

func (e *CloneSetEnv) Name() string { return "env.cloneset/" + e.CSName }

// RevisionOf names the revision of a pod template deterministically from its first container image:
// "<workload>-<tag>"; the short hash is the part after the last '-'.
func RevisionOf(workload string, tpl *corev1.PodTemplateSpec) string {
	img := "none"
	if len(tpl.Spec.Containers) > 0 {
		img = tpl.Spec.Containers[0].Image
	}
	if i := strings.LastIndex(img, ":"); i >= 0 {
		img = img[i+1:]
	}
	img = strings.ReplaceAll(img, "-", "")
	return workload + "-" + img
}

func shortHash(rev string) string { return rev[strings.LastIndex(rev, "-")+1:] }

func isPodReady(p *corev1.Pod) bool {
	for _, c := range p.Status.Conditions {
		if c.Type == corev1.PodReady {
			return c.Status == corev1.ConditionTrue
		}
	}
	return false
}

func setPodReady(p *corev1.Pod, ready bool) {
	st := corev1.ConditionFalse
	if ready {
		st = corev1.ConditionTrue
	}
	p.Status.Phase = corev1.PodRunning
	p.Status.Conditions = []corev1.PodCondition{{Type: corev1.PodReady, Status: st}}
}

func (e *CloneSetEnv) load(w *World) (*kruiseappsv1alpha1.CloneSet, []*corev1.Pod) {
	cs := &kruiseappsv1alpha1.CloneSet{}
	if !w.Get(cs, e.NS, e.CSName) {
		return nil, nil
	}
	return cs, ownedPods(w, e.NS, cs.UID)
}

func ownedPods(w *World, ns string, owner interface{}) []*corev1.Pod {
	var pods []*corev1.Pod
	for _, o := range w.Store.PeekAll("pods") {
		p := o.(*corev1.Pod)
		if p.Namespace != ns {
			continue
		}
		for _, ref := range p.OwnerReferences {
			if fmt.Sprint(ref.UID) == fmt.Sprint(owner) {
				pods = append(pods, p.DeepCopy())
			}
		}
	}
	sort.Slice(pods, func(i, j int) bool { return pods[i].Name < pods[j].Name })
	return pods
}

func podRev(p *corev1.Pod) string { return p.Labels[apps.ControllerRevisionHashLabelKey] }

func ceilPartition(p *intstr.IntOrString, replicas int) int {
	if p == nil {
		return 0
	}
	v, _ := intstr.GetScaledValueFromIntOrPercent(p, replicas, true)
	if v < 0 {
		v = 0
	}
	if v > replicas {
		v = replicas
	}
	return v
}

func (e *CloneSetEnv) desiredStatus(cs *kruiseappsv1alpha1.CloneSet, pods []*corev1.Pod) kruiseappsv1alpha1.CloneSetStatus {
	st := *cs.Status.DeepCopy()
	st.ObservedGeneration = cs.Generation
	st.UpdateRevision = RevisionOf(cs.Name, &cs.Spec.Template)
	if st.CurrentRevision == "" {
		st.CurrentRevision = st.UpdateRevision
	}
	st.Replicas, st.ReadyReplicas, st.AvailableReplicas = 0, 0, 0
	st.UpdatedReplicas, st.UpdatedReadyReplicas = 0, 0
	for _, p := range pods {
		st.Replicas++
		ready := isPodReady(p)
		avail := ready && cs.Spec.MinReadySeconds < 1000000
		if ready {
			st.ReadyReplicas++
		}
		if avail {
			st.AvailableReplicas++
		}
		if podRev(p) == st.UpdateRevision {
			st.UpdatedReplicas++
			if ready {
				st.UpdatedReadyReplicas++
			}
		}
	}
	replicas := int(*cs.Spec.Replicas)
	st.ExpectedUpdatedReplicas = int32(replicas - ceilPartition(cs.Spec.UpdateStrategy.Partition, replicas))
	if st.UpdatedReplicas == st.Replicas && st.UpdatedReadyReplicas >= st.Replicas && int(st.Replicas) == replicas {
		st.CurrentRevision = st.UpdateRevision
	}
	st.LabelSelector = metav1.FormatLabelSelector(cs.Spec.Selector)
	return st
}

func (e *CloneSetEnv) Steps(w *World) []string {
	cs, pods := e.load(w)
	if cs == nil || cs.DeletionTimestamp != nil {
		return nil
	}
	var out []string
	want := e.desiredStatus(cs, pods)
	if !statusEqual(cs.Status, want) {
		out = append(out, "observe")
	}
	replicas := int(*cs.Spec.Replicas)
	updRev := RevisionOf(cs.Name, &cs.Spec.Template)
	updated, notReady := 0, 0
	for _, p := range pods {
		if podRev(p) == updRev {
			updated++
		}
		if !isPodReady(p) && p.Annotations["verif/degraded"] == "" {
			notReady++
		}
	}
	surge := e.surge(cs, pods)
	if len(pods) < replicas+surge {
		out = append(out, "create")
	}
	if len(pods) > replicas+surge {
		out = append(out, "delete")
	}
	allowed := replicas - ceilPartition(cs.Spec.UpdateStrategy.Partition, replicas)
	if !cs.Spec.UpdateStrategy.Paused && updated < allowed && updated < len(pods) && surge == 0 && cs.Status.ObservedGeneration == cs.Generation {
		out = append(out, "update")
	}
	if notReady > 0 {
		out = append(out, "ready")
	}
	return out
}

// surge is the number of extra pods the blue-green mode asks for (maxSurge while minReadySeconds is "infinite").
// Kruise creates up to maxSurge extra pods of the update revision for the pods that still have to be updated and
// removes an old pod for every new one that became available; while minReadySeconds is "infinite" (blue-green
// hold) no new pod ever becomes available, so old and new pods coexist.
func (e *CloneSetEnv) surge(cs *kruiseappsv1alpha1.CloneSet, pods []*corev1.Pod) int {
	if cs.Spec.UpdateStrategy.MaxSurge == nil || cs.Spec.UpdateStrategy.Paused {
		return 0
	}
	replicas := int(*cs.Spec.Replicas)
	s, _ := intstr.GetScaledValueFromIntOrPercent(cs.Spec.UpdateStrategy.MaxSurge, replicas, true)
	allowed := replicas - ceilPartition(cs.Spec.UpdateStrategy.Partition, replicas)
	updRev := RevisionOf(cs.Name, &cs.Spec.Template)
	old, updated := 0, 0
	for _, o := range pods {
		if podRev(o) != updRev {
			old++
		} else {
			updated++
		}
	}
	if s > old {
		s = old
	}
	if s > allowed {
		s = allowed
	}
	if s < 0 {
		s = 0
	}
	return s
}

func statusEqual(a, b kruiseappsv1alpha1.CloneSetStatus) bool {
	return a.ObservedGeneration == b.ObservedGeneration && a.Replicas == b.Replicas && a.ReadyReplicas == b.ReadyReplicas &&
		a.AvailableReplicas == b.AvailableReplicas && a.UpdatedReplicas == b.UpdatedReplicas && a.UpdatedReadyReplicas == b.UpdatedReadyReplicas &&
		a.UpdateRevision == b.UpdateRevision && a.CurrentRevision == b.CurrentRevision &&
		a.ExpectedUpdatedReplicas == b.ExpectedUpdatedReplicas
}

// Do performs the unit step; pod steps also refresh the status counters in the same transition (the real
// controller writes its status at the end of every sync), while observing a new generation / revision is a
// step of its own so that the window "generation != observedGeneration" stays visible to the controllers.
func (e *CloneSetEnv) Do(w *World, label string) error {
	if err := e.do(w, label); err != nil {
		return err
	}
	if label == "observe" {
		return nil
	}
	cs, pods := e.load(w)
	if cs == nil || cs.Status.ObservedGeneration != cs.Generation || cs.Status.UpdateRevision != RevisionOf(cs.Name, &cs.Spec.Template) {
		return nil
	}
	want := e.desiredStatus(cs, pods)
	if statusEqual(cs.Status, want) {
		return nil
	}
	cs.Status = want
	return w.Raw.Status().Update(context.TODO(), cs)
}

func (e *CloneSetEnv) do(w *World, label string) error {
	cs, pods := e.load(w)
	if cs == nil {
		return fmt.Errorf("cloneset gone")
	}
	ctx := context.TODO()
	updRev := RevisionOf(cs.Name, &cs.Spec.Template)
	switch label {
	case "observe":
		cs.Status = e.desiredStatus(cs, pods)
		return w.Raw.Status().Update(ctx, cs)
	case "update":
		for _, p := range pods {
			if podRev(p) != updRev {
				setPodRevision(p, updRev)
				setPodReady(p, false)
				return w.Raw.Update(ctx, p)
			}
		}
	case "ready":
		for _, p := range pods {
			if !isPodReady(p) && p.Annotations["verif/degraded"] == "" {
				setPodReady(p, true)
				return w.Raw.Update(ctx, p)
			}
		}
	case "create":
		replicas := int(*cs.Spec.Replicas)
		updated := 0
		used := map[string]bool{}
		for _, p := range pods {
			used[p.Name] = true
			if podRev(p) == updRev {
				updated++
			}
		}
		rev := cs.Status.CurrentRevision
		if rev == "" || updated < replicas-ceilPartition(cs.Spec.UpdateStrategy.Partition, replicas) {
			rev = updRev
		}
		for i := 0; ; i++ {
			name := fmt.Sprintf("%s-%d", cs.Name, i)
			if !used[name] {
				return w.Raw.Create(ctx, NewPod(cs.Namespace, name, cs.Spec.Template.Labels, rev, ownerRef(cs, "CloneSet", kruiseappsv1alpha1.SchemeGroupVersion.String()), false))
			}
		}
	case "delete":
		replicas := int(*cs.Spec.Replicas)
		keepOld := ceilPartition(cs.Spec.UpdateStrategy.Partition, replicas)
		old := 0
		for _, p := range pods {
			if podRev(p) != updRev {
				old++
			}
		}
		var victim *corev1.Pod
		for _, p := range pods { // not-ready first
			if !isPodReady(p) {
				victim = p
				break
			}
		}
		if victim == nil {
			for i := len(pods) - 1; i >= 0; i-- {
				p := pods[i]
				isOld := podRev(p) != updRev
				if (isOld && old > keepOld) || (!isOld && old <= keepOld) {
					victim = p
					break
				}
			}
		}
		if victim == nil {
			victim = pods[len(pods)-1]
		}
		return w.Raw.Delete(ctx, victim)
	}
	return fmt.Errorf("env.cloneset: step %q not applicable", label)
}

func setPodRevision(p *corev1.Pod, rev string) {
	if p.Labels == nil {
		p.Labels = map[string]string{}
	}
	p.Labels[apps.ControllerRevisionHashLabelKey] = rev
	p.Labels[apps.DefaultDeploymentUniqueLabelKey] = shortHash(rev)
}

func ownerRef(o client.Object, kind, apiVersion string) metav1.OwnerReference {
	t := true
	return metav1.OwnerReference{APIVersion: apiVersion, Kind: kind, Name: o.GetName(), UID: o.GetUID(), Controller: &t, BlockOwnerDeletion: &t}
}

// NewPod builds a pod of the given revision owned by owner.
func NewPod(ns, name string, tplLabels map[string]string, rev string, owner metav1.OwnerReference, ready bool) *corev1.Pod {
	p := &corev1.Pod{ObjectMeta: metav1.ObjectMeta{Namespace: ns, Name: name, Labels: map[string]string{}, OwnerReferences: []metav1.OwnerReference{owner}}}
	for k, v := range tplLabels {
		p.Labels[k] = v
	}
	setPodRevision(p, rev)
	setPodReady(p, ready)
	p.Spec.Containers = []corev1.Container{{Name: "main", Image: "app:" + shortHash(rev)}}
	return p
}
