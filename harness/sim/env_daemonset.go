package sim

import (
	"context"
	"fmt"
	"sort"
	"strconv"
	"strings"

	kruiseappsv1alpha1 "github.com/openkruise/kruise-api/apps/v1alpha1"
	corev1 "k8s.io/api/core/v1"
)

// Reference model of the Kruise Advanced DaemonSet controller (NOT repository code; trusted base), RollingUpdate
// with spec.updateStrategy.rollingUpdate.{partition, paused, maxUnavailable=1}: one pod per node (the scenario's
// replica count is the number of nodes; "demo-n<i>" runs on node i), `partition` pods are kept on the old revision,
// the others are moved to the update revision one at a time (the next one only when every pod is ready), highest
// node index first. Status carries what the repository reads: desiredNumberScheduled, currentNumberScheduled,
// updatedNumberScheduled, numberReady, numberAvailable, daemonSetHash ("<name>-<image tag>"), observedGeneration.
// Pods carry the revision in controller-revision-hash.
type DaemonSetEnv struct {
	NS, DS string
	Nodes  int
}

func (e *DaemonSetEnv) Name() string { return "env.ds/" + e.DS }

func dsPartition(d *kruiseappsv1alpha1.DaemonSet) int {
	if ru := d.Spec.UpdateStrategy.RollingUpdate; ru != nil && ru.Partition != nil {
		return int(*ru.Partition)
	}
	return 0
}

func dsPaused(d *kruiseappsv1alpha1.DaemonSet) bool {
	ru := d.Spec.UpdateStrategy.RollingUpdate
	return ru != nil && ru.Paused != nil && *ru.Paused
}

func nodeOf(p *corev1.Pod) int {
	n, _ := strconv.Atoi(p.Name[strings.LastIndex(p.Name, "-n")+2:])
	return n
}

func (e *DaemonSetEnv) load(w *World) (*kruiseappsv1alpha1.DaemonSet, []*corev1.Pod) {
	d := &kruiseappsv1alpha1.DaemonSet{}
	if !w.Get(d, e.NS, e.DS) {
		return nil, nil
	}
	pods := ownedPods(w, e.NS, d.UID)
	sort.Slice(pods, func(i, j int) bool { return nodeOf(pods[i]) < nodeOf(pods[j]) })
	return d, pods
}

func (e *DaemonSetEnv) desiredStatus(d *kruiseappsv1alpha1.DaemonSet, pods []*corev1.Pod) kruiseappsv1alpha1.DaemonSetStatus {
	st := *d.Status.DeepCopy()
	st.ObservedGeneration = d.Generation
	st.DaemonSetHash = RevisionOf(d.Name, &d.Spec.Template)
	st.DesiredNumberScheduled = int32(e.Nodes)
	st.CurrentNumberScheduled, st.NumberReady, st.NumberAvailable, st.UpdatedNumberScheduled, st.NumberUnavailable = 0, 0, 0, 0, 0
	for _, p := range pods {
		st.CurrentNumberScheduled++
		if isPodReady(p) {
			st.NumberReady++
			st.NumberAvailable++
		}
		if podRev(p) == st.DaemonSetHash {
			st.UpdatedNumberScheduled++
		}
	}
	st.NumberUnavailable = st.DesiredNumberScheduled - st.NumberAvailable
	return st
}

func dsStatusEqual(a, b kruiseappsv1alpha1.DaemonSetStatus) bool {
	return a.ObservedGeneration == b.ObservedGeneration && a.DaemonSetHash == b.DaemonSetHash && a.DesiredNumberScheduled == b.DesiredNumberScheduled &&
		a.CurrentNumberScheduled == b.CurrentNumberScheduled && a.NumberReady == b.NumberReady && a.NumberAvailable == b.NumberAvailable &&
		a.UpdatedNumberScheduled == b.UpdatedNumberScheduled
}

// nextToUpdate: with every pod ready and more old pods than the partition keeps, the old pod on the highest node.
func (e *DaemonSetEnv) nextToUpdate(d *kruiseappsv1alpha1.DaemonSet, pods []*corev1.Pod) *corev1.Pod {
	if dsPaused(d) {
		return nil
	}
	upd := RevisionOf(d.Name, &d.Spec.Template)
	old := 0
	for _, p := range pods {
		if !isPodReady(p) {
			return nil
		}
		if podRev(p) != upd {
			old++
		}
	}
	if old <= dsPartition(d) {
		return nil
	}
	for i := len(pods) - 1; i >= 0; i-- {
		if podRev(pods[i]) != upd {
			return pods[i]
		}
	}
	return nil
}

func (e *DaemonSetEnv) Steps(w *World) []string {
	d, pods := e.load(w)
	if d == nil || d.DeletionTimestamp != nil {
		return nil
	}
	var out []string
	if !dsStatusEqual(d.Status, e.desiredStatus(d, pods)) {
		out = append(out, "observe")
	}
	if len(pods) < e.Nodes {
		out = append(out, "create")
	}
	if d.Status.ObservedGeneration == d.Generation && len(pods) == e.Nodes && e.nextToUpdate(d, pods) != nil {
		out = append(out, "update")
	}
	for _, p := range pods {
		if !isPodReady(p) && p.Annotations["verif/degraded"] == "" {
			out = append(out, "ready")
			break
		}
	}
	return out
}

func (e *DaemonSetEnv) Do(w *World, label string) error {
	ctx := context.TODO()
	d, pods := e.load(w)
	if d == nil {
		return fmt.Errorf("daemonset gone")
	}
	upd := RevisionOf(d.Name, &d.Spec.Template)
	switch label {
	case "observe":
		d.Status = e.desiredStatus(d, pods)
		return w.Raw.Status().Update(ctx, d)
	case "update":
		p := e.nextToUpdate(d, pods)
		if p == nil {
			return fmt.Errorf("nothing to update")
		}
		p = p.DeepCopy()
		setPodRevision(p, upd)
		setPodReady(p, false)
		if err := w.Raw.Update(ctx, p); err != nil {
			return err
		}
	case "ready":
		for _, p := range pods {
			if !isPodReady(p) && p.Annotations["verif/degraded"] == "" {
				p = p.DeepCopy()
				setPodReady(p, true)
				if err := w.Raw.Update(ctx, p); err != nil {
					return err
				}
				break
			}
		}
	case "create":
		used := map[int]bool{}
		for _, p := range pods {
			used[nodeOf(p)] = true
		}
		for i := 0; i < e.Nodes; i++ {
			if !used[i] {
				p := NewPod(d.Namespace, fmt.Sprintf("%s-n%d", d.Name, i), d.Spec.Template.Labels, upd, ownerRef(d, "DaemonSet", kruiseappsv1alpha1.SchemeGroupVersion.String()), false)
				if err := w.Raw.Create(ctx, p); err != nil {
					return err
				}
				break
			}
		}
	default:
		return fmt.Errorf("env.ds: unknown step %q", label)
	}
	// status catches up in the same transition (except observing a new generation)
	d, pods = e.load(w)
	if d == nil || d.Status.ObservedGeneration != d.Generation || d.Status.DaemonSetHash != upd {
		return nil
	}
	if want := e.desiredStatus(d, pods); !dsStatusEqual(d.Status, want) {
		d.Status = want
		return w.Raw.Status().Update(ctx, d)
	}
	return nil
}
