package sim

import (
	"context"
	"fmt"
	"sort"
	"strconv"

	"github.com/openkruise/rollouts/pkg/util"
	apps "k8s.io/api/apps/v1"
	corev1 "k8s.io/api/core/v1"
	metav1 "k8s.io/apimachinery/pkg/apis/meta/v1"
	"k8s.io/apimachinery/pkg/util/intstr"
	utilpointer "k8s.io/utils/pointer"
)

// Reference models of the native Deployment controller and of the ReplicaSet controller / kubelet (NOT
// repository code; trusted base). One unit of work per step.
//
// Deployment controller (per Deployment, documented kube-controller-manager behaviour):
//
//	observe        status := f(spec, ReplicaSets)
//	newrs          create the ReplicaSet of the current template (pod-template-hash computed with the same
//	               ComputeHash the repository uses for its comparisons), unless paused
//	up             RollingUpdate: new RS +1 while total < replicas + maxSurge and new < replicas
//	down           RollingUpdate: an old RS -1 while doing so keeps available >= replicas - maxUnavailable
//	               (unavailable old pods can always go); Recreate: old RSs to 0 before the new RS scales
//	paused         no rollout at all; the advanced Deployment controller of the repository drives the
//	               ReplicaSets of partition-style Deployments instead
//
// ReplicaSet controller / kubelet (per ReplicaSet): create / delete one pod towards spec.replicas (delete
// not-ready pods first), one pod becomes ready; a pod is available iff ready and minReadySeconds is not
// "infinite" (blue-green sets it to MaxInt32 so that new pods never become available).
type DeploymentEnv struct{ NS string }

func (e *DeploymentEnv) Name() string { return "env.deploy" }

const infiniteReadySeconds = 1_000_000

func (e *DeploymentEnv) deployments(w *World) []*apps.Deployment {
	var out []*apps.Deployment
	for _, o := range w.Store.PeekAll("deployments") {
		d := o.(*apps.Deployment)
		if d.Namespace == e.NS {
			out = append(out, d)
		}
	}
	return out
}

func (e *DeploymentEnv) replicaSets(w *World) []*apps.ReplicaSet {
	var out []*apps.ReplicaSet
	for _, o := range w.Store.PeekAll("replicasets") {
		rs := o.(*apps.ReplicaSet)
		if rs.Namespace == e.NS {
			out = append(out, rs)
		}
	}
	return out
}

func ownedRS(d *apps.Deployment, all []*apps.ReplicaSet) []*apps.ReplicaSet {
	var out []*apps.ReplicaSet
	for _, rs := range all {
		if ref := metav1.GetControllerOf(rs); ref != nil && ref.UID == d.UID && rs.DeletionTimestamp == nil {
			out = append(out, rs)
		}
	}
	sort.Slice(out, func(i, j int) bool { return out[i].Name < out[j].Name })
	return out
}

func templateHash(d *apps.Deployment) string { return util.ComputeHash(&d.Spec.Template, nil) }

func newRSOf(d *apps.Deployment, rss []*apps.ReplicaSet) *apps.ReplicaSet {
	h := templateHash(d)
	for _, rs := range rss {
		if rs.Labels[apps.DefaultDeploymentUniqueLabelKey] == h {
			return rs
		}
	}
	return nil
}

func rsPods(w *World, rs *apps.ReplicaSet) []*corev1.Pod { return ownedPods(w, rs.Namespace, rs.UID) }

func podAvailable(p *corev1.Pod, minReady int32) bool {
	return isPodReady(p) && minReady < infiniteReadySeconds
}

func desiredRSStatus(w *World, rs *apps.ReplicaSet) apps.ReplicaSetStatus {
	st := apps.ReplicaSetStatus{ObservedGeneration: rs.Generation}
	for _, p := range rsPods(w, rs) {
		st.Replicas++
		st.FullyLabeledReplicas++
		if isPodReady(p) {
			st.ReadyReplicas++
		}
		if podAvailable(p, rs.Spec.MinReadySeconds) {
			st.AvailableReplicas++
		}
	}
	return st
}

func rsStatusEqual(a, b apps.ReplicaSetStatus) bool {
	return a.ObservedGeneration == b.ObservedGeneration && a.Replicas == b.Replicas && a.ReadyReplicas == b.ReadyReplicas && a.AvailableReplicas == b.AvailableReplicas
}

func desiredDeployStatus(d *apps.Deployment, rss []*apps.ReplicaSet) apps.DeploymentStatus {
	st := *d.Status.DeepCopy()
	st.ObservedGeneration = d.Generation
	st.Replicas, st.UpdatedReplicas, st.ReadyReplicas, st.AvailableReplicas, st.UnavailableReplicas = 0, 0, 0, 0, 0
	nrs := newRSOf(d, rss)
	for _, rs := range rss {
		st.Replicas += rs.Status.Replicas
		st.ReadyReplicas += rs.Status.ReadyReplicas
		st.AvailableReplicas += rs.Status.AvailableReplicas
	}
	if nrs != nil {
		st.UpdatedReplicas = nrs.Status.Replicas
	}
	if un := st.Replicas - st.AvailableReplicas; un > 0 {
		st.UnavailableReplicas = un
	}
	return st
}

func deployStatusEqual(a, b apps.DeploymentStatus) bool {
	return a.ObservedGeneration == b.ObservedGeneration && a.Replicas == b.Replicas && a.UpdatedReplicas == b.UpdatedReplicas &&
		a.ReadyReplicas == b.ReadyReplicas && a.AvailableReplicas == b.AvailableReplicas
}

func scaledIS(v *intstr.IntOrString, total int, up bool, def int) int {
	if v == nil {
		return def
	}
	n, _ := intstr.GetScaledValueFromIntOrPercent(v, total, up)
	return n
}

// deploySteps lists the enabled native-controller steps for one Deployment.
func (e *DeploymentEnv) deploySteps(w *World, d *apps.Deployment, all []*apps.ReplicaSet) []string {
	var out []string
	rss := ownedRS(d, all)
	if d.DeletionTimestamp != nil {
		return nil
	}
	if !deployStatusEqual(d.Status, desiredDeployStatus(d, rss)) {
		out = append(out, "observe")
	}
	if d.Spec.Paused || d.Status.ObservedGeneration != d.Generation {
		return out
	}
	replicas := int(*d.Spec.Replicas)
	nrs := newRSOf(d, rss)
	if nrs == nil {
		return append(out, "newrs")
	}
	if nrs.Spec.MinReadySeconds != d.Spec.MinReadySeconds {
		out = append(out, "syncminready")
	}
	total, oldTotal, avail := 0, 0, 0
	oldUnavailable := false
	for _, rs := range rss {
		total += int(*rs.Spec.Replicas)
		avail += int(rs.Status.AvailableReplicas)
		if rs.UID != nrs.UID {
			oldTotal += int(*rs.Spec.Replicas)
			if rs.Status.Replicas > rs.Status.AvailableReplicas && *rs.Spec.Replicas > 0 {
				oldUnavailable = true
			}
		}
	}
	if d.Spec.Strategy.Type == apps.RecreateDeploymentStrategyType {
		if oldTotal > 0 {
			return append(out, "down")
		}
		oldPods := 0
		for _, rs := range rss {
			if rs.UID != nrs.UID {
				oldPods += int(rs.Status.Replicas)
			}
		}
		if oldPods == 0 && int(*nrs.Spec.Replicas) < replicas {
			out = append(out, "up")
		}
		return out
	}
	var ru apps.RollingUpdateDeployment
	if d.Spec.Strategy.RollingUpdate != nil {
		ru = *d.Spec.Strategy.RollingUpdate
	}
	maxSurge := scaledIS(ru.MaxSurge, replicas, true, 1)
	maxUnavail := scaledIS(ru.MaxUnavailable, replicas, false, 0)
	if maxSurge == 0 && maxUnavail == 0 {
		maxUnavail = 1
	}
	if int(*nrs.Spec.Replicas) < replicas && total < replicas+maxSurge {
		out = append(out, "up")
	}
	if int(*nrs.Spec.Replicas) > replicas {
		out = append(out, "newdown")
	}
	// kube-controller-manager's accounting (reconcileOldReplicaSets): budgets are computed on spec.replicas
	// sums, so that scale-downs that have not materialised yet are already counted
	minAvailable := replicas - maxUnavail
	newUnavailable := int(*nrs.Spec.Replicas) - int(nrs.Status.AvailableReplicas)
	maxScaledDown := total - minAvailable - newUnavailable
	if oldTotal > 0 && maxScaledDown > 0 && (oldUnavailable || avail-minAvailable > 0) {
		out = append(out, "down")
	}
	return out
}

func (e *DeploymentEnv) Steps(w *World) []string {
	var out []string
	all := e.replicaSets(w)
	for _, d := range e.deployments(w) {
		for _, s := range e.deploySteps(w, d, all) {
			out = append(out, "d/"+d.Name+"/"+s)
		}
	}
	for _, rs := range all {
		if rs.DeletionTimestamp != nil {
			continue
		}
		pods := rsPods(w, rs)
		want := int(*rs.Spec.Replicas)
		notReady := 0
		for _, p := range pods {
			if !isPodReady(p) && p.Annotations["verif/degraded"] == "" {
				notReady++
			}
		}
		switch {
		case len(pods) < want:
			out = append(out, "rs/"+rs.Name+"/create")
		case len(pods) > want:
			out = append(out, "rs/"+rs.Name+"/delete")
		}
		if notReady > 0 {
			out = append(out, "rs/"+rs.Name+"/ready")
		}
		if len(pods) == want && notReady == 0 && !rsStatusEqual(rs.Status, desiredRSStatus(w, rs)) {
			out = append(out, "rs/"+rs.Name+"/observe")
		}
	}
	return out
}

// Do performs one unit step and then lets the statuses catch up in the same transition (ReplicaSet status
// from its pods, Deployment status from its ReplicaSets): the real controllers write their status at the end
// of every sync. Observing a NEW GENERATION of a Deployment stays a step of its own, so the window
// "generation != observedGeneration" remains visible to the repository's controllers.
func (e *DeploymentEnv) Do(w *World, label string) error {
	if err := e.do(w, label); err != nil {
		return err
	}
	ctx := context.TODO()
	for _, rs := range e.replicaSets(w) {
		if rs.DeletionTimestamp != nil {
			continue
		}
		if want := desiredRSStatus(w, rs); !rsStatusEqual(rs.Status, want) {
			c := rs.DeepCopy()
			c.Status = want
			if err := w.Raw.Status().Update(ctx, c); err != nil {
				return err
			}
		}
	}
	all := e.replicaSets(w)
	for _, d := range e.deployments(w) {
		if d.DeletionTimestamp != nil || d.Status.ObservedGeneration != d.Generation {
			continue
		}
		if want := desiredDeployStatus(d, ownedRS(d, all)); !deployStatusEqual(d.Status, want) {
			c := d.DeepCopy()
			c.Status = want
			if err := w.Raw.Status().Update(ctx, c); err != nil {
				return err
			}
		}
	}
	return nil
}

func (e *DeploymentEnv) do(w *World, label string) error {
	ctx := context.TODO()
	var kind, name, step string
	for i, part := range splitN(label, "/", 3) {
		switch i {
		case 0:
			kind = part
		case 1:
			name = part
		case 2:
			step = part
		}
	}
	all := e.replicaSets(w)
	if kind == "rs" {
		rs := &apps.ReplicaSet{}
		if !w.Get(rs, e.NS, name) {
			return fmt.Errorf("replicaset %s gone", name)
		}
		pods := rsPods(w, rs)
		switch step {
		case "create":
			used := map[string]bool{}
			for _, p := range pods {
				used[p.Name] = true
			}
			for i := 0; ; i++ {
				n := fmt.Sprintf("%s-%d", rs.Name, i)
				if !used[n] {
					p := &corev1.Pod{ObjectMeta: metav1.ObjectMeta{Namespace: rs.Namespace, Name: n, Labels: map[string]string{},
						OwnerReferences: []metav1.OwnerReference{ownerRef(rs, "ReplicaSet", "apps/v1")}}}
					for k, v := range rs.Spec.Template.Labels {
						p.Labels[k] = v
					}
					p.Spec = *rs.Spec.Template.Spec.DeepCopy()
					setPodReady(p, false)
					if err := w.Raw.Create(ctx, p); err != nil {
						return err
					}
					break
				}
			}
		case "delete":
			var victim *corev1.Pod
			for _, p := range pods {
				if !isPodReady(p) {
					victim = p
					break
				}
			}
			if victim == nil {
				victim = pods[len(pods)-1]
			}
			if err := w.Raw.Delete(ctx, victim); err != nil {
				return err
			}
		case "ready":
			for _, p := range pods {
				if !isPodReady(p) && p.Annotations["verif/degraded"] == "" {
					setPodReady(p, true)
					if err := w.Raw.Update(ctx, p); err != nil {
						return err
					}
					break
				}
			}
		case "observe":
		}
		// the ReplicaSet controller writes its status at the end of every sync
		if !w.Get(rs, e.NS, name) {
			return nil
		}
		want := desiredRSStatus(w, rs)
		if rsStatusEqual(rs.Status, want) {
			return nil
		}
		rs.Status = want
		return w.Raw.Status().Update(ctx, rs)
	}
	d := &apps.Deployment{}
	if !w.Get(d, e.NS, name) {
		return fmt.Errorf("deployment %s gone", name)
	}
	rss := ownedRS(d, all)
	nrs := newRSOf(d, rss)
	switch step {
	case "observe":
		d.Status = desiredDeployStatus(d, rss)
		return w.Raw.Status().Update(ctx, d)
	case "newrs":
		h := templateHash(d)
		maxRev := 0
		for _, rs := range rss {
			if r, err := strconv.Atoi(rs.Annotations[util.DeploymentRevisionAnnotation]); err == nil && r > maxRev {
				maxRev = r
			}
		}
		rs := &apps.ReplicaSet{ObjectMeta: metav1.ObjectMeta{Namespace: d.Namespace, Name: d.Name + "-" + h, Labels: map[string]string{},
			Annotations:     map[string]string{util.DeploymentRevisionAnnotation: strconv.Itoa(maxRev + 1)},
			OwnerReferences: []metav1.OwnerReference{ownerRef(d, "Deployment", "apps/v1")}}}
		for k, v := range d.Spec.Template.Labels {
			rs.Labels[k] = v
		}
		rs.Labels[apps.DefaultDeploymentUniqueLabelKey] = h
		rs.Spec.Replicas = utilpointer.Int32(0)
		rs.Spec.MinReadySeconds = d.Spec.MinReadySeconds
		rs.Spec.Template = *d.Spec.Template.DeepCopy()
		rs.Spec.Template.Labels[apps.DefaultDeploymentUniqueLabelKey] = h
		sel := d.Spec.Selector.DeepCopy()
		if sel.MatchLabels == nil {
			sel.MatchLabels = map[string]string{}
		}
		sel.MatchLabels[apps.DefaultDeploymentUniqueLabelKey] = h
		rs.Spec.Selector = sel
		return w.Raw.Create(ctx, rs)
	case "syncminready":
		nrs = nrs.DeepCopy() // never mutate objects peeked from the store
		nrs.Spec.MinReadySeconds = d.Spec.MinReadySeconds
		return w.Raw.Update(ctx, nrs)
	case "up":
		nrs = nrs.DeepCopy()
		nrs.Spec.Replicas = utilpointer.Int32(*nrs.Spec.Replicas + 1)
		return w.Raw.Update(ctx, nrs)
	case "newdown":
		nrs = nrs.DeepCopy()
		nrs.Spec.Replicas = utilpointer.Int32(*nrs.Spec.Replicas - 1)
		return w.Raw.Update(ctx, nrs)
	case "down":
		// prefer an old ReplicaSet that has unavailable pods, then the one with the lowest name
		var pick *apps.ReplicaSet
		for _, rs := range rss {
			if nrs != nil && rs.UID == nrs.UID || *rs.Spec.Replicas == 0 {
				continue
			}
			if pick == nil || (rs.Status.Replicas > rs.Status.AvailableReplicas && !(pick.Status.Replicas > pick.Status.AvailableReplicas)) {
				pick = rs
			}
		}
		if pick == nil {
			return fmt.Errorf("no old replicaset to scale down")
		}
		pick = pick.DeepCopy()
		pick.Spec.Replicas = utilpointer.Int32(*pick.Spec.Replicas - 1)
		return w.Raw.Update(ctx, pick)
	}
	return fmt.Errorf("env.deploy: unknown step %q", label)
}

func splitN(s, sep string, n int) []string {
	var out []string
	for len(out) < n-1 {
		i := indexOf(s, sep)
		if i < 0 {
			break
		}
		out = append(out, s[:i])
		s = s[i+len(sep):]
	}
	return append(out, s)
}

func indexOf(s, sep string) int {
	for i := 0; i+len(sep) <= len(s); i++ {
		if s[i:i+len(sep)] == sep {
			return i
		}
	}
	return -1
}
