package sim

import (
	"context"
	"fmt"
	"sort"
	"strconv"
	"strings"

	apps "k8s.io/api/apps/v1"
	corev1 "k8s.io/api/core/v1"
	metav1 "k8s.io/apimachinery/pkg/apis/meta/v1"
)

// Reference model of the native StatefulSet controller (NOT repository code; trusted base), OrderedReady
// rolling update with spec.updateStrategy.rollingUpdate.partition: pods with ordinal >= partition are moved to
// the update revision from the highest ordinal down, one at a time, the next one only when every pod with a
// higher ordinal is ready. Revisions are named "<name>-<image tag>" and carried in the pod label
// controller-revision-hash (the label key the repository pins Services with for StatefulSet-like workloads).
type StatefulSetEnv struct{ NS, STS string }

func (e *StatefulSetEnv) Name() string { return "env.sts/" + e.STS }

func stsPartition(s *apps.StatefulSet) int {
	if s.Spec.UpdateStrategy.RollingUpdate != nil && s.Spec.UpdateStrategy.RollingUpdate.Partition != nil {
		return int(*s.Spec.UpdateStrategy.RollingUpdate.Partition)
	}
	return 0
}

func ordinalOf(p *corev1.Pod) int {
	n, _ := strconv.Atoi(p.Name[strings.LastIndex(p.Name, "-")+1:])
	return n
}

func (e *StatefulSetEnv) load(w *World) (*apps.StatefulSet, []*corev1.Pod) {
	s := &apps.StatefulSet{}
	if !w.Get(s, e.NS, e.STS) {
		return nil, nil
	}
	pods := ownedPods(w, e.NS, s.UID)
	sort.Slice(pods, func(i, j int) bool { return ordinalOf(pods[i]) < ordinalOf(pods[j]) })
	return s, pods
}

func (e *StatefulSetEnv) desiredStatus(s *apps.StatefulSet, pods []*corev1.Pod) apps.StatefulSetStatus {
	st := *s.Status.DeepCopy()
	st.ObservedGeneration = s.Generation
	st.UpdateRevision = RevisionOf(s.Name, &s.Spec.Template)
	if st.CurrentRevision == "" {
		st.CurrentRevision = st.UpdateRevision
	}
	st.Replicas, st.ReadyReplicas, st.AvailableReplicas, st.UpdatedReplicas, st.CurrentReplicas = 0, 0, 0, 0, 0
	updatedReady := int32(0)
	for _, p := range pods {
		st.Replicas++
		if isPodReady(p) {
			st.ReadyReplicas++
			st.AvailableReplicas++
		}
		if podRev(p) == st.UpdateRevision {
			st.UpdatedReplicas++
			if isPodReady(p) {
				updatedReady++
			}
		}
		if podRev(p) == st.CurrentRevision {
			st.CurrentReplicas++
		}
	}
	if st.UpdatedReplicas == st.Replicas && updatedReady == st.Replicas && st.Replicas == *s.Spec.Replicas {
		st.CurrentRevision = st.UpdateRevision
		st.CurrentReplicas = st.UpdatedReplicas
	}
	return st
}

func stsStatusEqual(a, b apps.StatefulSetStatus) bool {
	return a.ObservedGeneration == b.ObservedGeneration && a.Replicas == b.Replicas && a.ReadyReplicas == b.ReadyReplicas &&
		a.UpdatedReplicas == b.UpdatedReplicas && a.CurrentReplicas == b.CurrentReplicas && a.UpdateRevision == b.UpdateRevision && a.CurrentRevision == b.CurrentRevision
}

// nextToUpdate: highest ordinal >= partition not on the update revision, provided every higher pod is ready.
func (e *StatefulSetEnv) nextToUpdate(s *apps.StatefulSet, pods []*corev1.Pod) *corev1.Pod {
	upd := RevisionOf(s.Name, &s.Spec.Template)
	part := stsPartition(s)
	for i := len(pods) - 1; i >= 0; i-- {
		p := pods[i]
		if ordinalOf(p) < part {
			return nil
		}
		if podRev(p) != upd {
			return p
		}
		if !isPodReady(p) {
			return nil // wait for it before touching a lower ordinal
		}
	}
	return nil
}

func (e *StatefulSetEnv) Steps(w *World) []string {
	s, pods := e.load(w)
	if s == nil || s.DeletionTimestamp != nil {
		return nil
	}
	var out []string
	if !stsStatusEqual(s.Status, e.desiredStatus(s, pods)) {
		out = append(out, "observe")
	}
	want := int(*s.Spec.Replicas)
	if len(pods) < want {
		out = append(out, "create")
	}
	if len(pods) > want {
		out = append(out, "delete")
	}
	if s.Status.ObservedGeneration == s.Generation && len(pods) == want && e.nextToUpdate(s, pods) != nil {
		out = append(out, "update")
	}
	for _, p := range pods {
		if !isPodReady(p) && p.Annotations["verif/degraded"] == "" {
			out = append(out, "ready")
			break
		}
	}
	return out
}

func (e *StatefulSetEnv) Do(w *World, label string) error {
	ctx := context.TODO()
	s, pods := e.load(w)
	if s == nil {
		return fmt.Errorf("statefulset gone")
	}
	upd := RevisionOf(s.Name, &s.Spec.Template)
	switch label {
	case "observe":
		s.Status = e.desiredStatus(s, pods)
		return w.Raw.Status().Update(ctx, s)
	case "update":
		p := e.nextToUpdate(s, pods)
		if p == nil {
			return fmt.Errorf("nothing to update")
		}
		setPodRevision(p, upd)
		setPodReady(p, false)
		if err := w.Raw.Update(ctx, p); err != nil {
			return err
		}
	case "ready":
		for _, p := range pods {
			if !isPodReady(p) && p.Annotations["verif/degraded"] == "" {
				setPodReady(p, true)
				if err := w.Raw.Update(ctx, p); err != nil {
					return err
				}
				break
			}
		}
	case "create":
		used := map[int]bool{}
		for _, p := range pods {
			used[ordinalOf(p)] = true
		}
		for i := 0; ; i++ {
			if !used[i] {
				rev := s.Status.CurrentRevision
				if rev == "" || i >= stsPartition(s) {
					rev = upd
				}
				p := NewPod(s.Namespace, fmt.Sprintf("%s-%d", s.Name, i), s.Spec.Template.Labels, rev, ownerRef(s, "StatefulSet", "apps/v1"), false)
				if err := w.Raw.Create(ctx, p); err != nil {
					return err
				}
				break
			}
		}
	case "delete":
		if err := w.Raw.Delete(ctx, pods[len(pods)-1]); err != nil {
			return err
		}
	default:
		return fmt.Errorf("env.sts: unknown step %q", label)
	}
	// status catches up in the same transition (except observing a new generation)
	s, pods = e.load(w)
	if s == nil || s.Status.ObservedGeneration != s.Generation || s.Status.UpdateRevision != upd {
		return nil
	}
	if want := e.desiredStatus(s, pods); !stsStatusEqual(s.Status, want) {
		s.Status = want
		return w.Raw.Status().Update(ctx, s)
	}
	return nil
}

var _ = metav1.Now
