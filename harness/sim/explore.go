package sim

import (
	"fmt"
	"os"
	"regexp"
	"runtime"
	"sort"
	"strconv"
	"strings"
	"time"

	"sigs.k8s.io/controller-runtime/pkg/reconcile"

	"verifharness/lib"
)

// Budget is the remaining deviation budget on a path.
type Budget struct {
	User    int    // remaining user deviations (release and approvals are free)
	Disturb int    // remaining crashes / faults / degrades
	Used    uint32 // bitmask of one-shot user actions already taken
}

func (b Budget) String() string { return fmt.Sprintf("u%d/d%d/%x", b.User, b.Disturb, b.Used) }

func (b Budget) dominatedBy(o Budget) bool {
	return b.User <= o.User && b.Disturb <= o.Disturb && (b.Used|o.Used) == b.Used
}

// MonState is history-dependent monitor state; it is part of the state key.
type MonState map[string]string

func (m MonState) clone() MonState {
	c := make(MonState, len(m))
	for k, v := range m {
		c[k] = v
	}
	return c
}

func (m MonState) String() string {
	keys := make([]string, 0, len(m))
	for k := range m {
		keys = append(keys, k)
	}
	sort.Strings(keys)
	var sb strings.Builder
	for _, k := range keys {
		sb.WriteString(k + "=" + m[k] + ";")
	}
	return sb.String()
}

// Transition describes one executed transition for the monitors.
type Transition struct {
	Label   string
	Actor   string // R,B,T,D,env,gc,user,tick,crash
	Fault   Fault
	Log     []Write
	Result  *ReconcileResult
	Deviant bool // user/fault/crash/degrade edge (not part of the fair-environment graph)
}

// Monitor observes the exploration. Monitors look at API objects only, never at controller internals.
type Monitor interface {
	ID() string
	// OnWrite runs after every single successful write with the live store (= every crash prefix).
	OnWrite(x *Ctx, w *Write)
	// OnTransition runs after a transition completed (events dispatched).
	OnTransition(x *Ctx, t *Transition)
	// OnState runs once for every new distinct state; quiescent tells whether no fair transition is enabled.
	OnState(x *Ctx, quiescent bool)
}

// Ctx is what monitors see.
type Ctx struct {
	W      *World
	Sc     *Scenario
	Mon    MonState // mutable: state after this transition
	Label  string   // label of the transition being executed
	Pre    *Pre     // facts captured before the transition
	ex     *Explorer
	node   *node // source node of the transition
	Suffix []string
}

// Violate reports a violation with the trace reaching it.
// (Ctx.Suffix: labels executed after x.node in a default continuation, see defaultContinuations)
func (x *Ctx) Violate(sig, detail string) {
	x.ex.violate(x, sig, detail)
}

// Count increments a named antecedent counter (vacuity bookkeeping).
func (x *Ctx) Count(name string) { x.ex.Counters[name]++ }

type edge struct {
	to    int
	label string
	fair  bool
	wrote bool // a controller transition that changed the store
}

type node struct {
	id       int
	key      string
	snap     *Snapshot
	parent   int
	label    string
	depth    int
	budget   Budget
	mon      MonState
	edges    []edge
	quiesc   bool
	expanded bool
	// ctl / sameCtl: the control state and the number of store-changing controller transitions on the path to this
	// node since the control state last changed (divergence test of C07, see DivergeLimit)
	ctl     string
	sameCtl int
}

// Config selects what is explored.
type Config struct {
	Sc           *Scenario
	Actions      []string // user deviation alphabet
	MaxUser      int
	MaxDisturb   int
	Disturbances []string // "crash", "midcrash", "error", "conflict"
	StateCap     int
	MemLimitMB   int // stop (exhaustive:false) when the heap exceeds this many MB; 0 = no limit
	// DivergeLimit (C07): a path on which the controllers change the store this many times in a row while the
	// control state (Rollout cursor, BatchRelease state, workload counts) stays the same is reported as a
	// divergence (an object that grows or flips for ever never closes a cycle the graph analysis could find);
	// 0 = off
	DivergeLimit int
	Monitors     []Monitor
	Deadline     time.Time
	// InjectOncePerControlState bounds WHERE user deviations are injected (see expand()).
	InjectOncePerControlState bool
	// DisturbOncePerControlState applies the same bound to fault points (crash after write i, error / conflict at
	// call j of a reconcile): one representative state per abstract control state
	DisturbOncePerControlState bool
	// NoCost: actions of the plan that do not consume the user budget in this plan (see UserAction.NoCost)
	NoCost map[string]bool
	// DefaultContinuations: when the undisturbed graph is complete and before the continuations of the deviations are
	// explored breadth-first (which a state cap or deadline may cut), every deviation point gets ONE complete
	// continuation under the default schedule (first state-changing controller / environment / gc transition,
	// approvals granted, time advanced when nothing else moves) down to a final state, with all monitors attached:
	// every deviation's outcome is judged at least along that schedule
	DefaultContinuations bool
	ContinuationBudget   time.Duration
	EarlyTicks           bool // thorough: ticks also while work is pending (counted as disturbance)
	Verbose              bool
}

type Explorer struct {
	W   *World
	Cfg Config
	R   *lib.Report

	nodes       []*node
	byKey       map[string][]int
	frontier    []int
	frontier2   []int // nodes that already spent deviation budget
	initBudget  Budget
	contDone    bool
	contSeen    map[string]bool
	contDoneIDs map[int]bool
	contSpent   time.Duration
	Counters    map[string]int64
	cur         *Ctx

	Transitions int64
	ImplCalls   int64
	Terminals   map[string]int // canonical terminal-state classes
	Capped      bool
	violated    map[string]bool
	actions     map[string]*UserAction
	actionIndex map[string]uint
	// Proj, when non-nil, collects distinct projections of the state (abstraction diagnostics).
	Proj         map[string]map[string]bool
	lastProgress time.Time
	injected     map[string]bool
}

var timeRe = regexp.MustCompile(`"T-?[0-9-]+"`)

// UserAction is one element of the user alphabet.
type UserAction struct {
	Name    string
	OneShot bool
	Free    bool // not counted against the deviation budget (release, approve)
	NoCost  bool // a deviation (injected once per control state, never a fair step) that does not consume the user budget: it can be combined with one costed deviation
	Guard   func(w *World, sc *Scenario, mon MonState) bool
	Do      func(w *World, sc *Scenario) error
	// After lets the action record a pending user request for the monitors.
	After func(mon MonState)
}

func NewExplorer(w *World, cfg Config, r *lib.Report) *Explorer {
	ex := &Explorer{W: w, Cfg: cfg, R: r, byKey: map[string][]int{}, Counters: map[string]int64{}, Terminals: map[string]int{},
		violated: map[string]bool{}, injected: map[string]bool{}, actions: map[string]*UserAction{}, actionIndex: map[string]uint{}}
	for i, a := range AllUserActions() {
		ex.actions[a.Name] = a
		ex.actionIndex[a.Name] = uint(i)
	}
	w.Store.PostWrite = func(wr *Write) {
		if ex.cur == nil {
			return
		}
		for _, m := range ex.Cfg.Monitors {
			m.OnWrite(ex.cur, wr)
		}
	}
	return ex
}

func (ex *Explorer) trace(n *node) []string {
	var labels []string
	for n != nil && n.parent >= 0 {
		labels = append(labels, n.label)
		n = ex.nodes[n.parent]
	}
	for i, j := 0, len(labels)-1; i < j; i, j = i+1, j-1 {
		labels[i], labels[j] = labels[j], labels[i]
	}
	return labels
}

func (ex *Explorer) violate(x *Ctx, sig, detail string) {
	if ex.violated[sig] {
		ex.R.Violate(sig, "", nil) // count only
		return
	}
	ex.violated[sig] = true
	tr := ex.trace(x.node)
	tr = append(tr, x.Suffix...)
	if x.Label != "" {
		tr = append(tr, x.Label)
	}
	ex.R.Violate(sig, detail+"\nscenario: "+ex.Cfg.Sc.ID+"\ntrace ("+strconv.Itoa(len(tr))+" transitions): "+strings.Join(tr, " ; "),
		map[string]interface{}{"engine": "clustermc", "scenario": ex.Cfg.Sc.ID, "trace": tr, "signature": sig})
}

// enabled lists the labels of all transitions enabled in the current (restored) state.
type enabledSet struct {
	fair  []string // controller reconciles, env steps, gc
	tick  bool
	user  []string
	crash bool
}

func (ex *Explorer) enabled(n *node) enabledSet {
	w := ex.W
	var es enabledSet
	for _, c := range w.Ctls {
		if w.FreeQueues {
			res := map[string]string{"R": "rollouts", "B": "batchreleases", "T": "trafficroutings", "D": "deployments"}[c.Short]
			for _, o := range w.Store.PeekAll(res) {
				a := accessor(o)
				es.fair = append(es.fair, fmt.Sprintf("%s(%s/%s)", c.Short, a.GetNamespace(), a.GetName()))
			}
			continue
		}
		for _, k := range c.Queue.Ready() {
			es.fair = append(es.fair, fmt.Sprintf("%s(%s)", c.Short, k.String()))
		}
	}
	for _, e := range w.Env {
		for _, s := range e.Steps(w) {
			es.fair = append(es.fair, e.Name()+":"+s)
		}
	}
	for _, g := range GCSteps(w) {
		es.fair = append(es.fair, "gc:"+g)
	}
	pending := false
	for _, c := range w.Ctls {
		if c.Queue.NextDue() > 0 {
			pending = true
		}
	}
	es.tick = pending && len(es.fair) == 0
	if w.FreeQueues {
		es.tick = false // decided in expand(): time passes when every fair successor is a self-loop
	}
	for _, name := range ex.Cfg.Actions {
		a := ex.actions[name]
		if a == nil {
			continue
		}
		if !a.Free && !a.NoCost && !ex.Cfg.NoCost[name] && n.budget.User <= 0 {
			continue
		}
		if a.OneShot && n.budget.Used&(1<<ex.actionIndex[name]) != 0 {
			continue
		}
		if a.Guard != nil && !a.Guard(w, ex.Cfg.Sc, n.mon) {
			continue
		}
		es.user = append(es.user, "user:"+name)
	}
	if n.budget.Disturb > 0 {
		for _, d := range ex.Cfg.Disturbances {
			if d == "crash" {
				es.crash = true
			}
		}
	}
	return es
}

// exec executes one labelled transition from the current world state. It returns nil if not applicable.
func (ex *Explorer) exec(x *Ctx, label string, f Fault) *Transition {
	x.Label = label
	ex.cur = x
	defer func() { ex.cur = nil }()
	t := ex.perform(x, label, f)
	ex.Transitions++
	for _, m := range ex.Cfg.Monitors {
		m.OnTransition(x, t)
	}
	return t
}

// perform executes the transition itself; monitors are not involved (x may be nil for silent look-ahead runs,
// user actions then leave no trace in the monitor state).
func (ex *Explorer) perform(x *Ctx, label string, f Fault) *Transition {
	w := ex.W
	t := &Transition{Label: label, Fault: f}
	switch {
	case label == "tick":
		t.Actor = "tick"
		w.Tick()
	case label == "crash":
		t.Actor, t.Deviant = "crash", true
		t.Log = w.Crash()
	case strings.HasPrefix(label, "user:"):
		a := ex.actions[strings.TrimPrefix(label, "user:")]
		t.Actor, t.Deviant = "user", !a.Free
		log, err := w.As("user", func() error { return a.Do(w, ex.Cfg.Sc) })
		t.Log = log
		if x != nil {
			if err != nil {
				x.Mon["user.lastError"] = "1"
			} else {
				delete(x.Mon, "user.lastError")
			}
			if a.After != nil {
				a.After(x.Mon)
			}
		}
	case strings.HasPrefix(label, "gc:"):
		t.Actor = "gc"
		log, _ := w.As("gc", func() error { return GCDo(w, strings.TrimPrefix(label, "gc:")) })
		t.Log = log
	case strings.HasPrefix(label, "env."):
		i := strings.LastIndex(label, ":")
		name, step := label[:i], label[i+1:]
		t.Actor = "env"
		for _, e := range w.Env {
			if e.Name() == name {
				log, err := w.As("env", func() error { return e.Do(w, step) })
				t.Log = log
				if err != nil {
					panic(fmt.Sprintf("HARNESS-ERROR env step %s failed: %v", label, err))
				}
			}
		}
	default:
		// controller reconcile: "<Short>(<ns>/<name>)"
		i := strings.Index(label, "(")
		short, key := label[:i], label[i+1:len(label)-1]
		c := w.Ctl(short)
		ns, name := "", key
		if j := strings.Index(key, "/"); j >= 0 {
			ns, name = key[:j], key[j+1:]
		}
		req := reconcile.Request{}
		req.Namespace, req.Name = ns, name
		if short == "D" {
			w.SyncListers()
		}
		t.Actor = short
		rr, log := w.Reconcile(c, req, f)
		t.Result, t.Log = &rr, log
		t.Deviant = f.Kind != ""
		ex.ImplCalls++
	}
	return t
}

// settlesForGood decides whether a state in which no controller, environment or gc transition changes anything
// (free-queue mode) is final, i.e. stays unchanged however much time passes: time is advanced AgeCap+2 times
// (after which every clock comparison the state can influence has saturated, the same argument that bounds the
// ages in the canonical state) and after each tick every enabled transition is run to a fixpoint, silently. The
// state is final if nothing but ages changed.
func (ex *Explorer) settlesForGood(n *node) bool {
	w := ex.W
	w.Restore(n.snap)
	cfg := func() string {
		var parts []string
		for _, o := range w.CanonObjects() {
			parts = append(parts, timeRe.ReplaceAllString(o, "T"))
		}
		return strings.Join(parts, "|")
	}
	base := cfg()
	for t := int64(0); t < AgeCap+2; t++ {
		w.Tick()
		for round := 0; round < 40; round++ {
			before := w.Key("")
			for _, label := range ex.enabled(n).fair {
				ex.perform(nil, label, Fault{})
				ex.Counters["look-ahead transitions (finality test)"]++
			}
			if w.Key("") == before {
				break
			}
		}
		if cfg() != base {
			return false
		}
	}
	return true
}

func faultSuffix(f Fault) string {
	if f.Kind == "" {
		return ""
	}
	return fmt.Sprintf("@%s(%d)", f.Kind, f.Index)
}

// splitFault parses "label@kind(idx)".
func splitFault(label string) (string, Fault) {
	i := strings.LastIndex(label, "@")
	if i < 0 {
		return label, Fault{}
	}
	rest := label[i+1:]
	j := strings.Index(rest, "(")
	if j < 0 {
		return label, Fault{}
	}
	idx, _ := strconv.Atoi(rest[j+1 : len(rest)-1])
	return label[:i], Fault{Kind: rest[:j], Index: idx}
}

// addState registers the current world as successor of n via label; returns the node id.
func (ex *Explorer) addState(n *node, label string, mon MonState, budget Budget, fair, wrote bool) int {
	key := ex.W.Key(mon.String())
	if ex.Proj != nil {
		objs := ex.W.CanonObjects()
		mem := ex.W.CanonMemory()
		add := func(name, v string) {
			if ex.Proj[name] == nil {
				ex.Proj[name] = map[string]bool{}
			}
			ex.Proj[name][v] = true
		}
		add("objects-only", strings.Join(objs, "|"))
		add("memory-only", strings.Join(mem, "|"))
		var noPods, noTimes []string
		for _, o := range objs {
			if !strings.HasPrefix(o, "pods.") {
				noPods = append(noPods, o)
			}
			noTimes = append(noTimes, timeRe.ReplaceAllString(o, "T"))
		}
		add("objects-without-pods", strings.Join(noPods, "|"))
		add("objects-without-ages", strings.Join(noTimes, "|"))
		for _, o := range objs {
			i := strings.Index(o, "=")
			add("obj:"+o[:i], o[i:])
			add("objnoage:"+o[:i], timeRe.ReplaceAllString(o[i:], "T"))
		}
	}
	for _, id := range ex.byKey[key] {
		if budget.dominatedBy(ex.nodes[id].budget) {
			if n != nil {
				n.edges = append(n.edges, edge{to: id, label: label, fair: fair, wrote: wrote})
			}
			return id
		}
	}
	nn := &node{id: len(ex.nodes), key: key, snap: ex.W.Snapshot(), parent: -1, label: label, budget: budget, mon: mon}
	if n != nil {
		nn.parent, nn.depth = n.id, n.depth+1
		n.edges = append(n.edges, edge{to: nn.id, label: label, fair: fair, wrote: wrote})
	}
	if ex.Cfg.DivergeLimit > 0 {
		nn.ctl = ControlState(ex.W, ex.Cfg.Sc)
		if n != nil && n.ctl == nn.ctl {
			nn.sameCtl = n.sameCtl
			if wrote {
				nn.sameCtl++
			}
		}
	}
	ex.nodes = append(ex.nodes, nn)
	if ex.Cfg.DivergeLimit > 0 && nn.sameCtl == ex.Cfg.DivergeLimit {
		sc := ex.Cfg.Sc
		where := "/" + sc.Kind + "-" + sc.Style
		if sc.Traffic != "" {
			where += "+" + sc.Traffic
		}
		if ro := getRollout(ex.W, sc); ro != nil {
			_, st, _, _ := StepCursor(ro)
			where += "/" + progressingReason(ro) + "-" + st
		}
		x := &Ctx{W: ex.W, Sc: sc, Mon: mon.clone(), ex: ex, node: nn}
		x.Violate("C07/diverge/writes-without-progress"+where, fmt.Sprintf("the controllers changed the store %d times in a row (last: %s) without any change of the Rollout cursor, the BatchRelease state or the workload counts (%s): the release does not converge", nn.sameCtl, label, nn.ctl))
		return nn.id // reported; following the diverging path further only fills the memory
	}
	ex.byKey[key] = append(ex.byKey[key], nn.id)
	// search order: the undisturbed graph (no deviation budget spent) is completed first, so that every
	// control state of a whole release is reached and used as a deviation point before the (much larger)
	// continuations of the deviations are explored breadth-first
	if ex.Undisturbed(budget) {
		ex.frontier = append(ex.frontier, nn.id)
	} else {
		ex.frontier2 = append(ex.frontier2, nn.id)
	}
	return nn.id
}

// Undisturbed tells whether a budget belongs to the undisturbed graph: no user deviation and no disturbance has
// been spent (free one-shot actions such as the release itself do not count).
func (ex *Explorer) Undisturbed(b Budget) bool {
	if b.User != ex.initBudget.User || b.Disturb != ex.initBudget.Disturb {
		return false
	}
	for name, a := range ex.actions {
		if !a.Free && b.Used&(1<<ex.actionIndex[name]) != 0 {
			return false
		}
	}
	return true
}

// Run explores breadth-first from the current world state.
func (ex *Explorer) Run(initBudget Budget) {
	ex.initBudget = initBudget
	ex.addState(nil, "", MonState{}, initBudget, true, false)
	for len(ex.frontier) > 0 || len(ex.frontier2) > 0 {
		if len(ex.frontier) == 0 {
			if !ex.contDone && ex.Cfg.DefaultContinuations {
				ex.contDone = true
				ex.defaultContinuations()
			}
			ex.frontier, ex.frontier2 = ex.frontier2, nil
		}
		if ex.Cfg.StateCap > 0 && len(ex.nodes) >= ex.Cfg.StateCap {
			ex.Capped = true
			ex.R.NotExhaustive(fmt.Sprintf("scenario %s: state cap %d reached (frontier %d)", ex.Cfg.Sc.ID, ex.Cfg.StateCap, len(ex.frontier)+len(ex.frontier2)))
			break
		}
		if !ex.Cfg.Deadline.IsZero() && time.VerifRealNow().After(ex.Cfg.Deadline) {
			ex.Capped = true
			ex.R.NotExhaustive(fmt.Sprintf("scenario %s: internal deadline reached at %d states (frontier %d)", ex.Cfg.Sc.ID, len(ex.nodes), len(ex.frontier)+len(ex.frontier2)))
			break
		}
		if ex.Cfg.MemLimitMB > 0 && len(ex.nodes)%2000 == 0 {
			var ms runtime.MemStats
			runtime.ReadMemStats(&ms)
			if ms.HeapAlloc>>20 > uint64(ex.Cfg.MemLimitMB) {
				ex.Capped = true
				ex.R.NotExhaustive(fmt.Sprintf("scenario %s: memory budget %d MB reached at %d states (frontier %d)", ex.Cfg.Sc.ID, ex.Cfg.MemLimitMB, len(ex.nodes), len(ex.frontier)+len(ex.frontier2)))
				break
			}
		}
		id := ex.frontier[0]
		ex.frontier = ex.frontier[1:]
		ex.expand(ex.nodes[id])
		if ex.Cfg.Verbose && time.VerifRealNow().Sub(ex.lastProgress) > 5*time.Second {
			ex.lastProgress = time.VerifRealNow()
			fmt.Fprintf(os.Stderr, "progress %s: nodes=%d keys=%d frontier=%d depth=%d transitions=%d\n", ex.Cfg.Sc.ID, len(ex.nodes), len(ex.byKey), len(ex.frontier), ex.nodes[id].depth, ex.Transitions)
		}
	}
}

func (ex *Explorer) expand(n *node) {
	w := ex.W
	w.Restore(n.snap)
	es := ex.enabled(n)
	n.quiesc = len(es.fair) == 0 && !es.tick
	n.expanded = true
	try := func(label string, f Fault, budget Budget, fair bool) *Transition {
		w.Restore(n.snap)
		x := &Ctx{W: w, Sc: ex.Cfg.Sc, Mon: n.mon.clone(), ex: ex, node: n}
		x.Pre = CapturePre(w, ex.Cfg.Sc)
		full := label + faultSuffix(f)
		t := ex.exec(x, label, f)
		t.Label = full
		if f.Kind != "" && t.Result != nil && !t.Result.Fired {
			return t // the fault point was not reached: same as the undisturbed transition
		}
		wrote := false
		for _, wr := range t.Log {
			if wr.Actor != "env" && wr.Actor != "user" {
				wrote = true
			}
		}
		ex.addState(n, full, x.Mon, budget, fair, wrote)
		return t
	}
	stuck, stuckCtl := true, true
	for _, label := range es.fair {
		before := len(n.edges)
		t := try(label, Fault{}, n.budget, true)
		for _, e := range n.edges[before:] {
			if ex.nodes[e.to].key != n.key {
				stuck = false
				if !strings.HasPrefix(label, "env.") {
					stuckCtl = false
				}
			}
		}
		if n.budget.Disturb > 0 && t.Result != nil {
			nb := n.budget
			nb.Disturb--
			cs := ""
			if ex.Cfg.DisturbOncePerControlState {
				w.Restore(n.snap)
				cs = n.budget.String() + "|" + ControlState(w, ex.Cfg.Sc)
			}
			// fault points: with DisturbOncePerControlState one representative (the BFS-first state) per abstract
			// control state, transition, fault kind and call / write index, like user deviations
			fault := func(f Fault) {
				if ex.Cfg.DisturbOncePerControlState {
					ck := label + faultSuffix(f) + "|" + cs
					if ex.injected[ck] {
						ex.Counters["fault points skipped (control state already used)"]++
						return
					}
					ex.injected[ck] = true
					ex.Counters["fault points used"]++
				}
				try(label, f, nb, false)
			}
			for _, d := range ex.Cfg.Disturbances {
				switch d {
				case "midcrash":
					for i := 1; i <= t.Result.Writes; i++ {
						fault(Fault{Kind: "crash", Index: i})
					}
				case "error":
					for j := 1; j <= t.Result.Calls; j++ {
						fault(Fault{Kind: "error", Index: j})
					}
				case "conflict":
					for j := 1; j <= t.Result.Calls && j <= len(t.Result.Kinds); j++ {
						if t.Result.Kinds[j-1] {
							fault(Fault{Kind: "conflict", Index: j})
						}
					}
				}
			}
		}
	}
	if w.FreeQueues && stuck {
		// nothing changes the state any more except the passage of time; quiescent (for the monitors' end-state
		// obligations) means that the passage of time does not change it either
		es.tick = true
		n.quiesc = ex.settlesForGood(n)
		if n.quiesc {
			ex.Counters["final (quiescent) states"]++
		}
	}
	if w.FreeQueues && !stuck && stuckCtl && ex.Cfg.Sc.ColdStart {
		// a slow environment (pods of a freshly created workload take their time): the controllers' timers may
		// fire while the workload controller still has work to do
		es.tick = true
	}
	w.Restore(n.snap)
	x0 := &Ctx{W: w, Sc: ex.Cfg.Sc, Mon: n.mon.clone(), ex: ex, node: n}
	for _, m := range ex.Cfg.Monitors {
		m.OnState(x0, n.quiesc)
	}
	if es.tick {
		try("tick", Fault{}, n.budget, true)
	}
	for _, label := range es.user {
		a := ex.actions[strings.TrimPrefix(label, "user:")]
		if !a.Free && ex.Cfg.InjectOncePerControlState {
			// deviation points: one representative (the BFS-first, i.e. shallowest) state per abstract control
			// state and action; what follows the deviation is explored under every interleaving as usual
			w.Restore(n.snap)
			ck := label + "|" + n.budget.String() + "|" + ControlState(w, ex.Cfg.Sc)
			if ex.injected[ck] {
				ex.Counters["deviation points skipped (control state already used)"]++
				continue
			}
			ex.injected[ck] = true
			ex.Counters["deviation points used"]++
		}
		nb := n.budget
		if !a.Free && !a.NoCost && !ex.Cfg.NoCost[a.Name] {
			nb.User--
		}
		if a.OneShot {
			nb.Used |= 1 << ex.actionIndex[a.Name]
		}
		before := len(ex.nodes)
		try(label, Fault{}, nb, a.Free && a.Name != "release")
		if !a.Free && ex.Cfg.DefaultContinuations && len(ex.nodes) > before {
			ex.continueFrom(len(ex.nodes) - 1)
		}
	}
	if es.crash {
		nb := n.budget
		nb.Disturb--
		try("crash", Fault{}, nb, false)
	}
}

// Replay re-executes a trace from the current (initial) world state; it returns the keys along the way.
func (ex *Explorer) Replay(labels []string, verbose bool) []string {
	w := ex.W
	mon := MonState{}
	n := &node{id: 0, parent: -1, mon: mon, budget: Budget{User: 99, Disturb: 99}}
	ex.nodes = []*node{n}
	var keys []string
	for _, full := range labels {
		label, f := splitFault(full)
		x := &Ctx{W: w, Sc: ex.Cfg.Sc, Mon: mon, ex: ex, node: n}
		x.Pre = CapturePre(w, ex.Cfg.Sc)
		t := ex.exec(x, label, f)
		keys = append(keys, w.Key(mon.String()))
		if verbose {
			fmt.Printf("  %-44s writes=%d\n", full, len(t.Log))
			for _, wr := range t.Log {
				fmt.Printf("        %s %s by %s%s\n", wr.Verb, wr.Key, wr.Actor, map[bool]string{true: " (status)", false: ""}[wr.Status])
				if os.Getenv("VERIF_REPLAY_DIFF") != "" && wr.Before != nil && wr.After != nil {
					fmt.Printf("            changed: %v\n", lib.JSONDiffValues(wr.Before, wr.After))
				}
			}
			if t.Result != nil && t.Result.Err != nil {
				fmt.Printf("        error: %v\n", t.Result.Err)
			}
		}
	}
	// end-state obligations (OnState) are judged on the state the trace ends in, exactly as the search does
	n.snap = w.Snapshot()
	quiescent := false
	if w.FreeQueues {
		stuck, key0 := true, w.Key("")
		for _, label := range ex.enabled(n).fair {
			w.Restore(n.snap)
			ex.perform(nil, label, Fault{})
			if w.Key("") != key0 {
				stuck = false
				break
			}
		}
		quiescent = stuck && ex.settlesForGood(n)
	} else {
		es := ex.enabled(n)
		quiescent = len(es.fair) == 0 && !es.tick
	}
	w.Restore(n.snap)
	x := &Ctx{W: w, Sc: ex.Cfg.Sc, Mon: mon, ex: ex, node: n}
	for _, m := range ex.Cfg.Monitors {
		m.OnState(x, quiescent)
	}
	if verbose {
		fmt.Printf("  end state: quiescent=%v\n", quiescent)
	}
	return keys
}

// NodesCount returns the number of distinct (key,budget) nodes.
func (ex *Explorer) NodesCount() int { return len(ex.nodes) }

// DistinctKeys returns the number of distinct canonical states.
func (ex *Explorer) DistinctKeys() int { return len(ex.byKey) }

// SampleTraces returns up to n traces of the explored graph (the deepest paths), as evidence samples.
func (ex *Explorer) SampleTraces(n int) []interface{} {
	var out []interface{}
	if len(ex.nodes) == 0 {
		return out
	}
	deepest := ex.nodes[0]
	for _, nd := range ex.nodes {
		if nd.depth > deepest.depth {
			deepest = nd
		}
	}
	out = append(out, ex.trace(deepest))
	for _, nd := range ex.nodes {
		if len(out) >= n {
			break
		}
		if nd.budget.User == 0 && ex.Cfg.MaxUser > 0 && nd.quiesc {
			out = append(out, ex.trace(nd))
		}
	}
	return out
}

// Settle runs controllers and env models under the default schedule until nothing is enabled (used to reach
// the scenario's initial Healthy state before exploration).
func Settle(w *World) error {
	for i := 0; i < 2000; i++ {
		progressed := false
		for _, c := range w.Ctls {
			for _, k := range c.Queue.Ready() {
				if c.Short == "D" {
					w.SyncListers()
				}
				w.Reconcile(c, k, Fault{})
				progressed = true
			}
		}
		for _, e := range w.Env {
			st := e.Steps(w)
			if w.ColdStart {
				// the workload controller has observed the freshly created workload but not created a pod yet
				var only []string
				for _, l := range st {
					if l == "observe" || strings.HasSuffix(l, ":observe") || strings.HasSuffix(l, "/observe") {
						only = append(only, l)
					}
				}
				st = only
			}
			if len(st) > 0 {
				if _, err := w.As("env", func() error { return e.Do(w, st[0]) }); err != nil {
					return err
				}
				progressed = true
			}
		}
		if progressed {
			continue
		}
		pending := false
		for _, c := range w.Ctls {
			if c.Queue.NextDue() > 0 {
				pending = true
			}
		}
		if !pending {
			return nil
		}
		w.Tick()
	}
	return fmt.Errorf("scenario did not settle")
}

// Script drives the world through a hand-written sequence for debugging and for directed regression histories:
// each item is a transition label (as in traces), or "drain" (take the first enabled controller / environment / gc
// transition, let time pass when only timers are pending, until nothing is enabled), or "drain:N" (at most N
// transitions). All monitors run (OnTransition, OnWrite, OnState) exactly as in the search. Real queues are
// expected (with free queues a drain would never end). It returns the executed labels.
func (ex *Explorer) Script(items []string, verbose bool) []string {
	w := ex.W
	mon := MonState{}
	n := &node{id: 0, parent: -1, mon: mon, budget: Budget{User: 99, Disturb: 0}}
	ex.nodes = []*node{n}
	var done []string
	step := func(full string) {
		label, f := splitFault(full)
		x := &Ctx{W: w, Sc: ex.Cfg.Sc, Mon: mon, ex: ex, node: n}
		x.Pre = CapturePre(w, ex.Cfg.Sc)
		t := ex.exec(x, label, f)
		done = append(done, full)
		if verbose {
			fmt.Printf("  %-44s writes=%d  -> %s traffic=[%s]\n", full, len(t.Log), ControlState(w, ex.Cfg.Sc), ReadTraffic(w, ex.Cfg.Sc))
			for _, wr := range t.Log {
				fmt.Printf("        %s %s by %s%s\n", wr.Verb, wr.Key, wr.Actor, map[bool]string{true: " (status)", false: ""}[wr.Status])
				if os.Getenv("VERIF_REPLAY_DIFF") != "" && wr.Before != nil && wr.After != nil {
					fmt.Printf("            changed: %v\n", lib.JSONDiffValues(wr.Before, wr.After))
				}
			}
			if t.Result != nil && t.Result.Err != nil {
				fmt.Printf("        error: %v\n", t.Result.Err)
			}
		}
		es := ex.enabled(n)
		x2 := &Ctx{W: w, Sc: ex.Cfg.Sc, Mon: mon, ex: ex, node: n}
		for _, m := range ex.Cfg.Monitors {
			m.OnState(x2, len(es.fair) == 0 && !es.tick)
		}
	}
	for _, it := range items {
		if it == "drain" || strings.HasPrefix(it, "drain:") {
			max := 400
			if strings.HasPrefix(it, "drain:") {
				fmt.Sscanf(it, "drain:%d", &max)
			}
			for i := 0; i < max; i++ {
				es := ex.enabled(n)
				switch {
				case len(es.fair) > 0:
					step(es.fair[0])
				case es.tick:
					step("tick")
				default:
					i = max
				}
			}
			continue
		}
		step(it)
	}
	return done
}

// defaultContinuations: see Config.DefaultContinuations. The nodes in frontier2 at this moment are exactly the states
// right after a deviation (user action or fault) injected into the undisturbed graph.
func (ex *Explorer) defaultContinuations() {
	points := append([]int(nil), ex.frontier2...)
	for _, id := range points {
		if !ex.continueFrom(id) {
			break
		}
	}
	ex.Counters["deviation points at the end of the undisturbed search"] = int64(len(points))
}

// continueFrom runs the default-schedule continuation of one deviation point (see Config.DefaultContinuations); it
// returns false when the continuation budget or the deadline is used up. User deviations are continued as soon as
// they are injected (so that a cut of the undisturbed search does not leave them without any complete run), fault
// points when the undisturbed search is complete.
func (ex *Explorer) continueFrom(id int) bool {
	w := ex.W
	if ex.contSeen == nil {
		ex.contSeen = map[string]bool{}
	}
	seen := ex.contSeen
	if ex.contDoneIDs == nil {
		ex.contDoneIDs = map[int]bool{}
	}
	if ex.contDoneIDs[id] {
		return true
	}
	{
		start := time.VerifRealNow()
		if ex.Cfg.ContinuationBudget > 0 && ex.contSpent > ex.Cfg.ContinuationBudget {
			return false
		}
		if !ex.Cfg.Deadline.IsZero() && start.After(ex.Cfg.Deadline) {
			return false
		}
		defer func() { ex.contSpent += time.VerifRealNow().Sub(start) }()
		ex.contDoneIDs[id] = true
		n := ex.nodes[id]
		w.Restore(n.snap)
		mon := n.mon.clone()
		var suffix []string
		merged := false
		own := map[string]bool{} // states of THIS continuation (a wait loop revisits them; that is not a merge)
		step := func(label string) bool {
			before := w.Key(mon.String())
			x := &Ctx{W: w, Sc: ex.Cfg.Sc, Mon: mon, ex: ex, node: n, Suffix: suffix}
			x.Pre = CapturePre(w, ex.Cfg.Sc)
			ex.exec(x, label, Fault{})
			ex.Counters["default-continuation transitions"]++
			after := w.Key(mon.String())
			if after == before {
				return false
			}
			suffix = append(suffix, label)
			// the default schedule is deterministic: from a state an earlier continuation has passed through, the
			// rest of this continuation would repeat what was already executed and judged
			if seen[after] && !own[after] {
				merged = true
			}
			seen[after], own[after] = true, true
			return true
		}
		idle := int64(0)
		last := "" // the transition that moved last is tried first: controllers usually move several times in a row
		for i := 0; i < 1500 && !merged; i++ {
			moved := false
			fair := ex.enabled(n).fair
			// round robin: start after the transition that moved last, so that a controller flipping between two
			// states while it waits (Verifying <-> Upgrading) cannot starve the environment
			if last != "" {
				for k, l := range fair {
					if l == last {
						fair = append(append([]string{}, fair[k+1:]...), fair[:k+1]...)
						break
					}
				}
			}
			for _, label := range fair {
				if step(label) {
					moved, last = true, label
					break
				}
			}
			if moved {
				idle = 0
				continue
			}
			// nothing moves: grant a pending approval, else let time pass
			if a := ex.actions["approve"]; a != nil && a.Guard != nil && a.Guard(w, ex.Cfg.Sc, mon) && step("user:approve") {
				idle = 0
				continue
			}
			if idle > AgeCap+1 {
				break
			}
			idle++
			x := &Ctx{W: w, Sc: ex.Cfg.Sc, Mon: mon, ex: ex, node: n, Suffix: suffix}
			ex.exec(x, "tick", Fault{})
			suffix = append(suffix, "tick")
		}
		if os.Getenv("VERIF_CONT_DEBUG") != "" {
			fmt.Fprintf(os.Stderr, "CONT %s steps=%d merged=%v idle=%d end=%s\n", n.label, len(suffix), merged, idle, ControlState(w, ex.Cfg.Sc))
		}
		if merged {
			ex.Counters["default continuations that merged into an earlier one"]++
		} else {
			x := &Ctx{W: w, Sc: ex.Cfg.Sc, Mon: mon, ex: ex, node: n, Suffix: suffix}
			for _, m := range ex.Cfg.Monitors {
				m.OnState(x, idle > AgeCap+1)
			}
		}
		ex.Counters["deviation points with a complete default continuation"]++
	}
	return true
}
